#!/venv/bin/python
"""Regenerates MANIFEST.json from checks/*.py (each module declares MANIFEST = {...})."""
import importlib, json, sys, pathlib
sys.path.insert(0, str(pathlib.Path(__file__).parent))
sys.dont_write_bytecode = True
NA = [
 {"property_id": "C37", "reason": "Floating-point accuracy of Scala statistics code that cannot be built or run here; numeric accuracy is outside what TLC decides."},
]
checks = []
claimed = set()
allowed = set((pathlib.Path(__file__).parent / "claimed.txt").read_text().split())
for f in sorted(pathlib.Path(__file__).parent.glob("checks/c[0-9]*.py")):
    if f.stem.upper() not in allowed:
        continue
    m = importlib.import_module("checks." + f.stem)
    mf = getattr(m, "MANIFEST", None)
    if not mf:
        continue
    pid = f.stem.upper()
    claimed.add(pid)
    c = {"property_id": pid, "quick_cmd": f"./check {pid} --tier quick", "thorough_cmd": f"./check {pid} --tier thorough",
         "evidence_file": f"/verif/evidence/{pid}.json", "replay_cmd_template": f"./check {pid} --replay {{path}}",
         "engine": mf.get("engine", "tlc"),
         "level_claimed": {"category": m.LEVEL, "text": mf["text"], "design_ref": mf.get("design_ref", "DESIGN.md section 5")},
         "level_note": mf["note"], "technique": mf["technique"]}
    checks.append(c)
props = [json.loads(l)["id"] for l in (pathlib.Path(__file__).parent / "properties.jsonl").read_text().splitlines() if l.strip()]
na_ids = {n["property_id"] for n in NA}
extra_na = [{"property_id": p, "reason": "check not yet registered: it is being built or calibrated (see DESIGN.md section 9); nothing is claimed for it"} for p in props if p not in claimed and p not in na_ids]
na = [n for n in NA + extra_na if n["property_id"] not in claimed]
hooks_file = pathlib.Path(__file__).parent / "hooks.json"
hooks = json.loads(hooks_file.read_text())
man = {"version": 1, "setup_cmd": "make -C /verif setup", "hooks": hooks,
       "engines": [{"name": "tlc", "path": "/verif/vlib/tlc.py", "serves_properties": sorted(claimed),
                    "kind_free_text": "TLA+ specifications in /verif/specs checked with TLC 1.8 and bound to the code by graph-walk replay (B1), trace validation (B2) or call/return validation (B3)"}],
       "checks": checks, "not_applicable": na,
       "notes": "Single entry point ./check <ID>; exit 2 = machinery failure (never a verdict). See DESIGN.md."}
(pathlib.Path(__file__).parent / "MANIFEST.json").write_text(json.dumps(man, indent=1) + "\n")
print("claimed", len(checks), "not_applicable", len(na))
