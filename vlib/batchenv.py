"""The batch service in a box: MiniMySQL loaded from the repository's SQL + the real gear.database.Database
+ the real front-end / driver Python functions, driven deterministically.

Every operation of the TLA+ specification BatchDB maps to one method here that calls the real code.
"""
from __future__ import annotations

import asyncio
import json
import random
from pathlib import Path

from . import loader
from .vloop import VLoop

loader.install()

import aiomysql  # noqa: E402  (the stub)
from aiohttp import web  # noqa: E402

from .minimysql.batchschema import build_engine  # noqa: E402


class FakeFileStore:
    def __init__(self):
        self.specs = {}

    async def write_spec_file(self, batch_id, token, data_bytes, offsets_bytes):
        self.specs[(batch_id, token)] = (bytes(data_bytes), bytes(offsets_bytes))

    async def read_spec_file(self, batch_id, token, start, end):
        return self.specs[(batch_id, token)][0][start:end]


class FakeInstCollConfigs:
    """Placement is not under test here (C12 covers it): every request lands in its named pool with the cores asked."""

    def select_inst_coll(self, cloud, machine_type, pool_label, preemptible, worker_type, req_cores_mcpu,
                         req_memory_bytes, req_storage_bytes):
        if machine_type is not None:
            return ("job-private", 1000, 1 << 30, 10), None
        return ((pool_label or "standard"), req_cores_mcpu, req_memory_bytes, 10), None


class FakeClientSession:
    async def patch(self, *a, **k):
        return None

    async def post(self, *a, **k):
        return None

    async def delete(self, *a, **k):
        return None


class FakeCredentials:
    async def auth_headers(self):
        return {}


class Result:
    """Outcome of one operation: ok value, HTTP error class, or SQL error."""

    def __init__(self, kind, value=None, status=None, reason=None):
        self.kind, self.value, self.status, self.reason = kind, value, status, reason

    def __repr__(self):
        return f"Result({self.kind}, {self.value!r}, {self.status}, {self.reason!r})"


def _raised_in_repo(exc):
    """True iff the innermost frame of the traceback is code of the repository under test"""
    from vlib import loader

    tb = exc.__traceback__
    last = None
    while tb is not None:
        last = tb.tb_frame.f_code.co_filename
        tb = tb.tb_next
    return bool(last) and str(last).startswith(str(loader.REPO))


class BatchWorld:
    def __init__(self, seed=0, n_tokens=3, repo=None, eng=None):
        self.crashes = []
        """eng: attach to the engine (database) of another world instead of building a new one (a second service process)"""
        self.eng = eng if eng is not None else build_engine(seed=seed, repo=repo, n_tokens=n_tokens)
        self.loop = VLoop()
        self.rng = random.Random(seed)
        self.now = 1000
        import gear.database as gdb
        import hailtop.utils as hu
        import hailtop.utils.time as hut
        from hailtop.aiotools import BackgroundTaskManager
        from gear import CommonAiohttpAppKeys

        self.gdb = gdb
        self.db = gdb.Database()
        self.db.pool = aiomysql.Pool(self.eng.connect)
        self._in_loop(self._mk_tm, BackgroundTaskManager)
        import batch.front_end.front_end as fe
        import batch.batch as bb

        self.fe, self.bb = fe, bb
        # virtual clock for every module that imported time_msecs
        self._patch_time()
        fe.random = self.rng  # rand_token
        self.app = {
            "db": self.db, "file_store": FakeFileStore(), "inst_coll_configs": FakeInstCollConfigs(), "n_tokens": n_tokens,
            "regions": {"us-central1": 1}, "feature_flags": {}, "frozen": False,
            CommonAiohttpAppKeys.CLIENT_SESSION: FakeClientSession(), "hail_credentials": FakeCredentials(),
            "cancel_batch_state_changed": asyncio.Event(), "delete_batch_state_changed": asyncio.Event(),
        }
        self._in_loop(self._mk_app_tm, BackgroundTaskManager)

    def _mk_tm(self, BTM):
        self.db.connection_release_task_manager = BTM()

    def _mk_app_tm(self, BTM):
        self.app["task_manager"] = BTM()

    def _in_loop(self, fn, *a):
        return self.loop.call_in_loop(fn, *a)

    def _patch_time(self):
        import sys

        world = self

        def time_msecs():
            return world.now

        for name, mod in list(sys.modules.items()):
            if mod is not None and (name.startswith("batch.") or name.startswith("gear") or name.startswith("hailtop.utils")):
                if getattr(mod, "time_msecs", None) is not None:
                    setattr(mod, "time_msecs", time_msecs)

    # ---- running real coroutines ------------------------------------------------------------------------------
    def run(self, coro) -> Result:
        try:
            v = self.loop.run_coro(coro)
            self.loop.run_until_idle()
            return Result("ok", v)
        except web.HTTPException as e:
            self.loop.run_until_idle()
            return Result("http", None, e.status, e.reason)
        except self.bb.NonExistentJobGroupError as e:
            self.loop.run_until_idle()
            return Result("http", None, 404, str(e))
        except self.gdb.CallError as e:
            self.loop.run_until_idle()
            return Result("callerror", e.rv, e.rv.get("rc"), e.rv.get("message"))
        except Exception as e:  # SQL errors and others are reported to the caller
            self.loop.run_until_idle()
            import pymysql.err as pe

            if isinstance(e, pe.MySQLError):
                return Result("sqlerror", None, e.args[0] if e.args else None, str(e))
            if isinstance(e, ValueError) and isinstance(e.__cause__, pe.MySQLError):
                c = e.__cause__
                return Result("sqlerror", None, c.args[0] if c.args else None, str(c))
            if _raised_in_repo(e):
                # the code under test crashed (an exception that is neither an HTTP answer nor a database error): an outcome of the
                # operation, reported to the caller - not a failure of the verification machinery
                r = Result("crash", None, type(e).__name__, f"{type(e).__name__}: {e}"[:300])
                self.crashes.append(r)
                return r
            raise

    def userdata(self, user="u1"):
        return {"username": user, "hail_credentials_secret_name": f"{user}-gsa-key", "tokens_secret_name": f"{user}-tokens"}

    # ---- front end -----------------------------------------------------------------------------------------------
    def create_batch(self, token, user="u1", billing_project="proj", n_jobs=0, **extra):
        spec = {"billing_project": billing_project, "token": token, "n_jobs": n_jobs, **extra}
        return self.run(self.fe._create_batch(spec, self.userdata(user), self.db))

    def create_update(self, batch_id, token, n_jobs, n_job_groups, user="u1"):
        return self.run(self.fe._create_batch_update(batch_id, token, n_jobs, n_job_groups, user, self.db))

    def create_job_groups(self, batch_id, update_id, specs, user="u1"):
        return self.run(self.fe._create_job_groups(self.db, batch_id, update_id, user, [dict(s) for s in specs]))

    def create_jobs(self, batch_id, update_id, specs, user="u1"):
        specs = json.loads(json.dumps(specs))
        return self.run(self.fe._create_jobs(self.userdata(user), specs, batch_id, update_id, self.app))

    def commit_check(self, batch_id, update_id, user="u1"):
        """The pre-check transaction of the commit_update handler (separate from the procedure call)."""
        from hailtop.batch_client.globals import ROOT_JOB_GROUP_ID

        async def check():
            record = await self.db.select_and_fetchone(
                """
SELECT start_job_id, start_job_group_id, cancelled_t.cancelled IS NOT NULL AS cancelled
FROM batches
LEFT JOIN batch_updates ON batches.id = batch_updates.batch_id
LEFT JOIN (
  SELECT id, 1 AS cancelled
  FROM job_groups_cancelled
  WHERE id = %s AND job_group_id = %s
) AS cancelled_t ON batches.id = cancelled_t.id
WHERE batches.user = %s AND batches.id = %s AND batch_updates.update_id = %s AND NOT deleted;
""",
                (batch_id, ROOT_JOB_GROUP_ID, user, batch_id, update_id))
            if not record:
                raise web.HTTPNotFound()
            if record["cancelled"]:
                raise web.HTTPBadRequest(reason="Cannot commit an update to a cancelled batch")
            return record

        return self.run(check())

    def commit(self, batch_id, update_id, user="u1"):
        return self.run(self.fe._commit_update(self.app, batch_id, update_id, user, self.db))

    def cancel_job_group(self, batch_id, job_group_id):
        return self.run(self.fe._cancel_job_group(self.app, batch_id, job_group_id))

    def delete_batch(self, batch_id):
        return self.run(self.fe._delete_batch(self.app, batch_id))

    def get_batch(self, batch_id):
        return self.run(self.fe._get_batch(self.app, batch_id))

    def get_job_group(self, batch_id, job_group_id):
        return self.run(self.fe._get_job_group(self.app, batch_id, job_group_id))

    # ---- driver-side procedure calls (the SQL text is the one the driver wrappers issue) ---------------------------------
    def call(self, sql, args):
        return self.run(self.db.execute_and_fetchone(sql, args))

    def add_instance(self, name, cores_mcpu=16000, inst_coll="standard", state="pending"):
        s = self.eng.connect()
        s.execute(
            "INSERT INTO instances (name, state, activation_token, token, cores_mcpu, time_created, last_updated, version, location, "
            "inst_coll, machine_type, preemptible) VALUES (%s, %s, 'at', 'tk', %s, %s, %s, 1, 'us-central1-a', %s, 'n1-standard-16', 1)",
            (name, state, cores_mcpu, self.now, self.now, inst_coll))
        s.execute("INSERT INTO instances_free_cores_mcpu (name, free_cores_mcpu) VALUES (%s, %s)", (name, cores_mcpu))
        s.commit()

    def activate_instance(self, name, ip="10.0.0.9"):
        return self.call("CALL activate_instance(%s, %s, %s);", (name, ip, self.now))

    def deactivate_instance(self, name, reason="deactivated"):
        return self.call("CALL deactivate_instance(%s, %s, %s);", (name, reason, self.now))

    def mark_instance_deleted(self, name):
        return self.call("CALL mark_instance_deleted(%s);", (name,))

    def schedule_job(self, batch_id, job_id, attempt_id, instance):
        return self.call("CALL schedule_job(%s, %s, %s, %s);", (batch_id, job_id, attempt_id, instance))

    def mark_job_creating(self, batch_id, job_id, attempt_id, instance, start_time):
        return self.call("\nCALL mark_job_creating(%s, %s, %s, %s, %s);\n", (batch_id, job_id, attempt_id, instance, start_time))

    def mark_job_started(self, batch_id, job_id, attempt_id, instance, start_time):
        return self.call("\nCALL mark_job_started(%s, %s, %s, %s, %s);\n", (batch_id, job_id, attempt_id, instance, start_time))

    def mark_job_complete(self, batch_id, job_id, attempt_id, instance, new_state, start_time, end_time, reason):
        return self.call("CALL mark_job_complete(%s, %s, %s, %s, %s, %s, %s, %s, %s, %s);",
                         (batch_id, job_id, attempt_id, instance, new_state, None, start_time, end_time, reason, self.now))

    def unschedule_job(self, batch_id, job_id, attempt_id, instance, end_time, reason="cancelled"):
        return self.call("CALL unschedule_job(%s, %s, %s, %s, %s, %s);", (batch_id, job_id, attempt_id, instance, end_time, reason))

    def add_attempt_resources(self, batch_id, job_id, attempt_id, quantity, name="compute/n1-preemptible/1"):
        import batch.driver.job as dj

        class _R:
            def __init__(self, rid):
                self.resource_id = rid
                self.deduped_resource_id = rid

        ids = {r["resource"]: _R(r["resource_id"]) for r in self.rows("resources")}
        app = dict(self.app)
        app["resource_name_to_id"] = ids
        return self.run(dj.add_attempt_resources(app, self.db, batch_id, job_id, attempt_id, [{"name": name, "quantity": quantity}]))

    def clean_staging(self):
        import batch.driver.main as dm

        return self.run(dm.delete_committed_job_groups_inst_coll_staging_records(self.db))

    def compact_billing(self):
        """driver.main.compact_agg_billing_project_users_table + ..._by_date_table (real code)."""
        import batch.driver.main as dm

        app = dict(self.app)
        app["feature_flags"] = {"compact_billing_tables": True}
        r1 = self.run(dm.compact_agg_billing_project_users_table(app, self.db))
        r2 = self.run(dm.compact_agg_billing_project_users_by_date_table(app, self.db))
        return r1, r2

    def clean_cancellable(self):
        import batch.driver.main as dm

        return self.run(dm.delete_prev_cancelled_job_group_cancellable_resources_records(self.db))

    # ---- the driver's real loop bodies with recording collaborators (what they SELECT, not what the calls do) ---------
    def driver_selection(self):
        """Runs Canceller.cancel_cancelled_{ready,creating,running}_jobs_loop_body, cancel_orphaned_attempts_loop_body and
        PoolScheduler.schedule_loop_body (real SQL, real Python) with mark_job_complete / unschedule_job / schedule_job replaced
        by recorders.  Returns dict loop -> set of selected (job_id[, attempt_id])."""
        import batch.driver.canceller as cm
        import batch.driver.instance_collection.pool as pm
        from hailtop.utils import Notice

        rec = {"cancel_ready": set(), "cancel_creating": set(), "cancel_running": set(), "orphan": set(), "schedule": set(), "failfast": set()}
        cur = {"loop": None}

        async def fake_mjc(app, batch_id, job_id, attempt_id, job_group_id, instance_name, new_state, *a, **k):
            rec[cur["loop"]].add((job_id, attempt_id) if attempt_id is not None else (job_id,))

        async def fake_unsched(app, record):
            rec[cur["loop"]].add((record["job_id"], record["attempt_id"]))

        async def fake_schedule(app, record, instance):
            rec["schedule"].add((record["job_id"],))

        class Pool0:
            async def call(self, f, *a, **k):
                await f(*a, **k)

        class ICM:
            regions = ["us-central1"]

            def get_instance(self, name):
                return None

        class FakeInst:
            region = "us-central1"
            state = "active"
            name = "sel-i"

            def adjust_free_cores_in_memory(self, d):
                pass

        class FakePool:
            name = "standard"
            all_supported_regions = ["us-central1"]
            inst_coll_manager = ICM()
            healthy_instances_by_free_cores = [type("W", (), {"free_cores_mcpu": 10 ** 9})()]

            def get_instance(self, cores, regions):
                return FakeInst()

            def __str__(self):
                return "pool standard"

        saved = (cm.mark_job_complete, cm.unschedule_job, pm.schedule_job, pm.random.random)
        cm.mark_job_complete, cm.unschedule_job, pm.schedule_job = fake_mjc, fake_unsched, fake_schedule
        pm.random.random = lambda: 0.0
        try:
            c = object.__new__(cm.Canceller)
            c.app, c.db, c.async_worker_pool, c.inst_coll_manager = self.app, self.db, Pool0(), ICM()
            for loop, body in (("cancel_ready", c.cancel_cancelled_ready_jobs_loop_body), ("cancel_creating", c.cancel_cancelled_creating_jobs_loop_body),
                               ("cancel_running", c.cancel_cancelled_running_jobs_loop_body), ("orphan", c.cancel_orphaned_attempts_loop_body)):
                cur["loop"] = loop
                r = self.run(body())
                if r.kind != "ok":
                    rec[loop] = r
            sch = object.__new__(pm.PoolScheduler)
            sch.app, sch.db, sch.pool, sch.async_worker_pool = self.app, self.db, FakePool(), Pool0()
            sch.exceeded_shares_counter = pm.ExceededSharesCounter()
            sch.scheduler_state_changed = self._in_loop(Notice)
            cur["loop"] = "schedule"
            r = self.run(sch.schedule_loop_body())
            if r.kind != "ok":
                rec["schedule"] = r
        finally:
            cm.mark_job_complete, cm.unschedule_job, pm.schedule_job, pm.random.random = saved
        # driver/main.py cancel_fast_failing_job_groups: real query, the per-group cancellation recorded
        import batch.driver.main as dm

        async def fake_cancel(app, batch_id, job_group_id):
            rec["failfast"].add((job_group_id,))

        saved_c = dm._cancel_job_group
        dm._cancel_job_group = fake_cancel
        try:
            r = self.run(dm.cancel_fast_failing_job_groups(self.app))
            if r.kind != "ok":
                rec["failfast"] = r
        finally:
            dm._cancel_job_group = saved_c
        return rec

    def driver_cancel_job_group(self, batch_id, job_group_id):
        """driver/main.py _cancel_job_group (used by cancel_fast_failing_job_groups and monitor_billing_limits)."""
        import batch.driver.main as dm

        saved = dm.set_cancel_state_changed
        dm.set_cancel_state_changed = lambda app: None
        try:
            return self.run(dm._cancel_job_group(self.app, batch_id, job_group_id))
        finally:
            dm.set_cancel_state_changed = saved

    # ---- the real aiohttp handlers (decorators included) through mocked requests ------------------------------------------
    def webapp(self):
        """aiohttp Application holding the front end's real route table; fe.auth._fetch_userdata is replaced by a header-driven
        fake (X-User: username; 'dev' is a developer; 'inactive' is inactive; no header = anonymous)."""
        if getattr(self, "_webapp", None) is None:
            import warnings

            warnings.filterwarnings("ignore", message=".*AppKey.*")
            fe = self.fe

            async def fake_userdata(request):
                u = request.headers.get("X-User")
                if not u:
                    return None
                return {"id": 1, "state": "inactive" if u == "inactive" else "active", "username": u, "login_id": u,
                        "namespace_name": "default", "is_developer": 1 if u == "dev" else 0, "is_service_account": u == "auth",
                        "hail_credentials_secret_name": f"{u}-gsa-key", "tokens_secret_name": f"{u}-tokens"}

            async def fake_permission(request, permission):
                return request.headers.get("X-User") in ("dev", "auth")

            fe.auth._fetch_userdata = fake_userdata
            fe.auth._check_system_permission = fake_permission
            app = web.Application()
            for k, v in self.app.items():
                app[k] = v
            app.add_routes(fe.routes)
            self._webapp = app
        return self._webapp

    async def http_coro(self, method, path, body=None, user="u1", headers=None):
        """Coroutine running the real handler for (method, path); returns the aiohttp response (or raises web.HTTPException)."""
        from aiohttp import streams
        from aiohttp.test_utils import make_mocked_request

        app = self.webapp()
        data = json.dumps(body).encode() if body is not None else b""
        proto = type("P", (), {"_reading_paused": False, "transport": None, "resume_reading": lambda self, **k: None,
                               "pause_reading": lambda self: None})()
        sr = streams.StreamReader(proto, 2 ** 16, loop=asyncio.get_running_loop())
        sr.feed_data(data)
        sr.feed_eof()
        h = dict(headers or {})
        if user:
            h["X-User"] = user
        req = make_mocked_request(method, path, headers=h, app=app, payload=sr)
        mi = await app.router.resolve(req)
        mi.add_app(app)
        req._match_info = mi
        return await mi.handler(req)

    def http(self, method, path, body=None, user="u1", headers=None):
        r = self.run(self.http_coro(method, path, body, user, headers))
        if r.kind == "ok" and hasattr(r.value, "body") and r.value.body:
            try:
                r.json = json.loads(r.value.body)
            except Exception:
                r.json = None
        return r

    # ---- handlers as tasks stepped one database transaction at a time (C09) -----------------------------------------------
    def start_task(self, coro, name):
        """Create (but do not run) a task for a handler coroutine. aiomysql.YIELD must be True for fine-grained stepping."""
        return self.loop.create_task(coro, name=name)

    def _task_handles(self, task):
        return [h for h in self.loop._ready if not h._cancelled and getattr(h._callback, "__self__", None) is task]

    def _run_others(self, handler_tasks):
        """Run every ready callback that does not belong to a paused handler task (connection releases, notifications)."""
        n = 0
        while True:
            self.loop._move_due()
            hs = [h for h in self.loop._ready if not h._cancelled and getattr(h._callback, "__self__", None) not in handler_tasks]
            if not hs:
                return
            for h in hs:
                self.loop._ready.remove(h)
                self.loop.run_handle(h)
            n += 1
            if n > 10000:
                raise RuntimeError("background callbacks do not quiesce")

    def step_tx(self, task, handler_tasks, n_tx=1):
        """Advance `task` until it has finished n_tx more database transactions (python-level commit/rollback) or is done."""
        target = aiomysql.TX_ENDS + n_tx
        guard = 0
        while not task.done() and aiomysql.TX_ENDS < target:
            hs = self._task_handles(task)
            if not hs:
                self._run_others(handler_tasks)
                hs = self._task_handles(task)
                if not hs:
                    if self.loop.advance():
                        continue
                    raise RuntimeError(f"handler task {task.get_name()} is blocked")
            self.loop._ready.remove(hs[0])
            self.loop.run_handle(hs[0])
            guard += 1
            if guard > 100000:
                raise RuntimeError("handler does not reach a transaction boundary")
        self._run_others(handler_tasks)
        return task.done()

    def finish_task(self, task, handler_tasks):
        while not task.done():
            self.step_tx(task, handler_tasks, 1000)
        self._run_others(handler_tasks)
        return self.task_result(task)

    def task_result(self, task) -> Result:
        try:
            v = task.result()
            r = Result("ok", v)
            if hasattr(v, "body") and v.body:
                try:
                    r.json = json.loads(v.body)
                except Exception:
                    r.json = None
            return r
        except web.HTTPException as e:
            return Result("http", None, e.status, e.reason)
        except self.gdb.CallError as e:
            return Result("callerror", e.rv, e.rv.get("rc"), e.rv.get("message"))
        except Exception as e:
            import pymysql.err as pe

            if isinstance(e, pe.MySQLError):
                return Result("sqlerror", None, e.args[0] if e.args else None, str(e))
            if isinstance(e, ValueError) and isinstance(e.__cause__, pe.MySQLError):
                c = e.__cause__
                return Result("sqlerror", None, c.args[0] if c.args else None, str(c))
            raise

    # ---- inspection ----------------------------------------------------------------------------------------------------
    def rows(self, table, **eq):
        return self.eng.rows(table, **eq)

    def query(self, sql, args=None):
        s = self.eng.connect()
        _rc, rows, _ = s.execute(sql, args)
        return rows

    def close(self):
        # finish or cancel whatever handler tasks are still pending so that nothing is finalised outside a loop
        from asyncio import tasks as _tasks

        try:
            pending = [t for t in _tasks.all_tasks(self.loop) if not t.done()]
            for t in pending:
                t.cancel()
            for _ in range(10000):
                if not self.loop.step():
                    break
            for t in pending:
                if t.done() and not t.cancelled():
                    t.exception()
        except Exception:
            pass
        self.loop.dispose()
