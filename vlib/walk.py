"""B1: replay of TLC's labelled state graph against the implementation.

The graph (from `tlc -dump dot,actionlabels`) is covered by root-to-leaf walks such that every edge is
taken at least once.  On every step the edge's action is applied to the implementation and the projected
implementation state must equal the TLA+ target state.  Implementations that cannot be snapshotted
(asyncio tasks) are handled by re-executing from the initial state for every walk.
"""
from __future__ import annotations

import random
from collections import deque

from . import tlc


class Mismatch(Exception):
    def __init__(self, path, label, expected, got, diff):
        self.path, self.label, self.expected, self.got, self.diff = path, label, expected, got, diff


def diff_states(exp: dict, got: dict):
    out = {}
    for k in exp:
        if k not in got:
            continue
        if exp[k] != got[k]:
            out[k] = {"spec": exp[k], "impl": got[k]}
    return out


def cover_walks(graph: tlc.Graph, *, rng: random.Random | None = None, max_len=10_000):
    """Yield walks (lists of (src, label, dst)) from an initial node that together cover every edge."""
    out = graph.out_edges()
    for k in out:
        out[k] = sorted(out[k])
        if rng:
            rng.shuffle(out[k])
    # BFS tree for routing from the root
    walks = []
    for root in graph.init:
        parent = {root: None}
        dq = deque([root])
        order = []
        while dq:
            u = dq.popleft()
            order.append(u)
            for (lab, v) in out.get(u, ()):
                if v not in parent:
                    parent[v] = (u, lab)
                    dq.append(v)
        unvisited = {u: list(out.get(u, ())) for u in order}
        todo = deque(u for u in order if unvisited[u])

        def path_to(u):
            p = []
            while parent[u] is not None:
                pu, lab = parent[u]
                p.append((pu, lab, u))
                u = pu
            p.reverse()
            return p

        while todo:
            u = todo[0]
            if not unvisited[u]:
                todo.popleft()
                continue
            walk = path_to(u)
            cur = u
            while unvisited.get(cur) and len(walk) < max_len:
                lab, v = unvisited[cur].pop()
                walk.append((cur, lab, v))
                cur = v
            walks.append(walk)
    return walks


def replay_graph(graph: tlc.Graph, make_impl, apply_edge, project, *, view=None, rng=None, on_walk=None,
                 feasible=None, max_mismatches=5):
    """make_impl() -> impl (fresh, in the initial state); apply_edge(impl, name, args, src_state, dst_state);
    project(impl) -> dict comparable with the TLA+ state (only keys present in both are compared).
    Returns dict(stats) and list of Mismatch."""
    walks = cover_walks(graph, rng=rng)
    mism = []
    steps = 0
    edges_seen = set()
    for w in walks:
        impl = make_impl()
        try:
            init = graph.nodes[w[0][0]] if w else None
            if init is not None:
                got = project(impl)
                d = diff_states(view(init) if view else init, got)
                if d:
                    mism.append(Mismatch([], "<init>", init, got, d))
                    continue
            path = []
            for (src, lab, dst) in w:
                name, args = tlc.parse_action_label(lab)
                path.append(lab)
                apply_edge(impl, name, args, graph.nodes[src], graph.nodes[dst])
                steps += 1
                edges_seen.add((src, lab, dst))
                got = project(impl)
                exp = graph.nodes[dst]
                d = diff_states(view(exp) if view else exp, got)
                if d:
                    mism.append(Mismatch(list(path), lab, exp, got, d))
                    break
        finally:
            close = getattr(impl, "close", None)
            if close:
                close()
        if len(mism) >= max_mismatches:
            break
    return {"walks": len(walks), "steps": steps, "edges_covered": len(edges_seen), "edges": len(set(graph.edges)),
            "nodes": len(graph.nodes)}, mism
