"""Assembles the batch service's schema for MiniMySQL from the working tree of the repository.

tables    : CREATE TABLE statements of batch/sql/estimated-current.sql + ADD COLUMN of migrations >= 116
routines  : the LAST definition of every procedure / function / trigger when the migrations listed in
            build.yaml are replayed in build.yaml order (so editing 119-is-job-cancelled.sql, adding a migration or
            re-ordering build.yaml changes what is executed)
"""
from __future__ import annotations

import os
import re
from pathlib import Path

from .engine import Engine

REPO = Path(os.environ.get("VERIF_REPO", "/repo"))


def migration_order(repo: Path):
    lines = (repo / "build.yaml").read_text().splitlines()
    names = []
    for ln in lines:
        m = re.search(r"script:\s*/io/sql/(\S+)", ln)
        if m:
            names.append(m.group(1))
    # the batch database is the last run of migrations that starts with 000-initial.sql
    starts = [i for i, n in enumerate(names) if n == "000-initial.sql"]
    batch = names[starts[-1]:]
    if not any(n.startswith("116-") for n in batch):
        raise RuntimeError("could not locate the batch migrations in build.yaml")
    return batch


_TEMPLATES: dict = {}


def build_engine(seed=0, repo: Path | None = None, n_tokens=3) -> Engine:
    """Schema + routines are read from the working tree once per process; every call gets a fresh copy of the tables."""
    key = (str(Path(repo or REPO)), n_tokens)
    if key not in _TEMPLATES:
        _TEMPLATES[key] = _build_engine(0, repo, n_tokens)
    return _TEMPLATES[key].clone(seed)


def _build_engine(seed=0, repo: Path | None = None, n_tokens=3) -> Engine:
    repo = Path(repo or REPO)
    sqldir = repo / "batch" / "sql"
    eng = Engine(seed)
    eng.load_tables_from_sql((sqldir / "estimated-current.sql").read_text())
    eng.sources = {}
    for name in migration_order(repo):
        if not name.endswith(".sql"):
            continue
        f = sqldir / name
        if not f.exists():
            raise RuntimeError(f"migration {name} listed in build.yaml does not exist")
        text = f.read_text()
        m = re.match(r"(\d+)", name)
        if m and int(m.group(1)) >= 116:
            eng.apply_add_columns(text)
        if re.search(r"(?i)\b(PROCEDURE|FUNCTION|TRIGGER)\b", text):
            eng.load_routines_from_sql(text, name)
    eng.finalize_routines()
    seed_base_data(eng, n_tokens)
    return eng


def seed_base_data(eng: Engine, n_tokens=3):
    s = eng.connect()
    eng.fk_checks = False
    s.execute("INSERT INTO globals (instance_id, internal_token, n_tokens, frozen) VALUES ('verif', 'tok', %s, 0)", (n_tokens,))
    s.execute("INSERT INTO feature_flags (compact_billing_tables, oms_agent) VALUES (1, 0)")
    for name, is_pool in (("standard", 1), ("highmem", 1), ("job-private", 0)):
        s.execute(
            "INSERT INTO inst_colls (name, is_pool, boot_disk_size_gb, max_instances, max_live_instances, cloud, "
            "max_new_instances_per_autoscaler_loop, autoscaler_loop_period_secs, worker_max_idle_time_secs) "
            "VALUES (%s, %s, 10, 100, 100, 'gcp', 10, 15, 30)", (name, is_pool))
    for bp in ("proj", "other"):
        s.execute("INSERT INTO billing_projects (name, name_cs) VALUES (%s, %s)", (bp, bp))
    for bp, u in (("proj", "u1"), ("proj", "u2"), ("other", "u3")):
        s.execute("INSERT INTO billing_project_users (billing_project, user, user_cs) VALUES (%s, %s, %s)", (bp, u, u))
    for rid, (res, rate) in enumerate((("compute/n1-preemptible/1", 0.001), ("memory/n1-preemptible/1", 0.0001),
                                       ("disk/pd-ssd/1", 0.00001)), start=1):
        s.execute("INSERT INTO resources (resource, rate, resource_id, deduped_resource_id) VALUES (%s, %s, %s, %s)",
                  (res, rate, rid, rid))
    s.commit()
    eng.fk_checks = True
