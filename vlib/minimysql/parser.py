"""Tokenizer and recursive-descent parser for the MySQL subset used by batch/sql and the SQL embedded in
batch/batch/**.py.  Anything outside the subset raises UnsupportedSQL (-> machinery failure, never a verdict).

AST: plain tuples / dicts (see the individual parse_* functions).  All identifiers are lower-cased.
"""
from __future__ import annotations

import re


class UnsupportedSQL(Exception):
    pass


# ------------------------------------------------------------------------------------------------
_TOKEN = re.compile(
    r"""
    (?P<ws>\s+)
  | (?P<c1>\#[^\n]*)
  | (?P<c2>--[ \t][^\n]*|--$)
  | (?P<c3>/\*.*?\*/)
  | (?P<param>%\(\w+\)s|%s)
  | (?P<num>\d+\.\d*(?:[eE][-+]?\d+)?|\.\d+(?:[eE][-+]?\d+)?|\d+(?:[eE][-+]?\d+)?)
  | (?P<qid>`[^`]+`)
  | (?P<str>'(?:[^'\\]|\\.|'')*'|"(?:[^"\\]|\\.|"")*")
  | (?P<uvar>@[A-Za-z_][\w$]*)
  | (?P<id>[A-Za-z_][\w$]*)
  | (?P<op>:=|<=>|<=|>=|<>|!=|\|\||&&|<<|>>|[-+*/%(),.;=<>!&|^~])
    """,
    re.X | re.S | re.M,
)

_ESC = {"n": "\n", "t": "\t", "r": "\r", "0": "\0", "b": "\b", "Z": "\x1a"}


def _unquote(s):
    q = s[0]
    body = s[1:-1]
    out = []
    i = 0
    while i < len(body):
        c = body[i]
        if c == "\\" and i + 1 < len(body):
            nx = body[i + 1]
            out.append(_ESC.get(nx, nx))
            i += 2
        elif c == q and i + 1 < len(body) and body[i + 1] == q:
            out.append(q)
            i += 2
        else:
            out.append(c)
            i += 1
    return "".join(out)


class Tok:
    __slots__ = ("kind", "val", "up", "pos", "end")

    def __init__(self, kind, val, pos, end):
        self.kind = kind
        self.val = val
        self.up = val.upper() if kind == "id" else val
        self.pos = pos
        self.end = end

    def __repr__(self):
        return f"{self.kind}:{self.val!r}"


def tokenize(sql: str):
    toks = []
    i = 0
    n = len(sql)
    while i < n:
        m = _TOKEN.match(sql, i)
        if not m:
            raise UnsupportedSQL(f"cannot tokenize at {i}: {sql[i:i+30]!r}")
        k = m.lastgroup
        if k in ("ws", "c1", "c2", "c3"):
            i = m.end()
            continue
        v = m.group(k)
        if k == "qid":
            toks.append(Tok("qid", v[1:-1], i, m.end()))
        elif k == "str":
            toks.append(Tok("str", _unquote(v), i, m.end()))
        else:
            toks.append(Tok(k, v, i, m.end()))
        i = m.end()
    toks.append(Tok("eof", "", n, n))
    return toks


# words that terminate an expression / cannot be implicit aliases
_RESERVED = {
    "SELECT", "FROM", "WHERE", "GROUP", "HAVING", "ORDER", "LIMIT", "UNION", "ON", "JOIN", "INNER", "LEFT", "RIGHT",
    "CROSS", "STRAIGHT_JOIN", "FOR", "LOCK", "INTO", "SET", "VALUES", "AND", "OR", "XOR", "NOT", "IS", "IN", "LIKE",
    "BETWEEN", "AS", "THEN", "ELSE", "ELSEIF", "END", "WHEN", "DO", "USING", "NATURAL", "DESC", "ASC", "BY", "OFFSET",
    "FORCE", "USE", "IGNORE", "LATERAL", "DIV", "MOD", "CASE", "IF", "EXISTS", "NULL", "TRUE", "FALSE", "INTERVAL",
    "DUPLICATE", "KEY", "UPDATE", "INSERT", "DELETE", "CALL", "RETURN", "DECLARE", "BEGIN", "LOOP", "LEAVE", "WHILE",
    "REPEAT", "OPEN", "FETCH", "CLOSE", "SIGNAL", "COMMIT", "ROLLBACK", "START", "REGEXP", "COLLATE",
}

AGGREGATES = {"SUM", "COUNT", "MAX", "MIN", "AVG", "JSON_OBJECTAGG", "JSON_ARRAYAGG", "GROUP_CONCAT", "BIT_OR", "BIT_AND"}


class Parser:
    def __init__(self, sql: str):
        self.sql = sql
        self.toks = tokenize(sql)
        self.i = 0
        self.nparams = 0

    # ---- token helpers -------------------------------------------------------------------------
    @property
    def t(self):
        return self.toks[self.i]

    def peek(self, k=1):
        j = min(self.i + k, len(self.toks) - 1)
        return self.toks[j]

    def at_kw(self, *words):
        t = self.t
        return t.kind == "id" and t.up in words

    def at_op(self, *ops):
        t = self.t
        return t.kind == "op" and t.val in ops

    def accept_kw(self, *words):
        if self.at_kw(*words):
            self.i += 1
            return self.toks[self.i - 1].up
        return None

    def accept_op(self, *ops):
        if self.at_op(*ops):
            self.i += 1
            return self.toks[self.i - 1].val
        return None

    def expect_kw(self, *words):
        w = self.accept_kw(*words)
        if not w:
            self.fail(f"expected {'/'.join(words)}")
        return w

    def expect_op(self, op):
        if not self.accept_op(op):
            self.fail(f"expected {op!r}")

    def fail(self, msg):
        t = self.t
        raise UnsupportedSQL(f"{msg} at {t.pos}: ...{self.sql[max(0, t.pos-40):t.pos]!r} >>> {self.sql[t.pos:t.pos+60]!r}")

    def ident(self):
        t = self.t
        if t.kind in ("id", "qid"):
            self.i += 1
            return t.val.lower()
        self.fail("expected identifier")

    # ---- statements ------------------------------------------------------------------------------
    def parse_script(self):
        """Sequence of statements separated by ';' (top level)."""
        out = []
        while self.t.kind != "eof":
            if self.accept_op(";"):
                continue
            out.append(self.statement())
        return out

    def statement(self):
        t = self.t
        if t.kind == "op" and t.val == "(":
            return self.select_stmt()
        if t.kind != "id":
            self.fail("expected statement")
        u = t.up
        if u in ("SELECT", "WITH"):
            return self.select_stmt()
        if u == "INSERT":
            return self.insert_stmt()
        if u == "UPDATE":
            return self.update_stmt()
        if u == "DELETE":
            return self.delete_stmt()
        if u == "CALL":
            return self.call_stmt()
        if u == "SET":
            return self.set_stmt()
        if u == "DECLARE":
            return self.declare_stmt()
        if u == "IF":
            return self.if_stmt()
        if u == "BEGIN":
            return self.block()
        if u == "START":
            self.i += 1
            self.expect_kw("TRANSACTION")
            if self.accept_kw("READ"):
                self.expect_kw("ONLY", "WRITE")
            return ("start",)
        if u == "COMMIT":
            self.i += 1
            return ("commit",)
        if u == "ROLLBACK":
            self.i += 1
            return ("rollback",)
        if u == "RETURN":
            self.i += 1
            return ("return", self.expr())
        if u == "SIGNAL":
            return self.signal_stmt()
        if u == "OPEN":
            self.i += 1
            return ("open", self.ident())
        if u == "CLOSE":
            self.i += 1
            return ("close", self.ident())
        if u == "FETCH":
            self.i += 1
            self.accept_kw("NEXT")
            self.accept_kw("FROM")
            c = self.ident()
            self.expect_kw("INTO")
            vs = [self.ident()]
            while self.accept_op(","):
                vs.append(self.ident())
            return ("fetch", c, vs)
        if u == "LEAVE":
            self.i += 1
            return ("leave", self.ident())
        if u == "LOOP":
            return self.loop_stmt(None)
        if u == "WHILE":
            return self.while_stmt(None)
        self.fail(f"unsupported statement {u}")

    def block(self):
        self.expect_kw("BEGIN")
        stmts = []
        while not self.at_kw("END"):
            if self.accept_op(";"):
                continue
            stmts.append(self.statement())
        self.expect_kw("END")
        return ("block", stmts)

    def stmt_list_until(self, *terms):
        stmts = []
        while not self.at_kw(*terms):
            if self.accept_op(";"):
                continue
            if self.t.kind == "eof":
                self.fail("unterminated block")
            stmts.append(self.statement())
        return stmts

    def if_stmt(self):
        self.expect_kw("IF")
        branches = []
        cond = self.expr()
        self.expect_kw("THEN")
        body = self.stmt_list_until("ELSEIF", "ELSE", "END")
        branches.append((cond, body))
        els = None
        while True:
            if self.accept_kw("ELSEIF"):
                c = self.expr()
                self.expect_kw("THEN")
                b = self.stmt_list_until("ELSEIF", "ELSE", "END")
                branches.append((c, b))
            elif self.accept_kw("ELSE"):
                els = self.stmt_list_until("END")
            else:
                break
        self.expect_kw("END")
        self.expect_kw("IF")
        return ("if", branches, els)

    def loop_stmt(self, label):
        self.expect_kw("LOOP")
        body = self.stmt_list_until("END")
        self.expect_kw("END")
        self.expect_kw("LOOP")
        if self.t.kind == "id" and self.peek().kind == "op" and self.peek().val == ";":
            self.i += 1  # trailing label
        return ("loop", label, body)

    def while_stmt(self, label):
        self.expect_kw("WHILE")
        c = self.expr()
        self.expect_kw("DO")
        body = self.stmt_list_until("END")
        self.expect_kw("END")
        self.expect_kw("WHILE")
        return ("while", label, c, body)

    def signal_stmt(self):
        self.expect_kw("SIGNAL")
        self.expect_kw("SQLSTATE")
        self.accept_kw("VALUE")
        state = self.t.val
        self.i += 1
        msg = None
        if self.accept_kw("SET"):
            while True:
                k = self.ident()
                self.expect_op("=")
                v = self.expr()
                if k == "message_text":
                    msg = v
                if not self.accept_op(","):
                    break
        return ("signal", state, msg)

    def type_name(self):
        """Parses a column / variable type; returns a normalised kind: int, str, float, date, bool."""
        name = self.ident()
        if self.accept_op("("):
            while not self.accept_op(")"):
                self.i += 1
        while self.at_kw("UNSIGNED", "SIGNED", "ZEROFILL"):
            self.i += 1
        if self.accept_kw("CHARACTER"):
            self.expect_kw("SET")
            self.ident()
        if self.accept_kw("COLLATE"):
            self.ident()
        n = name.upper()
        if n in ("INT", "INTEGER", "BIGINT", "SMALLINT", "TINYINT", "MEDIUMINT"):
            return "int"
        if n in ("BOOLEAN", "BOOL"):
            return "bool"
        if n in ("VARCHAR", "CHAR", "TEXT", "MEDIUMTEXT", "LONGTEXT", "TINYTEXT", "ENUM", "BLOB", "MEDIUMBLOB", "JSON"):
            return "str"
        if n in ("DOUBLE", "FLOAT", "DECIMAL", "REAL"):
            return "float"
        if n in ("DATE", "DATETIME", "TIMESTAMP"):
            return "date"
        raise UnsupportedSQL(f"type {name}")

    def declare_stmt(self):
        self.expect_kw("DECLARE")
        if self.at_kw("CONTINUE", "EXIT"):
            kind = self.accept_kw("CONTINUE", "EXIT")
            self.expect_kw("HANDLER")
            self.expect_kw("FOR")
            if self.accept_kw("NOT"):
                self.expect_kw("FOUND")
                cond = "not found"
            elif self.accept_kw("SQLEXCEPTION"):
                cond = "sqlexception"
            else:
                self.fail("handler condition")
            st = self.statement()
            return ("handler", kind.lower(), cond, st)
        names = [self.ident()]
        while self.accept_op(","):
            names.append(self.ident())
        if self.accept_kw("CURSOR"):
            self.expect_kw("FOR")
            sel = self.select_stmt()
            return ("cursor", names[0], sel)
        ty = self.type_name()
        default = None
        if self.accept_kw("DEFAULT"):
            default = self.expr()
        return ("declare", names, ty, default)

    def set_stmt(self):
        self.expect_kw("SET")
        assigns = []
        while True:
            t = self.t
            if t.kind == "uvar":
                self.i += 1
                target = ("uvar", t.val[1:].lower())
            else:
                a = self.ident()
                if self.accept_op("."):
                    b = self.ident()
                    target = ("col", a, b)
                else:
                    target = ("var", a)
            if not self.accept_op("=") and not self.accept_op(":="):
                self.fail("expected = in SET")
            assigns.append((target, self.expr()))
            if not self.accept_op(","):
                break
        return ("set", assigns)

    def call_stmt(self):
        self.expect_kw("CALL")
        name = self.ident()
        args = []
        if self.accept_op("("):
            if not self.accept_op(")"):
                while True:
                    args.append(self.expr())
                    if self.accept_op(")"):
                        break
                    self.expect_op(",")
        return ("call", name, args)

    # ---- SELECT ---------------------------------------------------------------------------------
    def select_stmt(self):
        if self.at_kw("WITH"):
            # common table expressions: WITH name AS (select) [, name AS (select)]* select
            self.i += 1
            if self.at_kw("RECURSIVE"):
                self.fail("WITH RECURSIVE")
            ctes = []
            while True:
                name = self.ident()
                self.expect_kw("AS")
                self.expect_op("(")
                sub = self.select_stmt()
                self.expect_op(")")
                ctes.append((name, sub))
                if not self.accept_op(","):
                    break
            body = self.select_stmt()
            body["with"] = ctes + list(body.get("with", []))
            return body
        first = self.select_core()
        parts = [first]
        alls = []
        while self.at_kw("UNION"):
            self.i += 1
            alls.append(bool(self.accept_kw("ALL")))
            self.accept_kw("DISTINCT")
            parts.append(self.select_core())
        if len(parts) == 1:
            return first
        u = {"kind": "union", "parts": parts, "all": alls, "order": None, "limit": None, "offset": None}
        # trailing ORDER BY / LIMIT apply to the union if the last part was parenthesised; otherwise they were
        # already consumed by the last part -> lift them
        last = parts[-1]
        if not last.get("paren"):
            u["order"], last["order"] = last["order"], None
            u["limit"], last["limit"] = last["limit"], None
            u["offset"], last["offset"] = last["offset"], None
        else:
            self.order_limit(u)
        return u

    def order_limit(self, s):
        if self.accept_kw("ORDER"):
            self.expect_kw("BY")
            order = []
            while True:
                e = self.expr()
                desc = False
                if self.accept_kw("DESC"):
                    desc = True
                else:
                    self.accept_kw("ASC")
                order.append((e, desc))
                if not self.accept_op(","):
                    break
            s["order"] = order
        if self.accept_kw("LIMIT"):
            a = self.expr()
            if self.accept_op(","):
                b = self.expr()
                s["offset"], s["limit"] = a, b
            else:
                s["limit"] = a
                if self.accept_kw("OFFSET"):
                    s["offset"] = self.expr()

    def locking(self):
        """FOR UPDATE / FOR SHARE / LOCK IN SHARE MODE: returns "update", "share" or None"""
        mode = None
        while True:
            if self.at_kw("FOR") and self.peek().kind == "id" and self.peek().up in ("UPDATE", "SHARE"):
                mode = "update" if self.peek().up == "UPDATE" or mode == "update" else "share"
                self.i += 2
                if self.accept_kw("OF"):
                    self.lock_of = getattr(self, "lock_of", None) or []
                    self.lock_of.append(self.ident().lower())
                    while self.accept_op(","):
                        self.lock_of.append(self.ident().lower())
                self.accept_kw("NOWAIT")
                if self.accept_kw("SKIP"):
                    self.expect_kw("LOCKED")
            elif self.at_kw("LOCK") and self.peek().up == "IN":
                self.i += 2
                self.expect_kw("SHARE")
                self.expect_kw("MODE")
                mode = mode or "share"
            else:
                return mode

    def select_core(self):
        if self.accept_op("("):
            s = self.select_stmt()
            self.expect_op(")")
            s = dict(s)
            s["paren"] = True
            return s
        self.expect_kw("SELECT")
        s = {"kind": "select", "distinct": False, "cols": [], "from": None, "where": None, "group": None, "having": None,
             "order": None, "limit": None, "offset": None, "into": None}
        while self.at_kw("DISTINCT", "ALL", "SQL_CALC_FOUND_ROWS", "STRAIGHT_JOIN", "SQL_NO_CACHE"):
            if self.accept_kw("DISTINCT"):
                s["distinct"] = True
            else:
                self.i += 1
        while True:
            start = self.t.pos
            if self.at_op("*"):
                self.i += 1
                s["cols"].append((("star", None), None, "*"))
            else:
                e = self.expr()
                end = self.toks[self.i - 1].end
                text = self.sql[start:end]
                alias = None
                if self.accept_kw("AS"):
                    t = self.t
                    if t.kind == "str":
                        alias = t.val
                        self.i += 1
                    else:
                        alias = self.ident()
                elif self.t.kind in ("id", "qid") and (self.t.kind == "qid" or self.t.up not in _RESERVED):
                    alias = self.ident()
                s["cols"].append((e, alias, text))
            if not self.accept_op(","):
                break
        if self.accept_kw("INTO"):
            s["into"] = self.into_list()
        if self.accept_kw("FROM"):
            s["from"] = self.from_clause()
        if self.accept_kw("WHERE"):
            s["where"] = self.expr()
        if self.accept_kw("GROUP"):
            self.expect_kw("BY")
            g = [self.expr()]
            while self.accept_op(","):
                g.append(self.expr())
            s["group"] = g
        if self.accept_kw("HAVING"):
            s["having"] = self.expr()
        self.order_limit(s)
        if self.accept_kw("INTO"):
            s["into"] = self.into_list()
        self.lock_of = None
        lk = self.locking()
        if self.accept_kw("INTO"):
            s["into"] = self.into_list()
        lk = self.locking() or lk
        if lk:
            s["lock"] = lk
            if self.lock_of:
                s["lock_of"] = list(self.lock_of)      # FOR UPDATE / SHARE OF t1, t2: only these tables are locked (and read as current)
        self.lock_of = None
        return s

    def into_list(self):
        out = []
        while True:
            t = self.t
            if t.kind == "uvar":
                self.i += 1
                out.append(("uvar", t.val[1:].lower()))
            else:
                out.append(("var", self.ident()))
            if not self.accept_op(","):
                break
        return out

    def table_ref(self):
        lateral = bool(self.accept_kw("LATERAL"))
        if self.accept_op("("):
            if self.at_kw("SELECT", "WITH") or self.at_op("("):
                sel = self.select_stmt()
                self.expect_op(")")
                self.accept_kw("AS")
                alias = self.ident()
                return ("derived", sel, alias, lateral)
            # parenthesised join
            j = self.from_clause()
            self.expect_op(")")
            return ("joingroup", j)
        name = self.ident()
        if self.accept_op("."):
            name = self.ident()  # schema-qualified: ignore schema
        alias = name
        if self.accept_kw("AS"):
            alias = self.ident()
        elif self.t.kind in ("id", "qid") and (self.t.kind == "qid" or self.t.up not in _RESERVED):
            alias = self.ident()
        # index hints
        while self.at_kw("FORCE", "USE", "IGNORE") and self.peek().up in ("INDEX", "KEY"):
            self.i += 2
            if self.accept_kw("FOR"):
                self.i += 1
                self.accept_kw("BY")
            self.expect_op("(")
            while not self.accept_op(")"):
                self.i += 1
        return ("table", name, alias)

    def from_clause(self):
        items = [("first", self.table_ref(), None)]
        while True:
            if self.accept_op(","):
                items.append(("inner", self.table_ref(), None))
                continue
            jt = None
            if self.accept_kw("INNER", "CROSS"):
                self.expect_kw("JOIN")
                jt = "inner"
            elif self.accept_kw("LEFT"):
                self.accept_kw("OUTER")
                self.expect_kw("JOIN")
                jt = "left"
            elif self.accept_kw("JOIN", "STRAIGHT_JOIN"):
                jt = "inner"
            elif self.at_kw("RIGHT", "NATURAL"):
                self.fail("unsupported join type")
            else:
                break
            ref = self.table_ref()
            on = None
            if self.accept_kw("ON"):
                on = self.expr()
            elif self.accept_kw("USING"):
                self.expect_op("(")
                ucols = [self.ident()]
                while self.accept_op(","):
                    ucols.append(self.ident())
                self.expect_op(")")
                on = ("using", ucols)
            items.append((jt, ref, on))
        return items

    # ---- INSERT / UPDATE / DELETE -----------------------------------------------------------------------
    def insert_stmt(self):
        self.expect_kw("INSERT")
        ignore = bool(self.accept_kw("IGNORE"))
        self.accept_kw("INTO")
        table = self.ident()
        cols = None
        if self.at_op("(") and not (self.peek().kind == "id" and self.peek().up == "SELECT"):
            self.expect_op("(")
            cols = [self.ident()]
            while self.accept_op(","):
                cols.append(self.ident())
            self.expect_op(")")
        src = None
        if self.accept_kw("VALUES", "VALUE"):
            rows = []
            while True:
                self.expect_op("(")
                r = []
                if not self.accept_op(")"):
                    while True:
                        r.append(self.expr())
                        if self.accept_op(")"):
                            break
                        self.expect_op(",")
                rows.append(r)
                if not self.accept_op(","):
                    break
            src = ("values", rows)
        elif self.at_kw("SELECT") or self.at_op("("):
            src = ("select", self.select_stmt())
        else:
            self.fail("INSERT source")
        odku = None
        if self.accept_kw("ON"):
            self.expect_kw("DUPLICATE")
            self.expect_kw("KEY")
            self.expect_kw("UPDATE")
            odku = self.assignments()
        return ("insert", table, cols, src, odku, ignore)

    def assignments(self):
        out = []
        while True:
            a = self.ident()
            tbl = None
            if self.accept_op("."):
                tbl, a = a, self.ident()
            self.expect_op("=")
            out.append((tbl, a, self.expr()))
            if not self.accept_op(","):
                break
        return out

    def update_stmt(self):
        self.expect_kw("UPDATE")
        frm = self.from_clause()
        self.expect_kw("SET")
        assigns = self.assignments()
        where = None
        if self.accept_kw("WHERE"):
            where = self.expr()
        s = {"order": None, "limit": None, "offset": None}
        self.order_limit(s)
        return ("update", frm, assigns, where, s["order"], s["limit"])

    def delete_stmt(self):
        self.expect_kw("DELETE")
        targets = None
        if not self.at_kw("FROM"):
            targets = [self.ident()]
            while self.accept_op(","):
                targets.append(self.ident())
        self.expect_kw("FROM")
        frm = self.from_clause()
        where = None
        if self.accept_kw("WHERE"):
            where = self.expr()
        s = {"order": None, "limit": None, "offset": None}
        self.order_limit(s)
        return ("delete", targets, frm, where, s["order"], s["limit"])

    # ---- expressions ---------------------------------------------------------------------------------
    def expr(self):
        return self.assign_expr()

    def assign_expr(self):
        # @v := expr  (lowest precedence)
        if self.t.kind == "uvar" and self.peek().kind == "op" and self.peek().val == ":=":
            name = self.t.val[1:].lower()
            self.i += 2
            return ("assign", name, self.assign_expr())
        return self.or_expr()

    def or_expr(self):
        e = self.xor_expr()
        while self.at_kw("OR") or self.at_op("||"):
            self.i += 1
            e = ("or", e, self.xor_expr())
        return e

    def xor_expr(self):
        e = self.and_expr()
        while self.at_kw("XOR"):
            self.i += 1
            e = ("xor", e, self.and_expr())
        return e

    def and_expr(self):
        e = self.not_expr()
        while self.at_kw("AND") or self.at_op("&&"):
            self.i += 1
            e = ("and", e, self.not_expr())
        return e

    def not_expr(self):
        if self.at_kw("NOT") and not (self.peek().kind == "id" and self.peek().up == "EXISTS" and False):
            self.i += 1
            return ("not", self.not_expr())
        return self.cmp_expr()

    def cmp_expr(self):
        e = self.bitor_expr()
        while True:
            if self.at_op("=", "<", ">", "<=", ">=", "<>", "!=", "<=>"):
                op = self.t.val
                self.i += 1
                if self.at_kw("ANY", "ALL", "SOME"):
                    self.fail("quantified comparison")
                r = self.bitor_expr()
                e = ("cmp", "<>" if op == "!=" else op, e, r)
                continue
            if self.at_kw("IS"):
                self.i += 1
                neg = bool(self.accept_kw("NOT"))
                if self.accept_kw("NULL"):
                    e = ("isnull", e, neg)
                elif self.accept_kw("TRUE"):
                    e = ("istrue", e, neg, True)
                elif self.accept_kw("FALSE"):
                    e = ("istrue", e, neg, False)
                else:
                    self.fail("IS ...")
                continue
            neg = False
            save = self.i
            if self.at_kw("NOT"):
                if self.peek().kind == "id" and self.peek().up in ("IN", "LIKE", "BETWEEN", "REGEXP"):
                    self.i += 1
                    neg = True
                else:
                    break
            if self.accept_kw("IN"):
                self.expect_op("(")
                if self.at_kw("SELECT"):
                    sub = self.select_stmt()
                    self.expect_op(")")
                    e = ("insub", e, sub, neg)
                else:
                    items = [self.expr()]
                    while self.accept_op(","):
                        items.append(self.expr())
                    self.expect_op(")")
                    e = ("in", e, items, neg)
                continue
            if self.accept_kw("LIKE"):
                p = self.bitor_expr()
                e = ("like", e, p, neg)
                continue
            if self.accept_kw("REGEXP"):
                p = self.bitor_expr()
                e = ("regexp", e, p, neg)
                continue
            if self.accept_kw("BETWEEN"):
                lo = self.bitor_expr()
                self.expect_kw("AND")
                hi = self.bitor_expr()
                e = ("between", e, lo, hi, neg)
                continue
            self.i = save
            break
        return e

    def bitor_expr(self):
        e = self.bitand_expr()
        while self.at_op("|"):
            self.i += 1
            e = ("bin", "|", e, self.bitand_expr())
        return e

    def bitand_expr(self):
        e = self.shift_expr()
        while self.at_op("&"):
            self.i += 1
            e = ("bin", "&", e, self.shift_expr())
        return e

    def shift_expr(self):
        e = self.add_expr()
        while self.at_op("<<", ">>"):
            op = self.t.val
            self.i += 1
            e = ("bin", op, e, self.add_expr())
        return e

    def add_expr(self):
        e = self.mul_expr()
        while self.at_op("+", "-"):
            op = self.t.val
            self.i += 1
            e = ("bin", op, e, self.mul_expr())
        return e

    def mul_expr(self):
        e = self.unary_expr()
        while True:
            if self.at_op("*", "/", "%"):
                op = self.t.val
                self.i += 1
                e = ("bin", op, e, self.unary_expr())
            elif self.at_kw("DIV", "MOD"):
                op = self.t.up
                self.i += 1
                e = ("bin", op, e, self.unary_expr())
            else:
                break
        return e

    def unary_expr(self):
        if self.accept_op("-"):
            return ("neg", self.unary_expr())
        if self.accept_op("+"):
            return self.unary_expr()
        if self.accept_op("!"):
            return ("not", self.unary_expr())
        if self.accept_op("~"):
            return ("bitnot", self.unary_expr())
        if self.at_kw("BINARY"):
            self.i += 1
            return self.unary_expr()
        e = self.primary()
        if self.accept_kw("COLLATE"):
            self.ident()
        return e

    def primary(self):
        t = self.t
        if t.kind == "num":
            self.i += 1
            return ("lit", float(t.val) if any(c in t.val for c in ".eE") else int(t.val))
        if t.kind == "str":
            self.i += 1
            return ("lit", t.val)
        if t.kind == "param":
            self.i += 1
            if t.val == "%s":
                self.nparams += 1
                return ("param", self.nparams - 1)
            return ("nparam", t.val[2:-2])
        if t.kind == "uvar":
            self.i += 1
            return ("uvar", t.val[1:].lower())
        if t.kind == "op" and t.val == "(":
            self.i += 1
            if self.at_kw("SELECT"):
                s = self.select_stmt()
                self.expect_op(")")
                return ("subq", s)
            e = self.expr()
            if self.at_op(","):
                items = [e]
                while self.accept_op(","):
                    items.append(self.expr())
                self.expect_op(")")
                return ("tuple", items)
            self.expect_op(")")
            return e
        if t.kind == "qid":
            return self.column_or_call()
        if t.kind == "id":
            u = t.up
            if u == "NULL":
                self.i += 1
                return ("lit", None)
            if u == "TRUE":
                self.i += 1
                return ("lit", 1)
            if u == "FALSE":
                self.i += 1
                return ("lit", 0)
            if u == "EXISTS":
                self.i += 1
                self.expect_op("(")
                s = self.select_stmt()
                self.expect_op(")")
                return ("exists", s)
            if u == "CASE":
                return self.case_expr()
            if u == "CAST":
                self.i += 1
                self.expect_op("(")
                e = self.expr()
                self.expect_kw("AS")
                ty = self.ident().upper()
                if self.accept_op("("):
                    while not self.accept_op(")"):
                        self.i += 1
                self.accept_kw("INTEGER")
                self.expect_op(")")
                return ("cast", e, ty)
            if u == "INTERVAL":
                self.fail("INTERVAL")
            if u == "VALUES" and self.peek().kind == "op" and self.peek().val == "(":
                self.i += 2
                c = self.ident()
                self.expect_op(")")
                return ("values", c)
            return self.column_or_call()
        self.fail("expected expression")

    def case_expr(self):
        self.expect_kw("CASE")
        operand = None
        if not self.at_kw("WHEN"):
            operand = self.expr()
        whens = []
        while self.accept_kw("WHEN"):
            c = self.expr()
            self.expect_kw("THEN")
            whens.append((c, self.expr()))
        els = None
        if self.accept_kw("ELSE"):
            els = self.expr()
        self.expect_kw("END")
        return ("case", operand, whens, els)

    def column_or_call(self):
        name = self.ident()
        if self.at_op("(") and self.toks[self.i - 1].kind == "id":
            self.i += 1
            fn = name.upper()
            distinct = False
            args = []
            if self.accept_op(")"):
                return ("func", fn, args, False)
            if self.accept_kw("DISTINCT"):
                distinct = True
            if self.at_op("*"):
                self.i += 1
                args.append(("star", None))
            else:
                args.append(self.expr())
            while self.accept_op(","):
                args.append(self.expr())
            self.expect_op(")")
            return ("func", fn, args, distinct)
        if self.accept_op("."):
            if self.at_op("*"):
                self.i += 1
                return ("star", name)
            col = self.ident()
            if self.accept_op("."):
                # schema.table.col
                name, col = col, self.ident()
            return ("col", name, col)
        return ("col", None, name)


# ------------------------------------------------------------------------------------------------
def has_aggregate(e) -> bool:
    if isinstance(e, tuple):
        if e and e[0] == "func" and e[1] in AGGREGATES:
            return True
        if e and e[0] in ("subq", "exists"):
            return False  # aggregates inside a sub-query belong to the sub-query
        if e and e[0] == "insub":
            return has_aggregate(e[1])
        return any(has_aggregate(x) for x in e[1:])
    if isinstance(e, list):
        return any(has_aggregate(x) for x in e)
    return False


_LABEL = re.compile(r"(?m)^(\s*)([A-Za-z_]\w*)\s*:\s*(LOOP|WHILE|BEGIN|REPEAT)\b", re.I)


def parse_statement(sql: str):
    p = Parser(sql)
    st = p.statement()
    while p.accept_op(";"):
        pass
    if p.t.kind != "eof":
        p.fail("trailing input")
    return st, p.nparams


def parse_routine_body(sql: str):
    """Body of a stored program: a single statement (usually BEGIN..END). Labels 'name: LOOP' are stripped
    (the only LEAVE in the bound code leaves the innermost loop, which is checked at run time)."""
    labels = []

    def repl(m):
        labels.append(m.group(2).lower())
        return f"{m.group(1)}{m.group(3)}"

    sql2 = _LABEL.sub(repl, sql)
    p = Parser(sql2)
    st = p.statement()
    while p.accept_op(";"):
        pass
    if p.t.kind != "eof":
        p.fail("trailing input in routine body")
    return st, labels
