"""Unit tests of MiniMySQL against behaviours documented in the MySQL 8.0 reference manual (DESIGN.md Appendix E).
Run by `make setup`; a failure aborts the setup (the interpreter is in the trusted base of all batch checks)."""
import sys
from pathlib import Path

sys.path.insert(0, str(Path(__file__).resolve().parents[3]))
sys.path.insert(0, str(Path(__file__).resolve().parents[2] / "stubs"))
import pymysql.err as pe  # noqa: E402

from vlib.minimysql.engine import Engine  # noqa: E402

SCHEMA = """
CREATE TABLE IF NOT EXISTS `t` (
  `k` INT NOT NULL,
  `v` INT NOT NULL DEFAULT 0,
  `s` VARCHAR(10),
  PRIMARY KEY (`k`)
) ENGINE = InnoDB;
CREATE TABLE IF NOT EXISTS `log` (
  `id` BIGINT NOT NULL AUTO_INCREMENT,
  `what` VARCHAR(40),
  PRIMARY KEY (`id`)
) ENGINE = InnoDB;
CREATE TABLE IF NOT EXISTS `anc` (
  `g` INT NOT NULL,
  `a` INT NOT NULL,
  PRIMARY KEY (`g`, `a`)
) ENGINE = InnoDB;
CREATE TABLE IF NOT EXISTS `canc` (
  `a` INT NOT NULL,
  PRIMARY KEY (`a`)
) ENGINE = InnoDB;
"""
ROUTINES = """
DELIMITER $$
CREATE TRIGGER t_bi BEFORE INSERT ON t FOR EACH ROW
BEGIN
  INSERT INTO log (what) VALUES ('bi');
  IF NEW.k = 99 THEN SIGNAL SQLSTATE '45000' SET MESSAGE_TEXT = 'no 99'; END IF;
END $$
CREATE TRIGGER t_ai AFTER INSERT ON t FOR EACH ROW
BEGIN
  INSERT INTO log (what) VALUES ('ai');
END $$
CREATE TRIGGER t_bu BEFORE UPDATE ON t FOR EACH ROW
BEGIN
  IF NEW.v < OLD.v THEN SET NEW.v = OLD.v; END IF;
END $$
CREATE TRIGGER t_au AFTER UPDATE ON t FOR EACH ROW
BEGIN
  INSERT INTO log (what) VALUES ('au');
END $$
CREATE FUNCTION n_canc (g INT) RETURNS INT NOT DETERMINISTIC
RETURN (SELECT 1 FROM anc INNER JOIN canc ON anc.a = canc.a WHERE anc.g = g) $$
CREATE FUNCTION is_canc (g INT) RETURNS BOOLEAN NOT DETERMINISTIC
RETURN EXISTS (SELECT 1 FROM anc INNER JOIN canc ON anc.a = canc.a WHERE anc.g = g) $$
CREATE PROCEDURE addp (IN x INT, OUT y INT)
BEGIN
  SET y = IFNULL(y, 0) + x;
END $$
CREATE PROCEDURE outer_p (IN x INT)
BEGIN
  DECLARE r INT DEFAULT 5;
  DECLARE v INT;
  START TRANSACTION;
  CALL addp(x, r);
  SELECT v INTO v FROM t WHERE k = 12345;
  IF x = 1 THEN
    INSERT INTO t (k, v) VALUES (500, 1);
    ROLLBACK;
    SELECT 1 AS rc, r AS r;
  ELSE
    COMMIT;
    SELECT 0 AS rc, r AS r, v AS v;
  END IF;
END $$
CREATE PROCEDURE walk (IN g0 INT)
BEGIN
  DECLARE cur_a INT;
  DECLARE done BOOLEAN DEFAULT FALSE;
  DECLARE total INT DEFAULT 0;
  DECLARE c CURSOR FOR SELECT a FROM anc WHERE g = g0 ORDER BY a ASC;
  DECLARE CONTINUE HANDLER FOR NOT FOUND SET done = TRUE;
  OPEN c;
  l: LOOP
    FETCH c INTO cur_a;
    IF done THEN LEAVE l; END IF;
    SET total = total + cur_a;
  END LOOP;
  CLOSE c;
  SELECT total AS total;
END $$
DELIMITER ;
"""


def mk():
    e = Engine(seed=1)
    e.load_tables_from_sql(SCHEMA)
    e.load_routines_from_sql(ROUTINES, "test")
    e.finalize_routines()
    assert not e.unparsable, e.unparsable
    return e


def rows(e, t):
    return [dict(r) for r in e.table(t).rows]


def main():
    n = 0

    def ok(cond, what):
        nonlocal n
        n += 1
        if not cond:
            raise SystemExit(f"minimysql unit test failed: {what}")

    e = mk()
    s = e.connect()
    # 1. INSERT .. ON DUPLICATE KEY UPDATE: row counts 1 / 2 / 0; BEFORE INSERT fires always, AFTER INSERT only on insert
    rc, _, _ = s.execute("INSERT INTO t (k, v) VALUES (1, 10) ON DUPLICATE KEY UPDATE v = v + VALUES(v)")
    ok(rc == 1 and [r["what"] for r in rows(e, "log")] == ["bi", "ai"], "ODKU insert path")
    rc, _, _ = s.execute("INSERT INTO t (k, v) VALUES (1, 5) ON DUPLICATE KEY UPDATE v = v + VALUES(v)")
    ok(rc == 2 and rows(e, "t")[0]["v"] == 15 and [r["what"] for r in rows(e, "log")][2:] == ["bi", "au"], "ODKU update path")
    rc, _, _ = s.execute("INSERT INTO t (k, v) VALUES (1, 5) ON DUPLICATE KEY UPDATE k = k")
    ok(rc == 0, "ODKU unchanged -> 0")
    # 2. UPDATE: BEFORE trigger may rewrite NEW; AFTER fires for matched-but-unchanged rows; rowcount counts changed rows
    nlog = len(rows(e, "log"))
    rc, _, _ = s.execute("UPDATE t SET v = 3 WHERE k = 1")
    ok(rc == 0 and rows(e, "t")[0]["v"] == 15 and len(rows(e, "log")) == nlog + 1, "BEFORE UPDATE clamp + AFTER fires unchanged")
    # duplicate key and SIGNAL; statement atomicity
    try:
        s.execute("INSERT INTO t (k, v) VALUES (1, 1)")
        ok(False, "dup key must raise")
    except pe.IntegrityError as ex:
        ok(ex.args[0] == 1062, "1062")
    try:
        s.executemany("INSERT INTO t (k, v) VALUES (%s, %s)", [(2, 1), (99, 1)])
        ok(False, "signal must raise")
    except pe.OperationalError as ex:
        ok(ex.args[0] == 1644 and ex.args[1] == "no 99", "SIGNAL 1644")
    ok(len(rows(e, "t")) == 1, "multi-row insert is atomic")
    # 4. scalar sub-query with 2 rows -> 1242; 0 rows -> NULL; EXISTS
    for g, a in ((2, 2), (2, 1), (2, 0), (1, 1), (1, 0), (0, 0)):
        s.execute("INSERT INTO anc (g, a) VALUES (%s, %s)", (g, a))
    ok(s.execute("SELECT n_canc(2) AS x")[1][0]["x"] is None, "0 rows -> NULL")
    s.execute("INSERT INTO canc (a) VALUES (1)")
    ok(s.execute("SELECT n_canc(2) AS x, is_canc(2) AS y, is_canc(0) AS z")[1][0] == {"x": 1, "y": 1, "z": 0}, "1 row")
    s.execute("INSERT INTO canc (a) VALUES (0)")
    try:
        s.execute("SELECT n_canc(2) AS x")
        ok(False, "1242 must raise")
    except pe.OperationalError as ex:
        ok(ex.args[0] == 1242, "1242")
    ok(s.execute("SELECT is_canc(2) AS y")[1][0]["y"] == 1, "EXISTS with 2 rows")
    # 5. LEFT JOIN LATERAL: one row per inner row, or one NULL-extended row
    r = s.execute("SELECT anc.g, t.c IS NOT NULL AS c FROM anc LEFT JOIN LATERAL (SELECT 1 AS c FROM canc WHERE canc.a = anc.a) AS t ON TRUE "
                  "WHERE anc.g = 2 ORDER BY anc.a")[1]
    ok([x["c"] for x in r] == [1, 1, 0], "lateral")
    # 6. NULL semantics
    r = s.execute("SELECT NULL != 'x' AS a, NULL AND 0 AS b, NULL OR 1 AS c, IF(NULL, 1, 2) AS d, COALESCE(SUM(v), 0) AS e, "
                  "GREATEST(COALESCE(NULL - 3, 0), 0) AS f, 1 IN (2, NULL) AS g, NOT NULL AS h FROM t WHERE k = 777")[1][0]
    ok(r == {"a": None, "b": 0, "c": 1, "d": 2, "e": 0, "f": 0, "g": None, "h": None}, f"null semantics {r}")
    # 7. booleans are integers; 8. string/number coercion
    r = s.execute("SELECT (-1 * (1 = 1) * (NOT 0)) + ('Ready' = 'Ready') AS a, '12' = 12 AS b, CAST('7' AS SIGNED) + 1 AS c, "
                  "5 DIV 2 AS d, FLOOR(2.7) AS e, 'abc' = 'ABC' AS f")[1][0]
    ok(r == {"a": 0, "b": 1, "c": 8, "d": 2, "e": 2, "f": 1}, f"booleans/coercion {r}")
    # 9. stored programs: OUT params, NOT FOUND without handler leaves variable, START TRANSACTION/ROLLBACK, result sets
    rc, r, _ = s.execute("CALL outer_p(%s)", (2,))
    ok(r == [{"rc": 0, "r": 2, "v": None}], f"OUT param starts NULL in callee {r}")
    rc, r, _ = s.execute("CALL outer_p(%s)", (1,))
    ok(r == [{"rc": 1, "r": 1}] and not any(x["k"] == 500 for x in rows(e, "t")), "ROLLBACK inside procedure")
    rc, r, _ = s.execute("CALL walk(2)")
    ok(r == [{"total": 3}], "cursor + CONTINUE HANDLER FOR NOT FOUND")
    # locals shadow columns
    ok(s.execute("SELECT is_canc(1) AS y")[1][0]["y"] == 1, "parameters shadow column names")
    # GROUP BY / HAVING on alias / ORDER / LIMIT / user variables in INSERT..SELECT..ODKU
    s.execute("INSERT INTO t (k, v, s) VALUES (2, 4, 'a'), (3, 6, 'a'), (4, 1, 'b')")
    r = s.execute("SELECT s, CAST(COALESCE(SUM(v), 0) AS SIGNED) AS v FROM t GROUP BY s HAVING v > 1 ORDER BY v DESC LIMIT 5")[1]
    ok(r == [{"s": None, "v": 15}, {"s": "a", "v": 10}], f"group/having alias {r}")
    s.execute("INSERT INTO t (k, v) SELECT a, (@x := a * 10) FROM anc WHERE g = 2 ON DUPLICATE KEY UPDATE v = v + @x")
    got = {x["k"]: x["v"] for x in rows(e, "t")}
    ok(got[0] == 0 and got[1] == 25 and got[2] == 24, f"user variables evaluated row by row {got}")
    # multi-table UPDATE: each row once, expressions on pre-update values
    s.execute("UPDATE t INNER JOIN anc ON anc.a = t.k SET t.v = t.v + 1 WHERE anc.g IN (1, 2)")
    got2 = {x["k"]: x["v"] for x in rows(e, "t")}
    ok(got2[0] == got[0] + 1 and got2[1] == got[1] + 1 and got2[2] == got[2] + 1 and got2[3] == got[3], "multi-table update once per row")
    # transactions: rollback restores, lastrowid
    s.commit()
    _, _, lid = s.execute("INSERT INTO log (what) VALUES ('x')")
    ok(lid == len(rows(e, "log")), "lastrowid")
    s.rollback()
    ok(lid == len(rows(e, "log")) + 1, "rollback undoes insert")
    n += isolation_tests(ok)
    print(f"minimysql unit tests: {n} assertions ok")


def isolation_tests(ok):
    """vlib/minimysql/isolation.py: consistent reads, predicate locks, lock waits (InnoDB REPEATABLE READ, two transactions)"""
    from vlib.minimysql.isolation import Interleaving, LockWait

    def scenario(victim_stmts, k, intruder_stmts, setup=()):
        e = mk()
        s0 = e.connect()
        for q in setup:
            s0.execute(q)
        s0.commit()
        cc = Interleaving(e)
        e.cc = cc
        seen = {}

        def intruder():
            s2 = e.connect()
            out = []
            for q in intruder_stmts:
                out.append(s2.execute(q)[1])
            s2.commit()
            seen["intruder"] = out
            return out

        cc.arm(k, intruder)
        s1 = e.connect()
        res = [s1.execute(q)[1] for q in victim_stmts]
        s1.commit()
        e.cc = None
        return e, cc, res, seen

    before = 0
    base = ("INSERT INTO t (k, v) VALUES (1, 10)", "INSERT INTO t (k, v) VALUES (2, 20)")
    # 1. a consistent read keeps its read view: the victim does not see what the intruder committed meanwhile ...
    e, cc, res, seen = scenario(["SELECT v FROM t WHERE k = 1", "SELECT v FROM t WHERE k = 1"], 1, ["UPDATE t SET v = 11 WHERE k = 1"], base)
    ok(cc.outcome == "ran" and res[1] == [{"v": 10}] and rows(e, "t")[0]["v"] == 11, f"consistent read keeps its read view {cc.outcome} {res}")
    # ... but a locking read and DML see the latest committed row
    e, cc, res, seen = scenario(["SELECT v FROM t WHERE k = 2", "SELECT v FROM t WHERE k = 1 FOR UPDATE", "UPDATE t SET v = v + 1 WHERE k = 1"], 1,
                                ["UPDATE t SET v = 11 WHERE k = 1"], base)
    ok(cc.outcome == "ran" and res[1] == [{"v": 11}] and rows(e, "t")[0]["v"] == 12, f"locking read sees the latest committed row {res}")
    # 2. the intruder never sees uncommitted changes of the victim
    e, cc, res, seen = scenario(["UPDATE t SET v = 99 WHERE k = 1", "SELECT 1"], 1, ["SELECT v FROM t WHERE k = 1"], base)
    ok(cc.outcome == "ran" and seen["intruder"][0] == [{"v": 10}], f"no dirty read {seen}")
    # 3. FOR UPDATE on a row makes a second writer of that row wait; another row is free
    e, cc, res, seen = scenario(["SELECT v FROM t WHERE k = 1 FOR UPDATE", "SELECT 1"], 1, ["UPDATE t SET v = 0 WHERE k = 1"], base)
    ok(cc.outcome == "blocked" and rows(e, "t")[0]["v"] == 10, f"X lock blocks the writer ({cc.outcome})")
    e, cc, res, seen = scenario(["SELECT v FROM t WHERE k = 1 FOR UPDATE", "SELECT 1"], 1, ["UPDATE t SET v = 0 WHERE k = 2"], base)
    ok(cc.outcome == "ran", "lock on k = 1 does not block k = 2")
    # 4. S/S compatible, S blocks X
    e, cc, res, seen = scenario(["SELECT v FROM t WHERE k = 1 LOCK IN SHARE MODE", "SELECT 1"], 1, ["SELECT v FROM t WHERE k = 1 FOR SHARE"], base)
    ok(cc.outcome == "ran", "shared locks are compatible")
    e, cc, res, seen = scenario(["SELECT v FROM t WHERE k = 1 LOCK IN SHARE MODE", "SELECT 1"], 1, ["UPDATE t SET v = 0 WHERE k = 1"], base)
    ok(cc.outcome == "blocked", "a shared lock blocks a writer")
    # 5. a locking read that finds nothing still stops the insert of the row it looked for (gap / next-key lock)
    e, cc, res, seen = scenario(["SELECT v FROM t WHERE k = 7 FOR UPDATE", "SELECT 1"], 1, ["INSERT INTO t (k, v) VALUES (7, 1)"], base)
    ok(cc.outcome == "blocked", "insert into a locked gap waits")
    # 6. a scan without key equality locks the table
    e, cc, res, seen = scenario(["UPDATE t SET v = v + 1 WHERE v > 100", "SELECT 1"], 1, ["UPDATE t SET v = 0 WHERE k = 2"], base)
    ok(cc.outcome == "blocked", "a full scan locks every row")
    # 7. INSERT .. ON DUPLICATE KEY UPDATE locks the duplicate it updates
    e, cc, res, seen = scenario(["INSERT INTO t (k, v) VALUES (1, 1) ON DUPLICATE KEY UPDATE v = v + 1", "SELECT 1"], 1,
                                ["UPDATE t SET v = 0 WHERE k = 1"], base)
    ok(cc.outcome == "blocked", "ODKU locks the duplicate")
    # 8. a plain SELECT inside a stored function is a consistent read even if the caller says FOR SHARE: no lock
    cs = base + ("INSERT INTO anc (g, a) VALUES (5, 5)",)
    e, cc, res, seen = scenario(["SELECT is_canc(5) AS c FOR SHARE", "SELECT is_canc(5) AS c FOR SHARE"], 1, ["INSERT INTO canc (a) VALUES (5)"], cs)
    ok(cc.outcome == "ran" and res[1] == [{"c": 0}], f"FOR SHARE does not reach into a stored function {cc.outcome} {res}")
    # 9. rows written inside a trigger are locked
    e, cc, res, seen = scenario(["INSERT INTO t (k, v) VALUES (8, 1)", "SELECT 1"], 1, ["UPDATE log SET what = 'z' WHERE id = 5"], base)
    ok(cc.outcome == "blocked", f"rows written by a trigger are locked ({cc.outcome})")
    # 10. a table probed by primary key through a join: only the probed rows are locked (another row of it stays free) ...
    j = base + ("INSERT INTO anc (g, a) VALUES (5, 1)", "INSERT INTO anc (g, a) VALUES (6, 2)", "INSERT INTO canc (a) VALUES (1)")
    e, cc, res, seen = scenario(["UPDATE t INNER JOIN anc ON anc.a = t.k SET t.v = t.v + 1 WHERE anc.g = 5", "SELECT 1"], 1, ["UPDATE t SET v = 0 WHERE k = 2"], j)
    ok(cc.outcome == "ran", f"a probed table is locked row by row ({cc.outcome})")
    e, cc, res, seen = scenario(["UPDATE t INNER JOIN anc ON anc.a = t.k SET t.v = t.v + 1 WHERE anc.g = 5", "SELECT 1"], 1, ["UPDATE t SET v = 0 WHERE k = 1"], j)
    ok(cc.outcome == "blocked", "the probed row itself is locked")
    # ... and a probe that finds nothing keeps others from inserting the missing row (gap lock)
    e, cc, res, seen = scenario(["SELECT 1 FROM anc INNER JOIN canc ON anc.a = canc.a WHERE anc.g = 6 FOR SHARE", "SELECT 1"], 1,
                                ["INSERT INTO canc (a) VALUES (2)"], j)
    ok(cc.outcome == "blocked", f"a probe that finds nothing locks the gap ({cc.outcome})")
    # 11. FOR SHARE OF t: the other tables of the statement are consistent reads without locks
    e, cc, res, seen = scenario(["SELECT 1 FROM anc INNER JOIN canc ON anc.a = canc.a WHERE anc.g = 6 FOR SHARE OF anc", "SELECT 1"], 1,
                                ["INSERT INTO canc (a) VALUES (2)"], j)
    ok(cc.outcome == "ran", f"FOR SHARE OF names the locked tables ({cc.outcome})")
    return 16


if __name__ == "__main__":
    main()
