"""MiniMySQL: a small in-memory interpreter for the MySQL subset of batch/sql (tables, stored procedures,
functions, triggers) and of the queries embedded in batch/batch/**.py.

Not a database: no indexes, no locking, no isolation.  Each statement is atomic (undo log), transactions are
delimited by START TRANSACTION / COMMIT / ROLLBACK or by the session API, and the harness runs one transaction
at a time (assumption: transactions are serialisable; see DESIGN.md section 2.3b).
"""
from __future__ import annotations

import json
import math
import random
import re

from .parser import AGGREGATES, Parser, UnsupportedSQL, has_aggregate, parse_routine_body, parse_statement

try:
    import pymysql.err as _err
except Exception:  # pragma: no cover - the stub is on sys.path in every harness
    _err = None


class SQLError(Exception):
    def __init__(self, cls, code, msg):
        super().__init__(code, msg)
        self.cls, self.code, self.msg = cls, code, msg


def _raise(cls_name, code, msg):
    if _err is not None:
        raise getattr(_err, cls_name)(code, msg)
    raise SQLError(cls_name, code, msg)


class _Leave(Exception):
    def __init__(self, label):
        self.label = label


class _Return(Exception):
    def __init__(self, value):
        self.value = value


class Column:
    __slots__ = ("name", "kind", "notnull", "default", "autoinc", "has_default")

    def __init__(self, name, kind, notnull=False, default=None, autoinc=False, has_default=False):
        self.name, self.kind, self.notnull, self.default, self.autoinc, self.has_default = name, kind, notnull, default, autoinc, has_default


class Table:
    def __init__(self, name):
        self.name = name
        self.cols: list[Column] = []
        self.colmap: dict[str, Column] = {}
        self.pk: list[str] = []
        self.uniques: list[list[str]] = []
        self.fks: list[tuple] = []
        self.rows: list[dict] = []
        self.autoinc_next = 1

    def add_col(self, c: Column):
        if c.name in self.colmap:
            return
        self.cols.append(c)
        self.colmap[c.name] = c
        for r in self.rows:
            r[c.name] = c.default

    def keys(self):
        ks = []
        if self.pk:
            ks.append(self.pk)
        ks.extend(self.uniques)
        return ks


class Routine:
    def __init__(self, kind, name, params, body, source_file=None, returns=None):
        self.kind, self.name, self.params, self.body, self.source_file, self.returns = kind, name, params, body, source_file, returns


class Trigger:
    def __init__(self, name, timing, event, table, body, source_file=None):
        self.name, self.timing, self.event, self.table, self.body, self.source_file = name, timing, event, table, body, source_file


class NullRow(dict):
    pass


# ------------------------------------------------------------------------------------------------------
class Env:
    """Evaluation environment: frames (innermost first) of alias->row, routine variables, parameters."""
    __slots__ = ("sess", "frames", "vars", "params", "group", "out", "ins_row", "ins_table")

    def __init__(self, sess, frames=(), vars=None, params=None, group=None, out=None, ins_row=None, ins_table=None):
        self.sess = sess
        self.frames = frames
        self.vars = vars
        self.params = params
        self.group = group
        self.out = out
        self.ins_row = ins_row
        self.ins_table = ins_table

    def push(self, frame):
        return Env(self.sess, (frame,) + tuple(self.frames), self.vars, self.params, None, None, self.ins_row, self.ins_table)

    def with_group(self, group, frame):
        e = Env(self.sess, (frame,) + tuple(self.frames[1:]) if self.frames else (frame,), self.vars, self.params, group, self.out,
                self.ins_row, self.ins_table)
        return e


def _num(v):
    """MySQL string->number coercion."""
    if v is None:
        return None
    if isinstance(v, bool):
        return int(v)
    if isinstance(v, (int, float)):
        return v
    if isinstance(v, str):
        m = re.match(r"\s*[-+]?(\d+\.?\d*([eE][-+]?\d+)?|\.\d+)", v)
        if not m:
            return 0
        t = m.group(0)
        try:
            return int(t)
        except ValueError:
            return float(t)
    raise UnsupportedSQL(f"cannot coerce {type(v)} to number")


def _truth(v):
    if v is None:
        return None
    n = _num(v)
    return n != 0


def _cmp_vals(a, b):
    """Returns (a, b) coerced for comparison following MySQL rules (numbers win over strings)."""
    if isinstance(a, str) and isinstance(b, str):
        return a.casefold().rstrip(" "), b.casefold().rstrip(" ")
    if isinstance(a, str) or isinstance(b, str):
        return _num(a), _num(b)
    if isinstance(a, bool):
        a = int(a)
    if isinstance(b, bool):
        b = int(b)
    return a, b


class Engine:
    def __init__(self, seed=0):
        self.tables: dict[str, Table] = {}
        self.routines: dict[str, Routine] = {}
        self.triggers: dict[tuple, list[Trigger]] = {}
        self.rng = random.Random(seed)
        self.utc_date = "2026-01-01"
        self.stmt_cache: dict[str, tuple] = {}
        self.fk_checks = True
        self.stats = {"statements": 0, "calls": {}, "trigger_fires": {}}
        self.trace = None  # optional callable(event dict)
        self.cc = None     # optional isolation.Interleaving (two-transaction interleavings); None: transactions are atomic

    # ---- DDL ----------------------------------------------------------------------------------------
    def load_tables_from_sql(self, text: str, only=None):
        """CREATE TABLE / CREATE [UNIQUE] INDEX statements of a schema file (everything else in it is ignored:
        estimated-current.sql is a description, not a script MySQL ever ran)."""
        for m in re.finditer(r"(?is)CREATE\s+TABLE\s+(?:IF\s+NOT\s+EXISTS\s+)?`?(\w+)`?\s*\((.*?)\)\s*ENGINE\s*=\s*InnoDB\s*;", text):
            name = m.group(1).lower()
            if only and name not in only:
                continue
            self._create_table(name, m.group(2))
        for m in re.finditer(r"(?is)CREATE\s+UNIQUE\s+INDEX\s+`?\w+`?\s+ON\s+`?(\w+)`?\s*\(([^)]*)\)", text):
            t = self.tables.get(m.group(1).lower())
            if t is not None:
                t.uniques.append([c.strip(" `").lower() for c in m.group(2).split(",")])

    def _split_top(self, body):
        parts, depth, cur = [], 0, []
        in_str = None
        i = 0
        # strip comments
        body = re.sub(r"#[^\n]*", "", body)
        for ch in body:
            if in_str:
                cur.append(ch)
                if ch == in_str:
                    in_str = None
                continue
            if ch in "'\"":
                in_str = ch
                cur.append(ch)
                continue
            if ch == "(":
                depth += 1
            elif ch == ")":
                depth -= 1
            if ch == "," and depth == 0:
                parts.append("".join(cur).strip())
                cur = []
            else:
                cur.append(ch)
        if "".join(cur).strip():
            parts.append("".join(cur).strip())
        # tolerate a missing comma before a key clause (attempt_resources in estimated-current.sql)
        out = []
        for p in parts:
            sub = re.split(r"\n\s*(?=(?:PRIMARY\s+KEY|FOREIGN\s+KEY|UNIQUE)\b)", p, flags=re.I)
            out.extend(x.strip() for x in sub if x.strip())
        return out

    def _create_table(self, name, body):
        t = Table(name)
        for part in self._split_top(body):
            up = part.upper()
            if up.startswith("PRIMARY KEY"):
                t.pk = [c.strip(" `").lower() for c in re.search(r"\((.*)\)", part, re.S).group(1).split(",")]
            elif up.startswith("UNIQUE"):
                t.uniques.append([c.strip(" `").lower() for c in re.search(r"\((.*?)\)", part, re.S).group(1).split(",")])
            elif up.startswith("FOREIGN KEY"):
                m = re.search(r"FOREIGN\s+KEY\s*\((.*?)\)\s*REFERENCES\s+`?(\w+)`?\s*\((.*?)\)", part, re.I | re.S)
                t.fks.append(([c.strip(" `").lower() for c in m.group(1).split(",")], m.group(2).lower(),
                              [c.strip(" `").lower() for c in m.group(3).split(",")]))
            elif up.startswith(("KEY ", "INDEX ", "CONSTRAINT ")):
                continue
            else:
                t.add_col(self._parse_coldef(part, t))
        self.tables[name] = t

    def _parse_coldef(self, text, table):
        p = Parser(text)
        name = p.ident()
        kind = p.type_name()
        col = Column(name, kind)
        while p.t.kind != "eof":
            if p.accept_kw("NOT"):
                p.expect_kw("NULL")
                col.notnull = True
            elif p.accept_kw("NULL"):
                pass
            elif p.accept_kw("DEFAULT"):
                e = p.unary_expr()
                col.has_default = True
                if e[0] == "lit":
                    col.default = e[1]
                elif e[0] == "neg" and e[1][0] == "lit":
                    col.default = -e[1][1]
                elif e[0] == "col" and e[2] == "current_timestamp":
                    col.default = None
                else:
                    raise UnsupportedSQL(f"default {e}")
            elif p.accept_kw("AUTO_INCREMENT"):
                col.autoinc = True
            elif p.accept_kw("UNIQUE"):
                table.uniques.append([name])
            elif p.accept_kw("PRIMARY"):
                p.expect_kw("KEY")
                table.pk = [name]
            elif p.accept_kw("COLLATE"):
                p.ident()
            elif p.accept_kw("ON"):
                p.expect_kw("UPDATE")
                p.ident()
            elif p.accept_kw("COMMENT"):
                p.i += 1
            else:
                p.fail("column attribute")
        if col.kind == "bool" and isinstance(col.default, bool):
            col.default = int(col.default)
        return col

    def apply_add_columns(self, text: str):
        for m in re.finditer(r"(?is)ALTER\s+TABLE\s+`?(\w+)`?\s+ADD\s+COLUMN\s+(.*?)(?:,\s*ALGORITHM\s*=\s*\w+)?(?:,\s*LOCK\s*=\s*\w+)?\s*;", text):
            t = self.tables.get(m.group(1).lower())
            if t is None:
                continue
            coltext = m.group(2).strip()
            name = coltext.split()[0].strip("`").lower()
            if name not in t.colmap:
                t.add_col(self._parse_coldef(coltext, t))

    def load_routines_from_sql(self, text: str, source_file=None):
        """Applies the CREATE/DROP PROCEDURE|FUNCTION|TRIGGER statements of one migration file, in order."""
        # split by DELIMITER directives
        delim = ";"
        pos = 0
        chunks = []
        for m in re.finditer(r"(?im)^\s*DELIMITER\s+(\S+)\s*$", text):
            chunks.append((delim, text[pos:m.start()]))
            delim = m.group(1)
            pos = m.end()
        chunks.append((delim, text[pos:]))
        for delim, chunk in chunks:
            if delim == ";":
                stmts = self._split_simple(chunk)
            else:
                stmts = chunk.split(delim)
            for st in stmts:
                self._apply_routine_stmt(st, source_file)

    def _split_simple(self, chunk):
        # top-level ';' split that keeps BEGIN..END bodies together is not needed for ';'-delimited regions:
        # routine definitions with bodies only occur in '$$' regions, except single-statement functions
        return chunk.split(";")

    def _apply_routine_stmt(self, st, source_file):
        """Records raw definitions; finalize_routines() parses the survivors (old migrations define routines with
        constructs outside the subset that are dropped again later)."""
        if not hasattr(self, "_raw"):
            self._raw = {}
        for m in re.finditer(r"(?is)\bDROP\s+(PROCEDURE|FUNCTION|TRIGGER)\s+(?:IF\s+EXISTS\s+)?`?(\w+)`?", st):
            self._raw.pop((m.group(1).lower() if m.group(1).lower() == "trigger" else "routine", m.group(2).lower()), None)
        m = re.search(r"(?is)\bCREATE\s+(?:DEFINER\s*=\s*\S+\s+)?(PROCEDURE|FUNCTION|TRIGGER)\s+`?(\w+)`?", st)
        if not m:
            return
        kind, name = m.group(1).lower(), m.group(2).lower()
        self._raw[("trigger" if kind == "trigger" else "routine", name)] = (kind, name, st[m.end():], source_file)

    def finalize_routines(self):
        self.routines = {}
        self.triggers = {}
        self.unparsable = {}
        for (_k, _n), (kind, name, rest, source_file) in getattr(self, "_raw", {}).items():
            try:
                self._define(kind, name, rest, source_file)
            except UnsupportedSQL as ex:
                self.unparsable[name] = f"{source_file}: {ex}"

    def _define(self, kind, name, rest, source_file):
        if kind == "trigger":
            mm = re.match(r"(?is)\s*(BEFORE|AFTER)\s+(INSERT|UPDATE|DELETE)\s+ON\s+`?(\w+)`?\s+FOR\s+EACH\s+ROW\s+(.*)$", rest)
            if not mm:
                raise UnsupportedSQL(f"trigger header {rest[:80]!r}")
            body, _labels = parse_routine_body(mm.group(4).strip())
            trg = Trigger(name, mm.group(1).lower(), mm.group(2).lower(), mm.group(3).lower(), body, source_file)
            self.triggers.setdefault((trg.table, trg.timing, trg.event), []).append(trg)
            return
        # parameters
        i = rest.index("(")
        depth = 0
        j = i
        while True:
            if rest[j] == "(":
                depth += 1
            elif rest[j] == ")":
                depth -= 1
                if depth == 0:
                    break
            j += 1
        ptext = rest[i + 1:j]
        params = []
        for part in [x.strip() for x in self._split_top(ptext)]:
            if not part:
                continue
            words = part.split()
            mode = "in"
            if words[0].upper() in ("IN", "OUT", "INOUT"):
                mode = words[0].lower()
                words = words[1:]
            pp = Parser(" ".join(words))
            pname = pp.ident()
            pkind = pp.type_name()
            params.append((mode, pname, pkind))
        after = rest[j + 1:]
        returns = None
        if kind == "function":
            mm = re.match(r"(?is)\s*RETURNS\s+(\w+(?:\s*\([^)]*\))?)\s*((?:NOT\s+)?DETERMINISTIC|READS\s+SQL\s+DATA|NO\s+SQL|CONTAINS\s+SQL|\s)*", after)
            returns = Parser(mm.group(1)).type_name()
            after = after[mm.end():]
        body, _labels = parse_routine_body(after.strip())
        self.routines[name] = Routine(kind, name, params, body, source_file, returns)

    def clone(self, seed=0):
        """A fresh engine with the same schema, routines, parsed-statement cache and a copy of the rows."""
        e = Engine(seed)
        for name, t in self.tables.items():
            t2 = Table(name)
            t2.cols, t2.colmap, t2.pk, t2.uniques, t2.fks = t.cols, t.colmap, t.pk, t.uniques, t.fks
            t2.rows = [dict(r) for r in t.rows]
            t2.autoinc_next = t.autoinc_next
            e.tables[name] = t2
        e.routines, e.triggers = self.routines, self.triggers
        e.unparsable = getattr(self, "unparsable", {})
        e.stmt_cache = self.stmt_cache
        e.utc_date = self.utc_date
        return e

    def save_state(self):
        """the rows of every table (for load_state: rewinding the database in place)"""
        return {"rows": {n: [dict(r) for r in t.rows] for n, t in self.tables.items()},
                "autoinc": {n: t.autoinc_next for n, t in self.tables.items()}, "utc_date": self.utc_date}

    def load_state(self, st):
        for n, t in self.tables.items():
            t.rows = [dict(r) for r in st["rows"][n]]
            t.autoinc_next = st["autoinc"][n]
        self.utc_date = st["utc_date"]      # (the random generator - RAND() picks the shard tokens - is not rewound: variety is wanted)

    # ---- sessions -------------------------------------------------------------------------------------
    def connect(self):
        return Session(self)

    def table(self, name) -> Table:
        t = self.tables.get(name)
        if t is None:
            raise UnsupportedSQL(f"unknown table {name}")
        return t

    def parse(self, sql):
        c = self.stmt_cache.get(sql)
        if c is None:
            c = parse_statement(sql)
            self.stmt_cache[sql] = c
        return c

    # convenience for harnesses (not SQL): direct row access
    def rows(self, table, **eq):
        return [dict(r) for r in self.table(table).rows if all(r.get(k) == v for k, v in eq.items())]


# ------------------------------------------------------------------------------------------------------
class Session:
    def __init__(self, eng: Engine):
        self.eng = eng
        self.undo: list = []
        self.in_tx = False
        self.uservars: dict = {}
        self.row_count = 0
        self.last_insert_id = 0
        self.result_sets: list = []
        self.depth = 0
        self.closed = False
        self.ctes = []             # stack of {name: (cols, rows)} of the WITH clauses being evaluated
        self.rowlevel = {}         # id(from clause) -> {alias: (table, mode)}: tables of the current locking statement probed by primary key
        self.lock_only = None      # aliases named by FOR UPDATE / SHARE OF ... of the locking read being evaluated (None: all tables)
        # isolation layer (used only while eng.cc is set)
        self.nested = 0            # > 0 inside a trigger or a stored function
        self.mode = "snapshot"     # "current" while a locking read or a DML statement is evaluated (they read the latest committed rows)
        self.held = []
        self.gaps = []             # gap locks (table, key-prefix predicate): stop inserts of matching rows by other transactions
        self.snap = None
        self.read_view = False
        self.tx_stmts = 0
        self.own_written = set()
        self.own_deleted = set()
        self.own_inserted = []

    # ---- DB-API-ish surface used by the fake aiomysql -------------------------------------------------
    def execute(self, sql, args=None):
        st, nparams = self.eng.parse(sql)
        if args is None:
            params = []
        elif isinstance(args, dict):
            params = args
        else:
            params = list(args) if isinstance(args, (list, tuple)) else [args]
        if not isinstance(params, dict) and nparams != len(params):
            raise UnsupportedSQL(f"statement has {nparams} placeholders, {len(params)} arguments given: {sql[:80]!r}")
        self.eng.stats["statements"] += 1
        self.result_sets = []
        mark = len(self.undo)
        lastid_before = self.last_insert_id
        try:
            env = Env(self, (), None, params)
            res = self.exec_stmt(st, env, top=True)
        except BaseException:
            self._undo_to(mark)
            raise
        rows = None
        rc = self.row_count
        if st[0] == "call" if isinstance(st, tuple) else False:
            if self.result_sets:
                cols, data = self.result_sets[0]
                rows = [dict(zip(cols, r)) for r in data]
                rc = len(rows)
        elif isinstance(st, dict):
            cols, data = res
            rows = [dict(zip(cols, r)) for r in data]
            rc = len(rows)
        lastid = self.last_insert_id if self.last_insert_id != lastid_before else None
        return rc, rows, (self.last_insert_id if isinstance(st, tuple) and st[0] == "insert" else lastid)

    def executemany(self, sql, args_array):
        """aiomysql turns INSERT ... VALUES executemany into ONE multi-row statement: atomic."""
        mark = len(self.undo)
        n = 0
        try:
            for a in args_array:
                rc, _rows, _id = self.execute(sql, a)
                n += rc
        except BaseException:
            self._undo_to(mark)
            raise
        return n

    def commit(self):
        self.undo.clear()
        self.in_tx = False
        if self.eng.cc is not None:
            self.eng.cc.release(self)

    def rollback(self):
        self._undo_to(0)
        self.in_tx = False
        if self.eng.cc is not None:
            self.eng.cc.release(self)

    def close(self):
        self.closed = True

    def _undo_to(self, mark):
        while len(self.undo) > mark:
            op = self.undo.pop()
            k = op[0]
            if k == "ins":
                _, t, row = op
                for i in range(len(t.rows) - 1, -1, -1):
                    if t.rows[i] is row:
                        del t.rows[i]
                        break
            elif k == "del":
                _, t, row, idx = op
                t.rows.insert(idx, row)
            elif k == "upd":
                _, t, row, old = op
                row.update(old)
            elif k == "autoinc":
                _, t, old = op
                t.autoinc_next = old

    # ---- statements ---------------------------------------------------------------------------------------
    def exec_stmt(self, st, env: Env, top=False):
        cc = self.eng.cc
        if cc is not None and (isinstance(st, dict) or st[0] in ("insert", "update", "delete")):
            from .isolation import _has_lock

            current = not isinstance(st, dict) or _has_lock(st)
            cc.on_statement(self, st, env, self.nested == 0, current)
            saved_mode = self.mode
            self.mode = "current" if current else "snapshot"
            try:
                return self._exec_stmt(st, env, top)
            finally:
                self.mode = saved_mode
        return self._exec_stmt(st, env, top)

    def _exec_stmt(self, st, env: Env, top=False):
        if isinstance(st, dict):
            if st.get("into"):
                self.select_into(st, env)
                return None
            cols, rows = self.run_select(st, env)
            rows = list(rows)
            if not top and env.vars is not None:
                # a SELECT without INTO inside a routine is a result set for the caller
                self.result_sets.append((cols, rows))
                return None
            return cols, rows
        k = st[0]
        if k == "insert":
            return self.exec_insert(st, env)
        if k == "update":
            return self.exec_update(st, env)
        if k == "delete":
            return self.exec_delete(st, env)
        if k == "call":
            args = st[2]
            return self.call_procedure(st[1], args, env)
        if k == "set":
            for target, e in st[1]:
                v = self.ev(e, env)
                self.assign(target, v, env)
            return None
        if k == "block":
            for s in st[1]:
                self.exec_stmt(s, env)
            return None
        if k == "declare":
            _, names, ty, default = st
            v = self.ev(default, env) if default is not None else None
            for n in names:
                env.vars[n] = self.coerce(v, ty)
                env.vars.setdefault("__types__", {})[n] = ty
            return None
        if k == "cursor":
            env.vars.setdefault("__cursors__", {})[st[1]] = {"sel": st[2], "rows": None, "pos": 0}
            return None
        if k == "handler":
            env.vars.setdefault("__handlers__", {})[st[2]] = (st[1], st[3])
            return None
        if k == "if":
            for cond, body in st[1]:
                if _truth(self.ev(cond, env)):
                    for s in body:
                        self.exec_stmt(s, env)
                    return None
            if st[2] is not None:
                for s in st[2]:
                    self.exec_stmt(s, env)
            return None
        if k == "loop":
            try:
                n = 0
                while True:
                    n += 1
                    if n > 100000:
                        raise UnsupportedSQL("loop does not terminate")
                    for s in st[2]:
                        self.exec_stmt(s, env)
            except _Leave:
                return None
        if k == "while":
            try:
                n = 0
                while _truth(self.ev(st[2], env)):
                    n += 1
                    if n > 100000:
                        raise UnsupportedSQL("loop does not terminate")
                    for s in st[3]:
                        self.exec_stmt(s, env)
            except _Leave:
                pass
            return None
        if k == "leave":
            raise _Leave(st[1])
        if k == "open":
            c = env.vars["__cursors__"][st[1]]
            if self.eng.cc is not None:
                self.exec_cursor_select(c, env)
                return None
            cols, rows = self.run_select(c["sel"], env)
            c["rows"] = list(rows)
            c["pos"] = 0
            return None
        if k == "close":
            env.vars["__cursors__"][st[1]]["rows"] = None
            return None
        if k == "fetch":
            c = env.vars["__cursors__"][st[1]]
            if c["rows"] is None:
                _raise("OperationalError", 1326, "Cursor is not open")
            if c["pos"] >= len(c["rows"]):
                self.not_found(env)
                return None
            row = c["rows"][c["pos"]]
            c["pos"] += 1
            for name, v in zip(st[2], row):
                self.assign(("var", name), v, env)
            return None
        if k == "start":
            # implicit commit of whatever was open, then a new transaction
            self.undo.clear()
            self.in_tx = True
            if self.eng.cc is not None:
                self.eng.cc.release(self)
            return None
        if k == "commit":
            self.undo.clear()
            self.in_tx = False
            if self.eng.cc is not None:
                self.eng.cc.release(self)
            return None
        if k == "rollback":
            self._undo_to(0)
            self.in_tx = False
            if self.eng.cc is not None:
                self.eng.cc.release(self)
            return None
        if k == "return":
            raise _Return(self.ev(st[1], env))
        if k == "signal":
            msg = self.ev(st[2], env) if st[2] is not None else "Unhandled user-defined exception condition"
            _raise("OperationalError", 1644, msg)
        raise UnsupportedSQL(f"statement kind {k}")

    def exec_cursor_select(self, c, env):
        from .isolation import _has_lock

        current = _has_lock(c["sel"])
        self.eng.cc.on_statement(self, c["sel"], env, self.nested == 0, current)
        saved_mode = self.mode
        self.mode = "current" if current else "snapshot"
        try:
            _cols, rows = self.run_select(c["sel"], env)
            c["rows"] = list(rows)
            c["pos"] = 0
        finally:
            self.mode = saved_mode

    def not_found(self, env):
        h = (env.vars or {}).get("__handlers__", {}).get("not found") if env.vars is not None else None
        if h is not None:
            self.exec_stmt(h[1], env)
            if h[0] == "exit":
                raise _Leave(None)

    def assign(self, target, v, env):
        if target[0] == "uvar":
            self.uservars[target[1]] = v
        elif target[0] == "var":
            name = target[1]
            if env.vars is None or name not in env.vars:
                raise UnsupportedSQL(f"assignment to undeclared variable {name}")
            ty = env.vars.get("__types__", {}).get(name)
            env.vars[name] = self.coerce(v, ty) if ty else v
        elif target[0] == "col":
            alias, col = target[1], target[2]
            for f in env.frames:
                if alias in f:
                    f[alias][col] = v
                    return
            raise UnsupportedSQL(f"SET {alias}.{col}: no such row")
        else:
            raise UnsupportedSQL(str(target))

    def coerce(self, v, kind):
        if v is None:
            return None
        if kind in ("int", "bool"):
            if isinstance(v, bool):
                return int(v)
            if isinstance(v, int):
                return v
            if isinstance(v, float):
                return int(math.floor(v + 0.5)) if v >= 0 else -int(math.floor(-v + 0.5))
            n = _num(v)
            return int(n) if not isinstance(n, float) else int(math.floor(n + 0.5))
        if kind == "str":
            if isinstance(v, bool):
                return str(int(v))
            if isinstance(v, (bytes, bytearray)):
                return bytes(v).decode("utf-8", "replace")
            return v if isinstance(v, str) else (json.dumps(v) if isinstance(v, (dict, list)) else str(v))
        if kind == "float":
            return float(_num(v))
        if kind == "date":
            return str(v)
        return v

    # ---- routines -------------------------------------------------------------------------------------------
    def call_procedure(self, name, arg_exprs, env):
        r = self.eng.routines.get(name)
        if name in getattr(self.eng, "unparsable", {}):
            raise UnsupportedSQL(f"routine {name} is outside the supported subset: {self.eng.unparsable[name]}")
        if r is None or r.kind != "procedure":
            _raise("OperationalError", 1305, f"PROCEDURE {name} does not exist")
        if len(arg_exprs) != len(r.params):
            _raise("OperationalError", 1318, f"Incorrect number of arguments for PROCEDURE {name}")
        self.eng.stats["calls"][name] = self.eng.stats["calls"].get(name, 0) + 1
        vars = {"__types__": {}}
        outs = []
        for (mode, pname, pkind), ae in zip(r.params, arg_exprs):
            vars["__types__"][pname] = pkind
            if mode == "in":
                vars[pname] = self.coerce(self.ev(ae, env), pkind)
            elif mode == "out":
                vars[pname] = None
                outs.append((pname, ae))
            else:
                vars[pname] = self.coerce(self.ev(ae, env), pkind)
                outs.append((pname, ae))
        sub = Env(self, (), vars, env.params)
        self.depth += 1
        try:
            self.exec_stmt(r.body, sub)
        except _Leave:
            pass
        finally:
            self.depth -= 1
        for pname, ae in outs:
            if ae[0] == "col" and ae[1] is None:
                self.assign(("var", ae[2]), vars[pname], env)
            elif ae[0] == "uvar":
                self.uservars[ae[1]] = vars[pname]
            else:
                raise UnsupportedSQL("OUT argument must be a variable")
        return None

    def call_function(self, name, args):
        r = self.eng.routines.get(name)
        if r is None or r.kind != "function":
            _raise("OperationalError", 1305, f"FUNCTION {name} does not exist")
        self.eng.stats["calls"][name] = self.eng.stats["calls"].get(name, 0) + 1
        vars = {"__types__": {}}
        for (mode, pname, pkind), v in zip(r.params, args):
            vars[pname] = self.coerce(v, pkind)
            vars["__types__"][pname] = pkind
        sub = Env(self, (), vars, None)
        self.nested += 1
        saved_mode = self.mode
        self.mode = "snapshot"     # the statements of a stored function are statements of their own: a locking clause of the caller does not reach them
        if self.eng.cc is not None and not self.read_view:
            self.read_view = True
        try:
            self.exec_stmt(r.body, sub)
        except _Return as ret:
            return self.coerce(ret.value, r.returns)
        finally:
            self.nested -= 1
            self.mode = saved_mode
        _raise("OperationalError", 1321, f"FUNCTION {name} ended without RETURN")

    def fire(self, table, timing, event, old, new):
        for trg in self.eng.triggers.get((table, timing, event), ()):
            self.eng.stats["trigger_fires"][trg.name] = self.eng.stats["trigger_fires"].get(trg.name, 0) + 1
            frame = {}
            if old is not None:
                frame["old"] = old
            if new is not None:
                frame["new"] = new
            env = Env(self, (frame,), {"__types__": {}}, None)
            saved_rc = self.row_count
            self.nested += 1
            saved_mode = self.mode
            self.mode = "snapshot"  # likewise for the statements of a trigger body (its DML and locking reads switch to "current" themselves)
            try:
                self.exec_stmt(trg.body, env)
            except _Leave:
                pass
            finally:
                self.nested -= 1
                self.mode = saved_mode
            self.row_count = saved_rc

    # ---- DML ----------------------------------------------------------------------------------------------------
    def _find_dup(self, t: Table, row, exclude=None):
        for key in t.keys():
            vals = [row.get(c) for c in key]
            if any(v is None for v in vals):
                continue
            cv = [_cmp_vals(v, v)[0] for v in vals]
            for r in t.rows:
                if r is exclude:
                    continue
                ok = True
                for c, v in zip(key, cv):
                    rv = r.get(c)
                    if rv is None or _cmp_vals(rv, rv)[0] != v:
                        ok = False
                        break
                if ok:
                    return r, key
        return None, None

    def _check_fks(self, t: Table, row):
        if not self.eng.fk_checks:
            return
        for cols, rt, rcols in t.fks:
            vals = [row.get(c) for c in cols]
            if any(v is None for v in vals):
                continue
            ref = self.eng.tables.get(rt)
            if ref is None:
                continue
            found = False
            for r in ref.rows:
                if all(_eq(r.get(rc), v) for rc, v in zip(rcols, vals)):
                    found = True
                    break
            if not found:
                _raise("IntegrityError", 1452, f"Cannot add or update a child row: a foreign key constraint fails ({t.name} -> {rt})")

    def _new_row(self, t: Table, cols, values):
        row = {}
        given = dict(zip(cols, values))
        for c in t.cols:
            if c.name in given:
                v = self.coerce(given[c.name], c.kind)
            else:
                v = c.default
                if v is None and c.notnull and not c.autoinc and not c.has_default:
                    _raise("OperationalError", 1364, f"Field '{c.name}' doesn't have a default value")
            row[c.name] = v
        for c in given:
            if c not in t.colmap:
                _raise("OperationalError", 1054, f"Unknown column '{c}' in 'field list'")
        return row

    def _insert_row(self, t: Table, row, odku, env, src_frame=None):
        """Returns the affected-rows contribution: 1 inserted, 2 updated via ODKU, 0 unchanged."""
        self.fire(t.name, "before", "insert", None, row)
        for c in t.cols:
            if c.autoinc and row.get(c.name) is None:
                self.undo.append(("autoinc", t, t.autoinc_next))
                row[c.name] = t.autoinc_next
                t.autoinc_next += 1
                self.last_insert_id = row[c.name]
            elif c.autoinc and row.get(c.name) is not None and row[c.name] >= t.autoinc_next:
                self.undo.append(("autoinc", t, t.autoinc_next))
                t.autoinc_next = row[c.name] + 1
        for c in t.cols:
            if c.notnull and row.get(c.name) is None:
                _raise("IntegrityError", 1048, f"Column '{c.name}' cannot be null")
        dup, key = self._find_dup(t, row)
        if dup is not None:
            if odku is None:
                kv = "-".join(str(row.get(c)) for c in key)
                _raise("IntegrityError", 1062, f"Duplicate entry '{kv}' for key '{t.name}.{'PRIMARY' if key == t.pk else '_'.join(key)}'")
            # update path
            if self.eng.cc is not None:
                self.eng.cc.on_touch(self, t, dup)
            work = dict(dup)
            frame = {t.name: work}
            # the target table's columns win over same-named columns of the SELECT's source tables
            uenv = Env(self, (frame,) + ((src_frame,) if src_frame else ()) + tuple(env.frames), env.vars, env.params,
                       None, None, row, t)
            for (tbl, col, e) in odku:
                v = self.ev(e, uenv)
                cdef = t.colmap.get(col)
                if cdef is None:
                    _raise("OperationalError", 1054, f"Unknown column '{col}'")
                work[col] = self.coerce(v, cdef.kind)
            new = work
            return 2 if self._apply_update(t, dup, new) else 0
        self._check_fks(t, row)
        if self.eng.cc is not None:
            self.eng.cc.on_insert(self, t, row)
        t.rows.append(row)
        self.undo.append(("ins", t, row))
        self.fire(t.name, "after", "insert", None, row)
        return 1

    def _apply_update(self, t: Table, row, new) -> bool:
        """BEFORE UPDATE triggers may rewrite `new`; the stored row becomes `new`; AFTER UPDATE fires always."""
        old = dict(row)
        self.fire(t.name, "before", "update", old, new)
        for c in t.cols:
            if c.name in new and new[c.name] is not None:
                new[c.name] = self.coerce(new[c.name], c.kind)
            if c.notnull and new.get(c.name) is None:
                _raise("IntegrityError", 1048, f"Column '{c.name}' cannot be null")
        changed = {k: v for k, v in new.items() if k in t.colmap and not _same(old.get(k), v)}
        if changed:
            keycols = set(c for key in t.keys() for c in key)
            if keycols & set(changed):
                dup, key = self._find_dup(t, new, exclude=row)
                if dup is not None:
                    _raise("IntegrityError", 1062, f"Duplicate entry for key '{t.name}'")
            self.undo.append(("upd", t, row, {k: old.get(k) for k in changed}))
            row.update(changed)
            if self.eng.cc is not None:
                self.eng.cc.on_write(self, t, row)
        self.fire(t.name, "after", "update", old, dict(row))
        return bool(changed)

    def exec_insert(self, st, env):
        _, tname, cols, src, odku, ignore = st
        t = self.eng.table(tname)
        if cols is None:
            cols = [c.name for c in t.cols]
        affected = 0
        if src[0] == "values":
            for r in src[1]:
                if len(r) != len(cols):
                    _raise("OperationalError", 1136, "Column count doesn't match value count")
                vals = [self.ev(e, env) for e in r]
                row = self._new_row(t, cols, vals)
                try:
                    affected += self._insert_row(t, row, odku, env)
                except Exception as ex:
                    if ignore and getattr(ex, "args", [None])[0] == 1062:
                        continue
                    raise
        else:
            sel = src[1]
            for out_cols, vals, frame in self.run_select(sel, env, lazy=True, with_frames=True):
                if len(vals) != len(cols):
                    _raise("OperationalError", 1136, "Column count doesn't match value count")
                row = self._new_row(t, cols, vals)
                try:
                    affected += self._insert_row(t, row, odku, env, src_frame=frame)
                except Exception as ex:
                    if ignore and getattr(ex, "args", [None])[0] == 1062:
                        continue
                    raise
        self.row_count = affected
        return None

    def _join_rows(self, frm, env):
        return self.from_rows(frm, env)

    def exec_update(self, st, env):
        _, frm, assigns, where, order, limit = st
        frames = self.from_rows(frm, env)
        if where is not None:
            frames = [f for f in frames if _truth(self.ev(where, env.push(f)))]
        if order:
            frames = self._sort_frames(frames, order, env)
        if limit is not None:
            frames = frames[: int(self.ev(limit, env))]
        # which alias does each assignment target?
        aliases = self._from_aliases(frm)
        base = {a: tn for a, tn, kind in aliases if kind == "table"}
        targets = []
        for tbl, col, e in assigns:
            if tbl is None:
                cands = [a for a, tn in base.items() if col in self.eng.table(tn).colmap]
                if len(cands) != 1:
                    raise UnsupportedSQL(f"UPDATE SET {col}: ambiguous or unknown column ({cands})")
                tbl = cands[0]
            elif tbl not in base:
                raise UnsupportedSQL(f"UPDATE SET {tbl}.{col}: unknown table alias")
            targets.append((tbl, col, e))
        single = len(base) == 1 and len(aliases) == 1
        changed_n = 0
        done = set()
        plan = []
        for f in frames:
            for alias in dict.fromkeys(t for t, _, _ in targets):
                row = f.get(alias)
                if row is None or isinstance(row, NullRow):
                    continue
                if (alias, id(row)) in done:
                    continue
                done.add((alias, id(row)))
                plan.append((alias, row, f))
        computed = []
        if not single:
            for alias, row, f in plan:
                new = dict(row)
                e2 = env.push(f)
                for tbl, col, e in targets:
                    if tbl == alias:
                        new[col] = self.ev(e, e2)
                computed.append(new)
        for n_plan, (alias, row, f) in enumerate(plan):
            t = self.eng.table(base[alias])
            if single:
                # single-table UPDATE: assignments see earlier assignments (left to right)
                work = dict(row)
                f2 = dict(f)
                f2[alias] = work
                e2 = env.push(f2)
                for tbl, col, e in targets:
                    work[col] = self.ev(e, e2)
                new = work
            else:
                # multi-table UPDATE: every SET expression was evaluated on the pre-update joined rows
                new = computed[n_plan]
            for col in new:
                if col in t.colmap and new[col] is not None:
                    new[col] = self.coerce(new[col], t.colmap[col].kind)
            if self._apply_update(t, row, new):
                changed_n += 1
        self.row_count = changed_n
        return None

    def exec_delete(self, st, env):
        _, targets, frm, where, order, limit = st
        frames = self.from_rows(frm, env)
        if where is not None:
            frames = [f for f in frames if _truth(self.ev(where, env.push(f)))]
        if order:
            frames = self._sort_frames(frames, order, env)
        if limit is not None:
            frames = frames[: int(self.ev(limit, env))]
        aliases = self._from_aliases(frm)
        base = {a: tn for a, tn, kind in aliases if kind == "table"}
        if targets is None:
            if len(base) != 1:
                raise UnsupportedSQL("multi-table DELETE without targets")
            targets = list(base)
        n = 0
        for alias in targets:
            t = self.eng.table(base[alias])
            victims = []
            seen = set()
            for f in frames:
                row = f.get(alias)
                if row is None or isinstance(row, NullRow) or id(row) in seen:
                    continue
                seen.add(id(row))
                victims.append(row)
            for row in victims:
                self.fire(t.name, "before", "delete", row, None)
                for i, r in enumerate(t.rows):
                    if r is row:
                        del t.rows[i]
                        self.undo.append(("del", t, row, i))
                        if self.eng.cc is not None:
                            self.eng.cc.on_write(self, t, row, deleted=True)
                        n += 1
                        break
                self.fire(t.name, "after", "delete", row, None)
        self.row_count = n
        return None

    # ---- SELECT ----------------------------------------------------------------------------------------------
    def _from_aliases(self, frm):
        out = []
        for _jt, ref, _on in frm or ():
            if ref[0] == "table":
                out.append((ref[2], ref[1], "table"))
            elif ref[0] == "derived":
                out.append((ref[2], None, "derived"))
            elif ref[0] == "joingroup":
                out.extend(self._from_aliases(ref[1]))
        return out

    def _cols_of(self, tn):
        if self.ctes and tn.lower() in self.ctes[-1]:
            return list(self.ctes[-1][tn.lower()][0])
        return [c.name for c in self.eng.table(tn).cols]

    def _on_true(self, on, f2, alias, env):
        if on is None:
            return True
        if on[0] == "using":
            # JOIN ... USING (c, ...): the named columns of the joined table equal the same-named columns of the tables to its left
            for c in on[1]:
                right = f2[alias].get(c)
                left = [r[c] for a, r in f2.items() if a != alias and c in r]
                if not left:
                    _raise("OperationalError", 1054, f"Unknown column '{c}' in 'from clause'")
                if right is None or left[0] is None or not _eq(left[0], right):
                    return False
            return True
        return _truth(self.ev(on, env.push(f2)))

    def _ref_rows(self, ref, env):
        """rows and column names of a table reference evaluated in env"""
        if ref[0] == "table":
            if self.ctes and ref[1].lower() in self.ctes[-1]:
                cols, rows = self.ctes[-1][ref[1].lower()]
                return rows, cols
            t = self.eng.table(ref[1])
            if self.eng.cc is not None and (self.mode == "snapshot" or (self.lock_only is not None and ref[2].lower() not in self.lock_only)):
                vis = self.eng.cc.visible_rows(self, t)
                if vis is not None:
                    return vis, [c.name for c in t.cols]
            return t.rows, [c.name for c in t.cols]
        if ref[0] == "derived":
            cols, rows = self.run_select(ref[1], env)
            return [dict(zip(cols, r)) for r in rows], cols
        raise UnsupportedSQL(ref[0])

    def from_rows(self, frm, env):
        if not frm:
            return [{}]
        frames = [{}]
        for jt, ref, on in frm:
            if ref[0] == "joingroup":
                sub = self.from_rows(ref[1], env)
                new = []
                for f in frames:
                    matched = False
                    for s in sub:
                        f2 = {**f, **s}
                        if on is None or _truth(self.ev(on, env.push(f2))):
                            new.append(f2)
                            matched = True
                    if jt == "left" and not matched:
                        raise UnsupportedSQL("left join of a join group")
                frames = new
                continue
            alias = ref[2]
            lateral = ref[0] == "derived" and ref[3]
            if not lateral:
                rows, cols = self._ref_rows(ref, env)
            new = []
            for f in frames:
                if lateral:
                    rows, cols = self._ref_rows(ref, env.push(f))
                matched = False
                for r in rows:
                    f2 = dict(f)
                    f2[alias] = r
                    if self._on_true(on, f2, alias, env):
                        new.append(f2)
                        matched = True
                if jt == "left" and not matched:
                    f2 = dict(f)
                    f2[alias] = NullRow({c: None for c in cols})
                    new.append(f2)
            frames = new
        if self.eng.cc is not None and self.rowlevel and self.mode == "current":
            self.eng.cc.on_joined(self, frm, frames)
        return frames

    def _sort_frames(self, frames, order, env):
        def key(f):
            e2 = env.push(f)
            return tuple(_sortkey(self.ev(e, e2), desc) for e, desc in order)
        return sorted(frames, key=key)

    def out_names(self, sel):
        if sel.get("kind") == "union":
            return self.out_names(sel["parts"][0])
        names = []
        for e, alias, text in sel["cols"]:
            if e[0] == "star":
                for a, tn, kind in self._from_aliases(sel["from"]):
                    if e[1] is None or e[1] == a:
                        if kind == "table":
                            names.extend(self._cols_of(tn))
                        else:
                            ref = [r for _j, r, _o in sel["from"] if r[0] == "derived" and r[2] == a][0]
                            names.extend(self.out_names(ref[1]))
            elif alias:
                names.append(alias)
            elif e[0] == "col":
                names.append(e[2])
            else:
                names.append(text.strip())
        return names

    def run_select(self, sel, env, lazy=False, with_frames=False):
        """Returns (colnames, iterable of value lists); with lazy+with_frames yields (cols, values, frame)."""
        cc = self.eng.cc
        if cc is not None and sel.get("lock") and not lazy:
            # a locking read wherever it is evaluated (statement, subquery of a SET in a trigger, ...): locks what it scans and
            # reads the latest committed rows
            out = []
            cc._select_locks(self, sel, env, "X" if sel["lock"] == "update" else "S", out)
            cc.register(self)
            cc.acquire(self, out)
            saved_mode, saved_only = self.mode, self.lock_only
            self.mode = "current"
            self.lock_only = set(sel["lock_of"]) if sel.get("lock_of") else None
            try:
                cols, rows = self._run_select(sel, env, lazy, with_frames)
                return cols, list(rows)
            finally:
                self.mode, self.lock_only = saved_mode, saved_only
        return self._run_select(sel, env, lazy, with_frames)

    def _run_select(self, sel, env, lazy=False, with_frames=False):
        if sel.get("with"):
            # common table expressions: each is evaluated once, in order, and is visible by name to the later ones and to the body
            scope = dict(self.ctes[-1]) if self.ctes else {}
            self.ctes.append(scope)
            try:
                for name, sub in sel["with"]:
                    cols, rows = self.run_select(sub, env)
                    scope[name.lower()] = (list(cols), [dict(zip(cols, r)) for r in rows])
                body = {k: v for k, v in sel.items() if k != "with"}
                cols, rows = self._run_select(body, env, False, with_frames)
                return cols, list(rows)
            finally:
                self.ctes.pop()
        if sel.get("kind") == "union":
            cols = self.out_names(sel)
            rows = []
            for i, part in enumerate(sel["parts"]):
                _c, r = self.run_select(part, env)
                r = list(r)
                if i > 0 and not sel["all"][i - 1]:
                    seen = [tuple(x) for x in rows]
                    r = [x for x in r if tuple(x) not in seen]
                    rows = _dedup(rows)
                rows.extend(r)
            if not all(sel["all"]):
                rows = _dedup(rows)
            if sel["order"]:
                def key(r):
                    out = dict(zip(cols, r))
                    e2 = Env(self, (), env.vars, env.params, None, out)
                    return tuple(_sortkey(self.ev(e, e2), desc) for e, desc in sel["order"])
                rows = sorted(rows, key=key)
            if sel["offset"] is not None:
                rows = rows[int(self.ev(sel["offset"], env)):]
            if sel["limit"] is not None:
                rows = rows[: int(self.ev(sel["limit"], env))]
            return cols, rows
        cols = self.out_names(sel)
        frames = self.from_rows(sel["from"], env)
        if sel["where"] is not None:
            w = sel["where"]
            frames = [f for f in frames if _truth(self.ev(w, env.push(f)))]
        aggregated = sel["group"] is not None or any(has_aggregate(e) for e, _a, _t in sel["cols"]) or \
            (sel["having"] is not None and has_aggregate(sel["having"]))
        items = []  # (frame, group or None)
        if aggregated:
            if sel["group"] is not None:
                groups = {}
                order = []
                for f in frames:
                    e2 = env.push(f)
                    k = tuple(_groupkey(self._ev_group_expr(g, e2, sel)) for g in sel["group"])
                    if k not in groups:
                        groups[k] = []
                        order.append(k)
                    groups[k].append(f)
                items = [(groups[k][0], groups[k]) for k in order]
            else:
                nullf = {a: NullRow({c: None for c in self._cols_of(tn)} if tn else {})
                         for a, tn, _k in self._from_aliases(sel["from"])}
                items = [(frames[0] if frames else nullf, frames)]
        else:
            items = [(f, None) for f in frames]

        def project(f, g):
            e2 = env.push(f)
            e2.group = g
            vals = []
            out = {}
            for (e, alias, text), name in zip(sel["cols"], _expand_names(self, sel)):
                if e[0] == "star":
                    for a, tn, kind in self._from_aliases(sel["from"]):
                        if e[1] is None or e[1] == a:
                            r = f.get(a, {})
                            if kind == "table":
                                for c in self._cols_of(tn):
                                    vals.append(r.get(c))
                            else:
                                vals.extend(r.values())
                else:
                    v = self.ev(e, e2)
                    vals.append(v)
                    out[name] = v
            return vals, out

        if sel["having"] is not None:
            kept = []
            for f, g in items:
                vals, out = project(f, g)
                e2 = env.push(f)
                e2.group = g
                e2.out = out
                if _truth(self.ev(sel["having"], e2)):
                    kept.append((f, g))
            items = kept
        if sel["order"]:
            def key(it):
                f, g = it
                e2 = env.push(f)
                e2.group = g
                if any(_mentions_alias(e, sel) for e, _d in sel["order"]):
                    _vals, out = project(f, g)
                    e2.out = out
                ks = []
                for e, desc in sel["order"]:
                    if e[0] == "lit" and isinstance(e[1], int):
                        vals, _ = project(f, g)
                        ks.append(_sortkey(vals[e[1] - 1], desc))
                    else:
                        ks.append(_sortkey(self.ev(e, e2), desc))
                return tuple(ks)
            items = sorted(items, key=key)
        off = int(self.ev(sel["offset"], env)) if sel["offset"] is not None else 0
        lim = int(self.ev(sel["limit"], env)) if sel["limit"] is not None else None
        if sel["distinct"]:
            rows = _dedup([project(f, g)[0] for f, g in items])
            rows = rows[off:] if off else rows
            if lim is not None:
                rows = rows[:lim]
            if with_frames:
                return ((cols, r, {}) for r in rows)
            return cols, rows
        if off:
            items = items[off:]
        if lim is not None:
            items = items[:lim]
        if lazy and with_frames:
            return ((cols, project(f, g)[0], f) for f, g in items)
        return cols, [project(f, g)[0] for f, g in items]

    def _ev_group_expr(self, g, e2, sel):
        # GROUP BY may name a select alias or a position
        if g[0] == "lit" and isinstance(g[1], int):
            return self.ev(sel["cols"][g[1] - 1][0], e2)
        if g[0] == "col" and g[1] is None:
            try:
                return self.ev(g, e2)
            except _NoSuchColumn:
                for e, alias, _t in sel["cols"]:
                    if alias == g[2]:
                        return self.ev(e, e2)
                raise
        return self.ev(g, e2)

    def select_into(self, sel, env):
        cols, rows = self.run_select(sel, env)
        rows = list(rows)
        if not rows:
            self.not_found(env)
            return
        if len(rows) > 1:
            _raise("OperationalError", 1172, "Result consisted of more than one row")
        if len(rows[0]) != len(sel["into"]):
            _raise("OperationalError", 1222, "The used SELECT statements have a different number of columns")
        for target, v in zip(sel["into"], rows[0]):
            self.assign(target, v, env)

    # ---- expressions -----------------------------------------------------------------------------------------------
    def lookup(self, tbl, name, env: Env):
        if tbl is None:
            if env.vars is not None and name in env.vars and not name.startswith("__"):
                return env.vars[name]          # local variables and parameters shadow columns
            if env.out is not None and name in env.out:
                return env.out[name]           # select aliases (HAVING / ORDER BY only)
            for f in env.frames:
                hits = [a for a, r in f.items() if name in r]
                if len(hits) == 1:
                    return f[hits[0]][name]
                if len(hits) > 1:
                    _raise("OperationalError", 1052, f"Column '{name}' in field list is ambiguous ({hits})")
            raise _NoSuchColumn(name)
        for f in env.frames:
            if tbl in f:
                r = f[tbl]
                if name in r:
                    return r[name]
                if isinstance(r, NullRow):
                    return None
                raise _NoSuchColumn(f"{tbl}.{name}")
        raise _NoSuchColumn(f"{tbl}.{name}")

    def ev(self, e, env: Env):
        k = e[0]
        if k == "lit":
            return e[1]
        if k == "col":
            try:
                return self.lookup(e[1], e[2], env)
            except _NoSuchColumn as ex:
                _raise("OperationalError", 1054, f"Unknown column '{ex.args[0]}' in 'field list'")
        if k == "param":
            v = env.params[e[1]]
            if isinstance(v, bool):
                return int(v)
            return v
        if k == "nparam":
            v = env.params[e[1]]
            return int(v) if isinstance(v, bool) else v
        if k == "uvar":
            return self.uservars.get(e[1])
        if k == "assign":
            v = self.ev(e[2], env)
            self.uservars[e[1]] = v
            return v
        if k == "and":
            a = _truth(self.ev(e[1], env))
            if a is False:
                return 0
            b = _truth(self.ev(e[2], env))
            if b is False:
                return 0
            if a is None or b is None:
                return None
            return 1
        if k == "or":
            a = _truth(self.ev(e[1], env))
            if a is True:
                return 1
            b = _truth(self.ev(e[2], env))
            if b is True:
                return 1
            if a is None or b is None:
                return None
            return 0
        if k == "xor":
            a, b = _truth(self.ev(e[1], env)), _truth(self.ev(e[2], env))
            if a is None or b is None:
                return None
            return int(a != b)
        if k == "not":
            a = _truth(self.ev(e[1], env))
            return None if a is None else int(not a)
        if k == "cmp":
            return _compare(e[1], self.ev(e[2], env), self.ev(e[3], env))
        if k == "isnull":
            v = self.ev(e[1], env)
            return int((v is None) != e[2])
        if k == "istrue":
            v = _truth(self.ev(e[1], env))
            r = (v is True) if e[3] else (v is False)
            return int(r != e[2])
        if k == "bin":
            return _arith(e[1], self.ev(e[2], env), self.ev(e[3], env))
        if k == "neg":
            v = _num(self.ev(e[1], env))
            return None if v is None else -v
        if k == "bitnot":
            v = _num(self.ev(e[1], env))
            return None if v is None else (~int(v)) & 0xFFFFFFFFFFFFFFFF
        if k == "in":
            v = self.ev(e[1], env)
            if v is None:
                return None
            saw_null = False
            for it in e[2]:
                w = self.ev(it, env)
                if w is None:
                    saw_null = True
                elif _compare("=", v, w) == 1:
                    return int(not e[3])
            if saw_null:
                return None
            return int(e[3])
        if k == "insub":
            v = self.ev(e[1], env)
            _c, rows = self.run_select(e[2], env)
            rows = list(rows)
            if v is None:
                return None if rows else int(e[3])
            saw_null = False
            for r in rows:
                if r[0] is None:
                    saw_null = True
                elif _compare("=", v, r[0]) == 1:
                    return int(not e[3])
            if saw_null:
                return None
            return int(e[3])
        if k == "between":
            v, lo, hi = self.ev(e[1], env), self.ev(e[2], env), self.ev(e[3], env)
            a, b = _compare(">=", v, lo), _compare("<=", v, hi)
            if a is None or b is None:
                return None
            r = bool(a and b)
            return int(r != e[4])
        if k == "like":
            v, p = self.ev(e[1], env), self.ev(e[2], env)
            if v is None or p is None:
                return None
            rx = "".join(".*" if c == "%" else "." if c == "_" else re.escape(c) for c in str(p))
            r = re.fullmatch(rx, str(v), re.I | re.S) is not None
            return int(r != e[3])
        if k == "regexp":
            v, p = self.ev(e[1], env), self.ev(e[2], env)
            if v is None or p is None:
                return None
            return int((re.search(str(p), str(v), re.I) is not None) != e[3])
        if k == "exists":
            _c, rows = self.run_select(e[1], env)
            for _ in rows:
                return 1
            return 0
        if k == "subq":
            _c, rows = self.run_select(e[1], env)
            rows = list(rows)
            if not rows:
                return None
            if len(rows) > 1:
                _raise("OperationalError", 1242, "Subquery returns more than 1 row")
            if len(rows[0]) != 1:
                _raise("OperationalError", 1241, "Operand should contain 1 column(s)")
            return rows[0][0]
        if k == "case":
            if e[1] is not None:
                v = self.ev(e[1], env)
                for c, r in e[2]:
                    if _compare("=", v, self.ev(c, env)) == 1:
                        return self.ev(r, env)
            else:
                for c, r in e[2]:
                    if _truth(self.ev(c, env)):
                        return self.ev(r, env)
            return self.ev(e[3], env) if e[3] is not None else None
        if k == "cast":
            v = self.ev(e[1], env)
            ty = e[2]
            if v is None:
                return None
            if ty in ("SIGNED", "UNSIGNED", "INT", "INTEGER"):
                n = _num(v)
                return int(math.floor(n + 0.5)) if isinstance(n, float) else int(n)
            if ty in ("CHAR", "NCHAR", "BINARY"):
                return self.coerce(v, "str")
            if ty in ("DATE", "DATETIME"):
                return str(v)
            if ty in ("DECIMAL", "DOUBLE", "FLOAT"):
                return _num(v)
            if ty == "JSON":
                return v
            raise UnsupportedSQL(f"CAST AS {ty}")
        if k == "values":
            if env.ins_row is None:
                raise UnsupportedSQL("VALUES() outside ON DUPLICATE KEY UPDATE")
            return env.ins_row.get(e[1])
        if k == "func":
            return self.func(e, env)
        if k == "tuple":
            return tuple(self.ev(x, env) for x in e[1])
        if k == "star":
            return 1
        raise UnsupportedSQL(f"expression {k}")

    def func(self, e, env: Env):
        _, fn, args, distinct = e
        if fn in AGGREGATES:
            if env.group is None:
                raise UnsupportedSQL(f"aggregate {fn} outside of a grouped select")
            return self.aggregate(fn, args, distinct, env)
        if fn == "COALESCE":
            for a in args:
                v = self.ev(a, env)
                if v is not None:
                    return v
            return None
        if fn == "IFNULL":
            v = self.ev(args[0], env)
            return v if v is not None else self.ev(args[1], env)
        if fn == "NULLIF":
            a, b = self.ev(args[0], env), self.ev(args[1], env)
            return None if _compare("=", a, b) == 1 else a
        if fn == "IF":
            return self.ev(args[1], env) if _truth(self.ev(args[0], env)) else self.ev(args[2], env)
        vals = [self.ev(a, env) for a in args]
        if fn in ("GREATEST", "LEAST"):
            if any(v is None for v in vals):
                return None
            if any(isinstance(v, str) for v in vals) and not all(isinstance(v, str) for v in vals):
                vals = [_num(v) for v in vals]
            return max(vals) if fn == "GREATEST" else min(vals)
        if fn == "FLOOR":
            return None if vals[0] is None else int(math.floor(_num(vals[0])))
        if fn in ("CEIL", "CEILING"):
            return None if vals[0] is None else int(math.ceil(_num(vals[0])))
        if fn == "ABS":
            return None if vals[0] is None else abs(_num(vals[0]))
        if fn == "ROUND":
            if vals[0] is None:
                return None
            n = _num(vals[0])
            d = int(vals[1]) if len(vals) > 1 else 0
            q = 10 ** d
            r = math.floor(abs(n) * q + 0.5) / q
            r = r if n >= 0 else -r
            return int(r) if d <= 0 else r
        if fn == "RAND":
            return self.eng.rng.random()
        if fn == "ROW_COUNT":
            return self.row_count
        if fn == "LAST_INSERT_ID":
            return self.last_insert_id
        if fn in ("UTC_DATE", "CURDATE", "CURRENT_DATE"):
            return self.eng.utc_date
        if fn == "CONCAT":
            if any(v is None for v in vals):
                return None
            return "".join(self.coerce(v, "str") for v in vals)
        if fn == "LOWER":
            return None if vals[0] is None else str(vals[0]).lower()
        if fn == "UPPER":
            return None if vals[0] is None else str(vals[0]).upper()
        if fn in ("LENGTH", "CHAR_LENGTH"):
            return None if vals[0] is None else len(str(vals[0]))
        if fn == "BIT_COUNT":
            return None if vals[0] is None else bin(int(vals[0]) & 0xFFFFFFFFFFFFFFFF).count("1")
        if fn == "JSON_OBJECT":
            return json.dumps({str(vals[i]): vals[i + 1] for i in range(0, len(vals), 2)})
        if fn == "DATE_FORMAT":
            return None if vals[0] is None else str(vals[0])
        r = self.eng.routines.get(fn.lower())
        if r is not None and r.kind == "function":
            return self.call_function(fn.lower(), vals)
        raise UnsupportedSQL(f"function {fn}")

    def aggregate(self, fn, args, distinct, env: Env):
        rows = env.group
        sub_envs = [Env(self, (f,) + tuple(env.frames[1:]), env.vars, env.params, None, None, env.ins_row, env.ins_table) for f in rows]
        if fn == "COUNT":
            if args and args[0][0] == "star":
                return len(rows)
            vals = [self.ev(args[0], se) for se in sub_envs]
            vals = [v for v in vals if v is not None]
            if distinct:
                vals = _dedup([[v] for v in vals])
            return len(vals)
        if fn == "JSON_OBJECTAGG":
            d = {}
            for se in sub_envs:
                kx = self.ev(args[0], se)
                if kx is None:
                    _raise("OperationalError", 3158, "JSON documents may not contain NULL member names")
                d[str(kx)] = self.ev(args[1], se)
            return json.dumps(d) if rows else None
        vals = [self.ev(args[0], se) for se in sub_envs]
        vals = [v for v in vals if v is not None]
        if distinct:
            vals = [v[0] for v in _dedup([[v] for v in vals])]
        if fn == "SUM":
            if not vals:
                return None
            vals = [_num(v) for v in vals]
            return sum(vals)
        if fn == "AVG":
            return (sum(_num(v) for v in vals) / len(vals)) if vals else None
        if fn == "MAX":
            return max(vals, key=lambda v: _sortkey(v, False)) if vals else None
        if fn == "MIN":
            return min(vals, key=lambda v: _sortkey(v, False)) if vals else None
        if fn == "JSON_ARRAYAGG":
            return json.dumps(vals)
        if fn == "GROUP_CONCAT":
            return ",".join(str(v) for v in vals) if vals else None
        raise UnsupportedSQL(f"aggregate {fn}")


class _NoSuchColumn(Exception):
    pass


def _expand_names(sess, sel):
    out = []
    for e, alias, text in sel["cols"]:
        if e[0] == "star":
            out.append(None)
        elif alias:
            out.append(alias)
        elif e[0] == "col":
            out.append(e[2])
        else:
            out.append(text.strip())
    return out


def _mentions_alias(e, sel):
    if isinstance(e, tuple) and e and e[0] == "col" and e[1] is None:
        return any(a == e[2] for _e, a, _t in sel["cols"])
    if isinstance(e, tuple):
        return any(_mentions_alias(x, sel) for x in e[1:] if isinstance(x, (tuple, list)))
    if isinstance(e, list):
        return any(_mentions_alias(x, sel) for x in e)
    return False


def _eq(a, b):
    return _compare("=", a, b) == 1


def _same(a, b):
    if a is None or b is None:
        return a is None and b is None
    if isinstance(a, str) and isinstance(b, str):
        return a == b
    return _compare("=", a, b) == 1


def _compare(op, a, b):
    if op == "<=>":
        if a is None or b is None:
            return int(a is None and b is None)
        op = "="
    if a is None or b is None:
        return None
    a, b = _cmp_vals(a, b)
    if op == "=":
        return int(a == b)
    if op == "<>":
        return int(a != b)
    if op == "<":
        return int(a < b)
    if op == "<=":
        return int(a <= b)
    if op == ">":
        return int(a > b)
    if op == ">=":
        return int(a >= b)
    raise UnsupportedSQL(op)


def _arith(op, a, b):
    a, b = _num(a), _num(b)
    if a is None or b is None:
        return None
    if op == "+":
        return a + b
    if op == "-":
        return a - b
    if op == "*":
        return a * b
    if op == "/":
        if b == 0:
            return None
        r = a / b
        return r
    if op == "DIV":
        if b == 0:
            return None
        q = abs(a) // abs(b)
        return int(q if (a >= 0) == (b >= 0) else -q)
    if op in ("%", "MOD"):
        if b == 0:
            return None
        return math.fmod(a, b) if isinstance(a, float) or isinstance(b, float) else int(math.fmod(a, b))
    if op == "&":
        return int(a) & int(b)
    if op == "|":
        return int(a) | int(b)
    if op == "<<":
        return (int(a) << int(b)) & 0xFFFFFFFFFFFFFFFF
    if op == ">>":
        return int(a) >> int(b)
    raise UnsupportedSQL(op)


def _sortkey(v, desc):
    # NULLs first ascending (MySQL), last descending
    if v is None:
        k = (0, 0, "")
    elif isinstance(v, str):
        k = (1, 0, v.casefold())
    else:
        k = (1, _num(v), "")
    if not desc:
        return k
    return _Rev(k)


class _Rev:
    __slots__ = ("k",)

    def __init__(self, k):
        self.k = k

    def __lt__(self, o):
        return o.k < self.k

    def __eq__(self, o):
        return self.k == o.k


def _groupkey(v):
    if isinstance(v, str):
        return ("s", v.casefold())
    if v is None:
        return ("n",)
    return ("v", _num(v))


def _dedup(rows):
    seen = set()
    out = []
    for r in rows:
        k = tuple(_groupkey(v) for v in r)
        if k not in seen:
            seen.add(k)
            out.append(list(r))
    return out
