"""Two-transaction interleavings for MiniMySQL: an approximation of InnoDB REPEATABLE READ that is used to check that the
code's transactions are atomic with respect to each other (the assumption "each stored-procedure call and each @transaction
block is atomic and serialisable" of the BatchDB specification).

Scenario explored by one `Interleaving`: transaction T1 (the "victim", running in the main thread) executes up to its k-th
interior statement boundary; there a second operation T2 (the "intruder") runs to completion in another thread on its own
sessions; then T1 continues.

Rules (each chosen so that errors of the approximation make T2 WAIT more often than in InnoDB, never less - a waiting T2 means
the interleaving is not explored, so imprecision can hide a race but cannot invent one; the known exceptions are listed at
the end):

  reads    A SELECT without locking clause is a consistent read: it sees the transaction's read view (established by its first
           consistent read) plus its own writes.  T2 never sees uncommitted changes of T1 (they are reverted from T1's undo log);
           after T2 has committed, T1's consistent reads still see the tables as of point k (if T1 already had a read view then).
           SELECT ... FOR UPDATE / FOR SHARE / LOCK IN SHARE MODE, INSERT/UPDATE/DELETE (with their joins and subqueries) read the
           latest committed rows and lock what they scan.
  locks    (FOR UPDATE / SHARE OF t, ...: only the named tables are locked and read as current, the others stay consistent reads.)
           The rows a locking statement scans on a table are approximated by a predicate: equalities between a leading part
           of the PRIMARY KEY and values that do not depend on the row (constants, parameters, variables, propagated through
           col = col conjuncts of WHERE / ON).  No such equality: the whole table.  Predicate locks behave like next-key locks:
           an INSERT of a row that satisfies a predicate held by another transaction waits.  X for FOR UPDATE and for the target
           tables of DML, S otherwise; S/S is compatible.  Statements inside triggers lock too.  Locks are held to COMMIT/ROLLBACK.
  waiting  T2 hitting a lock of T1 raises LockWait: T2 is rolled back and counted as "blocked" (in InnoDB it would wait for T1 and
           the outcome would be that of the serial order, possibly after a deadlock victim is retried).

Known under-approximations: row locks of secondary-index scans are larger in InnoDB when the optimiser picks another index; gap
locks taken when a unique lookup finds nothing cover the neighbouring gap in InnoDB, only the key here; scalar subqueries are
locked with the same predicate rule.  A violation reported through this layer on the unchanged tree must therefore be confirmed
by hand against InnoDB's documented locking before it is believed.
"""
from __future__ import annotations

import threading


class LockWait(BaseException):
    """raised in the intruder when it needs a lock the victim holds (BaseException: no handler of the code may swallow it)"""


def _conjuncts(e):
    if e is None:
        return []
    if isinstance(e, tuple) and e and e[0] == "and":
        return _conjuncts(e[1]) + _conjuncts(e[2])
    return [e]


def _find_selects(obj, out):
    """all SELECT nodes nested in an expression tree"""
    if isinstance(obj, dict):
        if "cols" in obj or obj.get("kind") == "union":
            out.append(obj)
            return
        for v in obj.values():
            _find_selects(v, out)
    elif isinstance(obj, (list, tuple)):
        for v in obj:
            _find_selects(v, out)


def _has_lock(sel):
    if not isinstance(sel, dict):
        return False
    if sel.get("lock"):
        return True
    if sel.get("kind") == "union":
        return any(_has_lock(p) for p in sel["parts"])
    for _jt, ref, _on in _flat_from(sel.get("from")):
        if ref[0] == "derived" and _has_lock(ref[1]):
            return True
    return False


def _flat_from(frm):
    for jt, ref, on in frm or ():
        if ref[0] == "joingroup":
            yield (jt, ("none",), on)
            yield from _flat_from(ref[1])
        else:
            yield (jt, ref, on)


def _same_val(a, b):
    if a is None or b is None:
        return False
    try:
        return a == b or str(a) == str(b)
    except Exception:  # noqa: BLE001
        return False


class Interleaving:
    def __init__(self, eng):
        self.eng = eng
        self.main = threading.current_thread()
        self.sessions = []          # every session that executed a statement while this controller was installed
        self.k = None
        self.intruder = None
        self.fired = False
        self.boundaries = 0         # interior statement boundaries of the victim seen so far
        self.outcome = None         # None (never reached) | "ran" | "blocked" | ("error", repr)
        self.intruder_result = None
        self.victim = None
        self.log = []

    # ---- arming ----------------------------------------------------------------------------------------------------------
    def arm(self, k, intruder):
        self.k, self.intruder, self.fired, self.boundaries, self.outcome = k, intruder, False, 0, None

    # ---- called by Session ------------------------------------------------------------------------------------------------
    def register(self, sess):
        if sess not in self.sessions:
            self.sessions.append(sess)
            sess.thread = threading.current_thread()

    def release(self, sess):
        sess.held = []
        sess.gaps = []
        sess.rowlevel = {}
        sess.snap = None
        sess.read_view = False
        sess.tx_stmts = 0
        sess.own_written = set()
        sess.own_deleted = set()
        sess.own_inserted = []

    def on_statement(self, sess, st, env, interior, current):
        self.register(sess)
        if interior and sess.thread is self.main and self.k is not None and not self.fired:
            if sess.tx_stmts >= 1:
                self.boundaries += 1
                if self.boundaries == self.k:
                    self._fire(sess, st)
        if interior:
            sess.tx_stmts += 1
        if current:
            sess.rowlevel = {}
            locks = self.stmt_locks(sess, st, env)
            self.acquire(sess, locks)
        elif not sess.read_view:
            sess.read_view = True

    def on_insert(self, sess, t, row):
        """insert intention: waits for every predicate lock of another transaction the new row satisfies"""
        pred = {c: row.get(c) for c in t.pk} if t.pk else {}
        for o in self.sessions:
            if o is sess or not (o.held or o.gaps):
                continue
            for (tn, hp, _mode) in o.held:
                if tn == t.name and all(_same_val(row.get(c), v) for c, v in hp.items()):
                    raise LockWait(f"INSERT into {tn} {pred} waits for lock {hp} of another transaction")
            for (tn, hp) in o.gaps:
                if tn == t.name and all(_same_val(row.get(c), v) for c, v in hp.items()):
                    raise LockWait(f"INSERT into {tn} {pred} waits for a gap lock {hp} of another transaction")
        sess.held.append((t.name, pred, "X"))
        if sess.snap is not None:
            sess.own_inserted.append((t.name, row))

    def on_touch(self, sess, t, row, mode="X"):
        """a statement locks one existing row outside its scan predicate (INSERT ... ON DUPLICATE KEY UPDATE hitting a duplicate)"""
        self.acquire(sess, [(t.name, {c: row.get(c) for c in t.pk} if t.pk else {}, mode)])

    def on_joined(self, sess, frm, frames):
        """row locks of the tables of this join that are probed by primary key (see _block_locks)"""
        todo = sess.rowlevel.get(id(frm))
        if not todo:
            return
        const = todo.get("__const__", {})

        def reached(f):
            # the join reaches this combination of rows only if every row satisfies the constant conditions on its own table
            for (b, c), v in const.items():
                rb = f.get(b)
                if rb is not None and c in rb and rb.get(c) is not None and not _same_val(rb.get(c), v):
                    return False
            return True

        for a, spec in todo.items():
            if a == "__const__":
                continue
            tn, md = spec
            t = self.eng.table(tn)
            seen = set()
            locks = []
            for f in frames:
                if not reached(f):
                    continue
                r = f.get(a)
                if r is None or id(r) in seen or not all(c in r for c in t.pk):
                    continue
                seen.add(id(r))
                if any(r.get(c) is None for c in t.pk):
                    continue                 # the NULL row of an outer join
                locks.append((tn, {c: r.get(c) for c in t.pk}, md))
            self.acquire(sess, locks)

    def on_write(self, sess, t, row, deleted=False):
        if sess.snap is not None:
            (sess.own_deleted if deleted else sess.own_written).add(id(row))

    # ---- locks --------------------------------------------------------------------------------------------------------------
    def acquire(self, sess, locks):
        for (tn, pred, mode) in locks:
            for o in self.sessions:
                if o is sess or not o.held:
                    continue
                for (tn2, p2, m2) in o.held:
                    if tn2 != tn or (mode == "S" and m2 == "S"):
                        continue
                    common = set(pred) & set(p2)
                    if all(_same_val(pred[c], p2[c]) for c in common):
                        raise LockWait(f"{mode} lock on {tn} {pred} waits for {m2} lock {p2} of another transaction")
                # rows another transaction has written and not committed are X-locked whatever statement wrote them
                for op in o.undo:
                    if op[0] in ("upd", "ins", "del") and op[1].name == tn and all(_same_val(op[2].get(c), v) for c, v in pred.items()):
                        raise LockWait(f"{mode} lock on {tn} {pred} waits for a row written by another transaction")
        for l in locks:
            if l not in sess.held:
                sess.held.append(l)

    def stmt_locks(self, sess, st, env):
        out = []
        if isinstance(st, dict):
            self._select_locks(sess, st, env, "X" if st.get("lock") == "update" else "S", out)
            return out
        k = st[0]
        if k == "update":
            _, frm, assigns, where, _order, _limit = st
            targets = {tbl for tbl, _c, _e in assigns}
            self._block_locks(sess, frm, where, env, lambda a, tn: "X" if (a in targets or None in targets) else "S", out)
            subs = []
            _find_selects([e for _t, _c, e in assigns], subs)
            _find_selects(where, subs)
            for s in subs:
                self._select_locks(sess, s, env, "S", out)
        elif k == "delete":
            _, targets, frm, where, _order, _limit = st
            self._block_locks(sess, frm, where, env, lambda a, tn: "X" if (targets is None or a in targets) else "S", out)
            subs = []
            _find_selects(where, subs)
            for s in subs:
                self._select_locks(sess, s, env, "S", out)
        elif k == "insert":
            _, _tname, _cols, src, odku, _ignore = st
            if src[0] != "values":
                self._select_locks(sess, src[1], env, "S", out)
            subs = []
            _find_selects(src[1] if src[0] == "values" else None, subs)
            _find_selects(odku, subs)
            for s in subs:
                self._select_locks(sess, s, env, "S", out)
        return out

    def _select_locks(self, sess, sel, env, mode, out):
        if sel.get("kind") == "union":
            for p in sel["parts"]:
                self._select_locks(sess, p, env, mode, out)
            return
        m = "X" if sel.get("lock") == "update" else mode
        only = set(sel["lock_of"]) if sel.get("lock") and sel.get("lock_of") else None
        self._block_locks(sess, sel.get("from"), sel.get("where"), env, lambda a, tn: (m if only is None or a.lower() in only else None), out)
        subs = []
        _find_selects(sel.get("where"), subs)
        _find_selects([c[0] for c in sel.get("cols", []) if isinstance(c, tuple)], subs)
        for s in subs:
            self._select_locks(sess, s, env, "S", out)

    def _block_locks(self, sess, frm, where, env, mode_of, out):
        refs = list(_flat_from(frm))
        alias_tab = {}
        for _jt, ref, _on in refs:
            if ref[0] == "table":
                alias_tab[ref[2]] = ref[1]
            elif ref[0] == "derived":
                self._select_locks(sess, ref[1], env, "S", out)
        if not alias_tab:
            return
        conj = _conjuncts(where)
        for _jt, _ref, on in refs:
            conj += _conjuncts(on)
        tables = {a: self.eng.table(tn) for a, tn in alias_tab.items()}
        derived = {ref[2] for _jt, ref, _on in refs if ref[0] == "derived"}

        def colref(e):
            """(alias, column) if e is a column of one of this block's base tables; "local" if it depends on a row of the block"""
            if not (isinstance(e, tuple) and e and e[0] == "col"):
                return None
            tbl, name = e[1], e[2]
            if tbl is not None:
                if tbl in tables:
                    return (tbl, name) if name in tables[tbl].colmap else "local"
                return "local" if tbl in derived else None
            if env.vars is not None and name in env.vars and not name.startswith("__"):
                return None                         # a variable / parameter shadows columns
            hits = [a for a, t in tables.items() if name in t.colmap]
            if len(hits) == 1:
                return (hits[0], name)
            return "local" if hits or derived else None

        def depends_on_block(e):
            if isinstance(e, dict):
                return True                         # subquery: not a constant for this purpose
            if isinstance(e, tuple):
                if e and e[0] == "col":
                    return colref(e) is not None
                return any(depends_on_block(x) for x in e[1:])
            if isinstance(e, list):
                return any(depends_on_block(x) for x in e)
            return False

        const = {}
        pairs = []
        for c in conj:
            if not (isinstance(c, tuple) and c[0] == "cmp" and c[1] == "="):
                continue
            a, b = colref(c[2]), colref(c[3])
            if isinstance(a, tuple) and isinstance(b, tuple):
                pairs.append((a, b))
                continue
            for col, other in ((a, c[3]), (b, c[2])):
                if isinstance(col, tuple) and not depends_on_block(other):
                    try:
                        v = sess.ev(other, env)
                    except Exception:  # noqa: BLE001
                        continue
                    if v is not None:
                        const.setdefault(col, v)
        changed = True
        while changed:
            changed = False
            for a, b in pairs:
                if a in const and b not in const:
                    const[b] = const[a]
                    changed = True
                elif b in const and a not in const:
                    const[a] = const[b]
                    changed = True
        top = {ref[2] for _jt, ref, _on in (frm or ()) if ref[0] == "table"}
        paired = {}
        for x, y in pairs:
            if x[0] != y[0]:
                paired.setdefault(x, set()).add(y[0])
                paired.setdefault(y, set()).add(x[0])
        for a, tn in alias_tab.items():
            t = tables[a]
            md = mode_of(a, tn)
            if md is None:                  # a table the locking clause does not name (FOR SHARE OF ...)
                continue
            pred = {}
            for c in t.pk:
                if (a, c) in const:
                    pred[c] = const[(a, c)]
                else:
                    break
            if t.pk and len(pred) < len(t.pk) and a in top and all((a, c) in const or (a, c) in paired for c in t.pk):
                # every primary-key column is fixed by a constant or by an equality with a column of another table of the join: the
                # table is probed by primary key, once per row of its join partner, and only the probed rows are locked.  They are
                # known when the join has been evaluated (Session.from_rows -> on_joined).
                sess.rowlevel.setdefault(id(frm), {})[a] = (tn, md)
                sess.rowlevel[id(frm)]["__const__"] = dict(const)
                # ... and a probe that finds nothing locks the gap where the row would be: no transaction may insert there.  Kept as a
                # gap lock on the constant prefix (wider than InnoDB's): it stops inserts, it does not conflict with row locks.
                sess.gaps.append((tn, dict(pred)))
                continue
            out.append((tn, pred, md))

    # ---- read views -------------------------------------------------------------------------------------------------------
    def visible_rows(self, sess, t):
        """rows of table t for a consistent (non-locking) read of sess, or None for "the live rows" """
        if sess.snap is not None:
            rows = []
            for row, copy in sess.snap.get(t.name, ()):
                if id(row) in sess.own_deleted:
                    continue
                rows.append(row if id(row) in sess.own_written else copy)
            for tn, row in sess.own_inserted:
                if tn == t.name and id(row) not in sess.own_deleted and any(r is row for r in t.rows):
                    rows.append(row)
            return rows
        others = [o for o in self.sessions if o is not sess and o.undo]
        if not others:
            return None
        return self._committed(t, others)

    def _committed(self, t, others):
        """the rows of t with the uncommitted changes of `others` reverted"""
        olds, inserted, deleted = {}, set(), []
        for o in others:
            for op in reversed(o.undo):
                if op[0] == "upd" and op[1] is t:
                    olds.setdefault(id(op[2]), {}).update(op[3])
                elif op[0] == "ins" and op[1] is t:
                    inserted.add(id(op[2]))
                elif op[0] == "del" and op[1] is t:
                    deleted.append(op[2])
        if not (olds or inserted or deleted):
            return None
        rows = []
        for r in t.rows:
            if id(r) in inserted:
                continue
            if id(r) in olds:
                c = dict(r)
                c.update(olds[id(r)])
                rows.append(c)
            else:
                rows.append(r)
        for r in deleted:
            if id(r) not in inserted:
                c = dict(r)
                c.update(olds.get(id(r), {}))
                rows.append(c)
        return rows

    def capture(self):
        return {name: [(r, dict(r)) for r in t.rows] for name, t in self.eng.tables.items()}

    # ---- the intruder ----------------------------------------------------------------------------------------------------
    def _fire(self, victim, st):
        self.fired = True
        self.victim = victim
        if victim.read_view:
            victim.snap = self.capture()
        box = {}

        def body():
            try:
                box["result"] = self.intruder()
                box["outcome"] = "ran"
            except LockWait as e:
                box["outcome"] = "blocked"
                box["why"] = str(e)
            except BaseException as e:  # noqa: BLE001
                box["outcome"] = ("error", repr(e))
            finally:
                me = threading.current_thread()
                for s in self.sessions:
                    if getattr(s, "thread", None) is me and (s.undo or s.held):
                        if box.get("outcome") == "ran":
                            # the operation returned with a transaction still open: the connection pool rolls it back
                            s.rollback()
                        else:
                            s.rollback()

        th = threading.Thread(target=body, name="intruder")
        th.start()
        th.join()
        self.outcome = box.get("outcome")
        self.intruder_result = box.get("result")
        self.log.append({"k": self.k, "statement": _describe(st), "outcome": self.outcome, "why": box.get("why")})


def _describe(st):
    if isinstance(st, dict):
        frm = [ref[1] for _jt, ref, _on in _flat_from(st.get("from")) if ref[0] == "table"]
        return f"SELECT{' FOR ' + st['lock'].upper() if st.get('lock') else ''} FROM {','.join(frm)}"
    if st[0] == "insert":
        return f"INSERT {st[1]}"
    if st[0] == "update":
        return "UPDATE " + ",".join(ref[1] for _jt, ref, _on in _flat_from(st[1]) if ref[0] == "table")
    if st[0] == "delete":
        return "DELETE " + ",".join(ref[1] for _jt, ref, _on in _flat_from(st[2]) if ref[0] == "table")
    return str(st[0])
