"""Import recipe for populationgenomics/hail service code in this offline sandbox.

* puts /repo/{hail/python,gear,batch,ci,auth,web_common} on sys.path (always the working tree),
* serves inert stub modules for an explicit ALLOW-LIST of absent third-party packages (nothing else:
  optional imports such as aiodocker must keep failing so the code takes its own fall-back),
* serves faithful stand-ins (vlib/stubs/*.py) for the few dependencies that are semantically involved,
* serves a virtual hailtop.version, sets the environment variables the services read at import,
* pre-seeds gear.cloud_config's global config.
"""
from __future__ import annotations

import importlib
import importlib.abc
import importlib.machinery
import os
import sys
import types
from pathlib import Path

REPO = Path(os.environ.get("VERIF_REPO", "/repo"))
STUBS = Path(__file__).resolve().parent / "stubs"

# inert packages (top-level names); any submodule of these is served too
INERT = {
    "aiohttp_session", "kubernetes_asyncio", "prometheus_client", "google", "azure", "msal", "jwt", "cryptography",
    "jproperties", "google_auth_oauthlib", "boto3", "aiodns", "rich", "humanize", "janus",
    "nest_asyncio", "dateutil", "jinja2", "aiohttp_jinja2", "sass", "plotly", "pandas", "dictdiffer",
    "googlecloudprofiler", "pythonjsonlogger", "uvloop", "gidgethub", "zulip", "tabulate", "typer", "azure_identity",
    "aiorwlock", "psutil", "aiomonitor", "pyspark", "py4j", "bokeh", "scipy", "avro", "deprecated",
    "regex", "IPython", "ipykernel", "tqdm", "hailtop_test_stub", "frozendict", "git", "kubernetes", "colorlog",
    "async_timeout", "toml", "tomllib_stub", "protobuf", "grpc", "oauthlib", "requests_oauthlib", "certifi",
    "pyfaidx", "secretstorage", "keyring",
}
# faithful stand-ins living in vlib/stubs (real python files)
FAITHFUL = {"orjson", "prometheus_async", "pymysql", "aiomysql", "decorator", "botocore", "requests", "urllib3"}


class _Any:
    """Permissive object: any attribute, call, subscript, iteration (empty), context manager."""

    def __init__(self, *a, **k):
        pass

    def __getattr__(self, name):
        if name.startswith("__") and name.endswith("__"):
            raise AttributeError(name)
        v = _Any()
        object.__setattr__(self, name, v)
        return v

    def __call__(self, *a, **k):
        # decorator use: return the function unchanged
        if len(a) == 1 and not k and callable(a[0]) and not isinstance(a[0], _Any):
            return a[0]
        return _Any()

    def __getitem__(self, k):
        return _Any()

    def __iter__(self):
        return iter(())

    def __enter__(self):
        return self

    def __exit__(self, *a):
        return False

    async def __aenter__(self):
        return self

    async def __aexit__(self, *a):
        return False

    def __mro_entries__(self, bases):
        return (_AnyBase,)

    def __or__(self, o):
        return self

    def __ror__(self, o):
        return self

    def __bool__(self):
        return True


class _AnyBase:
    def __init__(self, *a, **k):
        pass

    def __init_subclass__(cls, **k):
        pass

    def __class_getitem__(cls, item):
        return cls


class _StubModule(types.ModuleType):
    def __getattr__(self, name):
        if name.startswith("__") and name.endswith("__"):
            raise AttributeError(name)
        if name.endswith(("Error", "Exception", "Warning")) or name in ("HTTPError",):
            v = type(name, (Exception,), {"__module__": self.__name__})
        elif name[:1].isupper():
            v = type(name, (_AnyBase,), {"__module__": self.__name__, "__getattr__": _cls_getattr})
        else:
            v = _Any()
        setattr(self, name, v)
        return v


def _cls_getattr(self, name):
    if name.startswith("__") and name.endswith("__"):
        raise AttributeError(name)
    return _Any()


class _Finder(importlib.abc.MetaPathFinder, importlib.abc.Loader):
    def find_spec(self, fullname, path=None, target=None):
        top = fullname.split(".")[0]
        if fullname in ("hailtop.version", "hail.version"):
            return importlib.machinery.ModuleSpec(fullname, self)
        if top in INERT:
            return importlib.machinery.ModuleSpec(fullname, self, is_package=True)
        return None

    def create_module(self, spec):
        if spec.name in ("hailtop.version", "hail.version"):
            m = types.ModuleType(spec.name)
            m.__version__ = "0.2.133-verif"
            m.__pip_version__ = "0.2.133"
            m.__revision__ = "verif000000"
            return m
        m = _StubModule(spec.name)
        m.__path__ = []
        return m

    def exec_module(self, module):
        pass


ENV = {
    "CLOUD": "gcp", "HAIL_DEFAULT_NAMESPACE": "default", "HAIL_SHA": "0" * 40, "HAIL_SCOPE": "test",
    "KUBERNETES_SERVER_URL": "https://k8s.invalid", "INTERNAL_GATEWAY_IP": "10.0.0.1",
    "HAIL_QUERY_STORAGE_URI": "gs://query", "HAIL_QUERY_ACCEPTABLE_JAR_SUBFOLDER": "/jars",
    "HAIL_DOCKER_ROOT_IMAGE": "ubuntu:22.04", "HAIL_DOCKER_PREFIX": "docker.invalid", "HAIL_BATCH_STORAGE_URI": "gs://batch",
    "HAIL_BATCH_WORKER_IMAGE": "worker:latest", "HAIL_CI_UTILS_IMAGE": "ci-utils:latest", "HAIL_CI_STORAGE_URI": "gs://ci",
    "HAIL_CI_GITHUB_CONTEXT": "ci-test", "HAIL_BUILDKIT_IMAGE": "buildkit:latest", "PORT": "5000",
    "HAIL_DOMAIN": "hail.test", "HAIL_GCP_PROJECT": "proj", "HAIL_GCP_REGION": "us-central1", "HAIL_GCP_ZONE": "us-central1-a",
    "HAIL_PRODUCTION_DOMAIN": "hail.test", "HAIL_BATCH_GCP_REGIONS": '["us-central1"]', "HAIL_DEFAULT_DOMAIN": "hail.test",
}

GLOBAL_CONFIG = {
    "cloud": "gcp", "domain": "hail.test", "default_namespace": "default", "docker_prefix": "docker.invalid",
    "docker_root_image": "ubuntu:22.04", "kubernetes_server_url": "https://k8s.invalid",
    "batch_logs_storage_uri": "gs://batch-logs", "batch_gcp_regions": '["us-central1"]', "gcp_project": "proj",
    "gcp_region": "us-central1", "gcp_zone": "us-central1-a", "organization_domain": "example.org",
    "internal_ip": "10.0.0.1", "ip": "1.2.3.4", "test_storage_uri": "gs://test", "query_storage_uri": "gs://query",
    "hail_test_gcs_bucket": "test-bucket", "azure_subscription_id": "sub", "azure_resource_group": "rg",
    "azure_location": "eastus",
}

_installed = False


def install(extra_env: dict | None = None):
    """Idempotent. Must run before any repo import."""
    global _installed
    if _installed:
        return
    _installed = True
    for k, v in {**ENV, **(extra_env or {})}.items():
        os.environ.setdefault(k, v)
    for sub in ("web_common", "auth", "ci", "batch", "gear", "hail/python"):
        p = str(REPO / sub)
        if p not in sys.path:
            sys.path.insert(0, p)
    sys.path.append(str(STUBS))
    pydeps = Path(__file__).resolve().parent.parent / "build" / "pydeps"
    if not (pydeps / "numpy").exists():
        raise RuntimeError("numpy is not installed in /verif/build/pydeps: run `make -C /verif setup`")
    sys.path.append(str(pydeps))
    sys.modules["aiodocker"] = None  # type: ignore  # keep un-importable
    sys.meta_path.append(_Finder())
    try:
        import gear.cloud_config as cc  # noqa

        cc.global_config = dict(GLOBAL_CONFIG)
    except Exception:
        pass


def fresh(modname: str):
    """Import a module from the repo's working tree (install() first)."""
    install()
    return importlib.import_module(modname)
