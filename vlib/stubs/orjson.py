"""Stand-in for orjson: JSON bytes with compact separators (orjson's format)."""
import json

OPT_INDENT_2 = 1
OPT_SORT_KEYS = 2
JSONDecodeError = json.JSONDecodeError
JSONEncodeError = TypeError


def dumps(obj, default=None, option=None):
    kw = {}
    if option and option & OPT_SORT_KEYS:
        kw["sort_keys"] = True
    if option and option & OPT_INDENT_2:
        kw["indent"] = 2
    return json.dumps(obj, default=default, separators=(",", ":") if "indent" not in kw else None, ensure_ascii=False, **kw).encode("utf-8")


def loads(b):
    if isinstance(b, (bytes, bytearray, memoryview)):
        b = bytes(b).decode("utf-8")
    return json.loads(b)
