from . import err, constants  # noqa
from .err import *  # noqa
