"""Exception hierarchy of PyMySQL (names and inheritance as in pymysql/err.py)."""


class MySQLError(Exception):
    pass


class Warning(Warning, MySQLError):  # noqa
    pass


class Error(MySQLError):
    pass


class InterfaceError(Error):
    pass


class DatabaseError(Error):
    pass


class DataError(DatabaseError):
    pass


class OperationalError(DatabaseError):
    pass


class IntegrityError(DatabaseError):
    pass


class InternalError(DatabaseError):
    pass


class ProgrammingError(DatabaseError):
    pass


class NotSupportedError(DatabaseError):
    pass
