class DictCursor:
    pass


class SSCursor:
    pass
