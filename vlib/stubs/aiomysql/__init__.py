"""Stand-in for aiomysql: Pool/Connection/Cursor over a pluggable synchronous *session* object.

A session (supplied by the harness: MiniMySQL's Session, or a fault-injecting key-value store) implements
    execute(sql: str, args) -> (rowcount: int, rows: list[dict] | None, lastrowid: int | None)
    commit(); rollback(); close()
and may raise pymysql.err.* exceptions.  The harness sets `aiomysql.SESSION_FACTORY = callable() -> session`
or builds `Pool(session_factory)` itself and assigns it to `Database.pool`.
Every awaitable here yields to the event loop once (`await asyncio.sleep(0)`) if YIELD is true, so that
interleavings between transactions are possible exactly at statement boundaries.
"""
import asyncio

from . import cursors, utils  # noqa

SESSION_FACTORY = None
YIELD = False
TX_ENDS = 0    # number of Connection.commit()/rollback() calls so far (harnesses step handlers transaction by transaction)


async def _maybe_yield():
    if YIELD:
        await asyncio.sleep(0)


class Cursor:
    def __init__(self, conn):
        self._conn = conn
        self._rows = None
        self._pos = 0
        self.rowcount = -1
        self.lastrowid = None

    async def __aenter__(self):
        return self

    async def __aexit__(self, *exc):
        return False

    async def execute(self, sql, args=None):
        await _maybe_yield()
        rc, rows, lastrowid = self._conn._session.execute(sql, args)
        self.rowcount = rc
        self._rows = rows if rows is not None else []
        self._pos = 0
        self.lastrowid = lastrowid
        return rc

    async def executemany(self, sql, args_array):
        # aiomysql sends INSERT ... VALUES executemany as ONE multi-row statement: atomic when the session supports it
        em = getattr(self._conn._session, "executemany", None)
        if em is not None:
            await _maybe_yield()
            n = em(sql, list(args_array))
        else:
            n = 0
            for a in args_array:
                n += await self.execute(sql, a)
        self.rowcount = n
        return n

    async def fetchone(self):
        if self._rows is None or self._pos >= len(self._rows):
            return None
        r = self._rows[self._pos]
        self._pos += 1
        return r

    async def fetchmany(self, size=100):
        out = (self._rows or [])[self._pos:self._pos + size]
        self._pos += len(out)
        return out

    async def fetchall(self):
        out = (self._rows or [])[self._pos:]
        self._pos = len(self._rows or [])
        return out

    async def close(self):
        pass


class Connection:
    def __init__(self, session):
        self._session = session

    def cursor(self, *a, **k):
        return Cursor(self)

    async def commit(self):
        global TX_ENDS
        await _maybe_yield()
        self._session.commit()
        TX_ENDS += 1

    async def rollback(self):
        global TX_ENDS
        await _maybe_yield()
        self._session.rollback()
        TX_ENDS += 1

    def close(self):
        self._session.close()


class _Acquire:
    def __init__(self, pool):
        self._pool = pool
        self._conn = None

    async def __aenter__(self):
        await _maybe_yield()
        self._conn = Connection(self._pool._factory())
        self._pool.n_acquired += 1
        return self._conn

    async def __aexit__(self, *exc):
        if self._conn is not None:
            # returning a connection to the pool: an open transaction is rolled back, as aiomysql's pool does
            try:
                self._conn._session.rollback()
            finally:
                self._conn.close()
                self._conn = None
                self._pool.n_released += 1
        return False


class Pool:
    def __init__(self, session_factory=None, **kw):
        self._factory = session_factory or SESSION_FACTORY
        self.kw = kw
        self.n_acquired = 0
        self.n_released = 0
        self.closed = False

    def acquire(self):
        return _Acquire(self)

    def close(self):
        self.closed = True

    async def wait_closed(self):
        pass


def create_pool(**kw):
    return utils._PoolContextManager(Pool(SESSION_FACTORY, **kw))
