class _PoolContextManager:
    def __init__(self, pool):
        self._pool = pool

    def __await__(self):
        async def _get():
            return self._pool
        return _get().__await__()

    async def __aenter__(self):
        return self._pool

    async def __aexit__(self, *exc):
        self._pool.close()
        return False
