from . import exceptions  # noqa
from .exceptions import HTTPError, ConnectionError, ReadTimeout, Timeout, ChunkedEncodingError, RequestException  # noqa


class Response:
    status_code = 200
