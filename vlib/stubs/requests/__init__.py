from . import exceptions  # noqa
from .exceptions import HTTPError, ConnectionError, ReadTimeout, Timeout, ChunkedEncodingError, RequestException  # noqa


class Response:
    status_code = 200


class Session:
    def __init__(self, *a, **k):
        self.headers = {}

    def mount(self, *a, **k):
        pass
