class HTTPAdapter:
    def __init__(self, *a, **k):
        pass
