class RequestException(IOError):
    def __init__(self, *args, response=None, request=None):
        super().__init__(*args)
        self.response = response
        self.request = request


class HTTPError(RequestException):
    pass


class ConnectionError(RequestException):  # noqa
    pass


class Timeout(RequestException):
    pass


class ReadTimeout(Timeout):
    pass


class ConnectTimeout(ConnectionError, Timeout):
    pass


class ChunkedEncodingError(RequestException):
    pass
