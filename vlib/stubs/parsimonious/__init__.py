"""MiniPEG: a faithful stand-in for the `parsimonious` PEG library (absent from this sandbox), covering what
hail/python/hail/expr/type_parsing.py uses: Grammar(text) with the parsimonious rule syntax, Grammar.parse / .match,
Grammar[rule], the Node tree shape (Sequence / OneOf / Quantifier / Literal / Regex / Lookahead / Not nodes with the same
children structure as parsimonious 0.10), and NodeVisitor (visit_<rule> dispatch, generic_visit, unwrapped_exceptions,
VisitationError wrapping).

Semantics transcribed from parsimonious' documentation and source layout (expressions.py / nodes.py / grammar.py):
packrat matching, ordered choice, greedy quantifiers that stop on a zero-length match, whole-input parse
(IncompleteParseError otherwise), first rule is the default rule.  The grammar TEXT and the visitor are the repository's; only
the PEG engine is ours (the same split as MiniMySQL: repository SQL, our interpreter).
"""
from __future__ import annotations

import ast
import re as _re

__all__ = ["Grammar", "NodeVisitor", "ParseError", "IncompleteParseError", "VisitationError", "Node", "RegexNode",
           "BadGrammar", "UndefinedLabel"]


# ---------------------------------------------------------------------------------------------------- exceptions
class ParsimoniousError(Exception):
    pass


class ParseError(ParsimoniousError):
    def __init__(self, text, pos=-1, expr=None):
        self.text = text
        self.pos = pos
        self.expr = expr

    def __str__(self):
        rule = getattr(self.expr, "name", "") or str(self.expr)
        return "Rule %s didn't match at '%s' (line %s, column %s)." % (rule, self.text[self.pos:self.pos + 20], self.line(), self.column())

    def line(self):
        return self.text.count("\n", 0, self.pos) + 1 if isinstance(self.text, str) else None

    def column(self):
        try:
            return self.pos - self.text.rindex("\n", 0, self.pos)
        except (ValueError, AttributeError):
            return self.pos + 1


class IncompleteParseError(ParseError):
    def __str__(self):
        return "Rule '%s' matched in its entirety, but it didn't consume all the text. The non-matching portion of the text begins with '%s' (line %s, column %s)." % (
            getattr(self.expr, "name", ""), self.text[self.pos:self.pos + 20], self.line(), self.column())


class VisitationError(ParsimoniousError):
    def __init__(self, exc, exc_class, node):
        self.original_class = exc_class
        super().__init__("%s: %s\n\nParse tree:\n%s" % (exc_class.__name__, exc, node.prettily(error=node)))


class BadGrammar(ParsimoniousError):
    pass


class UndefinedLabel(BadGrammar):
    def __init__(self, label):
        self.label = label

    def __str__(self):
        return 'The label "%s" was never defined.' % self.label


# ---------------------------------------------------------------------------------------------------- nodes
class Node:
    __slots__ = ["expr", "full_text", "start", "end", "children"]

    def __init__(self, expr, full_text, start, end, children=None):
        self.expr = expr
        self.full_text = full_text
        self.start = start
        self.end = end
        self.children = children or []

    @property
    def expr_name(self):
        return self.expr.name

    def __iter__(self):
        return iter(self.children)

    @property
    def text(self):
        return self.full_text[self.start:self.end]

    def prettily(self, error=None):
        def indent(text):
            return "\n".join(("    " + line) for line in text.splitlines())

        ret = ["<%s%s matching \"%s\">%s" % (self.__class__.__name__, (" called \"%s\"" % self.expr_name) if self.expr_name else "", self.text,
                                           "  <-- *** We were here. ***" if error is self else "")]
        for n in self:
            ret.append(indent(n.prettily(error=error)))
        return "\n".join(ret)

    def __str__(self):
        return self.prettily()

    def __eq__(self, other):
        if not isinstance(other, Node):
            return NotImplemented
        return (self.expr == other.expr and self.full_text == other.full_text and self.start == other.start and self.end == other.end
                and self.children == other.children)

    def __ne__(self, other):
        return not self == other

    __hash__ = None

    def __repr__(self):
        return "<%s %r %r>" % (type(self).__name__, self.expr_name, self.text)


class RegexNode(Node):
    __slots__ = ["match"]


# ---------------------------------------------------------------------------------------------------- expressions
class Expression:
    def __init__(self, name=""):
        self.name = name

    def parse(self, text, pos=0):
        node = self.match(text, pos=pos)
        if node.end < len(text):
            raise IncompleteParseError(text, node.end, self)
        return node

    def match(self, text, pos=0):
        error = ParseError(text)
        node = self.match_core(text, pos, {}, error)
        if node is None:
            raise error
        return node

    def match_core(self, text, pos, cache, error):
        key = (id(self), pos)
        if key in cache:
            node = cache[key]
        else:
            node = cache[key] = self._uncached_match(text, pos, cache, error)
        if node is None and pos >= error.pos and (self.name or getattr(error.expr, "name", None) is None):
            error.expr = self
            error.pos = pos
        return node

    def __str__(self):
        return "<%s %s>" % (type(self).__name__, self.name or "(anonymous)")


class Literal(Expression):
    def __init__(self, literal, name=""):
        super().__init__(name)
        self.literal = literal

    def _uncached_match(self, text, pos, cache, error):
        if text.startswith(self.literal, pos):
            return Node(self, text, pos, pos + len(self.literal))
        return None


class Regex(Expression):
    def __init__(self, pattern, name="", flags=0):
        super().__init__(name)
        self.re = _re.compile(pattern, flags)

    def _uncached_match(self, text, pos, cache, error):
        m = self.re.match(text, pos)
        if m is not None:
            span = m.span()
            node = RegexNode(self, text, pos, pos + span[1] - span[0])
            node.match = m
            return node
        return None


class Compound(Expression):
    def __init__(self, *members, name=""):
        super().__init__(name)
        self.members = list(members)


class Sequence(Compound):
    def _uncached_match(self, text, pos, cache, error):
        new_pos = pos
        children = []
        for m in self.members:
            node = m.match_core(text, new_pos, cache, error)
            if node is None:
                return None
            children.append(node)
            new_pos += node.end - node.start
        return Node(self, text, pos, new_pos, children)


class OneOf(Compound):
    def _uncached_match(self, text, pos, cache, error):
        for m in self.members:
            node = m.match_core(text, pos, cache, error)
            if node is not None:
                return Node(self, text, pos, node.end, children=[node])
        return None


class Lookahead(Compound):
    def __init__(self, member, negative=False, name=""):
        super().__init__(member, name=name)
        self.negativity = bool(negative)

    def _uncached_match(self, text, pos, cache, error):
        node = self.members[0].match_core(text, pos, cache, error)
        if (node is None) == self.negativity:
            return Node(self, text, pos, pos)
        return None


class Quantifier(Compound):
    def __init__(self, member, min=0, max=float("inf"), name=""):
        super().__init__(member, name=name)
        self.min = min
        self.max = max

    def _uncached_match(self, text, pos, cache, error):
        new_pos = pos
        children = []
        size = len(text)
        while new_pos < size and len(children) < self.max:
            node = self.members[0].match_core(text, new_pos, cache, error)
            if node is None:
                break
            children.append(node)
            length = node.end - node.start
            if len(children) >= self.min and length == 0:
                break
            new_pos += length
        if len(children) >= self.min:
            return Node(self, text, pos, new_pos, children)
        return None


class _LazyReference:
    def __init__(self, label):
        self.label = label
        self.name = ""


# ---------------------------------------------------------------------------------------------------- grammar syntax
_TOKEN = _re.compile(r"""
    (?P<ws>(?:\s+|\#[^\r\n]*)+)
  | (?P<regex>~\s*(?P<rlit>[uUrRbB]{0,3}(?:"[^"\\]*(?:\\.[^"\\]*)*"|'[^'\\]*(?:\\.[^'\\]*)*'))(?P<flags>[ilmsuxaILMSUXA]*))
  | (?P<lit>[uUrRbB]{0,3}(?:"[^"\\]*(?:\\.[^"\\]*)*"|'[^'\\]*(?:\\.[^'\\]*)*'))
  | (?P<label>[a-zA-Z_][a-zA-Z_0-9]*)
  | (?P<quant>[*+?]|\{\d*,\d*\}|\{\d+\})
  | (?P<punct>[=/()&!])
""", _re.X | _re.S)


def _tokenize(src):
    pos = 0
    out = []
    while pos < len(src):
        m = _TOKEN.match(src, pos)
        if not m:
            raise BadGrammar("cannot tokenize grammar at %r" % src[pos:pos + 30])
        kind = m.lastgroup
        if kind in ("rlit", "flags"):
            kind = "regex"
        if kind != "ws":
            out.append((kind, m))
        pos = m.end()
    return out


class _GrammarParser:
    """rules = rule*; rule = label '=' expression; expression = sequence ('/' sequence)*; sequence = term+;
    term = ('!'|'&')? atom quantifier?; atom = label(not followed by '=') | literal | regex | '(' expression ')'."""

    def __init__(self, src):
        self.toks = _tokenize(src)
        self.i = 0

    def peek(self, k=0):
        return self.toks[self.i + k] if self.i + k < len(self.toks) else (None, None)

    def is_rule_start(self):
        k0, _ = self.peek()
        k1, m1 = self.peek(1)
        return k0 == "label" and k1 == "punct" and m1.group() == "="

    def rules(self):
        rules = []
        while self.i < len(self.toks):
            if not self.is_rule_start():
                raise BadGrammar("expected a rule at token %d: %r" % (self.i, self.peek()[1].group()))
            name = self.peek()[1].group()
            self.i += 2
            e = self.expression()
            rules.append((name, e))
        return rules

    def expression(self):
        alts = [self.sequence()]
        while self.peek()[0] == "punct" and self.peek()[1].group() == "/":
            self.i += 1
            alts.append(self.sequence())
        return alts[0] if len(alts) == 1 else OneOf(*alts)

    def sequence(self):
        terms = []
        while True:
            k, m = self.peek()
            if k is None or self.is_rule_start():
                break
            if k == "punct" and m.group() in ("/", ")", "="):
                break
            terms.append(self.term())
        if not terms:
            raise BadGrammar("empty sequence")
        return terms[0] if len(terms) == 1 else Sequence(*terms)

    def term(self):
        k, m = self.peek()
        if k == "punct" and m.group() in ("!", "&"):
            self.i += 1
            inner = self.term()
            return Lookahead(inner, negative=m.group() == "!")
        a = self.atom()
        k, m = self.peek()
        if k == "quant":
            self.i += 1
            q = m.group()
            if q == "?":
                return Quantifier(a, min=0, max=1)
            if q == "*":
                return Quantifier(a, min=0)
            if q == "+":
                return Quantifier(a, min=1)
            body = q[1:-1]
            if "," in body:
                lo, hi = body.split(",")
                return Quantifier(a, min=int(lo or 0), max=int(hi) if hi else float("inf"))
            return Quantifier(a, min=int(body), max=int(body))
        return a

    def atom(self):
        k, m = self.peek()
        self.i += 1
        if k == "label":
            return _LazyReference(m.group())
        if k == "lit":
            return Literal(ast.literal_eval(m.group()))
        if k == "regex":
            flags = 0
            for f in m.group("flags").upper():
                flags |= getattr(_re, f)
            return Regex(ast.literal_eval(m.group("rlit")), flags=flags)
        if k == "punct" and m.group() == "(":
            e = self.expression()
            k2, m2 = self.peek()
            if not (k2 == "punct" and m2.group() == ")"):
                raise BadGrammar("expected ')'")
            self.i += 1
            return e
        raise BadGrammar("unexpected token %r" % (m.group() if m else None))


class Grammar(dict):
    def __init__(self, rules="", **more_rules):
        parsed = _GrammarParser(rules).rules()
        if not parsed and not more_rules:
            self.default_rule = None
            return
        named = {}
        for name, e in parsed:
            named[name] = e

        def resolve_ref(label, seen=()):
            if label in seen:
                raise BadGrammar("Circular Reference resolving %s" % label)
            if label not in named:
                raise UndefinedLabel(label)
            e = named[label]
            if isinstance(e, _LazyReference):
                return resolve_ref(e.label, seen + (label,))
            return e

        # name the top-level expressions (aliases resolve to the aliased expression object)
        for name, e in list(named.items()):
            if not isinstance(e, _LazyReference):
                e.name = name
        done = set()

        def resolve(e):
            if isinstance(e, _LazyReference):
                return resolve(resolve_ref(e.label))
            if id(e) in done:
                return e
            done.add(id(e))
            if isinstance(e, Compound):
                e.members = [resolve(m) for m in e.members]
            return e

        for name in named:
            self[name] = resolve(named[name])
        self.default_rule = self[parsed[0][0]] if parsed else None

    def default(self, rule_name):
        new = Grammar.__new__(Grammar)
        dict.update(new, self)
        new.default_rule = self[rule_name]
        return new

    def parse(self, text, pos=0):
        if self.default_rule is None:
            raise RuntimeError("Can't call parse() on a Grammar that has no default rule.")
        return self.default_rule.parse(text, pos=pos)

    def match(self, text, pos=0):
        if self.default_rule is None:
            raise RuntimeError("Can't call match() on a Grammar that has no default rule.")
        return self.default_rule.match(text, pos=pos)


# ---------------------------------------------------------------------------------------------------- visitor
class NodeVisitor:
    grammar = None
    unwrapped_exceptions = ()

    def visit(self, node):
        method = getattr(self, "visit_" + node.expr_name, self.generic_visit)
        try:
            return method(node, [self.visit(n) for n in node])
        except (VisitationError, UndefinedLabel):
            raise
        except Exception as exc:  # noqa: BLE001
            if isinstance(exc, self.unwrapped_exceptions):
                raise
            raise VisitationError(exc, type(exc), node) from exc

    def generic_visit(self, node, visited_children):
        raise NotImplementedError("No visitor method was defined for this expression: %s" % node.expr.name)

    def parse(self, text, pos=0):
        return self._parse_or_match(text, pos, "parse")

    def match(self, text, pos=0):
        return self._parse_or_match(text, pos, "match")

    def _parse_or_match(self, text, pos, method_name):
        if not self.grammar:
            raise RuntimeError("The {cls}.{method}() shortcut won't work because {cls} was never associated with a specific grammar.".format(
                cls=type(self).__name__, method=method_name))
        return self.visit(getattr(self.grammar, method_name)(text, pos=pos))

    def lift_child(self, node, children):
        first_child, = children
        return first_child
