"""Stand-in for prometheus_async.aio: time(metric, future) awaits the future and returns its result
(the real one additionally observes the elapsed time on the metric); as a decorator it returns the function."""
import asyncio
import inspect


def time(metric, future=None):
    if future is None:
        def deco(f):
            return f
        return deco

    async def _wait():
        return await future

    return _wait()
