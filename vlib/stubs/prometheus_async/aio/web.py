async def server_stats(request):
    raise NotImplementedError
