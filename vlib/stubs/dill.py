"""Stand-in for dill: pickle with dill's signatures (enough for hailtop.batch PythonJob plumbing)."""
import pickle

HIGHEST_PROTOCOL = pickle.HIGHEST_PROTOCOL


def dumps(obj, protocol=None, recurse=False, **kw):
    return pickle.dumps(obj, protocol)


def dump(obj, f, protocol=None, recurse=False, **kw):
    return pickle.dump(obj, f, protocol)


def loads(b, **kw):
    return pickle.loads(b)


def load(f, **kw):
    return pickle.load(f)
