class Config:
    def __init__(self, *a, **k):
        self.args = (a, k)
