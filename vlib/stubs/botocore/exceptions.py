class BotoCoreError(Exception):
    pass


class ClientError(Exception):
    def __init__(self, error_response=None, operation_name=None):
        self.response = error_response or {}
        self.operation_name = operation_name
        super().__init__(str(error_response))


class EndpointConnectionError(BotoCoreError):
    pass


class ConnectionClosedError(BotoCoreError):
    pass


class ConnectTimeoutError(BotoCoreError):
    pass


class ReadTimeoutError(BotoCoreError):
    pass
