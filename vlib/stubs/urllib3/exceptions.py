class HTTPError(Exception):
    pass


class PoolError(HTTPError):
    pass


class TimeoutError(HTTPError):  # noqa
    pass


class ReadTimeoutError(TimeoutError, HTTPError):
    pass


class ProtocolError(HTTPError):
    pass


class MaxRetryError(HTTPError):
    pass
