class PoolManager:
    def __init__(self, *a, **k):
        pass
