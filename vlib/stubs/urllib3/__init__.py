from . import exceptions  # noqa
