"""Stand-in for the `decorator` package: decorator(caller) -> signature-preserving decorator."""
import functools


def decorator(caller):
    def deco(func):
        @functools.wraps(func)
        def wrapper(*args, **kwargs):
            return caller(func, *args, **kwargs)
        return wrapper
    functools.update_wrapper(deco, caller)
    return deco
