"""Deterministic asyncio: an event loop with virtual time that the harness single-steps.

* `step()` runs exactly one ready callback (FIFO, as asyncio does); timers that are due at the current
  virtual time are moved to the ready queue first.
* `advance()` jumps the clock to the next timer; `run_until_idle()` steps (and optionally advances) until
  nothing is left.
* The harness performs external operations (create_task, task.cancel(), future.set_result, plain method
  calls on the object under test) between steps, like a callback would.
Tasks are pure-Python tasks so that the ready queue can be projected to task names.
"""
from __future__ import annotations

import asyncio
import heapq
from asyncio import events, tasks


class VLoop(asyncio.BaseEventLoop):
    def __init__(self):
        super().__init__()
        self._vtime = 0.0
        self.errors = []
        self.set_exception_handler(lambda loop, ctx: self.errors.append(ctx))
        self.set_task_factory(lambda loop, coro, **kw: tasks._PyTask(coro, loop=loop, **kw))

    # --- BaseEventLoop plumbing -----------------------------------------------------------
    def time(self):
        return self._vtime

    def _process_events(self, event_list):
        pass

    def _write_to_self(self):
        pass

    # --- stepping -------------------------------------------------------------------------------
    def _move_due(self):
        sched = self._scheduled
        while sched and sched[0]._when <= self._vtime + 1e-12:
            h = heapq.heappop(sched)
            h._scheduled = False
            if not h._cancelled:
                self._ready.append(h)

    def pending_ready(self):
        self._move_due()
        return [h for h in self._ready if not h._cancelled]

    def ready_tasks(self):
        """Names of the tasks whose step/wakeup is in the ready queue, in FIFO order (None for other callbacks)."""
        out = []
        for h in self.pending_ready():
            t = getattr(h._callback, "__self__", None)
            out.append(t.get_name() if t is not None and hasattr(t, "get_name") else None)
        return out

    def step(self) -> bool:
        self._move_due()
        while self._ready:
            h = self._ready.popleft()
            if h._cancelled:
                continue
            self.run_handle(h)
            return True
        return False

    def run_handle(self, h):
        old = events._get_running_loop()
        events._set_running_loop(self)
        try:
            h._run()
        finally:
            events._set_running_loop(old)

    def call_in_loop(self, fn, *a, **k):
        """Run fn synchronously with this loop set as the running loop (an external operation)."""
        old = events._get_running_loop()
        events._set_running_loop(self)
        try:
            return fn(*a, **k)
        finally:
            events._set_running_loop(old)

    def next_timer(self):
        sched = self._scheduled
        while sched and sched[0]._cancelled:
            h = heapq.heappop(sched)
            h._scheduled = False
        return sched[0]._when if sched else None

    def advance(self) -> bool:
        """Jump to the next timer (only meaningful when nothing is ready)."""
        t = self.next_timer()
        if t is None:
            return False
        if t > self._vtime:
            self._vtime = t
        self._move_due()
        return True

    def advance_to(self, t: float):
        if t > self._vtime:
            self._vtime = t
        self._move_due()

    def run_until_idle(self, advance=True, max_steps=1_000_000):
        n = 0
        while n < max_steps:
            if self.step():
                n += 1
                continue
            if advance and self.advance():
                continue
            return n
        raise RuntimeError("run_until_idle: step budget exhausted")

    def run_coro(self, coro, advance=True, max_steps=1_000_000):
        """Run a coroutine to completion deterministically and return its result."""
        t = self.create_task(coro)
        n = 0
        while not t.done():
            if self.step():
                n += 1
                if n > max_steps:
                    raise RuntimeError("run_coro: step budget exhausted")
                continue
            if advance and self.advance():
                continue
            raise RuntimeError("run_coro: deadlock (task not done, nothing ready, no timers)")
        return t.result()

    def dispose(self):
        # cancel whatever is left without running it; avoids 'Task was destroyed but it is pending' noise
        for t in list(tasks.all_tasks(self)):
            t._log_destroy_pending = False
        self._ready.clear()
        self._scheduled.clear()
        # the loop is deliberately not closed: coroutines of unfinished tasks are finalised by the garbage
        # collector later (running their finally/__aexit__ blocks), which may still call call_soon on this loop
        self._closed_by_harness = True

    def __del__(self, _warn=None):
        pass
