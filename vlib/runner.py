"""Check context: evidence, violations, known findings, exit codes.

Exit codes of ./check:  0 = property held on everything explored (KNOWN-FINDING lines possible)
                        1 = at least one violation not listed in known_findings.json (VIOLATION line)
                        2 = machinery failure (never reported as a violation)
"""
from __future__ import annotations

import fnmatch
import json
import os
import subprocess
import sys
import time
from pathlib import Path

VERIF = Path(__file__).resolve().parent.parent
REPO = Path(os.environ.get("VERIF_REPO", "/repo"))
BUILD = VERIF / "build"
EVIDENCE = VERIF / "evidence"
KNOWN = VERIF / "known_findings.json"


class MachineryError(RuntimeError):
    pass


def load_known(pid):
    if not KNOWN.exists():
        return []
    data = json.loads(KNOWN.read_text())
    return [e for e in data.get("findings", []) if e.get("property") == pid]


class Ctx:
    def __init__(self, pid: str, tier: str, seed: int, level: str):
        self.pid = pid
        self.tier = tier
        self.seed = seed
        self.level = level
        self.t0 = time.time()
        self.build = BUILD / pid
        self.build.mkdir(parents=True, exist_ok=True)
        self.cov: dict = {"states": 0, "transitions": 0, "traces_validated_against_impl": 0, "samples": [],
                          "evaluations": 0, "distinct_nontrivial": 0, "rule": "", "exhaustive": False,
                          "tlc_runs": []}
        self.assumptions: list[str] = []
        self.viol: list[dict] = []
        self.notes: list[str] = []
        self.workers = os.cpu_count() or 4

    @property
    def quick(self):
        return self.tier == "quick"

    # ---- bookkeeping -----------------------------------------------------------------------
    def add_tlc(self, res, what: str):
        self.cov["states"] += res.distinct
        self.cov["transitions"] += res.generated
        self.cov["tlc_runs"].append({"what": what, "distinct": res.distinct, "generated": res.generated,
                                      "depth": res.depth, "wall_s": round(res.wall_s, 2),
                                      "actions_covered": {k: v[1] for k, v in res.coverage.items()} if res.coverage else None})

    def sample(self, obj, limit=6):
        if len(self.cov["samples"]) < limit:
            self.cov["samples"].append(obj)

    def assume(self, *texts):
        for t in texts:
            if t not in self.assumptions:
                self.assumptions.append(t)

    def note(self, text):
        self.notes.append(text)
        print("note:", text)

    def violation(self, sig: str, detail, replay=None):
        """Record a violation. sig is a stable root-cause signature (used for known findings)."""
        self.viol.append({"sig": sig, "detail": detail, "replay": replay if replay is not None else detail})

    def require_covered(self, res, actions, what=""):
        """Vacuity guard: every named action must have been taken at least once (needs -coverage 1)."""
        missing = [a for a in actions if res.coverage.get(a, (0, 0))[1] == 0]
        if missing:
            raise MachineryError(f"vacuous run {what}: actions never taken: {missing}")

    # ---- finish -----------------------------------------------------------------------------
    def unlisted_violations(self):
        """violations recorded so far that no kind=finding entry of known_findings.json lists"""
        known = load_known(self.pid)
        return [v for v in self.viol
                if not any(e.get("kind") == "finding" and fnmatch.fnmatchcase(v["sig"], e["signature"]) for e in known)]

    def finish(self) -> int:
        known = load_known(self.pid)
        unlisted = []
        listed = {}
        for v in self.viol:
            hit = None
            for e in known:
                if e.get("kind") == "finding" and fnmatch.fnmatchcase(v["sig"], e["signature"]):
                    hit = e
                    break
            if hit is not None:
                listed.setdefault(hit["signature"], [hit, 0])[1] += 1
            else:
                unlisted.append(v)
        for sig, (e, n) in listed.items():
            print(f"KNOWN-FINDING: property={self.pid} {e['description']} [signature {sig}; {n} occurrence(s) this run]")
        rdir = BUILD / "replay"
        rdir.mkdir(parents=True, exist_ok=True)
        seen = set()
        k = 0
        for v in unlisted:
            if v["sig"] in seen:
                continue
            seen.add(v["sig"])
            k += 1
            if k > 10:
                break
            path = rdir / f"{self.pid}-{k}.json"
            path.write_text(json.dumps({"property": self.pid, "tier": self.tier, "seed": self.seed, "sig": v["sig"],
                                        "detail": v["detail"], "replay": v["replay"]}, indent=1, default=str))
            print(f"VIOLATION property={self.pid} replay={path}")
            print(f"  signature: {v['sig']}")
            d = json.dumps(v["detail"], default=str)
            print(f"  detail: {d[:1500]}")
        cov = dict(self.cov)
        if not cov["samples"]:
            if not unlisted:
                raise MachineryError("no samples recorded")
            cov["samples"] = [{"violation": unlisted[0]["sig"]}]
        cov["known_findings_seen"] = {s: n for s, (e, n) in listed.items()}
        if self.notes:
            cov["notes"] = self.notes
        if not cov.get("rule"):
            cov.pop("rule", None)
        ev = {"property_id": self.pid, "tier": self.tier, "seed": self.seed, "level": self.level,
              "coverage": cov, "assumptions": self.assumptions, "wall_s": round(time.time() - self.t0, 2),
              "violations": len(unlisted)}
        EVIDENCE.mkdir(exist_ok=True)
        path = EVIDENCE / f"{self.pid}.json"
        path.write_text(json.dumps(ev, indent=1, default=str) + "\n")
        validate_evidence(path)
        print(f"{self.pid} tier={self.tier} seed={self.seed}: states={cov['states']} transitions={cov['transitions']} "
              f"traces_vs_impl={cov['traces_validated_against_impl']} evaluations={cov['evaluations']} "
              f"violations={len(unlisted)} known={sum(n for _, n in listed.values())} wall={ev['wall_s']}s")
        return 1 if unlisted else 0


def validate_evidence(path):
    schema = Path("/root/.vp/EVIDENCE.schema.json")
    if not schema.exists():
        schema = VERIF / "vlib" / "EVIDENCE.schema.json"
    code = ("import json,sys,jsonschema; jsonschema.validate(json.load(open(sys.argv[1])), json.load(open(sys.argv[2])))")
    try:
        p = subprocess.run(["python3-vt", "-c", code, str(path), str(schema)], capture_output=True, text=True, timeout=60)
    except FileNotFoundError:
        return
    if p.returncode != 0:
        raise MachineryError("evidence does not validate: " + p.stderr[-800:])
