"""./check <ID> [--tier quick|thorough] [--replay PATH] [--selftest]"""
from __future__ import annotations

import argparse
import importlib
import json
import os
import sys
import traceback

from . import runner

LEVELS = {}


def main(argv=None):
    ap = argparse.ArgumentParser()
    ap.add_argument("pid")
    ap.add_argument("--tier", default=os.environ.get("VERIF_TIER", "quick"), choices=["quick", "thorough"])
    ap.add_argument("--replay")
    ap.add_argument("--selftest", action="store_true")
    a = ap.parse_args(argv)
    pid = a.pid.upper()
    seed = int(os.environ.get("VERIF_SEED", "0") or 0)
    tier = a.tier
    try:
        if a.replay:
            rp = json.load(open(a.replay))
            seed = int(rp.get("seed", seed))
            tier = rp.get("tier", tier)
        mod = importlib.import_module(f"checks.{pid.lower()}")
        ctx = runner.Ctx(pid, tier, seed, getattr(mod, "LEVEL", "model_checking"))
        if a.selftest:
            return int(mod.selftest(ctx) or 0)
        try:
            if a.replay and hasattr(mod, "replay"):
                mod.replay(ctx, rp)
            else:
                mod.run(ctx)
        except Exception as e:  # noqa: BLE001
            # violations that are not listed findings were already established when a later stage of the check broke down (typically
            # because the code under test misbehaves there too): they stand; the breakdown is recorded as a note
            if not ctx.unlisted_violations():
                raise
            traceback.print_exc()
            ctx.note(f"a later stage of the check did not complete ({type(e).__name__}: {e}"[:300] + "); the violations above were established before it")
        rc = ctx.finish()
        if a.replay:
            want = rp.get("sig")
            got = [v["sig"] for v in ctx.viol]
            print(f"replay: signature {want!r} {'reproduced' if want in got else 'NOT reproduced'}")
        return rc
    except SystemExit:
        raise
    except BaseException:
        traceback.print_exc()
        print(f"MACHINERY-FAILURE property={pid} (exit 2; this is not a verdict about the property)")
        return 2


import logging
import warnings
logging.disable(logging.CRITICAL)   # the services log through the logging module; a check's verdict is its stdout
warnings.filterwarnings("ignore", category=RuntimeWarning, message="coroutine .* was never awaited")

if __name__ == "__main__":
    sys.stdout.reconfigure(line_buffering=True)
    sys.exit(main())
