"""Parser for TLA+ values as printed by TLC (states in traces, dot dumps, PrintT output).

Mapping to Python:
  integers -> int, TRUE/FALSE -> bool, "s" -> str, model values / identifiers -> Sym(name)
  <<a, b>> -> tuple, {a, b} -> frozenset, [k |-> v, ...] -> dict (str keys),
  (a :> 1 @@ b :> 2) -> dict (keys = parsed values), a..b -> frozenset(range)
Dicts are returned as FrozenDict so that values are hashable (sets of records occur).
"""
from __future__ import annotations


class Sym(str):
    """A model value / bare identifier."""

    def __repr__(self):
        return f"Sym({str.__repr__(self)})"


class FrozenDict(dict):
    def __hash__(self):  # type: ignore[override]
        return hash(frozenset(self.items()))

    def _ro(self, *a, **k):
        raise TypeError("FrozenDict is read-only")

    __setitem__ = __delitem__ = clear = pop = popitem = setdefault = update = _ro


class ParseError(ValueError):
    pass


class _P:
    def __init__(self, s: str):
        self.s = s
        self.i = 0
        self.n = len(s)

    def ws(self):
        s, n = self.s, self.n
        while self.i < n and s[self.i] in " \t\r\n":
            self.i += 1

    def peek(self, k=1):
        return self.s[self.i:self.i + k]

    def expect(self, tok):
        self.ws()
        if not self.s.startswith(tok, self.i):
            raise ParseError(f"expected {tok!r} at {self.i}: {self.s[self.i:self.i+40]!r}")
        self.i += len(tok)

    def value(self):
        self.ws()
        v = self.atom()
        # function-construction chain and ranges
        while True:
            self.ws()
            if self.s.startswith("..", self.i):
                self.i += 2
                hi = self.atom()
                v = frozenset(range(v, hi + 1))
                continue
            break
        return v

    def atom(self):
        self.ws()
        s = self.s
        if self.i >= self.n:
            raise ParseError("unexpected end")
        c = s[self.i]
        if c == '"':
            return self.string()
        if c == '<' and s.startswith("<<", self.i):
            self.i += 2
            items = self.items(">>")
            return tuple(items)
        if c == '{':
            self.i += 1
            items = self.items("}")
            return frozenset(items)
        if c == '[':
            self.i += 1
            self.ws()
            if s.startswith("]", self.i):
                self.i += 1
                return FrozenDict()
            d = {}
            while True:
                self.ws()
                j = self.i
                while self.i < self.n and (s[self.i].isalnum() or s[self.i] == '_'):
                    self.i += 1
                key = s[j:self.i]
                self.expect("|->")
                d[key] = self.value()
                self.ws()
                if s.startswith(",", self.i):
                    self.i += 1
                    continue
                self.expect("]")
                break
            return FrozenDict(d)
        if c == '(':
            self.i += 1
            d = {}
            while True:
                k = self.value()
                self.expect(":>")
                v = self.value()
                d[k] = v
                self.ws()
                if s.startswith("@@", self.i):
                    self.i += 2
                    continue
                self.expect(")")
                break
            # a function with domain 1..n is a sequence; TLC prints those as <<>> itself
            return FrozenDict(d)
        if c == '-' or c.isdigit():
            j = self.i
            self.i += 1
            while self.i < self.n and s[self.i].isdigit():
                self.i += 1
            return int(s[j:self.i])
        if c.isalpha() or c == '_':
            j = self.i
            while self.i < self.n and (s[self.i].isalnum() or s[self.i] == '_'):
                self.i += 1
            w = s[j:self.i]
            if w == "TRUE":
                return True
            if w == "FALSE":
                return False
            return Sym(w)
        raise ParseError(f"unexpected {c!r} at {self.i}: {s[self.i:self.i+40]!r}")

    def items(self, close):
        out = []
        self.ws()
        if self.s.startswith(close, self.i):
            self.i += len(close)
            return out
        while True:
            out.append(self.value())
            self.ws()
            if self.s.startswith(",", self.i):
                self.i += 1
                continue
            self.expect(close)
            return out

    def string(self):
        s = self.s
        assert s[self.i] == '"'
        self.i += 1
        out = []
        while True:
            c = s[self.i]
            if c == '\\':
                nx = s[self.i + 1]
                out.append({'n': '\n', 't': '\t', 'r': '\r', 'f': '\f'}.get(nx, nx))
                self.i += 2
            elif c == '"':
                self.i += 1
                return "".join(out)
            else:
                out.append(c)
                self.i += 1


def parse_value(text: str):
    p = _P(text)
    v = p.value()
    p.ws()
    if p.i != p.n:
        raise ParseError(f"trailing text at {p.i}: {text[p.i:p.i+40]!r}")
    return v


def parse_state(text: str) -> dict:
    """Parse a state printed as a conjunction '/\\ x = v\n/\\ y = w' (or a single 'x = v')."""
    p = _P(text)
    st = {}
    while True:
        p.ws()
        if p.i >= p.n:
            break
        if p.s.startswith("/\\", p.i):
            p.i += 2
            p.ws()
        j = p.i
        while p.i < p.n and (p.s[p.i].isalnum() or p.s[p.i] == '_'):
            p.i += 1
        name = p.s[j:p.i]
        if not name:
            raise ParseError(f"expected variable name at {p.i}: {p.s[p.i:p.i+40]!r}")
        p.expect("=")
        st[name] = p.value()
    return st


def to_py(v):
    """Convert to plain JSON-able python (tuples->lists, sets->sorted lists, dict keys->str)."""
    if isinstance(v, (FrozenDict, dict)):
        return {str(k) if not isinstance(k, str) else str(k): to_py(x) for k, x in v.items()}
    if isinstance(v, tuple):
        return [to_py(x) for x in v]
    if isinstance(v, frozenset):
        try:
            return [to_py(x) for x in sorted(v)]
        except TypeError:
            return sorted((to_py(x) for x in v), key=repr)
    if isinstance(v, Sym):
        return str(v)
    return v


def to_tla(v) -> str:
    """Render a python value as a TLA+ expression (inverse of parse for the supported shapes)."""
    if isinstance(v, bool):
        return "TRUE" if v else "FALSE"
    if isinstance(v, Sym):
        return str(v)
    if isinstance(v, int):
        return str(v)
    if isinstance(v, str):
        return '"' + v.replace('\\', '\\\\').replace('"', '\\"').replace('\n', '\\n').replace('\t', '\\t') + '"'
    if isinstance(v, (tuple, list)):
        return "<<" + ", ".join(to_tla(x) for x in v) + ">>"
    if isinstance(v, (set, frozenset)):
        return "{" + ", ".join(sorted(to_tla(x) for x in v)) + "}"
    if isinstance(v, dict):
        if not v:
            return "<<>>"
        if all(isinstance(k, str) and not isinstance(k, Sym) and k.isidentifier() for k in v):
            return "[" + ", ".join(f"{k} |-> {to_tla(x)}" for k, x in v.items()) + "]"
        return "(" + " @@ ".join(f"{to_tla(k)} :> {to_tla(x)}" for k, x in v.items()) + ")"
    if v is None:
        return '"NULL"'
    raise TypeError(f"cannot render {type(v)}")


if __name__ == "__main__":
    assert parse_value('<<{1}, {2}>>') == (frozenset({1}), frozenset({2}))
    assert parse_value('[a |-> 0, b |-> "s"]') == {"a": 0, "b": "s"}
    assert parse_value('(1 :> "x" @@ 2 :> <<>>)') == {1: "x", 2: ()}
    assert parse_value('(a1 :> 1)') == {Sym("a1"): 1}
    assert parse_value('-3') == -3
    assert parse_value('1..3') == frozenset({1, 2, 3})
    st = parse_state('/\\ q = <<>>\n/\\ x = [a |-> 0, b |-> "s\\"q"]\n/\\ act = [name |-> "Init"]')
    assert st == {"q": (), "x": {"a": 0, "b": 's"q'}, "act": {"name": "Init"}}
    assert parse_value(to_tla({"a": (1, 2), "b": frozenset({"x"})})) == {"a": (1, 2), "b": frozenset({"x"})}
    print("tlaval ok")
