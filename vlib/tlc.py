"""Running TLC and reading what it prints.

Everything TLC-related goes through here: exhaustive runs, simulation, constant evaluation
(ASSUME-only modules), labelled state-graph dumps, and parsing of counter-example traces.
"""
from __future__ import annotations

import os
import re
import shutil
import subprocess
import time
from dataclasses import dataclass, field
from pathlib import Path

from . import tlaval

JAR = "/opt/veriftools/tla/tla2tools.jar:/opt/veriftools/tla/CommunityModules-deps.jar"
VERIF = Path(__file__).resolve().parent.parent
SPECS = VERIF / "specs"


class TLCFailure(RuntimeError):
    """TLC itself failed (parse error, evaluation error, crash, timeout): machinery failure."""


@dataclass
class Violation:
    kind: str  # invariant | action_property | temporal | deadlock | assumption | postcondition
    name: str
    trace: list = field(default_factory=list)  # list of (action_header, state dict)


@dataclass
class TLCResult:
    out: str
    generated: int = 0
    distinct: int = 0
    depth: int = 0
    violations: list = field(default_factory=list)
    coverage: dict = field(default_factory=dict)  # action name -> (distinct, total)
    wall_s: float = 0.0
    rc: int = 0

    @property
    def ok(self):
        return not self.violations


_STATE_HDR = re.compile(r"^State (\d+): <(.*)>\s*$")
_STATE_HDR2 = re.compile(r"^State (\d+): (Stuttering)\s*$")
_BACK = re.compile(r"^Back to state (\d+)")


def _parse_trace(lines, i):
    """Parse 'State n: <...>' blocks starting at line i; returns (trace, next_i)."""
    trace = []
    n = len(lines)
    while i < n:
        m = _STATE_HDR.match(lines[i]) or _STATE_HDR2.match(lines[i])
        if not m:
            if _BACK.match(lines[i]):
                trace.append((lines[i].strip(), None))
                i += 1
                continue
            if lines[i].strip() == "":
                i += 1
                # allow one blank line between states
                if i < n and (_STATE_HDR.match(lines[i]) or _STATE_HDR2.match(lines[i]) or _BACK.match(lines[i])):
                    continue
                break
            break
        hdr = m.group(2)
        hdr = re.sub(r" line \d+, col \d+ to line \d+, col \d+ of module \w+", "", hdr)
        i += 1
        buf = []
        while i < n and lines[i].strip() != "" and not lines[i].startswith("State "):
            buf.append(lines[i])
            i += 1
        st = None
        if buf:
            try:
                st = tlaval.parse_state("\n".join(buf))
            except tlaval.ParseError:
                st = {"_raw": "\n".join(buf)}
        trace.append((hdr, st))
    return trace, i


def parse_output(out: str) -> TLCResult:
    res = TLCResult(out=out)
    lines = out.splitlines()
    i = 0
    n = len(lines)
    pending = None
    while i < n:
        ln = lines[i]
        m = re.match(r"Error: Invariant (\S+) is violated", ln)
        if m:
            pending = Violation("invariant", m.group(1))
            res.violations.append(pending)
        m = re.match(r"Error: Action property (\S+) is violated", ln)
        if m:
            pending = Violation("action_property", m.group(1))
            res.violations.append(pending)
        if ln.startswith("Error: Temporal properties were violated"):
            pending = Violation("temporal", "temporal")
            res.violations.append(pending)
        if ln.startswith("Error: Deadlock reached"):
            pending = Violation("deadlock", "deadlock")
            res.violations.append(pending)
        m = re.match(r"Error: Assumption (.*) is false", ln)
        if m:
            res.violations.append(Violation("assumption", m.group(1)))
        if "Error: Postcondition" in ln or "POSTCONDITION" in ln and "violated" in ln:
            res.violations.append(Violation("postcondition", ln.strip()))
        if ln.startswith("Error: The behavior up to this point is:") or ln.startswith(
            "Error: The following behavior constitutes a counter-example"
        ):
            j = i + 1
            while j < n and lines[j].strip() == "":
                j += 1
            trace, j = _parse_trace(lines, j)
            if pending is not None:
                pending.trace = trace
                pending = None
            i = j
            continue
        m = re.match(r"(\d+) states generated, (\d+) distinct states found", ln)
        if m:
            res.generated = int(m.group(1))
            res.distinct = int(m.group(2))
        m = re.match(r"The depth of the complete state graph search is (\d+)", ln)
        if m:
            res.depth = int(m.group(1))
        m = re.match(r"^<(\w+) line \d+, col \d+ to line \d+, col \d+ of module (\w+)>: (\d+):(\d+)", ln)
        if m:
            name = m.group(1)
            d, t = int(m.group(3)), int(m.group(4))
            od, ot = res.coverage.get(name, (0, 0))
            res.coverage[name] = (od + d, ot + t)
        i += 1
    return res


def prepare_dir(workdir: Path, spec_dirs, files: dict | None = None):
    """Create a clean working directory holding copies of the spec modules and generated files."""
    workdir = Path(workdir)
    if workdir.exists():
        shutil.rmtree(workdir)
    workdir.mkdir(parents=True)
    for d in spec_dirs:
        d = Path(d)
        if not d.is_absolute():
            d = SPECS / d
        for f in d.iterdir():
            if f.suffix in (".tla", ".cfg"):
                shutil.copy(f, workdir / f.name)
    for name, text in (files or {}).items():
        (workdir / name).write_text(text)
    return workdir


def run(
    workdir,
    module: str,
    cfg: str | None = None,
    *,
    workers: int | str = "auto",
    simulate: str | None = None,
    depth: int | None = None,
    dump: str | None = None,
    coverage: bool = False,
    timeout: int = 1800,
    env: dict | None = None,
    java_opts=(),
    deadlock: bool | None = None,
    seed: int | None = None,
    cont: bool = False,
    view_fp: bool = False,
    heap: str = "8g",
    allow_fail: bool = True,
) -> TLCResult:
    workdir = Path(workdir)
    meta = workdir / ("meta_" + module)
    if meta.exists():
        shutil.rmtree(meta)
    cmd = ["java", "-XX:+UseParallelGC", f"-Xmx{heap}", *java_opts, "-cp", JAR, "tlc2.TLC"]
    cmd += ["-workers", str(workers), "-metadir", str(meta), "-noGenerateSpecTE"]
    if cfg:
        cmd += ["-config", cfg]
    if coverage:
        cmd += ["-coverage", "1"]
    if simulate is not None:
        cmd += ["-simulate", simulate] if simulate else ["-simulate"]
    if depth is not None:
        cmd += ["-depth", str(depth)]
    if dump:
        cmd += ["-dump", "dot,actionlabels", dump]
    if seed is not None:
        cmd += ["-seed", str(seed)]
    if cont:
        cmd += ["-continue"]
    if deadlock is False:
        cmd += ["-deadlock"]  # -deadlock switches deadlock checking OFF
    cmd += [module]
    e = dict(os.environ)
    e.pop("JAVA_TOOL_OPTIONS", None)
    if env:
        e.update({k: str(v) for k, v in env.items()})
    t0 = time.time()
    try:
        p = subprocess.run(cmd, cwd=workdir, env=e, capture_output=True, text=True, timeout=timeout)
    except subprocess.TimeoutExpired as ex:
        raise TLCFailure(f"TLC timed out after {timeout}s on {module}") from ex
    finally:
        shutil.rmtree(meta, ignore_errors=True)
    out = p.stdout + ("\n" + p.stderr if p.stderr.strip() else "")
    (workdir / (module + ".out")).write_text(out)
    res = parse_output(out)
    res.wall_s = time.time() - t0
    res.rc = p.returncode
    # Distinguish "TLC found a violation" (fine) from "TLC could not run the spec" (machinery)
    bad = False
    if p.returncode != 0 and not res.violations:
        bad = True
    if re.search(r"(Parsing or semantic analysis failed|Error: TLC threw an unexpected exception|"
                 r"Error: Evaluating|was not found|java\.lang\.\w+(Error|Exception)|"
                 r"Error: The .* (could not|cannot)|Error: In evaluation|Error: TLC encountered)", out):
        if not (res.violations and "is violated" in out and "unexpected exception" not in out and "Error: Evaluating" not in out):
            bad = True
    if "Error:" in out and not res.violations and simulate is None:
        bad = True
    if bad:
        raise TLCFailure(f"TLC failed on {module} (rc={p.returncode}); see {workdir / (module + '.out')}\n" + out[-3000:])
    return res


def evaluate(workdir, module: str, *, env: dict | None = None, timeout: int = 900, heap="8g") -> str:
    """Constant-evaluation mode: module consists of ASSUMEs (with side effects through IOUtils/Json);
    uses an empty config.  Returns TLC's stdout."""
    workdir = Path(workdir)
    cfgname = module + "_eval.cfg"
    (workdir / cfgname).write_text("")
    res = run(workdir, module, cfgname, workers=1, env=env, timeout=timeout, heap=heap)
    if res.violations:
        raise TLCFailure(f"evaluation of {module} failed: {[v.name for v in res.violations]}\n{res.out[-2000:]}")
    return res.out


# ------------------------------------------------------------------------------------------
_NODE = re.compile(r'^(-?\d+) \[label="((?:[^"\\]|\\.)*)"')
_EDGE = re.compile(r'^(-?\d+) -> (-?\d+) \[label="((?:[^"\\]|\\.)*)"')


def _unescape_dot(s: str) -> str:
    out = []
    i = 0
    while i < len(s):
        c = s[i]
        if c == "\\" and i + 1 < len(s):
            nx = s[i + 1]
            if nx == "n":
                out.append("\n")
            elif nx == "\\":
                out.append("\\")
            elif nx == '"':
                out.append('"')
            else:
                out.append("\\" + nx)
            i += 2
        else:
            out.append(c)
            i += 1
    return "".join(out)


@dataclass
class Graph:
    nodes: dict  # id -> state dict
    edges: list  # (src, label, dst)
    init: list

    def out_edges(self):
        d = {}
        for s, l, t in self.edges:
            d.setdefault(s, []).append((l, t))
        return d


def parse_dot(path) -> Graph:
    nodes, edges, init = {}, [], []
    with open(path) as f:
        for ln in f:
            m = _EDGE.match(ln)
            if m:
                edges.append((m.group(1), _unescape_dot(m.group(3)), m.group(2)))
                continue
            m = _NODE.match(ln)
            if m:
                nid = m.group(1)
                if nid not in nodes:
                    # dot escapes: \\ for backslash, \" for quote, \n for newline; TLA strings inside the
                    # label are escaped a second time, which parse_state undoes.
                    nodes[nid] = tlaval.parse_state(_unescape_dot(m.group(2)))
                if "style = filled" in ln:
                    init.append(nid)
    return Graph(nodes, edges, init)


_ACT = re.compile(r"^(\w+)(?:\((.*)\))?$")


def parse_action_label(label: str):
    """'Complete(1,"Success")' -> ('Complete', (1, 'Success'))"""
    m = _ACT.match(label.strip())
    if not m:
        raise ValueError(f"bad action label {label!r}")
    name, args = m.group(1), m.group(2)
    if args is None or args.strip() == "":
        return name, ()
    return name, tlaval.parse_value("<<" + args + ">>")


def parse_sim_trace_file(path):
    """A file written by `-simulate file=...`: '\\* <Action ...>' comment lines + 'STATE_n == conj'."""
    txt = Path(path).read_text()
    steps = []
    hdr = None
    parts = re.split(r"^(\\\* .*|STATE_\d+ ==)\s*$", txt, flags=re.M)
    # simpler line-based parse
    cur = None
    buf = []
    for ln in txt.splitlines():
        if ln.startswith("\\*"):
            m = re.match(r"\\\* <?(.*?)>?\s*$", ln)
            hdr = re.sub(r" line \d+, col \d+ to line \d+, col \d+ of module \w+", "", m.group(1)) if m else ln
            continue
        m = re.match(r"^STATE_(\d+) ==\s*(.*)$", ln)
        if m:
            if cur is not None:
                steps.append((cur, tlaval.parse_state("\n".join(buf))))
            cur = hdr
            buf = [m.group(2)] if m.group(2) else []
            continue
        if ln.startswith("====") or ln.startswith("----"):
            continue
        if cur is not None:
            buf.append(ln)
    if cur is not None and buf:
        steps.append((cur, tlaval.parse_state("\n".join(buf))))
    return steps


def mk_cfg(*, init="Init", next="Next", spec=None, constants: dict | None = None, invariants=(), properties=(),
           constraint=None, action_constraint=None, view=None, symmetry=None, deadlock=False, postcondition=None,
           alias=None) -> str:
    out = []
    if spec:
        out.append(f"SPECIFICATION {spec}")
    else:
        out.append(f"INIT {init}")
        out.append(f"NEXT {next}")
    if constants:
        out.append("CONSTANTS")
        for k, v in constants.items():
            out.append(f"  {k} = {v}" if not str(v).startswith("<-") else f"  {k} {v}")
    for inv in invariants:
        out.append(f"INVARIANT {inv}")
    for p in properties:
        out.append(f"PROPERTY {p}")
    if constraint:
        out.append(f"CONSTRAINT {constraint}")
    if action_constraint:
        out.append(f"ACTION_CONSTRAINT {action_constraint}")
    if view:
        out.append(f"VIEW {view}")
    if symmetry:
        out.append(f"SYMMETRY {symmetry}")
    if postcondition:
        out.append(f"POSTCONDITION {postcondition}")
    if alias:
        out.append(f"ALIAS {alias}")
    out.append(f"CHECK_DEADLOCK {'TRUE' if deadlock else 'FALSE'}")
    return "\n".join(out) + "\n"
