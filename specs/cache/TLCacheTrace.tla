---------------------------- MODULE TLCacheTrace ----------------------------
(* Trace validation (B2) for TLCache: each line of the ndjson file is one recorded execution of the real
   TimeLimitedMaxSizeCache under the deterministic event loop and the virtual clock:
     [ev |-> << [a |-> "Call"|"Cancel"|"LoadDone"|"LoadFail"|"Tick"|"Step", c, k, post |-> [...]], ... >>]
   Every event must be a step of TLCache with the logged arguments whose successor state projects to the
   logged post-state (every logged field is constrained).  A trace that cannot be continued is a deadlock
   of this specification; all invariants of TLCache are evaluated on every state.                        *)
EXTENDS TLCache, Json, IOUtils

Traces == ndJsonDeserialize(IOEnv.TRACE_FILE)
VARIABLES tid, l
tvars == <<vars, tid, l>>

TraceInit == Init /\ tid \in 1..Len(Traces) /\ l = 1

Ev == Traces[tid].ev

AsSeq(f, S) == [i \in 1..Cardinality(S) |-> f[i]]
PostOk(p) ==
  /\ clock' = p.clock
  /\ AsSeq(cache', Keys) = p.cache
  /\ AsSeq(expiry', Keys) = p.expiry
  /\ order' = p.order
  /\ AsSeq(ld', Keys) = p.ld
  /\ AsSeq(waiters', Keys) = p.waiters
  /\ AsSeq(nfl', Keys) = p.nfl
  /\ AsSeq(pc', Callers) = p.pc
  /\ AsSeq(must', Callers) = p.must
  /\ AsSeq(res', Callers) = p.res
  /\ AsSeq(outer', Callers) = p.outer
  /\ rq' = p.rq

TraceStep ==
  /\ l <= Len(Ev)
  /\ LET e == Ev[l] IN
     /\ \/ e.a = "Call"     /\ Call(e.c, e.k)
        \/ e.a = "Cancel"   /\ Cancel(e.c)
        \/ e.a = "LoadDone" /\ LoadDone(e.k)
        \/ e.a = "LoadFail" /\ LoadFail(e.k)
        \/ e.a = "Tick"     /\ Tick
        \/ e.a = "Step"     /\ Step
     /\ PostOk(e.post)
  /\ l' = l + 1 /\ UNCHANGED tid

TraceDone == l > Len(Ev) /\ UNCHANGED tvars

TraceNext == TraceStep \/ TraceDone
TraceSpec == TraceInit /\ [][TraceNext]_tvars
=============================================================================
