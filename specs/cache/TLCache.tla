------------------------------ MODULE TLCache ------------------------------
(* C26: gear/gear/time_limited_max_size_cache.py  TimeLimitedMaxSizeCache, together with the part of
   asyncio that decides the interleavings: the FIFO queue of ready callbacks (rq), task cancellation
   (Task.cancel -> _fut_waiter.cancel() or _must_cancel) and asyncio.shield's two done-callbacks.

   Two designs of `lookup` are modelled, selected by the constant Shield:

     Shield = FALSE   the class as it stands in the repository: the first caller creates the load task,
                      awaits it (through prometheus_async.aio.time), then deletes _futures[k], stores the
                      value and evicts; later callers await the very same task.  Cancelling any waiter
                      therefore cancels the task (Task.cancel propagates to _fut_waiter).
     Shield = TRUE    the repaired class (build/proposed_fixes/C26.diff): the load task itself removes
                      _futures[k], stores the value and evicts; every caller awaits
                      asyncio.shield(self._futures[k]).

   One action per atomic region (code between two awaits):

     Call(c,k)    the harness creates a task that runs `await cache.lookup(k)`
     Cancel(c)    the harness calls task.cancel() on caller c
     LoadDone(k)  the environment lets the running load of k return a new value   (resolves the future it awaits)
     LoadFail(k)  the environment lets the running load of k raise
     Tick         time.monotonic_ns() advances by one unit
     Step         asyncio runs the callback at the head of the ready queue:
                    <<"T",c>>  a step of caller c   (first step: the synchronous part of lookup; later: wake-up)
                    <<"L",k>>  a step of the load task of key k
                    <<"I",c>>  shield's _inner_done_callback for c's outer future     (Shield only)
                    <<"O",c>>  shield's _outer_done_callback for c's outer future     (Shield only)
*)
EXTENDS Naturals, Sequences, FiniteSets, TLC

CONSTANTS Callers,     \* a set of naturals 1..N (callers are started in this order)
          Keys,        \* a set of naturals 1..K (a key is first used only after all smaller keys: symmetry)
          Slots, Lifetime, MaxTime,
          MaxVals,     \* values are 1..MaxVals: the sequence number of the successful load that produced them
          MaxCancels,  \* bounds on what the environment does (exploration bounds, not part of the class)
          MaxFails,
          TickWhenIdleOnly,   \* TRUE: the clock advances only while the ready queue is empty
          Shield

VARIABLES
  clock,     \* time.monotonic_ns()
  cache,     \* _cache:        [Keys -> 0..MaxVals], 0 = absent
  expiry,    \* _expiry_time:  [Keys -> Nat],        0 = absent
  order,     \* _keys_by_expiry as a sequence (sorted by expiry, ties in insertion order)
  ld,        \* state of _futures[k] / its task: none | new | wait | ok | fail | cancelling | fin
  lval,      \* value the load of k was resolved with
  lout,      \* (Shield = FALSE) outcome of the finished task still stored in _futures[k]: ok | fail | cancel
  waiters,   \* done-callbacks registered on the load task of k, in registration order (callers)
  pc,        \* caller: idle | start | wait | woken | done | failed | cancelled
  key,       \* key looked up by the caller
  role,      \* none | owner (created the load; Shield = FALSE: will delete _futures[k] and store) | shared
  must,      \* Task._must_cancel of the caller's task
  got,       \* what the caller will be woken with: [o |-> none|ok|fail|cancel, v |-> value]
  outer,     \* (Shield) state of the caller's shield future: none | pending | done | cancelled
  lfin,      \* (Shield) the load task wrapped by the caller's shield has finished
  res,       \* value returned to the caller (0 = none)
  rq,        \* asyncio's ready queue
  nvals,     \* number of values produced so far
  \* ---- history variables used only by the properties
  age,       \* age of the returned value when it was returned (0 for a value handed over by the caller's own load)
  envc,      \* the harness cancelled this caller
  lres,      \* outcome of the load the caller waited for: none | ok | fail | cancel
  nfl,       \* number of unfinished load tasks per key
  vkey,      \* key each value was loaded for
  ncancel, nfail   \* how often the environment cancelled a caller / failed a load

vars == <<clock, cache, expiry, order, ld, lval, lout, waiters, pc, key, role, must, got, outer, lfin, res, rq,
          nvals, age, envc, lres, nfl, vkey, ncancel, nfail>>

NoKey == 0
NoGot == [o |-> "none", v |-> 0]

Init ==
  /\ clock = 0
  /\ cache = [k \in Keys |-> 0]
  /\ expiry = [k \in Keys |-> 0]
  /\ order = <<>>
  /\ ld = [k \in Keys |-> "none"]
  /\ lval = [k \in Keys |-> 0]
  /\ lout = [k \in Keys |-> "none"]
  /\ waiters = [k \in Keys |-> <<>>]
  /\ pc = [c \in Callers |-> "idle"]
  /\ key = [c \in Callers |-> NoKey]
  /\ role = [c \in Callers |-> "none"]
  /\ must = [c \in Callers |-> FALSE]
  /\ got = [c \in Callers |-> NoGot]
  /\ outer = [c \in Callers |-> "none"]
  /\ lfin = [c \in Callers |-> FALSE]
  /\ res = [c \in Callers |-> 0]
  /\ rq = <<>>
  /\ nvals = 0
  /\ age = [c \in Callers |-> 0]
  /\ envc = [c \in Callers |-> FALSE]
  /\ lres = [c \in Callers |-> "none"]
  /\ nfl = [k \in Keys |-> 0]
  /\ vkey = [v \in 1..MaxVals |-> NoKey]
  /\ ncancel = 0
  /\ nfail = 0

----------------------------------------------------------------------------
\* ---- helpers ----------------------------------------------------------------------------------
SeqToSet(s) == { s[i] : i \in 1..Len(s) }
Without(s, x) == SelectSeq(s, LAMBDA y : y # x)
Entries(tag, s) == [i \in 1..Len(s) |-> <<tag, s[i]>>]

\* _remove(k) / _put(k,v) / eviction, as pure functions on <<cache, expiry, order>>
Removed(st, k) == <<[st[1] EXCEPT ![k] = 0], [st[2] EXCEPT ![k] = 0], Without(st[3], k)>>
Put(st, k, v)  == <<[st[1] EXCEPT ![k] = v], [st[2] EXCEPT ![k] = clock + Lifetime], Append(st[3], k)>>
Evicted(st)    == IF Len(st[3]) > Slots THEN Removed(st, Head(st[3])) ELSE st
Stored(k, v)   == Evicted(Put(<<cache, expiry, order>>, k, v))

----------------------------------------------------------------------------
\* ---- environment ------------------------------------------------------------------------------
Call(c, k) ==
  /\ pc[c] = "idle"
  /\ \A d \in Callers : d < c => pc[d] # "idle"
  /\ \A j \in Keys : j < k => \E d \in Callers : key[d] = j
  /\ pc' = [pc EXCEPT ![c] = "start"]
  /\ key' = [key EXCEPT ![c] = k]
  /\ rq' = Append(rq, <<"T", c>>)
  /\ UNCHANGED <<clock, cache, expiry, order, ld, lval, lout, waiters, role, must, got, outer, lfin, res, nvals,
                 age, envc, lres, nfl, vkey, ncancel, nfail>>

\* task.cancel() on the caller's task (at most once per caller)
Cancel(c) ==
  /\ pc[c] \in {"start", "wait", "woken"}
  /\ ~envc[c] /\ ncancel < MaxCancels
  /\ envc' = [envc EXCEPT ![c] = TRUE]
  /\ ncancel' = ncancel + 1
  /\ IF pc[c] \in {"start", "woken"}
     THEN \* the task's step is already scheduled: _must_cancel
          /\ must' = [must EXCEPT ![c] = TRUE]
          /\ UNCHANGED <<ld, rq, outer, got, pc>>
     ELSE IF Shield
     THEN \* _fut_waiter is shield's outer future: it is cancelled and its callbacks
          \* (_outer_done_callback, then the task's wake-up) are scheduled; the load is not touched
          /\ outer' = [outer EXCEPT ![c] = "cancelled"]
          /\ got' = [got EXCEPT ![c] = [o |-> "cancel", v |-> 0]]
          /\ pc' = [pc EXCEPT ![c] = "woken"]
          /\ rq' = rq \o << <<"O", c>>, <<"T", c>> >>
          /\ UNCHANGED <<ld, must>>
     ELSE \* _fut_waiter is the load task itself: Task.cancel() on it (it is not finished, otherwise c were woken)
          LET k == key[c] IN
          /\ ld' = [ld EXCEPT ![k] = "cancelling"]
          /\ rq' = IF ld[k] = "wait" THEN Append(rq, <<"L", k>>) ELSE rq
          /\ UNCHANGED <<must, outer, got, pc>>
  /\ UNCHANGED <<clock, cache, expiry, order, lval, lout, waiters, key, role, lfin, res, nvals, age, lres, nfl, vkey,
                 nfail>>

LoadDone(k) ==
  /\ ld[k] = "wait" /\ nvals < MaxVals
  /\ nvals' = nvals + 1
  /\ lval' = [lval EXCEPT ![k] = nvals + 1]
  /\ vkey' = [vkey EXCEPT ![nvals + 1] = k]
  /\ ld' = [ld EXCEPT ![k] = "ok"]
  /\ rq' = Append(rq, <<"L", k>>)
  /\ UNCHANGED <<clock, cache, expiry, order, lout, waiters, pc, key, role, must, got, outer, lfin, res, age, envc,
                 lres, nfl, ncancel, nfail>>

LoadFail(k) ==
  /\ ld[k] = "wait" /\ nfail < MaxFails
  /\ nfail' = nfail + 1
  /\ ld' = [ld EXCEPT ![k] = "fail"]
  /\ rq' = Append(rq, <<"L", k>>)
  /\ UNCHANGED <<clock, cache, expiry, order, lval, lout, waiters, pc, key, role, must, got, outer, lfin, res, nvals,
                 age, envc, lres, nfl, vkey, ncancel>>

Tick ==
  /\ clock < MaxTime
  /\ TickWhenIdleOnly => rq = <<>>
  /\ clock' = clock + 1
  /\ UNCHANGED <<cache, expiry, order, ld, lval, lout, waiters, pc, key, role, must, got, outer, lfin, res, rq, nvals,
                 age, envc, lres, nfl, vkey, ncancel, nfail>>

----------------------------------------------------------------------------
\* ---- the steps asyncio runs -------------------------------------------------------------------

\* first step of a caller: the synchronous part of lookup(k)
Lookup(c) ==
  LET k    == key[c]
      st0  == <<cache, expiry, order>>
      st1  == IF expiry[k] # 0 /\ expiry[k] <= clock THEN Removed(st0, k) ELSE st0     \* expired: _remove(k)
  IN
  IF st1[1][k] # 0
  THEN \* hit
       /\ cache' = st1[1] /\ expiry' = st1[2] /\ order' = st1[3]
       /\ pc' = [pc EXCEPT ![c] = "done"]
       /\ res' = [res EXCEPT ![c] = st1[1][k]]
       /\ age' = [age EXCEPT ![c] = clock - (st1[2][k] - Lifetime)]
       /\ rq' = Tail(rq)
       /\ UNCHANGED <<ld, waiters, role, outer, lfin, lres, nfl, got>>
  ELSE \* miss
       /\ cache' = st1[1] /\ expiry' = st1[2] /\ order' = st1[3]
       /\ IF ld[k] = "none"
          THEN \* asyncio.create_task(load): the new task's first step is scheduled
               /\ ld' = [ld EXCEPT ![k] = "new"]
               /\ nfl' = [nfl EXCEPT ![k] = @ + 1]
               /\ role' = [role EXCEPT ![c] = "owner"]
               /\ waiters' = [waiters EXCEPT ![k] = <<c>>]
               /\ rq' = Append(Tail(rq), <<"L", k>>)
               /\ pc' = [pc EXCEPT ![c] = "wait"]
               /\ outer' = IF Shield THEN [outer EXCEPT ![c] = "pending"] ELSE outer
               /\ UNCHANGED <<res, age, lres, got, lfin>>
          ELSE IF ld[k] = "fin"
          THEN \* (Shield = FALSE only) awaiting a finished task does not suspend
               /\ role' = [role EXCEPT ![c] = "shared"]
               /\ lres' = [lres EXCEPT ![c] = lout[k]]
               /\ pc' = [pc EXCEPT ![c] = CASE lout[k] = "ok" -> "done" [] lout[k] = "fail" -> "failed" [] OTHER -> "cancelled"]
               /\ res' = [res EXCEPT ![c] = IF lout[k] = "ok" THEN lval[k] ELSE 0]
               /\ rq' = Tail(rq)
               /\ UNCHANGED <<ld, nfl, waiters, outer, age, got, lfin>>
          ELSE \* join the load in flight
               /\ role' = [role EXCEPT ![c] = "shared"]
               /\ waiters' = [waiters EXCEPT ![k] = Append(@, c)]
               /\ pc' = [pc EXCEPT ![c] = "wait"]
               /\ outer' = IF Shield THEN [outer EXCEPT ![c] = "pending"] ELSE outer
               /\ rq' = Tail(rq)
               /\ UNCHANGED <<ld, nfl, res, age, lres, got, lfin>>

\* a caller resumes after its future completed (or it was cancelled)
Resume(c) ==
  LET k == key[c]
      o == IF must[c] THEN "cancel" ELSE got[c].o
      owns == ~Shield /\ role[c] = "owner"            \* Shield = FALSE: `finally: del self._futures[k]`, then _put / evict
      st == IF owns /\ o = "ok" THEN Stored(k, got[c].v) ELSE <<cache, expiry, order>>
  IN
  /\ pc' = [pc EXCEPT ![c] = CASE o = "ok" -> "done" [] o = "fail" -> "failed" [] OTHER -> "cancelled"]
  /\ res' = [res EXCEPT ![c] = IF o = "ok" THEN got[c].v ELSE 0]
  /\ must' = [must EXCEPT ![c] = FALSE]
  /\ ld' = IF owns THEN [ld EXCEPT ![k] = "none"] ELSE ld
  /\ cache' = st[1] /\ expiry' = st[2] /\ order' = st[3]
  /\ rq' = Tail(rq)
  /\ UNCHANGED <<waiters, role, outer, lfin, age, lres, nfl, got>>

CallerStep(c) ==
  /\ UNCHANGED <<clock, lval, lout, key, nvals, envc, vkey, ncancel, nfail>>
  /\ IF pc[c] = "start"
     THEN IF must[c]
          THEN \* CancelledError is thrown into the coroutine before it runs
               /\ pc' = [pc EXCEPT ![c] = "cancelled"]
               /\ must' = [must EXCEPT ![c] = FALSE]
               /\ rq' = Tail(rq)
               /\ UNCHANGED <<cache, expiry, order, ld, waiters, role, got, outer, lfin, res, age, lres, nfl>>
          ELSE Lookup(c) /\ UNCHANGED must
     ELSE pc[c] = "woken" /\ Resume(c)

\* the load task of k finishes with outcome o (ok | fail | cancel): its done-callbacks are scheduled in order
Finish(k, o) ==
  LET ws == waiters[k] IN
  /\ waiters' = [waiters EXCEPT ![k] = <<>>]
  /\ nfl' = [nfl EXCEPT ![k] = @ - 1]
  /\ lres' = [c \in Callers |-> IF c \in SeqToSet(ws) THEN o ELSE lres[c]]
  /\ IF Shield
     THEN \* _load_and_put: `finally: del self._futures[k]`; on success _put and evict; waiters hear through shield
          LET st == IF o = "ok" THEN Stored(k, lval[k]) ELSE <<cache, expiry, order>> IN
          /\ ld' = [ld EXCEPT ![k] = "none"]
          /\ cache' = st[1] /\ expiry' = st[2] /\ order' = st[3]
          /\ lfin' = [c \in Callers |-> IF c \in SeqToSet(ws) THEN TRUE ELSE lfin[c]]
          /\ got' = [c \in Callers |-> IF c \in SeqToSet(ws) /\ outer[c] = "pending" THEN [o |-> o, v |-> IF o = "ok" THEN lval[k] ELSE 0] ELSE got[c]]
          /\ rq' = Tail(rq) \o Entries("I", ws)
          /\ UNCHANGED <<pc, lout>>
     ELSE \* the finished task stays in _futures[k] until its owner resumes; every waiter's wake-up is scheduled
          /\ ld' = [ld EXCEPT ![k] = "fin"]
          /\ lout' = [lout EXCEPT ![k] = o]
          /\ got' = [c \in Callers |-> IF c \in SeqToSet(ws) THEN [o |-> o, v |-> IF o = "ok" THEN lval[k] ELSE 0] ELSE got[c]]
          /\ pc' = [c \in Callers |-> IF c \in SeqToSet(ws) THEN "woken" ELSE pc[c]]
          /\ rq' = Tail(rq) \o Entries("T", ws)
          /\ UNCHANGED <<cache, expiry, order, lfin>>

LoaderStep(k) ==
  /\ UNCHANGED <<clock, lval, key, role, must, outer, res, nvals, age, envc, vkey, ncancel, nfail>>
  /\ CASE ld[k] = "new" ->        \* load(k) starts and awaits its future
            /\ ld' = [ld EXCEPT ![k] = "wait"]
            /\ rq' = Tail(rq)
            /\ UNCHANGED <<cache, expiry, order, lout, waiters, pc, got, lfin, lres, nfl>>
       [] ld[k] = "ok" -> Finish(k, "ok")
       [] ld[k] = "fail" -> Finish(k, "fail")
       [] ld[k] = "cancelling" -> Finish(k, "cancel")
       [] OTHER -> FALSE

\* shield's _inner_done_callback: forwards the load's outcome to the outer future unless that was cancelled
InnerCb(c) ==
  /\ IF outer[c] = "pending"
     THEN /\ outer' = [outer EXCEPT ![c] = "done"]
          /\ pc' = [pc EXCEPT ![c] = "woken"]
          /\ rq' = Tail(rq) \o << <<"O", c>>, <<"T", c>> >>
     ELSE /\ rq' = Tail(rq)
          /\ UNCHANGED <<outer, pc>>
  /\ UNCHANGED <<clock, cache, expiry, order, ld, lval, lout, waiters, key, role, must, got, lfin, res, nvals, age, envc,
                 lres, nfl, vkey, ncancel, nfail>>

\* shield's _outer_done_callback: detaches _inner_done_callback from a load task that is still running
OuterCb(c) ==
  /\ waiters' = IF lfin[c] THEN waiters ELSE [waiters EXCEPT ![key[c]] = Without(@, c)]
  /\ rq' = Tail(rq)
  /\ UNCHANGED <<clock, cache, expiry, order, ld, lval, lout, pc, key, role, must, got, outer, lfin, res, nvals, age,
                 envc, lres, nfl, vkey, ncancel, nfail>>

Step ==
  /\ rq # <<>>
  /\ LET e == Head(rq) IN
     CASE e[1] = "T" -> CallerStep(e[2])
       [] e[1] = "L" -> LoaderStep(e[2])
       [] e[1] = "I" -> InnerCb(e[2])
       [] e[1] = "O" -> OuterCb(e[2])

Next ==
  \/ \E c \in Callers, k \in Keys : Call(c, k)
  \/ \E c \in Callers : Cancel(c)
  \/ \E k \in Keys : LoadDone(k) \/ LoadFail(k)
  \/ Tick
  \/ Step

Spec == Init /\ [][Next]_vars
FairSpec == Spec /\ WF_vars(Step) /\ \A k \in Keys : WF_vars(LoadDone(k) \/ LoadFail(k))

----------------------------------------------------------------------------
\* ---- properties ---------------------------------------------------------------------------
States == {"idle", "start", "wait", "woken", "done", "failed", "cancelled"}
TypeOK ==
  /\ clock \in 0..MaxTime
  /\ \A k \in Keys : cache[k] \in 0..MaxVals /\ ld[k] \in {"none", "new", "wait", "ok", "fail", "cancelling", "fin"}
  /\ \A c \in Callers : pc[c] \in States /\ res[c] \in 0..MaxVals

\* the cache never holds more entries than its capacity
C26_Bound == Len(order) <= Slots /\ Cardinality({k \in Keys : cache[k] # 0}) <= Slots

\* the three containers of the class describe the same set of keys, ordered by expiry
C26_Consistent ==
  /\ \A k \in Keys : (cache[k] # 0) = (expiry[k] # 0) /\ (cache[k] # 0) = (k \in SeqToSet(order))
  /\ \A i, j \in 1..Len(order) : i < j => order[i] # order[j] /\ expiry[order[i]] <= expiry[order[j]]

\* a returned value is never older than the lifetime, and it is a value loaded for the key asked for
C26_Fresh == \A c \in Callers : pc[c] = "done" => age[c] < Lifetime /\ res[c] # 0 /\ vkey[res[c]] = key[c]

\* single flight: at most one unfinished load per key, and none while a fresh value is cached
Running(k) == ld[k] \in {"new", "wait", "ok", "fail", "cancelling"}
C26_SingleFlight == \A k \in Keys : nfl[k] <= 1 /\ (Running(k) <=> nfl[k] = 1)
C26_NoLoadWhileFresh == \A k \in Keys : Running(k) => ~(cache[k] # 0 /\ clock < expiry[k])

\* a lookup fails only if the load it waited for failed, or the caller itself was cancelled
C26_FailOnlyIf ==
  \A c \in Callers : /\ pc[c] = "failed" => lres[c] = "fail"
                     /\ pc[c] = "cancelled" => envc[c]
\* (the environment never cancels a load: a load ends cancelled only through the class itself)
C26_LoadNotCancelled == \A c \in Callers : lres[c] # "cancel"

\* reachability companions (expected to be violated: antecedents are reachable)
Reach_Failed    == ~(\E c \in Callers : pc[c] = "failed")
Reach_Cancelled == ~(\E c \in Callers : pc[c] = "cancelled" /\ \E d \in Callers : d # c /\ key[d] = key[c] /\ pc[d] = "done" /\ lres[d] = "ok")
Reach_Hit       == ~(\E c \in Callers : pc[c] = "done" /\ lres[c] = "none" /\ age[c] > 0)
Reach_Expired   == ~(\E c \in Callers : pc[c] = "done" /\ res[c] > 1 /\ \E d \in Callers : d # c /\ key[d] = key[c] /\ res[d] = 1)
Reach_Evicted   == ~(nvals >= 2 /\ Len(order) = Slots /\ \E k \in Keys : cache[k] = 0 /\ \E v \in 1..MaxVals : vkey[v] = k)

\* liveness (under fairness): every lookup terminates once the environment resolves the loads
C26_Live == \A c \in Callers : (pc[c] \in {"start", "wait", "woken"}) ~> (pc[c] \in {"done", "failed", "cancelled"})
=============================================================================
