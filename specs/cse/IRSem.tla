------------------------------- MODULE IRSem -------------------------------
(* C35: a fragment of Hail's value IR as TERMS, with a big-step evaluator, the binder/scoping
   rules of the engine (is.hail.expr.ir.Bindings / BindingEnv) and the statement of the property

        "the text the common-subexpression renderer sends to the engine means the same as the
         fully inlined IR, and every binding it introduces is well scoped, in the right
         (eval / agg) context".

   A term table  T  is a sequence of nodes; a node refers to its children by index, so the same
   table represents an expression DAG (a node index used twice = a shared Python object) or a tree
   (the parsed rendered text).  Evaluating a DAG by index IS evaluating the fully inlined IR.

        node == [op : STRING, k : Seq(Nat) (children), n : Seq(STRING) (names), v : Int]

   op                      children              names            Hail IR
   ----------------------  --------------------  ---------------  -----------------------------------
   I32                     -                     -                (I32 v)
   NA                      -                     -                (NA Int32)
   True / False            -                     -                (True) (False)
   Ref                     -                     <<x>>            (Ref x)
   Add Sub Mul             l, r                  -                (ApplyBinaryPrimOp `+` l r) ...
   LT LE GT GE EQ NEQ      l, r                  -                (ApplyComparisonOp `<` l r) ...
   If                      c, t, e               -                (If c t e)
   Let                     value, body           <<x>>            (Let eval x value body)
   MakeArray               e1..en                -                (MakeArray Array[Int32] e1 .. en)
   ArrayLen                a                     -                (ArrayLen a)
   ToStream ToArray Id     a                     -                (ToStream False a) (ToArray s) casts
   StreamMap StreamFilter  a, body               <<x>>            (StreamMap x a body)
   StreamFold              a, zero, body         <<acc, x>>       (StreamFold acc x a zero body)
   MakeStruct              v1..vn                <<f1..fn>>       (MakeStruct (f1 v1) ..)
   GetField                s                     <<f>>            (GetField f s)
   InsertFields            old, v1..vn           <<f1..fn>>       (InsertFields old None (f1 v1) ..)
   SelectFields            old                   <<f1..fn>>       (SelectFields (f1 .. fn) old)
   StreamAgg               a, query              <<x>>            (StreamAgg x a query)
   AggSum AggCollect       seq-arg               -                (ApplyAggOp Sum () (arg))
   AggCount                -                     -                (ApplyAggOp Count () ())
   AggFilter               cond, query           -                (AggFilter False cond query)
   AggLet                  value, query          <<x>>            (AggLet x False value query)  = (Let agg x ..)
   AggExplode              array, query          <<x>>            (AggExplode x False array query)

   Aggregation context.  A query is evaluated in an eval environment plus a sequence ROWS of agg
   environments (one per element being aggregated over).  StreamAgg creates the rows (eval
   environment + element variable); the seq-arg of an aggregator, the condition of AggFilter and
   the value of AggLet/AggExplode are evaluated once per row IN THE ROW'S environment ("promoted");
   AggFilter/AggLet/AggExplode transform the rows seen by their query.  So a variable bound by
   StreamAgg / AggLet / AggExplode exists only in the agg environment: an eval-scope
   (Let eval ..) around a use in a seq-arg does not bind it, and an (AggLet ..) does not bind an
   eval-scope use.  This is exactly BindingEnv.promoteAgg / bindAgg / createAgg.               *)
EXTENDS Integers, Sequences, FiniteSets, TLC

Node(op, k, n, v) == [op |-> op, k |-> k, n |-> n, v |-> v]

(* ------------------------------- values ------------------------------------------------- *)
(* one record shape for all values so that any two values can be compared *)
VInt(i)       == [t |-> "i",   i |-> i, s |-> <<>>, f |-> <<>>]
VNA           == [t |-> "na",  i |-> 0, s |-> <<>>, f |-> <<>>]
VBool(b)      == [t |-> "b",   i |-> IF b THEN 1 ELSE 0, s |-> <<>>, f |-> <<>>]
VArr(s)       == [t |-> "a",   i |-> 0, s |-> s, f |-> <<>>]
VStruct(f, s) == [t |-> "r",   i |-> 0, s |-> s, f |-> f]
VErr          == [t |-> "err", i |-> 0, s |-> <<>>, f |-> <<>>]

(* Int32 arithmetic is modelled in the ring Z/1001 with representatives -500..500 (TLC integers
   are checked 32-bit; any congruence on the integers keeps "same term => same value")        *)
Wrap(x) == ((x + 500) % 1001) - 500

Arith(op, a, b) ==
  IF a.t = "err" \/ b.t = "err" THEN VErr
  ELSE IF a.t = "na" \/ b.t = "na" THEN VNA
  ELSE IF a.t # "i" \/ b.t # "i" THEN VErr
  ELSE VInt(Wrap(CASE op = "Add" -> a.i + b.i [] op = "Sub" -> a.i - b.i [] OTHER -> a.i * b.i))

Compare(op, a, b) ==
  IF a.t = "err" \/ b.t = "err" THEN VErr
  ELSE IF a.t = "na" \/ b.t = "na" THEN VNA
  ELSE IF a.t # "i" \/ b.t # "i" THEN VErr
  ELSE VBool(CASE op = "LT" -> a.i < b.i [] op = "LE" -> a.i <= b.i [] op = "GT" -> a.i > b.i
               [] op = "GE" -> a.i >= b.i [] op = "EQ" -> a.i = b.i [] OTHER -> a.i # b.i)

ArithOps == {"Add", "Sub", "Mul"}
CmpOps   == {"LT", "LE", "GT", "GE", "EQ", "NEQ"}
CastOps  == {"ToStream", "ToArray", "Id"}

(* ------------------------------- environments ------------------------------------------- *)
(* a sequence of bindings; the LAST binding of a name wins (inner binders shadow outer ones) *)
Bind(env, x, val) == Append(env, [n |-> x, v |-> val])
Lookup(env, x) ==
  LET hits == { i \in DOMAIN env : env[i].n = x }
  IN IF hits = {} THEN VErr ELSE env[CHOOSE i \in hits : \A j \in hits : j <= i].v

RECURSIVE SumInts(_, _)
SumInts(vals, i) ==    \* Hail's sum aggregator skips missing values
  IF i > Len(vals) THEN 0
  ELSE (IF vals[i].t = "i" THEN vals[i].i ELSE 0) + SumInts(vals, i + 1)

RECURSIVE Flatten(_, _)
Flatten(ss, i) == IF i > Len(ss) THEN <<>> ELSE ss[i] \o Flatten(ss, i + 1)

IndexOf(names, x) ==
  LET hits == { i \in DOMAIN names : names[i] = x } IN IF hits = {} THEN 0 ELSE CHOOSE i \in hits : TRUE

(* ------------------------------- big-step evaluator ------------------------------------- *)
RECURSIVE Eval(_, _, _, _), FoldFrom(_, _, _, _, _, _, _)

FoldFrom(T, j, env, rows, elems, acc, i) ==    \* j = the StreamFold node
  IF i > Len(elems) THEN acc
  ELSE FoldFrom(T, j, env, rows, elems,
                Eval(T, T[j].k[3], Bind(Bind(env, T[j].n[1], acc), T[j].n[2], elems[i]), rows), i + 1)

Eval(T, j, env, rows) ==
  LET nd == T[j]
      op == nd.op
      C(i) == Eval(T, nd.k[i], env, rows)
      PerRow(c) == [r \in 1..Len(rows) |-> Eval(T, c, rows[r], <<>>)]   \* promoted: the row IS the eval env
  IN CASE op = "I32"   -> VInt(Wrap(nd.v))
       [] op = "NA"    -> VNA
       [] op = "True"  -> VBool(TRUE)
       [] op = "False" -> VBool(FALSE)
       [] op = "Ref"   -> Lookup(env, nd.n[1])
       [] op \in ArithOps -> Arith(op, C(1), C(2))
       [] op \in CmpOps   -> Compare(op, C(1), C(2))
       [] op = "If" ->
            LET c == C(1) IN
            IF c.t = "na" THEN VNA ELSE IF c.t # "b" THEN VErr ELSE IF c.i = 1 THEN C(2) ELSE C(3)
       [] op = "Let" -> Eval(T, nd.k[2], Bind(env, nd.n[1], C(1)), rows)
       [] op = "MakeArray" -> VArr([i \in 1..Len(nd.k) |-> C(i)])
       [] op = "ArrayLen" ->
            LET a == C(1) IN IF a.t = "a" THEN VInt(Len(a.s)) ELSE IF a.t = "na" THEN VNA ELSE VErr
       [] op \in CastOps -> C(1)
       [] op = "StreamMap" ->
            LET a == C(1) IN
            IF a.t # "a" THEN (IF a.t = "na" THEN VNA ELSE VErr)
            ELSE VArr([i \in 1..Len(a.s) |-> Eval(T, nd.k[2], Bind(env, nd.n[1], a.s[i]), rows)])
       [] op = "StreamFilter" ->
            LET a == C(1) IN
            IF a.t # "a" THEN (IF a.t = "na" THEN VNA ELSE VErr)
            ELSE VArr(SelectSeq(a.s, LAMBDA e : Eval(T, nd.k[2], Bind(env, nd.n[1], e), rows) = VBool(TRUE)))
       [] op = "StreamFold" ->
            LET a == C(1) IN
            IF a.t # "a" THEN (IF a.t = "na" THEN VNA ELSE VErr)
            ELSE FoldFrom(T, j, env, rows, a.s, C(2), 1)
       [] op = "MakeStruct" -> VStruct(nd.n, [i \in 1..Len(nd.k) |-> C(i)])
       [] op = "GetField" ->
            LET s == C(1) IN
            IF s.t = "na" THEN VNA ELSE IF s.t # "r" \/ IndexOf(s.f, nd.n[1]) = 0 THEN VErr
            ELSE s.s[IndexOf(s.f, nd.n[1])]
       [] op = "SelectFields" ->
            LET s == C(1) IN
            IF s.t = "na" THEN VNA
            ELSE IF s.t # "r" \/ \E i \in DOMAIN nd.n : IndexOf(s.f, nd.n[i]) = 0 THEN VErr
            ELSE VStruct(nd.n, [i \in 1..Len(nd.n) |-> s.s[IndexOf(s.f, nd.n[i])]])
       [] op = "InsertFields" ->
            LET s == C(1)
            IN IF s.t = "na" THEN VNA ELSE IF s.t # "r" THEN VErr
               ELSE \* overwritten fields keep their position, new fields are appended (hail: tstruct._insert_fields)
                    LET newIdx(f) == IndexOf(nd.n, f)
                        old == [i \in 1..Len(s.f) |-> IF newIdx(s.f[i]) = 0 THEN s.s[i] ELSE C(newIdx(s.f[i]) + 1)]
                        addI == SelectSeq([i \in 1..Len(nd.n) |-> i], LAMBDA i : IndexOf(s.f, nd.n[i]) = 0)
                    IN VStruct(s.f \o [i \in 1..Len(addI) |-> nd.n[addI[i]]],
                               old \o [i \in 1..Len(addI) |-> C(addI[i] + 1)])
       (* ---- aggregation ---- *)
       [] op = "StreamAgg" ->
            LET a == C(1)
                elems == IF a.t = "a" THEN a.s ELSE <<>>
            IN Eval(T, nd.k[2], env, [i \in 1..Len(elems) |-> Bind(env, nd.n[1], elems[i])])
       [] op = "AggSum"     -> VInt(Wrap(SumInts(PerRow(nd.k[1]), 1)))
       [] op = "AggCollect" -> VArr(PerRow(nd.k[1]))
       [] op = "AggCount"   -> VInt(Len(rows))
       [] op = "AggFilter" ->
            Eval(T, nd.k[2], env, SelectSeq(rows, LAMBDA r : Eval(T, nd.k[1], r, <<>>) = VBool(TRUE)))
       [] op = "AggLet" ->
            Eval(T, nd.k[2], env, [r \in 1..Len(rows) |-> Bind(rows[r], nd.n[1], Eval(T, nd.k[1], rows[r], <<>>))])
       [] op = "AggExplode" ->
            LET per == [r \in 1..Len(rows) |->
                          LET a == Eval(T, nd.k[1], rows[r], <<>>)
                              es == IF a.t = "a" THEN a.s ELSE <<>>
                          IN [i \in 1..Len(es) |-> Bind(rows[r], nd.n[1], es[i])]]
            IN Eval(T, nd.k[2], env, Flatten(per, 1))
       [] OTHER -> VErr

(* ------------------------------- scoping ------------------------------------------------- *)
(* Problems(T, j, E, A, ag, O): the scoping faults of the term at j when the eval environment binds E,
   the agg environment binds A and ag says whether an agg environment exists at all
   (BindingEnv.agg.isDefined).  Mirrors Bindings.childEnvValue in Binds.scala.                   *)
AggOps == {"AggSum", "AggCollect", "AggCount", "AggFilter", "AggLet", "AggExplode"}

(* O = the names bound only in the OTHER environment at this position (classification only:
   a reference to such a name is bound, but in the wrong context: "wrongscope")                    *)
RECURSIVE Problems(_, _, _, _, _, _)
Problems(T, j, E, A, ag, O) ==
  LET nd == T[j]
      op == nd.op
      P(i, e, a, g, o) == Problems(T, nd.k[i], e, a, g, o)
      Same(i)    == P(i, E, A, ag, O)
      Prom(i)    == P(i, A, {}, FALSE, E)            \* promoted position: the agg env is the eval env
      NoAgg == IF op \in AggOps /\ ~ag THEN {[why |-> "noagg", x |-> op]} ELSE {}
  IN NoAgg \cup
     CASE op = "Ref" -> IF nd.n[1] \in E THEN {}
                        ELSE {[why |-> IF nd.n[1] \in O THEN "wrongscope" ELSE "unbound", x |-> nd.n[1]]}
       [] op = "Let" -> Same(1) \cup P(2, E \cup {nd.n[1]}, A, ag, O \ {nd.n[1]})
       [] op \in {"StreamMap", "StreamFilter"} -> Same(1) \cup P(2, E \cup {nd.n[1]}, A, ag, O \ {nd.n[1]})
       [] op = "StreamFold" -> Same(1) \cup Same(2) \cup P(3, E \cup {nd.n[1], nd.n[2]}, A, ag, O \ {nd.n[1], nd.n[2]})
       [] op = "StreamAgg"  -> Same(1) \cup P(2, E, E \cup {nd.n[1]}, TRUE, {nd.n[1]})
       [] op \in {"AggSum", "AggCollect"} -> IF ag THEN Prom(1) ELSE {}
       [] op = "AggFilter"  -> IF ag THEN Prom(1) \cup Same(2) ELSE {}
       [] op = "ScanLet"    -> {[why |-> "noscan", x |-> nd.n[1]]}     \* (AggLet x True ..): there is no scan context in the fragment
       [] op \in {"AggLet", "AggExplode"} ->
            IF ag THEN Prom(1) \cup P(2, E, A \cup {nd.n[1]}, ag, (O \cup {nd.n[1]}) \ E) ELSE {}
       [] OTHER -> UNION { Same(i) : i \in DOMAIN nd.k }

WellScoped(T, j, E) == Problems(T, j, E, {}, FALSE, {}) = {}

(* binder names occurring in a term (for the "no capture" facts) *)
BinderOps == {"Let", "StreamMap", "StreamFilter", "StreamFold", "StreamAgg", "AggLet", "AggExplode"}
Binders(T) == UNION { { T[j].n[i] : i \in DOMAIN T[j].n } : j \in { j \in DOMAIN T : T[j].op \in BinderOps } }

(* ------------------------------- the property ------------------------------------------- *)
(* Environments: free is a sequence of [n |-> name, ty |-> "i" | "a"]; every free variable ranges
   over a few values of its type (including a missing Int32 and an array with a missing element) *)
EnvVals(ty) ==
  IF ty = "a" THEN {VArr(<<>>), VArr(<<VInt(1), VInt(2)>>), VArr(<<VInt(0), VNA, VInt(3)>>)}
  ELSE {VInt(-1), VInt(0), VInt(2), VNA}

RECURSIVE EnvsOver(_, _)
EnvsOver(free, i) ==
  IF i > Len(free) THEN {<<>>}
  ELSE { <<[n |-> free[i].n, v |-> val]>> \o e : val \in EnvVals(free[i].ty), e \in EnvsOver(free, i + 1) }

SameValue(T1, r1, T2, r2, free) ==
  \A env \in EnvsOver(free, 1) : Eval(T1, r1, env, <<>>) = Eval(T2, r2, env, <<>>)

FreeSet(free) == { free[i].n : i \in DOMAIN free }

(* orig = the DAG the user built (inlined meaning), rend = what the renderer printed *)
RenderOk(orig, ro, rend, rr, free) ==
  /\ WellScoped(rend, rr, FreeSet(free))
  /\ SameValue(orig, ro, rend, rr, free)
=============================================================================
