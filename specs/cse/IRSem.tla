------------------------------- MODULE IRSem -------------------------------
(* C35: a fragment of Hail's value IR as TERMS, with a big-step evaluator, the binder/scoping
   rules of the engine (is.hail.expr.ir.Bindings / BindingEnv) and the statement of the property

        "the text the common-subexpression renderer sends to the engine means the same as the
         fully inlined IR, and every binding it introduces is well scoped, in the right
         (eval / agg) context".

   A term table  T  is a sequence of nodes; a node refers to its children by index, so the same
   table represents an expression DAG (a node index used twice = a shared Python object) or a tree
   (the parsed rendered text).  Evaluating a DAG by index IS evaluating the fully inlined IR.

        node == [op : STRING, k : Seq(Nat) (children), n : Seq(STRING) (names), v : Int]

   op                      children              names            Hail IR
   ----------------------  --------------------  ---------------  -----------------------------------
   I32                     -                     -                (I32 v)
   NA                      -                     -                (NA Int32)
   True / False            -                     -                (True) (False)
   Ref                     -                     <<x>>            (Ref x)
   Add Sub Mul             l, r                  -                (ApplyBinaryPrimOp `+` l r) ...
   LT LE GT GE EQ NEQ      l, r                  -                (ApplyComparisonOp `<` l r) ...
   If                      c, t, e               -                (If c t e)
   Let                     value, body           <<x>>            (Let eval x value body)
   MakeArray               e1..en                -                (MakeArray Array[Int32] e1 .. en)
   ArrayLen                a                     -                (ArrayLen a)
   ToStream ToArray Id     a                     -                (ToStream False a) (ToArray s) casts
   StreamMap StreamFilter  a, body               <<x>>            (StreamMap x a body)
   StreamFold              a, zero, body         <<acc, x>>       (StreamFold acc x a zero body)
   MakeStruct              v1..vn                <<f1..fn>>       (MakeStruct (f1 v1) ..)
   GetField                s                     <<f>>            (GetField f s)
   InsertFields            old, v1..vn           <<f1..fn>>       (InsertFields old None (f1 v1) ..)
   SelectFields            old                   <<f1..fn>>       (SelectFields (f1 .. fn) old)
   StreamAgg               a, query              <<x>>            (StreamAgg x a query)
   AggSum AggCollect       seq-arg               -                (ApplyAggOp Sum () (arg))
   AggCount                -                     -                (ApplyAggOp Count () ())
   AggFilter               cond, query           -                (AggFilter False cond query)
   AggLet                  value, query          <<x>>            (AggLet x False value query)  = (Let agg x ..)
   AggExplode              array, query          <<x>>            (AggExplode x False array query)

   StreamAggScan           a, query              <<x>>            (StreamAggScan x a query)   (value-IR scan site)
   ScanSum ScanMax ..      seq-arg               -                (ApplyScanOp Sum () (arg))
   ScanCount               -                     -                (ApplyScanOp Count () ())
   ScanFilter              cond, query           -                (AggFilter True cond query)
   ScanLet                 value, query          <<x>>            (AggLet x True value query)  = (Let scan x ..)
   Site                    new-row expression    <<kind>>         (MatrixMapRows child e) "mrows", (MatrixMapCols ..) "mcols",
                                                                  (TableMapRows child e) "trows": eval + agg + scan scopes

   Aggregation context.  A query is evaluated in an eval environment plus a sequence ROWS of agg
   environments (one per element being aggregated over).  StreamAgg creates the rows (eval
   environment + element variable); the seq-arg of an aggregator, the condition of AggFilter and
   the value of AggLet/AggExplode are evaluated once per row IN THE ROW'S environment ("promoted");
   AggFilter/AggLet/AggExplode transform the rows seen by their query.  So a variable bound by
   StreamAgg / AggLet / AggExplode exists only in the agg environment: an eval-scope
   (Let eval ..) around a use in a seq-arg does not bind it, and an (AggLet ..) does not bind an
   eval-scope use.  This is exactly BindingEnv.promoteAgg / bindAgg / createAgg.               *)
EXTENDS Integers, Sequences, FiniteSets, TLC

Node(op, k, n, v) == [op |-> op, k |-> k, n |-> n, v |-> v]

(* ------------------------------- values ------------------------------------------------- *)
(* one record shape for all values so that any two values can be compared *)
VInt(i)       == [t |-> "i",   i |-> i, s |-> <<>>, f |-> <<>>]
VNA           == [t |-> "na",  i |-> 0, s |-> <<>>, f |-> <<>>]
VBool(b)      == [t |-> "b",   i |-> IF b THEN 1 ELSE 0, s |-> <<>>, f |-> <<>>]
VArr(s)       == [t |-> "a",   i |-> 0, s |-> s, f |-> <<>>]
VStruct(f, s) == [t |-> "r",   i |-> 0, s |-> s, f |-> f]
VErr          == [t |-> "err", i |-> 0, s |-> <<>>, f |-> <<>>]

(* Int32 arithmetic is modelled in the ring Z/1001 with representatives -500..500 (TLC integers
   are checked 32-bit; any congruence on the integers keeps "same term => same value")        *)
Wrap(x) == ((x + 500) % 1001) - 500

Arith(op, a, b) ==
  IF a.t = "err" \/ b.t = "err" THEN VErr
  ELSE IF a.t = "na" \/ b.t = "na" THEN VNA
  ELSE IF a.t # "i" \/ b.t # "i" THEN VErr
  ELSE VInt(Wrap(CASE op = "Add" -> a.i + b.i [] op = "Sub" -> a.i - b.i [] OTHER -> a.i * b.i))

Compare(op, a, b) ==
  IF a.t = "err" \/ b.t = "err" THEN VErr
  ELSE IF a.t = "na" \/ b.t = "na" THEN VNA
  ELSE IF a.t # "i" \/ b.t # "i" THEN VErr
  ELSE VBool(CASE op = "LT" -> a.i < b.i [] op = "LE" -> a.i <= b.i [] op = "GT" -> a.i > b.i
               [] op = "GE" -> a.i >= b.i [] op = "EQ" -> a.i = b.i [] OTHER -> a.i # b.i)

ArithOps == {"Add", "Sub", "Mul"}
CmpOps   == {"LT", "LE", "GT", "GE", "EQ", "NEQ"}
CastOps  == {"ToStream", "ToArray", "Id"}

(* ------------------------------- environments ------------------------------------------- *)
(* a sequence of bindings; the LAST binding of a name wins (inner binders shadow outer ones) *)
Bind(env, x, val) == Append(env, [n |-> x, v |-> val])
Lookup(env, x) ==
  LET hits == { i \in DOMAIN env : env[i].n = x }
  IN IF hits = {} THEN VErr ELSE env[CHOOSE i \in hits : \A j \in hits : j <= i].v

RECURSIVE SumInts(_, _)
SumInts(vals, i) ==    \* Hail's sum aggregator skips missing values
  IF i > Len(vals) THEN 0
  ELSE (IF vals[i].t = "i" THEN vals[i].i ELSE 0) + SumInts(vals, i + 1)

RECURSIVE Flatten(_, _)
Flatten(ss, i) == IF i > Len(ss) THEN <<>> ELSE ss[i] \o Flatten(ss, i + 1)

IndexOf(names, x) ==
  LET hits == { i \in DOMAIN names : names[i] = x } IN IF hits = {} THEN 0 ELSE CHOOSE i \in hits : TRUE

(* ------------------------------- big-step evaluator ------------------------------------- *)
(* EvalS(T, j, env, rows, srows): rows = the agg environments (one per aggregated element), srows = the
   scan environments (one per PREVIOUS element: a scan is the running aggregation over the elements
   before the current one).  Promotion follows BindingEnv.promoteAgg / promoteScan: the seq-arg of an
   aggregator is evaluated with eval := the row, no agg scope, the scan scope kept (and symmetrically). *)
RECURSIVE EvalS(_, _, _, _, _), FoldFrom(_, _, _, _, _, _, _, _)

FoldFrom(T, j, env, rows, srows, elems, acc, i) ==    \* j = the StreamFold node
  IF i > Len(elems) THEN acc
  ELSE FoldFrom(T, j, env, rows, srows, elems,
                EvalS(T, T[j].k[3], Bind(Bind(env, T[j].n[1], acc), T[j].n[2], elems[i]), rows, srows), i + 1)

RECURSIVE MaxInts(_, _)
MaxInts(vals, i) ==     \* max aggregator: missing values are skipped, no value -> missing
  IF i > Len(vals) THEN VNA
  ELSE LET r == MaxInts(vals, i + 1) IN
       IF vals[i].t # "i" THEN r ELSE IF r.t # "i" THEN vals[i] ELSE IF vals[i].i >= r.i THEN vals[i] ELSE r

(* the fixed little data set behind a relational binding site: 3 rows x 2 columns *)
SiteRows == <<0, 1, 2>>
SiteCols == <<0, 1>>
OneField(f, i) == VStruct(<<f>>, <<VInt(i)>>)
Empty == VStruct(<<>>, <<>>)
SiteEnv(kind, i) ==      \* eval = scan environment of element i of the site
  CASE kind = "mrows" -> <<[n |-> "global", v |-> Empty], [n |-> "va", v |-> OneField("row_idx", i)]>>
    [] kind = "mcols" -> <<[n |-> "global", v |-> Empty], [n |-> "sa", v |-> OneField("col_idx", i)]>>
    [] OTHER          -> <<[n |-> "global", v |-> Empty], [n |-> "row", v |-> OneField("idx", i)]>>
SiteAggRows(kind, i) ==  \* the entries aggregated over for element i (a table row has none)
  CASE kind = "mrows" -> [c \in 1..Len(SiteCols) |-> <<[n |-> "global", v |-> Empty], [n |-> "va", v |-> OneField("row_idx", i)],
                                                       [n |-> "sa", v |-> OneField("col_idx", SiteCols[c])], [n |-> "g", v |-> Empty]>>]
    [] kind = "mcols" -> [r \in 1..Len(SiteRows) |-> <<[n |-> "global", v |-> Empty], [n |-> "va", v |-> OneField("row_idx", SiteRows[r])],
                                                       [n |-> "sa", v |-> OneField("col_idx", i)], [n |-> "g", v |-> Empty]>>]
    [] OTHER -> <<>>
SiteElems(kind) == IF kind = "mcols" THEN SiteCols ELSE SiteRows
SiteExtra(kind) == CASE kind = "mrows" -> <<[n |-> "n_cols", v |-> VInt(Len(SiteCols))]>>
                     [] kind = "mcols" -> <<[n |-> "n_rows", v |-> VInt(Len(SiteRows))]>>
                     [] OTHER -> <<>>

EvalS(T, j, env, rows, srows) ==
  LET nd == T[j]
      op == nd.op
      C(i) == EvalS(T, nd.k[i], env, rows, srows)
      PerRow(c)  == [r \in 1..Len(rows)  |-> EvalS(T, c, rows[r], <<>>, srows)]    \* promoted: the row IS the eval env
      PerSRow(c) == [r \in 1..Len(srows) |-> EvalS(T, c, srows[r], rows, <<>>)]
  IN CASE op = "I32"   -> VInt(Wrap(nd.v))
       [] op = "NA"    -> VNA
       [] op = "True"  -> VBool(TRUE)
       [] op = "False" -> VBool(FALSE)
       [] op = "Ref"   -> Lookup(env, nd.n[1])
       [] op \in ArithOps -> Arith(op, C(1), C(2))
       [] op \in CmpOps   -> Compare(op, C(1), C(2))
       [] op = "If" ->
            LET c == C(1) IN
            IF c.t = "na" THEN VNA ELSE IF c.t # "b" THEN VErr ELSE IF c.i = 1 THEN C(2) ELSE C(3)
       [] op = "Let" -> EvalS(T, nd.k[2], Bind(env, nd.n[1], C(1)), rows, srows)
       [] op = "MakeArray" -> VArr([i \in 1..Len(nd.k) |-> C(i)])
       [] op = "ArrayLen" ->
            LET a == C(1) IN IF a.t = "a" THEN VInt(Len(a.s)) ELSE IF a.t = "na" THEN VNA ELSE VErr
       [] op \in CastOps -> C(1)
       [] op = "StreamMap" ->
            LET a == C(1) IN
            IF a.t # "a" THEN (IF a.t = "na" THEN VNA ELSE VErr)
            ELSE VArr([i \in 1..Len(a.s) |-> EvalS(T, nd.k[2], Bind(env, nd.n[1], a.s[i]), rows, srows)])
       [] op = "StreamFilter" ->
            LET a == C(1) IN
            IF a.t # "a" THEN (IF a.t = "na" THEN VNA ELSE VErr)
            ELSE VArr(SelectSeq(a.s, LAMBDA e : EvalS(T, nd.k[2], Bind(env, nd.n[1], e), rows, srows) = VBool(TRUE)))
       [] op = "StreamFold" ->
            LET a == C(1) IN
            IF a.t # "a" THEN (IF a.t = "na" THEN VNA ELSE VErr)
            ELSE FoldFrom(T, j, env, rows, srows, a.s, C(2), 1)
       [] op = "MakeStruct" -> VStruct(nd.n, [i \in 1..Len(nd.k) |-> C(i)])
       [] op = "GetField" ->
            LET s == C(1) IN
            IF s.t = "na" THEN VNA ELSE IF s.t # "r" \/ IndexOf(s.f, nd.n[1]) = 0 THEN VErr
            ELSE s.s[IndexOf(s.f, nd.n[1])]
       [] op = "SelectFields" ->
            LET s == C(1) IN
            IF s.t = "na" THEN VNA
            ELSE IF s.t # "r" \/ \E i \in DOMAIN nd.n : IndexOf(s.f, nd.n[i]) = 0 THEN VErr
            ELSE VStruct(nd.n, [i \in 1..Len(nd.n) |-> s.s[IndexOf(s.f, nd.n[i])]])
       [] op = "InsertFields" ->
            LET s == C(1)
            IN IF s.t = "na" THEN VNA ELSE IF s.t # "r" THEN VErr
               ELSE \* overwritten fields keep their position, new fields are appended (hail: tstruct._insert_fields)
                    LET newIdx(f) == IndexOf(nd.n, f)
                        old == [i \in 1..Len(s.f) |-> IF newIdx(s.f[i]) = 0 THEN s.s[i] ELSE C(newIdx(s.f[i]) + 1)]
                        addI == SelectSeq([i \in 1..Len(nd.n) |-> i], LAMBDA i : IndexOf(s.f, nd.n[i]) = 0)
                    IN VStruct(s.f \o [i \in 1..Len(addI) |-> nd.n[addI[i]]],
                               old \o [i \in 1..Len(addI) |-> C(addI[i] + 1)])
       (* ---- aggregation ---- *)
       [] op = "StreamAgg" ->      \* createAgg: a new agg scope, the scan scope is emptied
            LET a == C(1)
                elems == IF a.t = "a" THEN a.s ELSE <<>>
            IN EvalS(T, nd.k[2], env, [i \in 1..Len(elems) |-> Bind(env, nd.n[1], elems[i])], <<>>)
       [] op = "AggSum"     -> VInt(Wrap(SumInts(PerRow(nd.k[1]), 1)))
       [] op = "AggMax"     -> MaxInts(PerRow(nd.k[1]), 1)
       [] op = "AggCollect" -> VArr(PerRow(nd.k[1]))
       [] op = "AggCount"   -> VInt(Len(rows))
       [] op = "AggFilter" ->
            EvalS(T, nd.k[2], env, SelectSeq(rows, LAMBDA r : EvalS(T, nd.k[1], r, <<>>, srows) = VBool(TRUE)), srows)
       [] op = "AggLet" ->
            EvalS(T, nd.k[2], env, [r \in 1..Len(rows) |-> Bind(rows[r], nd.n[1], EvalS(T, nd.k[1], rows[r], <<>>, srows))], srows)
       [] op = "AggExplode" ->
            LET per == [r \in 1..Len(rows) |->
                          LET a == EvalS(T, nd.k[1], rows[r], <<>>, srows)
                              es == IF a.t = "a" THEN a.s ELSE <<>>
                          IN [i \in 1..Len(es) |-> Bind(rows[r], nd.n[1], es[i])]]
            IN EvalS(T, nd.k[2], env, Flatten(per, 1), srows)
       (* ---- scans: the same over the scan rows ---- *)
       [] op = "StreamAggScan" ->  \* createScan: element i sees the elements before it; eval binds the element too
            LET a == C(1) IN
            IF a.t # "a" THEN (IF a.t = "na" THEN VNA ELSE VErr)
            ELSE VArr([i \in 1..Len(a.s) |->
                         EvalS(T, nd.k[2], Bind(env, nd.n[1], a.s[i]), <<>>,
                               [p \in 1..(i - 1) |-> Bind(env, nd.n[1], a.s[p])])])
       [] op = "ScanSum"     -> VInt(Wrap(SumInts(PerSRow(nd.k[1]), 1)))
       [] op = "ScanMax"     -> MaxInts(PerSRow(nd.k[1]), 1)
       [] op = "ScanCollect" -> VArr(PerSRow(nd.k[1]))
       [] op = "ScanCount"   -> VInt(Len(srows))
       [] op = "ScanFilter" ->
            EvalS(T, nd.k[2], env, rows, SelectSeq(srows, LAMBDA r : EvalS(T, nd.k[1], r, rows, <<>>) = VBool(TRUE)))
       [] op = "ScanLet" ->
            EvalS(T, nd.k[2], env, rows, [r \in 1..Len(srows) |-> Bind(srows[r], nd.n[1], EvalS(T, nd.k[1], srows[r], rows, <<>>))])
       (* ---- relational binding sites (MatrixMapRows / MatrixMapCols / TableMapRows new-row expression) ---- *)
       [] op = "Site" ->
            LET kind == nd.n[1]
                es   == SiteElems(kind)
            IN VArr([i \in 1..Len(es) |->
                       EvalS(T, nd.k[1], SiteEnv(kind, es[i]) \o SiteExtra(kind), SiteAggRows(kind, es[i]),
                             [p \in 1..(i - 1) |-> SiteEnv(kind, es[p])])])
       [] OTHER -> VErr

Eval(T, j, env, rows) == EvalS(T, j, env, rows, <<>>)

(* ------------------------------- scoping ------------------------------------------------- *)
(* ProblemsC(T, j, c): the scoping faults of the term at j in the binding context
      c = [E, A, ag, S, sg, O]   E / A / S = names bound in the eval / agg / scan environment,
                                  ag / sg = whether an agg / scan environment exists (BindingEnv.agg/scan.isDefined),
                                  O = names bound only in ANOTHER environment (classification: "wrongscope").
   Mirrors Bindings.childEnvValue / childEnvTable / childEnvMatrix in Binds.scala and BindingEnv.extend. *)
AggOps  == {"AggSum", "AggMax", "AggCollect", "AggCount", "AggFilter", "AggLet", "AggExplode"}
ScanOps == {"ScanSum", "ScanMax", "ScanCollect", "ScanCount", "ScanFilter", "ScanLet"}
BCtx(E, A, ag, S, sg, O) == [E |-> E, A |-> A, ag |-> ag, S |-> S, sg |-> sg, O |-> O]

SiteScopes(kind) ==
  CASE kind = "mrows" -> BCtx({"global", "va", "n_cols"}, {"global", "va", "sa", "g"}, TRUE, {"global", "va"}, TRUE, {"sa", "g"})
    [] kind = "mcols" -> BCtx({"global", "sa", "n_rows"}, {"global", "va", "sa", "g"}, TRUE, {"global", "sa"}, TRUE, {"va", "g"})
    [] OTHER          -> BCtx({"global", "row"}, {}, FALSE, {"global", "row"}, TRUE, {})

RECURSIVE ProblemsC(_, _, _)
ProblemsC(T, j, c) ==
  LET nd == T[j]
      op == nd.op
      P(i, cc)   == ProblemsC(T, nd.k[i], cc)
      Same(i)    == P(i, c)
      WithE(i, xs) == P(i, [c EXCEPT !.E = @ \cup xs, !.O = @ \ xs])
      PromA(i)   == P(i, [c EXCEPT !.E = c.A, !.A = {}, !.ag = FALSE, !.O = (c.E \cup c.S \cup c.O) \ c.A])   \* promoteAgg
      PromS(i)   == P(i, [c EXCEPT !.E = c.S, !.S = {}, !.sg = FALSE, !.O = (c.E \cup c.A \cup c.O) \ c.S])   \* promoteScan
      NoCtx == (IF op \in AggOps /\ ~c.ag THEN {[why |-> "noagg", x |-> op]} ELSE {})
               \cup (IF op \in ScanOps /\ ~c.sg THEN {[why |-> "noscan", x |-> op]} ELSE {})
  IN NoCtx \cup
     CASE op = "Ref" -> IF nd.n[1] \in c.E THEN {}
                        ELSE {[why |-> IF nd.n[1] \in (c.O \cup c.A \cup c.S) THEN "wrongscope" ELSE "unbound", x |-> nd.n[1]]}
       [] op = "Let" -> Same(1) \cup WithE(2, {nd.n[1]})
       [] op \in {"StreamMap", "StreamFilter"} -> Same(1) \cup WithE(2, {nd.n[1]})
       [] op = "StreamFold" -> Same(1) \cup Same(2) \cup WithE(3, {nd.n[1], nd.n[2]})
       [] op = "StreamAgg"  -> Same(1) \cup P(2, [c EXCEPT !.A = c.E \cup {nd.n[1]}, !.ag = TRUE, !.S = {}, !.O = (c.O \cup c.A \cup c.S) \ c.E])
       [] op = "StreamAggScan" ->
            Same(1) \cup P(2, [c EXCEPT !.E = @ \cup {nd.n[1]}, !.S = c.E \cup {nd.n[1]}, !.sg = TRUE, !.A = {},
                                        !.O = (c.O \cup c.A \cup c.S) \ (c.E \cup {nd.n[1]})])
       [] op \in {"AggSum", "AggMax", "AggCollect"} -> IF c.ag THEN PromA(1) ELSE {}
       [] op = "AggFilter"  -> IF c.ag THEN PromA(1) \cup Same(2) ELSE {}
       [] op \in {"AggLet", "AggExplode"} -> IF c.ag THEN PromA(1) \cup P(2, [c EXCEPT !.A = @ \cup {nd.n[1]}]) ELSE {}
       [] op \in {"ScanSum", "ScanMax", "ScanCollect"} -> IF c.sg THEN PromS(1) ELSE {}
       [] op = "ScanFilter" -> IF c.sg THEN PromS(1) \cup Same(2) ELSE {}
       [] op = "ScanLet"    -> IF c.sg THEN PromS(1) \cup P(2, [c EXCEPT !.S = @ \cup {nd.n[1]}]) ELSE {}
       [] op = "Site"       -> P(1, SiteScopes(nd.n[1]))           \* inFreshScope: nothing of the enclosing context is visible
       [] OTHER -> UNION { Same(i) : i \in DOMAIN nd.k }

Problems(T, j, E, A, ag, O) == ProblemsC(T, j, BCtx(E, A, ag, {}, FALSE, O))
WellScoped(T, j, E) == Problems(T, j, E, {}, FALSE, {}) = {}

(* binder names occurring in a term (for the "no capture" facts) *)
BinderOps == {"Let", "StreamMap", "StreamFilter", "StreamFold", "StreamAgg", "StreamAggScan", "AggLet", "AggExplode", "ScanLet"}
Binders(T) == UNION { { T[j].n[i] : i \in DOMAIN T[j].n } : j \in { j \in DOMAIN T : T[j].op \in BinderOps } }

(* ------------------------------- the property ------------------------------------------- *)
(* Environments: free is a sequence of [n |-> name, ty |-> "i" | "a"]; every free variable ranges
   over a few values of its type (including a missing Int32 and an array with a missing element) *)
EnvVals(ty) ==
  IF ty = "a" THEN {VArr(<<>>), VArr(<<VInt(1), VInt(2)>>), VArr(<<VInt(0), VNA, VInt(3)>>)}
  ELSE {VInt(-1), VInt(0), VInt(2), VNA}

RECURSIVE EnvsOver(_, _)
EnvsOver(free, i) ==
  IF i > Len(free) THEN {<<>>}
  ELSE { <<[n |-> free[i].n, v |-> val]>> \o e : val \in EnvVals(free[i].ty), e \in EnvsOver(free, i + 1) }

SameValue(T1, r1, T2, r2, free) ==
  \A env \in EnvsOver(free, 1) : Eval(T1, r1, env, <<>>) = Eval(T2, r2, env, <<>>)

FreeSet(free) == { free[i].n : i \in DOMAIN free }

(* orig = the DAG the user built (inlined meaning), rend = what the renderer printed *)
RenderOk(orig, ro, rend, rr, free) ==
  /\ WellScoped(rend, rr, FreeSet(free))
  /\ SameValue(orig, ro, rend, rr, free)
=============================================================================
