------------------------------ MODULE CSECheck ------------------------------
(* C35 verdict module (call/return binding, B3).  A case is one call of the real renderer:

     [id, free : Seq(STRING), lifted : Seq(STRING), orig : [nodes, root], rend : [nodes, root]]

   orig = the expression DAG handed to hail.ir.renderer.CSERenderer (node index = Python object
   identity), rend = the term read back from the text it returned.  TLC judges each case with the
   evaluator and the scoping rules of IRSem: the verdict is computed here, not in Python.       *)
EXTENDS IRSem, SequencesExt, Json, IOUtils

RECURSIVE HasErr(_)
HasErr(val) == val.t = "err" \/ \E i \in DOMAIN val.s : HasErr(val.s[i])

Judge(c) ==
  LET free  == c.free
      F     == FreeSet(free)
      po    == Problems(c.orig.nodes, c.orig.root, F, {}, FALSE, {})
      pr    == Problems(c.rend.nodes, c.rend.root, F, {}, FALSE, {})
      envs  == EnvsOver(free, 1)
      \* each side is evaluated once per environment (functions, so that TLC does not re-evaluate them)
      vo    == IF po = {} THEN [e \in envs |-> Eval(c.orig.nodes, c.orig.root, e, <<>>)] ELSE [e \in envs |-> VErr]
      vr    == IF po = {} /\ pr = {} THEN [e \in envs |-> Eval(c.rend.nodes, c.rend.root, e, <<>>)] ELSE vo
      diff  == { e \in envs : vo[e] # vr[e] }
      wit   == IF diff = {} THEN <<>> ELSE LET e == CHOOSE e \in diff : TRUE IN <<[env |-> e, orig |-> vo[e], rend |-> vr[e]]>>
      userB == Binders(c.orig.nodes) \cup F
      cseB  == { c.lifted[i] : i \in DOMAIN c.lifted }          \* binders the renderer introduced (__cse_N)
  IN [id        |-> c.id,
      orig_ok   |-> po = {},                                   \* harness sanity: the input DAG itself is well scoped
      orig_err  |-> IF po = {} THEN \E e \in envs : HasErr(vo[e]) ELSE FALSE,   \* evaluator must be total on inputs
      scoped    |-> pr = {},
      problems  |-> SetToSeq(pr),
      same      |-> diff = {},
      witness   |-> wit,
      nontriv   |-> Cardinality({ vo[e] : e \in envs }),
      capture   |-> cseB \cap userB # {},                      \* a lifted binder re-uses a user name
      nlifted   |-> Cardinality(cseB)]

JudgeAll(cases) == [i \in 1..Len(cases) |-> Judge(cases[i])]

Verdict == ndJsonSerialize(IOEnv.CSE_VERDICT, JudgeAll(ndJsonDeserialize(IOEnv.CSE_CASES)))
ASSUME Verdict
=============================================================================
