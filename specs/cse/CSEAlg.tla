------------------------------- MODULE CSEAlg -------------------------------
(* C35: the common-subexpression renderer of hail/python/hail/ir/renderer.py as a transition system.

   phase "build"     one action per hole filled: TLC grows every expression DAG of the bounded
                     universe IRDags (sharing = one node index referenced twice = one Python object);
   phase "analysis"  CSEAnalysisPass.__call__: ONE ACTION PER ITERATION of its `while True` loop, on
                     the explicit stack of StackFrames (min_binding_depth, min_value_binding_depth,
                     context, visited / agg_visited, lifted_lets / agg_lifted_lets, child_idx);
                     binding_sites is keyed by node identity only, as in the code;
   phase "print"     CSEPrintPass.__call__: one action per iteration of its loop; builders are
                     abstracted to the sequence of already printed children, the text to a term table;
                     bindings_stack (keyed by depth), its visited sets and let_bodies are explicit;
   phase "done"      the term `res` in table `out` is what the engine would parse.

   Node metadata mirrors hail/python/hail/ir/{base_ir,ir}.py: new_block, uses_agg_context,
   bindings / agg_bindings (incl. the agg_capability pseudo-variable), free_vars / free_agg_vars.
   FIXFV = FALSE models StreamAgg.free_vars / free_agg_vars exactly as written in ir.py at the time of
   writing (free_vars forgets the eval-scope free variables of the aggregation result, free_agg_vars
   forgets the agg-scope free variables of the stream); TRUE models the repaired definitions.
   FIXSITE = FALSE models StackFrame.make registering bindings_stack[depth] for a child that is then
   lifted (binding_sites is keyed by node identity only, so a node that is a binding site at depth d
   in one place is taken for one at every place where it occurs at depth d); the code then either
   trips `assert not frame.insert_lets` (phase "crashed") or leaves a stale binding frame behind;
   TRUE models the repair (a lifted child is never a binding frame).  The harness measures both
   flags on the implementation under test, so the model always describes the code it is bound to.
   Scan scope is not modelled (no scan constructs in the fragment).

   Property (invariant DoneOk): when the renderer is done, the printed term is well scoped under the
   engine's binding rules and evaluates like the inlined DAG in every small environment.         *)
EXTENDS IRDags, Json, IOUtils

CONSTANTS PROFILE, N, UNIQ, FIXFV, FIXSITE, EMIT, MODE

VARIABLES phase, P, stack, sites, uid, bstack, out, res
vars == <<phase, P, stack, sites, uid, bstack, out, res>>

U == Universe(PROFILE, N, UNIQ)
T == P.nodes
EmptyFn == [x \in {} |-> 0]
MaxOf(S) == CHOOSE m \in S : \A x \in S : x <= m

(* ------------------------------- node metadata (ir.py / base_ir.py) ----------------------- *)
AggCap == "agg_capability"
CapOps == {"AggSum", "AggCollect", "AggCount", "AggFilter", "AggExplode"}      \* uses_agg_capability()

NewBlock(nd, i) == (nd.op = "If" /\ i \in {2, 3}) \/ (nd.op = "StreamAgg" /\ i = 2)
UsesAgg(nd, i)  == nd.op \in {"AggSum", "AggCollect", "AggFilter", "AggLet", "AggExplode"} /\ i = 1
EvalB(nd, i) ==
  CASE nd.op \in {"Let", "StreamMap", "StreamFilter"} /\ i = 2 -> {nd.n[1]}
    [] nd.op = "StreamFold" /\ i = 3                           -> {nd.n[1], nd.n[2]}
    [] nd.op \in {"StreamAgg", "AggFilter", "AggExplode"} /\ i = 2 -> {AggCap}
    [] OTHER -> {}
AggB(nd, i) == IF nd.op \in {"AggLet", "StreamAgg", "AggExplode"} /\ i = 2 THEN {nd.n[1]} ELSE {}
Liftable(nd) == nd.ty # "s"                                   \* not (is_effectful() or is_stream)

RECURSIVE FV(_), FAV(_)
FV(j) ==
  LET nd == T[j] IN
  IF nd.op = "Ref" THEN {nd.n[1]}
  ELSE IF nd.op = "StreamAgg"
       THEN FV(nd.k[1]) \cup (FAV(nd.k[2]) \ {nd.n[1]})
            \cup (IF FIXFV THEN FV(nd.k[2]) \ {AggCap} ELSE {})
  ELSE UNION { IF UsesAgg(nd, i) THEN {} ELSE FV(nd.k[i]) \ EvalB(nd, i) : i \in DOMAIN nd.k }
       \cup (IF nd.op \in CapOps THEN {AggCap} ELSE {})
FAV(j) ==
  LET nd == T[j] IN
  IF nd.op = "StreamAgg" THEN (IF FIXFV THEN FAV(nd.k[1]) ELSE {})
  ELSE UNION { IF UsesAgg(nd, i) THEN FV(nd.k[i]) \ EvalB(nd, i) ELSE FAV(nd.k[i]) \ AggB(nd, i) : i \in DOMAIN nd.k }

(* contexts: [e |-> eval variable -> binding depth, a |-> agg variable -> binding depth] *)
ChildCtx(nd, i, ctx, depth) ==
  LET base == IF UsesAgg(nd, i) THEN [e |-> ctx.a, a |-> EmptyFn]
              ELSE IF nd.op = "StreamAgg" /\ i = 2 THEN [e |-> ctx.e, a |-> ctx.e]
              ELSE ctx
  IN [e |-> [x \in EvalB(nd, i) |-> depth] @@ base.e, a |-> [x \in AggB(nd, i) |-> depth] @@ base.a]

BindDepth(j, mbd, ctx) ==
  MaxOf({mbd} \cup { ctx.e[x] : x \in FV(j) } \cup { ctx.a[x] : x \in FAV(j) })

(* ------------------------------- frames ---------------------------------------------------- *)
Frame(node, mbd, mvbd, ctx, depth, ins, lift, lname, lkind) ==
  [node |-> node, ci |-> 0, mbd |-> mbd, mvbd |-> mvbd, ctx |-> ctx,
   vis |-> {}, avis |-> {}, lets |-> EmptyFn, alets |-> EmptyFn,          \* analysis pass
   depth |-> depth, ins |-> ins, lift |-> lift, lname |-> lname, lkind |-> lkind, kids |-> <<>>]  \* print pass

ChildFrame(f, i, depth, ins) ==     \* StackFrame.make_child_frame of either pass
  LET nd == T[f.node] IN
  Frame(nd.k[i],
        IF NewBlock(nd, i) THEN depth ELSE f.mbd,
        IF NewBlock(nd, i) \/ UsesAgg(nd, i) THEN depth ELSE f.mvbd,
        ChildCtx(nd, i, f.ctx, depth), depth, ins, -1, "", "")

RootCtx == [e |-> [x \in U.top |-> 0], a |-> EmptyFn]
NoSite  == [depth |-> -1, lets |-> EmptyFn, alets |-> EmptyFn]
NoBind  == [on |-> FALSE, lets |-> EmptyFn, alets |-> EmptyFn, vis |-> {}, avis |-> {}, bodies |-> <<>>]
Depths  == 0..(N + 1)

(* MODE = "enum": grow every DAG of the universe;  MODE = "file": start from the finished DAGs listed in
   the file IOEnv.CSE_SEEDS (witnesses, counter-examples being replayed, samples of larger DAGs)      *)
SeedDags == LET s == ndJsonDeserialize(IOEnv.CSE_SEEDS) IN { s[i] : i \in DOMAIN s }
Init ==
  /\ phase = "build"
  /\ P \in IF MODE = "file" THEN { [nodes |-> d.nodes, holes |-> <<>>, sh |-> TRUE] : d \in SeedDags }
            ELSE { Start(U, ty) : ty \in U.roots }
  /\ stack = <<>> /\ sites = <<>> /\ uid = 0 /\ bstack = <<>> /\ out = <<>> /\ res = 0

(* ------------------------------- build ----------------------------------------------------- *)
Build ==
  /\ phase = "build" /\ P.holes # <<>>
  /\ P' \in Succ(U, P)
  /\ UNCHANGED <<phase, stack, sites, uid, bstack, out, res>>

StartAnalysis ==
  /\ phase = "build" /\ P.holes = <<>>
  /\ phase' = "analysis"
  /\ stack' = <<Frame(1, 0, 0, RootCtx, 0, FALSE, -1, "", "")>>
  /\ sites' = [j \in DOMAIN T |-> NoSite]
  /\ UNCHANGED <<P, uid, bstack, out, res>>

(* ------------------------------- CSEAnalysisPass ------------------------------------------ *)
(* child_idx >= len(node.children): mark visited at the potential let insertion site, pop, register
   the binding site *)
APost ==
  /\ phase = "analysis"
  /\ LET top == Len(stack)
         f   == stack[top]
         nd  == T[f.node]
         bd  == BindDepth(f.node, f.mbd, f.ctx)
         marked == IF ~Liftable(nd) THEN stack
                   ELSE IF bd < f.mvbd THEN [stack EXCEPT ![bd + 1].avis = @ \cup {f.node}]
                   ELSE [stack EXCEPT ![bd + 1].vis = @ \cup {f.node}]
     IN /\ f.ci + 1 > Len(nd.k)
        /\ stack' = SubSeq(marked, 1, top - 1)
        /\ sites' = IF f.lets # EmptyFn \/ f.alets # EmptyFn
                    THEN [sites EXCEPT ![f.node] = [depth |-> top - 1, lets |-> f.lets, alets |-> f.alets]]
                    ELSE sites
        /\ IF top = 1
           THEN /\ phase' = "print"
                /\ bstack' = [d \in Depths |-> IF d = 0 /\ sites'[1].depth = 0
                                               THEN [NoBind EXCEPT !.on = TRUE, !.lets = sites'[1].lets, !.alets = sites'[1].alets]
                                               ELSE NoBind]
           ELSE UNCHANGED <<phase, bstack>>
  /\ UNCHANGED <<P, uid, out, res>>

AKind(cf, child, top) ==      \* which lifted_lets dict the child is already known in, if any
  LET bd == BindDepth(child, cf.mbd, cf.ctx) IN
  IF bd >= top THEN "none"
  ELSE IF bd >= cf.mvbd THEN (IF child \in stack[bd + 1].vis THEN "value" ELSE "none")
  ELSE IF child \in stack[bd + 1].avis THEN "agg" ELSE "none"

(* the child was seen before at its binding frame: (second time) lift it, never traverse again *)
ASeen ==
  /\ phase = "analysis"
  /\ LET top == Len(stack)
         f   == stack[top]
         nd  == T[f.node]
         ci  == f.ci + 1
     IN /\ ci <= Len(nd.k)
        /\ LET child == nd.k[ci]
               cf    == ChildFrame(f, ci, top, FALSE)
               bd    == BindDepth(child, cf.mbd, cf.ctx)
               kind  == AKind(cf, child, top)
               name  == "__cse_" \o ToString(uid + 1)
               known == IF kind = "value" THEN child \in DOMAIN stack[bd + 1].lets ELSE child \in DOMAIN stack[bd + 1].alets
           IN /\ kind # "none"
              /\ uid' = IF known THEN uid ELSE uid + 1
              /\ stack' = IF known THEN [stack EXCEPT ![top].ci = ci]
                          ELSE IF kind = "value"
                               THEN [[stack EXCEPT ![top].ci = ci] EXCEPT ![bd + 1].lets = (child :> name) @@ @]
                               ELSE [[stack EXCEPT ![top].ci = ci] EXCEPT ![bd + 1].alets = (child :> name) @@ @]
  /\ UNCHANGED <<phase, P, sites, bstack, out, res>>

(* first visit of the child: push its frame (Refs are never pushed, hence never lifted) *)
ADescend ==
  /\ phase = "analysis"
  /\ LET top == Len(stack)
         f   == stack[top]
         nd  == T[f.node]
         ci  == f.ci + 1
     IN /\ ci <= Len(nd.k)
        /\ LET child == nd.k[ci]
               cf    == ChildFrame(f, ci, top, FALSE)
           IN /\ AKind(cf, child, top) = "none"
              /\ stack' = IF T[child].op = "Ref" THEN [stack EXCEPT ![top].ci = ci]
                          ELSE Append([stack EXCEPT ![top].ci = ci], cf)
  /\ UNCHANGED <<phase, P, sites, uid, bstack, out, res>>

(* ------------------------------- CSEPrintPass ---------------------------------------------- *)
StartPrint ==     \* the root frame (StackFrame.make(root, ..., depth 0)); bstack[0] was registered in APost
  /\ phase = "print" /\ stack = <<>> /\ res = 0
  /\ stack' = <<Frame(1, 0, 0, RootCtx, 0, sites[1].depth = 0, -1, "", "")>>
  /\ UNCHANGED <<phase, P, sites, uid, bstack, out, res>>

RECURSIVE WrapLets(_, _, _, _)
WrapLets(o, bodies, i, inner) ==     \* add_lets: bodies[1] is the outermost let
  IF i = 0 THEN [out |-> o, root |-> inner]
  ELSE LET b  == bodies[i]
           nd == Node(IF b.kind = "value" THEN "Let" ELSE "AggLet", <<b.val, inner>>, <<b.name>>, 0)
       IN WrapLets(Append(o, nd), bodies, i - 1, Len(o) + 1)

PPost ==
  /\ phase = "print" /\ stack # <<>>
  /\ LET top == Len(stack)
         f   == stack[top]
         nd  == T[f.node]
         o1  == Append(out, Node(nd.op, f.kids, nd.n, nd.v))
         me  == Len(o1)
     IN /\ f.ci + 1 > Len(nd.k)
        /\ IF f.lift >= 0 /\ f.ins
           THEN \* `assert not frame.insert_lets` fails: the renderer raises AssertionError
                /\ phase' = "crashed" /\ UNCHANGED <<stack, bstack, out, res>>
           ELSE IF f.lift >= 0
           THEN \* a lifted subtree: its text goes to the binding frame's let_bodies (post-order)
                /\ bstack' = [bstack EXCEPT ![f.lift].bodies = Append(@, [name |-> f.lname, kind |-> f.lkind, val |-> me])]
                /\ out' = o1
                /\ stack' = SubSeq(stack, 1, top - 1)
                /\ UNCHANGED <<phase, res>>
           ELSE LET w == IF f.ins THEN WrapLets(o1, bstack[f.depth].bodies, Len(bstack[f.depth].bodies), me)
                         ELSE [out |-> o1, root |-> me]
                IN /\ out' = w.out
                   /\ bstack' = IF f.ins THEN [bstack EXCEPT ![f.depth] = NoBind] ELSE bstack
                   /\ IF top = 1
                      THEN /\ res' = w.root /\ phase' = "done" /\ stack' = <<>>
                           /\ (EMIT => PrintT("CSEOUT " \o ToString(<<Strip(T), w.out, w.root>>)))
                      ELSE /\ stack' = [SubSeq(stack, 1, top - 1) EXCEPT ![top - 1].kids = Append(@, w.root)]
                           /\ UNCHANGED <<phase, res>>
  /\ UNCHANGED <<P, sites, uid>>

PChild ==
  /\ phase = "print" /\ stack # <<>>
  /\ LET top == Len(stack)
         f   == stack[top]
         nd  == T[f.node]
         ci  == f.ci + 1
     IN /\ ci <= Len(nd.k)
        /\ LET child == nd.k[ci]
               cd    == f.depth + 1
               ins   == sites[child].depth = cd
               cf    == ChildFrame(f, ci, cd, ins)
               \* StackFrame.make registers the child's binding frame as a side effect, before the lift decision
               bs1   == IF ins THEN [bstack EXCEPT ![cd] = [NoBind EXCEPT !.on = TRUE, !.lets = sites[child].lets,
                                                                     !.alets = sites[child].alets]]
                        ELSE bstack
               bd    == BindDepth(child, cf.mbd, cf.ctx)
               c     == bs1[bd]
               kind  == IF ~c.on THEN "none"
                        ELSE IF bd >= cf.mvbd /\ child \in DOMAIN c.lets THEN "value"
                        ELSE IF cf.mbd <= bd /\ bd < cf.mvbd /\ child \in DOMAIN c.alets THEN "agg"
                        ELSE "none"
               name  == IF kind = "value" THEN c.lets[child] ELSE c.alets[child]
               seen  == IF kind = "value" THEN child \in c.vis ELSE child \in c.avis
               oRef  == Append(out, Node("Ref", <<>>, <<name>>, 0))
               st1   == [stack EXCEPT ![top].ci = ci]
           IN IF kind = "none"
              THEN /\ stack' = Append(st1, cf)
                   /\ bstack' = bs1
                   /\ out' = out
              ELSE LET bs2 == IF FIXSITE THEN bstack ELSE bs1          \* repaired: a lifted child is no binding frame
                       cf2 == IF FIXSITE THEN [cf EXCEPT !.ins = FALSE] ELSE cf
                   IN
                   /\ out' = oRef
                   /\ IF seen
                      THEN /\ stack' = [st1 EXCEPT ![top].kids = Append(@, Len(oRef))]
                           /\ bstack' = bs2
                      ELSE /\ stack' = Append([st1 EXCEPT ![top].kids = Append(@, Len(oRef))],
                                              [cf2 EXCEPT !.lift = bd, !.lname = name, !.lkind = kind])
                           /\ bstack' = IF kind = "value" THEN [bs2 EXCEPT ![bd].vis = @ \cup {child}]
                                        ELSE [bs2 EXCEPT ![bd].avis = @ \cup {child}]
  /\ UNCHANGED <<phase, P, sites, uid, res>>

Done == phase \in {"done", "crashed"} /\ UNCHANGED vars

Next == Build \/ StartAnalysis \/ APost \/ ASeen \/ ADescend \/ StartPrint \/ PPost \/ PChild \/ Done
Spec == Init /\ [][Next]_vars

(* ------------------------------- properties ------------------------------------------------ *)
FreeRecs == SetToSeq({ [n |-> x, ty |-> IF x = "a" THEN "a" ELSE "i"] : x \in U.top })

DoneScoped == phase = "done" => WellScoped(out, res, U.top)
DoneSame   == phase = "done" => (WellScoped(out, res, U.top) => SameValue(Strip(T), 1, out, res, FreeRecs))
DoneOk     == DoneScoped /\ DoneSame
NoCrash    == phase # "crashed"

(* the stack is the path from the root to the current node (comment in renderer.py) *)
StackIsPath ==
  phase \in {"analysis", "print"} =>
    \A i \in 1..(Len(stack) - 1) : stack[i].ci >= 1 /\ T[stack[i].node].k[stack[i].ci] = stack[i + 1].node
(* "No node has both lift_to_frame not None and insert_lets True" (assert in CSEPrintPass) *)
LiftXorInsert == phase = "print" => \A i \in DOMAIN stack : ~(stack[i].ins /\ stack[i].lift >= 0)
(* the only live binding frames are those of frames on the stack (no stale bindings_stack entry) *)
NoStaleBinding ==
  (phase = "print" /\ stack # <<>>) => \A d \in Depths : bstack[d].on => \E i \in DOMAIN stack : stack[i].depth = d /\ stack[i].ins
(* a let may not rise above min_binding_depth, and lifted lets are recorded at frames on the stack *)
DepthsInRange ==
  phase = "analysis" => \A i \in DOMAIN stack : stack[i].mbd <= stack[i].mvbd /\ stack[i].mvbd <= i - 1
(* every name is handed out once *)
UidsDistinct ==
  phase = "analysis" =>
    LET names == UNION { { stack[i].lets[x] : x \in DOMAIN stack[i].lets } \cup { stack[i].alets[x] : x \in DOMAIN stack[i].alets } : i \in DOMAIN stack }
    IN \A nm \in names : Cardinality({ <<i, x, kd>> \in (DOMAIN stack) \X (DOMAIN T) \X {"v", "a"} :
                                         IF kd = "v" THEN x \in DOMAIN stack[i].lets /\ stack[i].lets[x] = nm
                                         ELSE x \in DOMAIN stack[i].alets /\ stack[i].alets[x] = nm }) = 1
=============================================================================
