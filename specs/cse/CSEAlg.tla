------------------------------- MODULE CSEAlg -------------------------------
(* C35: the common-subexpression renderer of hail/python/hail/ir/renderer.py as a transition system.

   phase "build"     one action per hole filled: TLC grows every expression DAG of the bounded
                     universe IRDags (sharing = one node index referenced twice = one Python object);
   phase "analysis"  CSEAnalysisPass.__call__: ONE ACTION PER ITERATION of its `while True` loop, on
                     the explicit stack of StackFrames (min_binding_depth, min_value_binding_depth,
                     scan_scope, context, visited / agg_visited / scan_visited, lifted_lets / agg_ / scan_, child_idx);
                     binding_sites is keyed by node identity only, as in the code;
   phase "print"     CSEPrintPass.__call__: one action per iteration of its loop; builders are
                     abstracted to the sequence of already printed children, the text to a term table;
                     bindings_stack (keyed by depth), its visited sets and let_bodies are explicit;
   phase "done"      the term `res` in table `out` is what the engine would parse.

   Node metadata mirrors hail/python/hail/ir/{base_ir,ir}.py: new_block, uses_agg_context,
   bindings / agg_bindings (incl. the agg_capability pseudo-variable), free_vars / free_agg_vars.
   FIXFV = FALSE models StreamAgg.free_vars / free_agg_vars exactly as written in ir.py at the time of
   writing (free_vars forgets the eval-scope free variables of the aggregation result, free_agg_vars
   forgets the agg-scope free variables of the stream); TRUE models the repaired definitions.
   FIXSITE = FALSE models StackFrame.make registering bindings_stack[depth] for a child that is then
   lifted (binding_sites is keyed by node identity only, so a node that is a binding site at depth d
   in one place is taken for one at every place where it occurs at depth d); the code then either
   trips `assert not frame.insert_lets` (phase "crashed") or leaves a stale binding frame behind;
   TRUE models the repair (a lifted child is never a binding frame).  The harness measures both
   flags on the implementation under test, so the model always describes the code it is bound to.
   Scan scope is modelled like the code does it: scan_scope per frame, scan_visited / scan_lifted_lets per
   binding frame, a third context component, `AggLet x True` for a scan binding.

   Property (invariant DoneOk): when the renderer is done, the printed term is well scoped under the
   engine's binding rules and evaluates like the inlined DAG in every small environment.         *)
EXTENDS IRDags, Json, IOUtils

CONSTANTS PROFILE, N, UNIQ, FIXFV, FIXSITE, EMIT, MODE

VARIABLES phase, P, stack, sites, uid, bstack, out, res
vars == <<phase, P, stack, sites, uid, bstack, out, res>>

U == Universe(PROFILE, N, UNIQ)
T == P.nodes
EmptyFn == [x \in {} |-> 0]
MaxOf(S) == CHOOSE m \in S : \A x \in S : x <= m

(* ------------------------------- node metadata (ir.py / base_ir.py) ----------------------- *)
AggCap == "agg_capability"
CapOps == {"AggSum", "AggMax", "AggCollect", "AggCount", "AggFilter", "AggExplode",
           "ScanSum", "ScanMax", "ScanCollect", "ScanCount", "ScanFilter"}                 \* uses_agg_capability()

NewBlock(nd, i) == (nd.op = "If" /\ i \in {2, 3}) \/ (nd.op \in {"StreamAgg", "StreamAggScan"} /\ i = 2) \/ nd.op = "Site"
UsesAgg(nd, i)  == nd.op \in {"AggSum", "AggMax", "AggCollect", "AggFilter", "AggLet", "AggExplode"} /\ i = 1
UsesScan(nd, i) == nd.op \in {"ScanSum", "ScanMax", "ScanCollect", "ScanFilter", "ScanLet"} /\ i = 1
SiteEvalB(kind) == CASE kind = "mrows" -> {"global", "va", "n_cols", AggCap} [] kind = "mcols" -> {"global", "sa", "n_rows", AggCap}
                     [] OTHER -> {"global", "row", AggCap}
SiteAggB(kind)  == IF kind = "trows" THEN {} ELSE {"global", "va", "sa", "g"}
SiteScanB(kind) == CASE kind = "mrows" -> {"global", "va"} [] kind = "mcols" -> {"global", "sa"} [] OTHER -> {"global", "row"}
EvalB(nd, i) ==
  CASE nd.op \in {"Let", "StreamMap", "StreamFilter"} /\ i = 2 -> {nd.n[1]}
    [] nd.op = "StreamFold" /\ i = 3                           -> {nd.n[1], nd.n[2]}
    [] nd.op \in {"StreamAgg", "AggFilter", "ScanFilter", "AggExplode"} /\ i = 2 -> {AggCap}
    [] nd.op = "StreamAggScan" /\ i = 2                        -> {nd.n[1], AggCap}
    [] nd.op = "Site"                                          -> SiteEvalB(nd.n[1])
    [] OTHER -> {}
AggB(nd, i)  == IF nd.op \in {"AggLet", "StreamAgg", "AggExplode"} /\ i = 2 THEN {nd.n[1]}
                ELSE IF nd.op = "Site" THEN SiteAggB(nd.n[1]) ELSE {}
ScanB(nd, i) == IF nd.op \in {"ScanLet", "StreamAggScan"} /\ i = 2 THEN {nd.n[1]}
                ELSE IF nd.op = "Site" THEN SiteScanB(nd.n[1]) ELSE {}
Liftable(nd) == nd.ty # "s"                                   \* not (is_effectful() or is_stream)

RECURSIVE FV(_), FAV(_), FSV(_)
FV(j) ==
  LET nd == T[j] IN
  IF nd.op = "Ref" THEN {nd.n[1]}
  ELSE IF nd.op = "Site" THEN {}                       \* BaseIR.free_vars of a relational node
  ELSE IF nd.op = "StreamAgg"
       THEN FV(nd.k[1]) \cup (FAV(nd.k[2]) \ {nd.n[1]})
            \cup (IF FIXFV THEN FV(nd.k[2]) \ {AggCap} ELSE {})
  ELSE IF nd.op = "StreamAggScan"
       THEN FV(nd.k[1]) \cup (FSV(nd.k[2]) \ {nd.n[1]})
            \cup (IF FIXFV THEN FV(nd.k[2]) \ {nd.n[1], AggCap} ELSE {})
  ELSE UNION { IF UsesAgg(nd, i) \/ UsesScan(nd, i) THEN {} ELSE FV(nd.k[i]) \ EvalB(nd, i) : i \in DOMAIN nd.k }
       \cup (IF nd.op \in CapOps THEN {AggCap} ELSE {})
FAV(j) ==
  LET nd == T[j] IN
  IF nd.op = "StreamAgg" THEN (IF FIXFV THEN FAV(nd.k[1]) ELSE {})
  ELSE IF nd.op = "Site" THEN {}
  ELSE UNION { IF UsesAgg(nd, i) THEN FV(nd.k[i]) \ EvalB(nd, i) ELSE FAV(nd.k[i]) \ AggB(nd, i) : i \in DOMAIN nd.k }
FSV(j) ==
  LET nd == T[j] IN
  IF nd.op = "StreamAggScan" THEN (IF FIXFV THEN FSV(nd.k[1]) ELSE {})
  ELSE IF nd.op = "Site" THEN {}
  ELSE UNION { IF UsesScan(nd, i) THEN FV(nd.k[i]) \ EvalB(nd, i) ELSE FSV(nd.k[i]) \ ScanB(nd, i) : i \in DOMAIN nd.k }

(* contexts: [e / a / s |-> eval / agg / scan variable -> binding depth] *)
ChildCtx(nd, i, ctx, depth) ==
  LET base == IF UsesAgg(nd, i) THEN [e |-> ctx.a, a |-> EmptyFn, s |-> EmptyFn]
              ELSE IF UsesScan(nd, i) THEN [e |-> ctx.s, a |-> EmptyFn, s |-> EmptyFn]
              ELSE IF nd.op = "StreamAgg" /\ i = 2 THEN [e |-> ctx.e, a |-> ctx.e, s |-> EmptyFn]
              ELSE IF nd.op = "StreamAggScan" /\ i = 2 THEN [e |-> ctx.e, a |-> EmptyFn, s |-> ctx.e]
              ELSE ctx
  IN [e |-> [x \in EvalB(nd, i) |-> depth] @@ base.e, a |-> [x \in AggB(nd, i) |-> depth] @@ base.a,
      s |-> [x \in ScanB(nd, i) |-> depth] @@ base.s]

BindDepth(j, mbd, ctx) ==
  MaxOf({mbd} \cup { ctx.e[x] : x \in FV(j) } \cup { ctx.a[x] : x \in FAV(j) } \cup { ctx.s[x] : x \in FSV(j) })

(* ------------------------------- frames ---------------------------------------------------- *)
Frame(node, mbd, mvbd, ss, ctx, depth, ins, lift, lname, lkind) ==
  [node |-> node, ci |-> 0, mbd |-> mbd, mvbd |-> mvbd, ss |-> ss, ctx |-> ctx,      \* ss = scan_scope
   vis |-> {}, avis |-> {}, svis |-> {}, lets |-> EmptyFn, alets |-> EmptyFn, slets |-> EmptyFn,   \* analysis pass
   depth |-> depth, ins |-> ins, lift |-> lift, lname |-> lname, lkind |-> lkind, kids |-> <<>>]  \* print pass

ChildFrame(f, i, depth, ins) ==     \* StackFrame.make_child_frame of either pass
  LET nd == T[f.node] IN
  Frame(nd.k[i],
        IF NewBlock(nd, i) THEN depth ELSE f.mbd,
        IF NewBlock(nd, i) \/ UsesAgg(nd, i) \/ UsesScan(nd, i) THEN depth ELSE f.mvbd,
        IF NewBlock(nd, i) THEN f.ss ELSE IF UsesAgg(nd, i) THEN FALSE ELSE IF UsesScan(nd, i) THEN TRUE ELSE f.ss,
        ChildCtx(nd, i, f.ctx, depth), depth, ins, -1, "", "")

IsSiteRoot == T[1].op = "Site"
RootCtx == [e |-> IF IsSiteRoot THEN EmptyFn ELSE [x \in U.top |-> 0], a |-> EmptyFn, s |-> EmptyFn]
NoSite  == [depth |-> -1, lets |-> EmptyFn, alets |-> EmptyFn, slets |-> EmptyFn]
NoBind  == [on |-> FALSE, lets |-> EmptyFn, alets |-> EmptyFn, slets |-> EmptyFn, vis |-> {}, avis |-> {}, svis |-> {}, bodies |-> <<>>]
SiteBind(st) == [NoBind EXCEPT !.on = TRUE, !.lets = st.lets, !.alets = st.alets, !.slets = st.slets]
Depths  == 0..(N + 1)

(* MODE = "enum": grow every DAG of the universe;  MODE = "file": start from the finished DAGs listed in
   the file IOEnv.CSE_SEEDS (witnesses, counter-examples being replayed, samples of larger DAGs)      *)
SeedDags == LET s == ndJsonDeserialize(IOEnv.CSE_SEEDS) IN { s[i] : i \in DOMAIN s }
Init ==
  /\ phase = "build"
  /\ P \in IF MODE = "file" THEN { [nodes |-> d.nodes, holes |-> <<>>, sh |-> TRUE] : d \in SeedDags }
            ELSE { Start(U, ty) : ty \in U.roots }
  /\ stack = <<>> /\ sites = <<>> /\ uid = 0 /\ bstack = <<>> /\ out = <<>> /\ res = 0

(* ------------------------------- build ----------------------------------------------------- *)
Build ==
  /\ phase = "build" /\ P.holes # <<>>
  /\ P' \in Succ(U, P)
  /\ UNCHANGED <<phase, stack, sites, uid, bstack, out, res>>

StartAnalysis ==
  /\ phase = "build" /\ P.holes = <<>>
  /\ phase' = "analysis"
  /\ stack' = <<Frame(1, 0, 0, FALSE, RootCtx, 0, FALSE, -1, "", "")>>
  /\ sites' = [j \in DOMAIN T |-> NoSite]
  /\ UNCHANGED <<P, uid, bstack, out, res>>

(* ------------------------------- CSEAnalysisPass ------------------------------------------ *)
(* child_idx >= len(node.children): mark visited at the potential let insertion site, pop, register
   the binding site *)
APost ==
  /\ phase = "analysis"
  /\ LET top == Len(stack)
         f   == stack[top]
         nd  == T[f.node]
         bd  == BindDepth(f.node, f.mbd, f.ctx)
         marked == IF ~Liftable(nd) THEN stack
                   ELSE IF bd < f.mvbd /\ f.ss THEN [stack EXCEPT ![bd + 1].svis = @ \cup {f.node}]
                   ELSE IF bd < f.mvbd THEN [stack EXCEPT ![bd + 1].avis = @ \cup {f.node}]
                   ELSE [stack EXCEPT ![bd + 1].vis = @ \cup {f.node}]
     IN /\ f.ci + 1 > Len(nd.k)
        /\ stack' = SubSeq(marked, 1, top - 1)
        /\ sites' = IF f.lets # EmptyFn \/ f.alets # EmptyFn \/ f.slets # EmptyFn
                    THEN [sites EXCEPT ![f.node] = [depth |-> top - 1, lets |-> f.lets, alets |-> f.alets, slets |-> f.slets]]
                    ELSE sites
        /\ IF top = 1
           THEN /\ phase' = "print"
                /\ bstack' = [d \in Depths |-> IF d = 0 /\ sites'[1].depth = 0 THEN SiteBind(sites'[1]) ELSE NoBind]
           ELSE UNCHANGED <<phase, bstack>>
  /\ UNCHANGED <<P, uid, out, res>>

AKind(cf, child, top) ==      \* which lifted_lets dict the child is already known in, if any
  LET bd == BindDepth(child, cf.mbd, cf.ctx) IN
  IF bd >= top THEN "none"
  ELSE IF bd >= cf.mvbd THEN (IF child \in stack[bd + 1].vis THEN "value" ELSE "none")
  ELSE IF cf.ss THEN (IF child \in stack[bd + 1].svis THEN "scan" ELSE "none")
  ELSE IF child \in stack[bd + 1].avis THEN "agg" ELSE "none"

(* the child was seen before at its binding frame: (second time) lift it, never traverse again *)
ASeen ==
  /\ phase = "analysis"
  /\ LET top == Len(stack)
         f   == stack[top]
         nd  == T[f.node]
         ci  == f.ci + 1
     IN /\ ci <= Len(nd.k)
        /\ LET child == nd.k[ci]
               cf    == ChildFrame(f, ci, top, FALSE)
               bd    == BindDepth(child, cf.mbd, cf.ctx)
               kind  == AKind(cf, child, top)
               name  == "__cse_" \o ToString(uid + 1)
               known == CASE kind = "value" -> child \in DOMAIN stack[bd + 1].lets
                          [] kind = "scan"  -> child \in DOMAIN stack[bd + 1].slets
                          [] OTHER          -> child \in DOMAIN stack[bd + 1].alets
           IN /\ kind # "none"
              /\ uid' = IF known THEN uid ELSE uid + 1
              /\ stack' = IF known THEN [stack EXCEPT ![top].ci = ci]
                          ELSE IF kind = "value"
                               THEN [[stack EXCEPT ![top].ci = ci] EXCEPT ![bd + 1].lets = (child :> name) @@ @]
                          ELSE IF kind = "scan"
                               THEN [[stack EXCEPT ![top].ci = ci] EXCEPT ![bd + 1].slets = (child :> name) @@ @]
                               ELSE [[stack EXCEPT ![top].ci = ci] EXCEPT ![bd + 1].alets = (child :> name) @@ @]
  /\ UNCHANGED <<phase, P, sites, bstack, out, res>>

(* first visit of the child: push its frame (Refs are never pushed, hence never lifted) *)
ADescend ==
  /\ phase = "analysis"
  /\ LET top == Len(stack)
         f   == stack[top]
         nd  == T[f.node]
         ci  == f.ci + 1
     IN /\ ci <= Len(nd.k)
        /\ LET child == nd.k[ci]
               cf    == ChildFrame(f, ci, top, FALSE)
           IN /\ AKind(cf, child, top) = "none"
              /\ stack' = IF T[child].op = "Ref" THEN [stack EXCEPT ![top].ci = ci]
                          ELSE Append([stack EXCEPT ![top].ci = ci], cf)
  /\ UNCHANGED <<phase, P, sites, uid, bstack, out, res>>

(* ------------------------------- CSEPrintPass ---------------------------------------------- *)
StartPrint ==     \* the root frame (StackFrame.make(root, ..., depth 0)); bstack[0] was registered in APost
  /\ phase = "print" /\ stack = <<>> /\ res = 0
  /\ stack' = <<Frame(1, 0, 0, FALSE, RootCtx, 0, sites[1].depth = 0, -1, "", "")>>
  /\ UNCHANGED <<phase, P, sites, uid, bstack, out, res>>

RECURSIVE WrapLets(_, _, _, _)
WrapLets(o, bodies, i, inner) ==     \* add_lets: bodies[1] is the outermost let
  IF i = 0 THEN [out |-> o, root |-> inner]
  ELSE LET b  == bodies[i]
           nd == Node(CASE b.kind = "value" -> "Let" [] b.kind = "scan" -> "ScanLet" [] OTHER -> "AggLet", <<b.val, inner>>, <<b.name>>, 0)
       IN WrapLets(Append(o, nd), bodies, i - 1, Len(o) + 1)

PPost ==
  /\ phase = "print" /\ stack # <<>>
  /\ LET top == Len(stack)
         f   == stack[top]
         nd  == T[f.node]
         o1  == Append(out, Node(nd.op, f.kids, nd.n, nd.v))
         me  == Len(o1)
     IN /\ f.ci + 1 > Len(nd.k)
        /\ IF f.lift >= 0 /\ f.ins
           THEN \* `assert not frame.insert_lets` fails: the renderer raises AssertionError
                /\ phase' = "crashed" /\ UNCHANGED <<stack, bstack, out, res>>
           ELSE IF f.lift >= 0
           THEN \* a lifted subtree: its text goes to the binding frame's let_bodies (post-order)
                /\ bstack' = [bstack EXCEPT ![f.lift].bodies = Append(@, [name |-> f.lname, kind |-> f.lkind, val |-> me])]
                /\ out' = o1
                /\ stack' = SubSeq(stack, 1, top - 1)
                /\ UNCHANGED <<phase, res>>
           ELSE LET w == IF f.ins THEN WrapLets(o1, bstack[f.depth].bodies, Len(bstack[f.depth].bodies), me)
                         ELSE [out |-> o1, root |-> me]
                IN /\ out' = w.out
                   /\ bstack' = IF f.ins THEN [bstack EXCEPT ![f.depth] = NoBind] ELSE bstack
                   /\ IF top = 1
                      THEN /\ res' = w.root /\ phase' = "done" /\ stack' = <<>>
                           /\ (EMIT => PrintT("CSEOUT " \o ToString(<<Strip(T), w.out, w.root>>)))
                      ELSE /\ stack' = [SubSeq(stack, 1, top - 1) EXCEPT ![top - 1].kids = Append(@, w.root)]
                           /\ UNCHANGED <<phase, res>>
  /\ UNCHANGED <<P, sites, uid>>

PChild ==
  /\ phase = "print" /\ stack # <<>>
  /\ LET top == Len(stack)
         f   == stack[top]
         nd  == T[f.node]
         ci  == f.ci + 1
     IN /\ ci <= Len(nd.k)
        /\ LET child == nd.k[ci]
               cd    == f.depth + 1
               ins   == sites[child].depth = cd
               cf    == ChildFrame(f, ci, cd, ins)
               \* StackFrame.make registers the child's binding frame as a side effect, before the lift decision
               bs1   == IF ins THEN [bstack EXCEPT ![cd] = SiteBind(sites[child])] ELSE bstack
               bd    == BindDepth(child, cf.mbd, cf.ctx)
               c     == bs1[bd]
               kind  == IF ~c.on THEN "none"
                        ELSE IF bd >= cf.mvbd /\ child \in DOMAIN c.lets THEN "value"
                        ELSE IF cf.mbd <= bd /\ bd < cf.mvbd /\ cf.ss /\ child \in DOMAIN c.slets THEN "scan"
                        ELSE IF cf.mbd <= bd /\ bd < cf.mvbd /\ ~cf.ss /\ child \in DOMAIN c.alets THEN "agg"
                        ELSE "none"
               name  == CASE kind = "value" -> c.lets[child] [] kind = "scan" -> c.slets[child] [] OTHER -> c.alets[child]
               seen  == CASE kind = "value" -> child \in c.vis [] kind = "scan" -> child \in c.svis [] OTHER -> child \in c.avis
               oRef  == Append(out, Node("Ref", <<>>, <<name>>, 0))
               st1   == [stack EXCEPT ![top].ci = ci]
           IN IF kind = "none"
              THEN /\ stack' = Append(st1, cf)
                   /\ bstack' = bs1
                   /\ out' = out
              ELSE LET bs2 == IF FIXSITE THEN bstack ELSE bs1          \* repaired: a lifted child is no binding frame
                       cf2 == IF FIXSITE THEN [cf EXCEPT !.ins = FALSE] ELSE cf
                   IN
                   /\ out' = oRef
                   /\ IF seen
                      THEN /\ stack' = [st1 EXCEPT ![top].kids = Append(@, Len(oRef))]
                           /\ bstack' = bs2
                      ELSE /\ stack' = Append([st1 EXCEPT ![top].kids = Append(@, Len(oRef))],
                                              [cf2 EXCEPT !.lift = bd, !.lname = name, !.lkind = kind])
                           /\ bstack' = CASE kind = "value" -> [bs2 EXCEPT ![bd].vis = @ \cup {child}]
                                          [] kind = "scan"  -> [bs2 EXCEPT ![bd].svis = @ \cup {child}]
                                          [] OTHER          -> [bs2 EXCEPT ![bd].avis = @ \cup {child}]
  /\ UNCHANGED <<phase, P, sites, uid, res>>

Done == phase \in {"done", "crashed"} /\ UNCHANGED vars

Next == Build \/ StartAnalysis \/ APost \/ ASeen \/ ADescend \/ StartPrint \/ PPost \/ PChild \/ Done
Spec == Init /\ [][Next]_vars

(* ------------------------------- properties ------------------------------------------------ *)
FreeRecs == IF IsSiteRoot THEN <<>> ELSE SetToSeq({ [n |-> x, ty |-> IF x = "a" THEN "a" ELSE "i"] : x \in U.top })

DoneScoped == phase = "done" => WellScoped(out, res, U.top)
DoneSame   == phase = "done" => (WellScoped(out, res, U.top) => SameValue(Strip(T), 1, out, res, FreeRecs))
DoneOk     == DoneScoped /\ DoneSame
NoCrash    == phase # "crashed"

(* the stack is the path from the root to the current node (comment in renderer.py) *)
StackIsPath ==
  phase \in {"analysis", "print"} =>
    \A i \in 1..(Len(stack) - 1) : stack[i].ci >= 1 /\ T[stack[i].node].k[stack[i].ci] = stack[i + 1].node
(* "No node has both lift_to_frame not None and insert_lets True" (assert in CSEPrintPass) *)
LiftXorInsert == phase = "print" => \A i \in DOMAIN stack : ~(stack[i].ins /\ stack[i].lift >= 0)
(* the only live binding frames are those of frames on the stack (no stale bindings_stack entry) *)
NoStaleBinding ==
  (phase = "print" /\ stack # <<>>) => \A d \in Depths : bstack[d].on => \E i \in DOMAIN stack : stack[i].depth = d /\ stack[i].ins
(* a let may not rise above min_binding_depth, and lifted lets are recorded at frames on the stack *)
DepthsInRange ==
  phase = "analysis" => \A i \in DOMAIN stack : stack[i].mbd <= stack[i].mvbd /\ stack[i].mvbd <= i - 1
(* every name is handed out once *)
UidsDistinct ==
  phase = "analysis" =>
    LET Of(i, kd) == CASE kd = "v" -> stack[i].lets [] kd = "a" -> stack[i].alets [] OTHER -> stack[i].slets
        names == UNION { { Of(i, kd)[x] : x \in DOMAIN Of(i, kd) } : i \in DOMAIN stack, kd \in {"v", "a", "s"} }
    IN \A nm \in names : Cardinality({ <<i, x, kd>> \in (DOMAIN stack) \X (DOMAIN T) \X {"v", "a", "s"} :
                                         x \in DOMAIN Of(i, kd) /\ Of(i, kd)[x] = nm }) = 1
=============================================================================
