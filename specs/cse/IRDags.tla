------------------------------- MODULE IRDags -------------------------------
(* C35: the bounded universe of expression DAGs the property quantifies over.

   A DAG is grown top-down, in depth-first order, from a typed root HOLE: a hole records the type
   wanted and the binding environment of that position (eval variables E, agg variables A, whether
   an aggregation context exists).  The first hole is filled either by a NEW node (whose children
   become new holes) or by a reference to an already finished node of the right type all of whose
   free variables are in scope at the hole: that is SHARING, the only thing the renderer under test
   cares about.  Every well-typed, well-scoped DAG with at most N nodes over the chosen operators is
   produced exactly once (nodes are numbered in depth-first pre-order).

   Types: "i" Int32, "b" Boolean, "a" Array[Int32], "s" Stream[Int32], "r" Struct{p:Int32,q:Int32},
   "v" the element struct of a relational binding site (va.row_idx / sa.col_idx / row.idx).
   A hole also records the scan scope (S, sg): scan aggregations are offered where one exists (below a
   StreamAggScan query or a Site root), and a finished node can be shared between an aggregator argument
   and a scan argument of the same site when its variables are bound in both scopes.
   Variables are typed by the first letter of their name: x.. c.. g  Int32, a.. arrays, r.. structs;
   a binder introduced by node number k is called <letter>k (uniq, what the expression API does:
   Env.get_uid()) or <letter>0 (not uniq: binders shadow each other and a node can be shared
   between the scopes of two different binders of the same name).                               *)
EXTENDS IRSem, SequencesExt

GNode(op, k, n, v, ty, par) == [op |-> op, k |-> k, n |-> n, v |-> v, ty |-> ty, par |-> par]
Hole(p, c, x) == [p |-> p, c |-> c, ty |-> x.ty, E |-> x.E, A |-> x.A, ag |-> x.ag, S |-> x.S, sg |-> x.sg]

(* U: [N, ops, lits, top (free variables, typed by first letter), uniq, streams, roots, lets, arity]
   streams = TRUE : ToStream / ToArray are explicit nodes and "s" is a type of its own;
   streams = FALSE: the DAG is written at the level of the expression API (collections are arrays,
                    StreamMap/StreamFilter map arrays to arrays); the harness inserts ToStream /
                    ToArray exactly where hail.ir.toStream and the array methods of the API do.   *)
NameIdx(U, k)  == IF U.uniq THEN ToString(k) ELSE "0"
IntNames(U)    == (U.top \cap {"g", "h"}) \cup { "x" \o ToString(i) : i \in 0..U.N } \cup { "c" \o ToString(i) : i \in 0..U.N }
ArrNames(U)    == (U.top \cap {"a"}) \cup { "a" \o ToString(i) : i \in 0..U.N }
StructNames(U) == { "r" \o ToString(i) : i \in 0..U.N }
SiteVars       == {"va", "sa", "row"}          \* the element struct a relational binding site binds (type letter "v")
SiteField(x)   == CASE x = "va" -> "row_idx" [] x = "sa" -> "col_idx" [] OTHER -> "idx"
VarsOfType(U, ty) == CASE ty = "i" -> IntNames(U) [] ty = "a" -> ArrNames(U) [] ty = "r" -> StructNames(U) [] ty = "v" -> SiteVars [] OTHER -> {}
LetLetter(ty) == CASE ty = "i" -> "x" [] ty = "a" -> "a" [] OTHER -> "r"

(* candidate new nodes for a hole h when the new node gets index k:
   records [op, n, v, ch] where ch is the sequence of child hole contexts [ty, E, A, ag, S, sg]
   (E / A / S = the variables in the eval / agg / scan scope, ag / sg = whether that scope exists).
   The generator follows the PYTHON view of promotion (inside an aggregator or scan argument there is
   neither an agg nor a scan scope), which is a subset of what the engine's rules admit.          *)
Ctx6(ty, E, A, ag, S, sg) == [ty |-> ty, E |-> E, A |-> A, ag |-> ag, S |-> S, sg |-> sg]

Cands(U, h, k) ==
  LET E == h.E  A == h.A  ag == h.ag  ty == h.ty  S == h.S  sg == h.sg
      Ctx(t, e, a, g) == Ctx6(t, e, a, g, S, sg)        \* scan scope unchanged
      same(t)   == Ctx(t, E, A, ag)
      withE(t, xs) == Ctx(t, E \cup xs, A, ag)
      prom(t)   == Ctx6(t, A, {}, FALSE, {}, FALSE)     \* promoted: agg env becomes the eval env
      promS(t)  == Ctx6(t, S, {}, FALSE, {}, FALSE)     \* promoted: scan env becomes the eval env
      withA(t, xs) == Ctx(t, E, A \cup xs, ag)
      withS(t, xs) == Ctx6(t, E, A, ag, S \cup xs, sg)
      SS == IF U.streams THEN "s" ELSE "a"              \* the type of a stream-valued position
      x == "x" \o NameIdx(U, k)
      c == "c" \o NameIdx(U, k)
      C(op, n, v, ch) == [op |-> op, n |-> n, v |-> v, ch |-> ch]
      on(op) == op \in U.ops
      generic ==   \* constructs available at every non-stream type
        IF ty = "s" THEN {} ELSE
        { C("Ref", <<y>>, 0, <<>>) : y \in (E \cap VarsOfType(U, ty)) }
        \cup (IF on("If") THEN { C("If", <<>>, 0, <<same("b"), same(ty), same(ty)>>) } ELSE {})
        \cup (IF on("Let") THEN { C("Let", <<LetLetter(vt) \o NameIdx(U, k)>>, 0,
                                    <<same(vt), withE(ty, {LetLetter(vt) \o NameIdx(U, k)})>>) : vt \in U.lets } ELSE {})
        \cup (IF on("StreamAgg") /\ ty \in {"i", "a"}
              THEN { C("StreamAgg", <<x>>, 0, <<same(SS), Ctx6(ty, E, E \cup {x}, TRUE, {}, FALSE)>>) } ELSE {})
        \cup (IF sg /\ on("ScanFilter") THEN { C("ScanFilter", <<>>, 0, <<promS("b"), same(ty)>>) } ELSE {})
        \cup (IF sg /\ on("ScanLet") THEN { C("ScanLet", <<x>>, 0, <<promS("i"), withS(ty, {x})>>) } ELSE {})
        \cup (IF ag /\ on("AggFilter") THEN { C("AggFilter", <<>>, 0, <<prom("b"), same(ty)>>) } ELSE {})
        \cup (IF ag /\ on("AggLet") THEN { C("AggLet", <<x>>, 0, <<prom("i"), withA(ty, {x})>>) } ELSE {})
        \cup (IF ag /\ on("AggExplode") THEN { C("AggExplode", <<x>>, 0, <<prom(SS), withA(ty, {x})>>) } ELSE {})
      byType ==
        CASE ty = "i" ->
               { C("I32", <<>>, v, <<>>) : v \in U.lits }
               \cup (IF on("NA") THEN { C("NA", <<>>, 0, <<>>) } ELSE {})
               \cup { C(op, <<>>, 0, <<same("i"), same("i")>>) : op \in (ArithOps \cap U.ops) }
               \cup (IF on("ArrayLen") THEN { C("ArrayLen", <<>>, 0, <<same("a")>>) } ELSE {})
               \cup (IF on("StreamFold")
                     THEN { C("StreamFold", <<c, x>>, 0, <<same(SS), same("i"), withE("i", {c, x})>>) } ELSE {})
               \cup (IF on("GetField") THEN { C("GetField", <<f>>, 0, <<same("r")>>) : f \in {"p", "q"} } ELSE {})
               \cup (IF ag /\ on("AggSum") THEN { C("AggSum", <<>>, 0, <<prom("i")>>) } ELSE {})
               \cup (IF ag /\ on("AggCount") THEN { C("AggCount", <<>>, 0, <<>>) } ELSE {})
               \cup (IF sg /\ on("ScanSum") THEN { C("ScanSum", <<>>, 0, <<promS("i")>>) } ELSE {})
               \cup (IF sg /\ on("ScanCount") THEN { C("ScanCount", <<>>, 0, <<>>) } ELSE {})
               \cup (IF on("SiteField") THEN { C("GetField", <<SiteField(y)>>, 0, <<same("v")>>) : y \in (E \cap SiteVars) } ELSE {})
          [] ty = "b" ->
               { C(op, <<>>, 0, <<same("i"), same("i")>>) : op \in (CmpOps \cap U.ops) }
               \cup (IF on("True") THEN { C("True", <<>>, 0, <<>>) } ELSE {})
          [] ty = "a" ->
               (IF on("MakeArray") THEN { C("MakeArray", <<>>, 0, [i \in 1..m |-> same("i")]) : m \in U.arity } ELSE {})
               \cup (IF U.streams /\ on("ToArray") THEN { C("ToArray", <<>>, 0, <<same("s")>>) } ELSE {})
               \cup (IF ~U.streams /\ on("StreamAggScan")
                     THEN { C("StreamAggScan", <<x>>, 0, <<same("a"), Ctx6("i", E \cup {x}, {}, FALSE, E \cup {x}, TRUE)>>) } ELSE {})
               \cup (IF ~U.streams /\ on("StreamMap") THEN { C("StreamMap", <<x>>, 0, <<same("a"), withE("i", {x})>>) } ELSE {})
               \cup (IF ~U.streams /\ on("StreamFilter") THEN { C("StreamFilter", <<x>>, 0, <<same("a"), withE("b", {x})>>) } ELSE {})
               \cup (IF ag /\ on("AggCollect") THEN { C("AggCollect", <<>>, 0, <<prom("i")>>) } ELSE {})
               \cup (IF sg /\ on("ScanCollect") THEN { C("ScanCollect", <<>>, 0, <<promS("i")>>) } ELSE {})
          [] ty = "s" ->
               (IF on("ToStream") THEN { C("ToStream", <<>>, 0, <<same("a")>>) } ELSE {})
               \cup (IF on("StreamMap") THEN { C("StreamMap", <<x>>, 0, <<same("s"), withE("i", {x})>>) } ELSE {})
               \cup (IF on("StreamFilter") THEN { C("StreamFilter", <<x>>, 0, <<same("s"), withE("b", {x})>>) } ELSE {})
               \cup (IF on("StreamAggScan")
                     THEN { C("StreamAggScan", <<x>>, 0, <<same("s"), Ctx6("i", E \cup {x}, {}, FALSE, E \cup {x}, TRUE)>>) } ELSE {})
          [] ty = "r" ->
               (IF on("MakeStruct") THEN { C("MakeStruct", <<"p", "q">>, 0, <<same("i"), same("i")>>) } ELSE {})
               \cup (IF on("InsertFields") THEN { C("InsertFields", <<"q">>, 0, <<same("r"), same("i")>>) } ELSE {})
               \cup (IF on("SelectFields") THEN { C("SelectFields", <<"p", "q">>, 0, <<same("r")>>) } ELSE {})
          [] OTHER -> {}      \* "v": only the generic Ref
  IN (IF ty = "v" THEN { C("Ref", <<y>>, 0, <<>>) : y \in (E \cap SiteVars) } ELSE generic) \cup byType


RECURSIVE Ancestors(_, _)
Ancestors(nodes, p) == IF p = 0 THEN {} ELSE {p} \cup Ancestors(nodes, nodes[p].par)

SetChild(nodes, p, c, j) == IF p = 0 THEN nodes ELSE [nodes EXCEPT ![p].k[c] = j]

Succ(U, P) ==
  LET h    == Head(P.holes)
      rest == Tail(P.holes)
      k    == Len(P.nodes) + 1
      open == Ancestors(P.nodes, h.p)
      \* an unfinished node cannot be referenced (that would be a cycle); Refs are never shared
      \* (sharing a Ref object is invisible to the renderer: it never lifts a Ref)
      shareable == { j \in DOMAIN P.nodes :
                       /\ j \notin open
                       /\ P.nodes[j].ty = h.ty
                       /\ P.nodes[j].op # "Ref"
                       /\ ProblemsC(P.nodes, j, BCtx(h.E, h.A, h.ag, h.S, h.sg, {})) = {} }
      fresh == IF k > U.N THEN {} ELSE
               { [nodes |-> Append(SetChild(P.nodes, h.p, h.c, k),
                                   GNode(cd.op, [i \in 1..Len(cd.ch) |-> 0], cd.n, cd.v, h.ty, h.p)),
                  holes |-> [i \in 1..Len(cd.ch) |-> Hole(k, i, cd.ch[i])] \o rest,
                  sh |-> P.sh]
                 : cd \in Cands(U, h, k) }
  IN fresh \cup { [nodes |-> SetChild(P.nodes, h.p, h.c, j), holes |-> rest, sh |-> TRUE] : j \in shareable }

(* a root is a type letter (a value expression over the free variables U.top) or a relational binding site
   "mrows" / "mcols" / "trows": node 1 is the Site, its new-row expression sees only the site's variables *)
SiteVar(kind) == CASE kind = "mrows" -> "va" [] kind = "mcols" -> "sa" [] OTHER -> "row"
Start(U, r) ==
  IF r \in {"mrows", "mcols", "trows"}
  THEN [nodes |-> <<GNode("Site", <<0>>, <<r>>, 0, "a", 0)>>,
        holes |-> <<Hole(1, 1, Ctx6("i", {SiteVar(r)}, IF r = "trows" THEN {} ELSE {SiteVar(r)}, r # "trows", {SiteVar(r)}, TRUE))>>,
        sh |-> FALSE]
  ELSE [nodes |-> <<>>, holes |-> <<Hole(0, 0, Ctx6(r, U.top, {}, FALSE, {}, FALSE))>>, sh |-> FALSE]

(* all finished DAGs reachable from P, as a sequence (every DAG is reached exactly once: node
   numbering is the depth-first pre-order, so no two fill sequences give the same table);
   sharedOnly keeps the DAGs with at least one sharing step                                      *)
RECURSIVE Close(_, _, _), CloseAll(_, _, _, _)
Close(U, P, sharedOnly) ==
  IF P.holes = <<>> THEN (IF sharedOnly /\ ~P.sh THEN <<>> ELSE <<P.nodes>>)
  ELSE CloseAll(U, SetToSeq(Succ(U, P)), sharedOnly, 1)
CloseAll(U, Ps, sharedOnly, i) ==
  IF i > Len(Ps) THEN <<>> ELSE Close(U, Ps[i], sharedOnly) \o CloseAll(U, Ps, sharedOnly, i + 1)

Dags(U, sharedOnly) == CloseAll(U, SetToSeq({ Start(U, ty) : ty \in U.roots }), sharedOnly, 1)

Strip(d) == [i \in DOMAIN d |-> Node(d[i].op, d[i].k, d[i].n, d[i].v)]

(* ---- named operator profiles (the cfg / environment selects one by name) ------------------ *)
Profile(name) ==
  CASE name = "arith"  -> {"Add", "Mul", "If", "Let", "LT", "NA"}
    [] name = "ifadd"  -> {"Add", "If", "LT"}
    [] name = "stream" -> {"Add", "LT", "StreamMap", "StreamFilter", "StreamFold", "ArrayLen", "Let", "MakeArray"}
    [] name = "xstream" -> {"Add", "LT", "MakeArray", "ToStream", "ToArray", "StreamMap", "StreamFilter", "StreamFold", "ArrayLen", "Let"}
    [] name = "xagg"   -> {"Add", "LT", "MakeArray", "ToStream", "ToArray", "StreamMap", "StreamAgg", "AggCollect", "AggFilter", "AggLet", "ArrayLen"}
    [] name = "struct" -> {"Add", "MakeStruct", "GetField", "InsertFields", "SelectFields", "Let", "If", "LT"}
    [] name = "agg"    -> {"Add", "LT", "StreamAgg", "AggSum", "AggCount", "AggFilter", "AggLet", "Let"}
    [] name = "aggmap" -> {"Add", "StreamMap", "StreamAgg", "AggSum", "AggFilter", "LT", "AggExplode", "AggCollect", "MakeArray"}
    [] name = "aggscan" -> {"Add", "SiteField", "AggSum", "ScanSum", "ScanCount"}          \* root: MatrixMapRows (agg AND scan scope)
    [] name = "colscan" -> {"Add", "SiteField", "AggSum", "ScanSum", "ScanCount"}          \* root: MatrixMapCols
    [] name = "tscan"   -> {"Add", "LT", "SiteField", "ScanSum", "ScanCount", "ScanFilter", "ScanLet", "Let"}   \* root: TableMapRows
    [] name = "ascan"   -> {"Add", "StreamAggScan", "ScanSum", "ScanCount", "StreamMap", "StreamAgg", "AggSum", "ArrayLen"}   \* value-IR scan sites
    [] name = "xscan"   -> {"Add", "ToStream", "ToArray", "StreamAggScan", "ScanCollect", "ScanCount", "ScanLet", "ScanFilter", "LT", "ArrayLen", "StreamMap"}
    [] name = "all"    -> {"Add", "Sub", "Mul", "LT", "EQ", "NA", "True", "If", "Let", "MakeArray", "ArrayLen",
                           "StreamMap", "StreamFilter", "StreamFold", "MakeStruct", "GetField", "InsertFields", "SelectFields",
                           "StreamAgg", "AggSum", "AggCount", "AggCollect", "AggFilter", "AggLet", "AggExplode"}
    [] OTHER -> {}

Universe(profile, n, uniq) ==
  [N |-> n, ops |-> Profile(profile), lits |-> IF profile \in {"aggscan", "colscan"} THEN {} ELSE {2}, uniq |-> uniq,
   streams |-> profile \in {"xstream", "xagg", "xscan"},
   top |-> IF profile = "ifadd" THEN {} ELSE IF profile \in {"arith", "struct"} THEN {"g"} ELSE IF profile \in {"ascan", "xscan"} THEN {"a"} ELSE {"g", "a"},
   roots |-> IF profile = "aggscan" THEN {"mrows"} ELSE IF profile = "colscan" THEN {"mcols"} ELSE IF profile = "tscan" THEN {"trows"}
             ELSE IF profile \in {"ascan", "xscan"} THEN {"i", "a"} ELSE IF profile = "struct" THEN {"i", "r"} ELSE IF profile \in {"stream", "xstream", "xagg", "aggmap", "all"} THEN {"i", "a"} ELSE {"i"},
   lets |-> IF profile = "struct" THEN {"i", "r"} ELSE IF profile \in {"stream", "xstream"} THEN {"i", "a"} ELSE {"i"},
   arity |-> {1, 2}]
=============================================================================
