------------------------------- MODULE CSEGen -------------------------------
(* C35 input generation (constant evaluation): the DAG universe of IRDags, one JSON line per DAG *)
EXTENDS IRDags, Json, IOUtils

U == Universe(IOEnv.CSE_PROFILE, atoi(IOEnv.CSE_N), IOEnv.CSE_UNIQ = "1")
Ds == Dags(U, IOEnv.CSE_SHARED = "1")
ASSUME ndJsonSerialize(IOEnv.CSE_DAGS, [i \in 1..Len(Ds) |-> [nodes |-> Strip(Ds[i]), root |-> 1]])
=============================================================================
