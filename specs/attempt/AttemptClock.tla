---------------------------- MODULE AttemptClock ----------------------------
(* C03: one row of the `attempts` table under the trigger attempts_before_update (batch/sql/067), exposed to every
   UPDATE shape the service issues, in any order and multiplicity:

     StartLike(t)          mark_job_started / mark_job_creating : SET start_time = t, rollup_time = t
     Complete(t0, t1, r)   mark_job_complete                    : SET start_time = t0, rollup_time = t1, end_time = t1, reason = r
     Heartbeat(t)          billing_update                       : SET rollup_time = t
     EndLike(t, r)         unschedule_job / deactivate_instance : SET rollup_time = t, end_time = t, reason = r

   NULL times are -1.  Clamp is the trigger, transcribed (BatchDB uses the same text).                          *)
EXTENDS Naturals, Integers, TLC

CONSTANTS Times, Reasons
VARIABLES st, ru, en, rs,
          req      \* history: the reason the last report asked for ("none" for reports that carry no reason)

vars == <<st, ru, en, rs, req>>
NULLT == -1
NULL == "NULL"
TimesN == Times \cup {NULLT}
Max2(a, b) == IF a >= b THEN a ELSE b

Row == [st |-> st, ru |-> ru, en |-> en, rs |-> rs]

Clamp(o, n0) ==
  LET n1 == IF o.st # NULLT /\ (n0.st = NULLT \/ o.st < n0.st) THEN [n0 EXCEPT !.st = o.st] ELSE n0
      n2 == IF n1.rs = "activation_timeout" THEN [n1 EXCEPT !.st = NULLT] ELSE n1
      n3 == IF o.rs # NULL /\ (o.en = NULLT \/ n2.en = NULLT \/ n2.en >= o.en)
            THEN [n2 EXCEPT !.en = o.en, !.rs = o.rs] ELSE n2
      n4 == IF n3.ru # NULLT /\ o.ru # NULLT /\ n3.ru < o.ru THEN [n3 EXCEPT !.ru = o.ru] ELSE n3
      n5 == IF n4.ru # NULLT /\ n4.st # NULLT /\ n4.ru < n4.st THEN [n4 EXCEPT !.ru = o.ru] ELSE n4
      n6 == IF n5.ru # NULLT /\ n5.en # NULLT /\ n5.ru > n5.en THEN [n5 EXCEPT !.ru = n5.en] ELSE n5
  IN n6

Store(n) == LET c == Clamp(Row, n) IN st' = c.st /\ ru' = c.ru /\ en' = c.en /\ rs' = c.rs

Init == st = NULLT /\ ru = NULLT /\ en = NULLT /\ rs = NULL /\ req = "none"

StartLike(t)        == Store([Row EXCEPT !.st = t, !.ru = t]) /\ req' = "none"
Complete(t0, t1, r) == Store([Row EXCEPT !.st = t0, !.ru = t1, !.en = t1, !.rs = r]) /\ req' = r
Heartbeat(t)        == Store([Row EXCEPT !.ru = t]) /\ req' = "none"
EndLike(t, r)       == Store([Row EXCEPT !.ru = t, !.en = t, !.rs = r]) /\ req' = r

\* mark_job_errored always uses a fresh attempt id
ErrorFresh == st = NULLT /\ ru = NULLT /\ en = NULLT /\ rs = NULL /\ Store([Row EXCEPT !.rs = "error"]) /\ req' = "error"

\* The argument shapes that exist in the code: a worker's completion carries an end time (the start may be missing);
\* the canceller completes a Creating job with (NULL, now); mark_job_errored sends (NULL, NULL, 'error').
Next ==
  \/ \E t \in Times : StartLike(t) \/ Heartbeat(t)
  \/ \E t0 \in TimesN, t1 \in Times, r \in Reasons \ {"error", "activation_timeout"} : Complete(t0, t1, r)
  \/ ErrorFresh
  \/ \E t \in Times, r \in Reasons \ {"error", "completed"} : EndLike(t, r)

Spec == Init /\ [][Next]_vars

-----------------------------------------------------------------------------
Billed(s, r) == IF r = NULLT \/ s = NULLT THEN 0 ELSE Max2(r - s, 0)

\* the billed duration is never negative and, once the attempt has ended, never exceeds end - start
C03_Bounded == /\ Billed(st, ru) >= 0
               /\ (en # NULLT /\ st # NULLT) => Billed(st, ru) <= Max2(en - st, 0)
\* it never decreases across a report unless that report corrects the end to an earlier time or marks an activation timeout
C03_Monotone == [][ Billed(st', ru') < Billed(st, ru) =>
                      \/ (en' # NULLT /\ (en = NULLT \/ en' < en))
                      \/ req' = "activation_timeout" \/ rs' = "activation_timeout" ]_vars
\* the start time only ever moves earlier (an activation timeout bills nothing: start is cleared)
C03_StartEarlier == [][ st # NULLT => (req' = "activation_timeout" \/ rs' = "activation_timeout" \/ (st' # NULLT /\ st' <= st)) ]_vars
\* once an attempt has an end reason a later report can only replace its end time with an earlier one
C03_EndFrozen == [][ rs # NULL => (en' = en \/ (en # NULLT /\ en' # NULLT /\ en' < en)) ]_vars
TypeOK == st \in TimesN /\ ru \in TimesN /\ en \in TimesN /\ rs \in Reasons \cup {NULL}
=============================================================================
