------------------------------ MODULE BatchDsl ------------------------------
(* C17 / C18: the Batch DSL (hail/python/hailtop/batch/{batch,job,resource,backend}.py).

   A behaviour is one user program followed by one Batch.run():

     build     NewJob, Depend, DeclareGroup, ReadInput, ReadInputGroup, Command (Define / Use of
               resources), AddExt, WriteOutput        -- one action per public DSL call; a call that
               raises BatchException aborts the program (phase "aborted")
     number    Number(o): Batch._async_run - the depth first numbering over Job._dependencies (python
               set iteration order = any order) followed by the cycle check -> "numbered" | "rejected"
     local     StartLocal, RunLocal(j, ok), SkipLocal(j), EndLocal      -- LocalBackend._async_run, one
               action per iteration of its job loop (cancel_child_jobs is part of the iteration)
     service   StartService, Submit(j, rec), EndService(ups)                -- ServiceBackend._async_run, one
               action per create_job; rec is the job spec handed to the batch client

   Job attributes are modelled as the code keeps them (Job._dependencies, _valid, _mentioned, _inputs,
   _internal_outputs, _external_outputs, ResourceFile._value/_output_paths, the interpolated command).
   Ghost variables (expl, uses, wout) record what the *program* said, independently of those
   attributes; the properties are stated over the ghosts and the observable results (numbering,
   execution log, submitted job specs), so they do not merely restate the code.

   Resources are records [k, j, n]:   k = "jf"  j.n (JobResourceFile)        j = owning job
                                      k = "rg"  group "g" declared by job j   (members "gm")
                                      k = "gm"  member n of that group, file name "g.<n>"
                                      k = "in"  n-th read_input file          j = 0 (no source job)
                                      k = "ig"  the read_input_group          (members "im")
                                      k = "im"  member n of the input group
   Paths are strings: <root> \o "/" \o <job dir | "inputs"> \o "/" \o <file name>.                    *)
EXTENDS Naturals, Sequences, FiniteSets, TLC

CONSTANTS
  MaxJobs,        \* jobs are 1..MaxJobs in creation order (Batch._jobs)
  Names,          \* identifiers of plain job resource files
  GroupMembers,   \* member identifiers of the declared resource group (one group "g" per job); {} = none
  MaxInputs,      \* read_input files
  InGroupMembers, \* member identifiers of the read_input_group; {} = none
  InPaths,        \* input paths [dir, base, loc]: dir/base, loc = local file (must be uploaded)
  Exts,           \* extensions for add_extension; {} = none
  Dests,          \* destinations for write_output
  MaxCmds,        \* commands per job
  MaxToks,        \* tokens per command (pure-spec exploration only)
  LateExt,        \* TRUE: add_extension is accepted after the resource was mentioned (what the code does)
  Backends,       \* subset of {"local", "service"}
  EdgeLimit       \* state constraint EdgeBound: depends_on edges + consumed resources (exploration bound)

VARIABLES
  njobs, always, dirn,                                            \* jobs
  created, value, hasext, inpath,                                 \* resources
  deps, valid, mentioned, inputs, intout, extout, outpaths, cmd,  \* Job / ResourceFile attributes
  expl, uses, wout,                                               \* ghosts: what the program said
  phase, order,
  cancelled, log, pos, raised,                                    \* LocalBackend
  lroot, rroot, sub, uploads                                      \* ServiceBackend

jobvars == <<njobs, always, dirn>>
resvars == <<created, value, hasext, inpath>>
attrs   == <<deps, valid, mentioned, inputs, intout, extout, outpaths, cmd>>
ghosts  == <<expl, uses, wout>>
locvars == <<cancelled, log, pos, raised>>
srvvars == <<lroot, rroot, sub, uploads>>
vars    == <<jobvars, resvars, attrs, ghosts, phase, order, locvars, srvvars>>

Jobs == 1..MaxJobs
Live == 1..njobs

\* ---------------------------------------------------------------------------------------------
\* resources
JF == { [k |-> "jf", j |-> j, n |-> n] : j \in Jobs, n \in Names }
RGof(j) == [k |-> "rg", j |-> j, n |-> "g"]
RG == IF GroupMembers = {} THEN {} ELSE { RGof(j) : j \in Jobs }
GM == { [k |-> "gm", j |-> j, n |-> m] : j \in Jobs, m \in GroupMembers }
InF == { [k |-> "in", j |-> 0, n |-> ToString(i)] : i \in 1..MaxInputs }
TheIG == [k |-> "ig", j |-> 0, n |-> "G"]
IG == IF InGroupMembers = {} THEN {} ELSE { TheIG }
IM == { [k |-> "im", j |-> 0, n |-> m] : m \in InGroupMembers }
Files  == JF \cup GM \cup InF \cup IM
Groups == RG \cup IG
Res    == Files \cup Groups

Src(r) == r.j                                    \* Resource.source(); 0 = None
IsGroup(r) == r.k \in {"rg", "ig"}
GroupOf(f) == IF f.k = "gm" THEN RGof(f.j) ELSE IF f.k = "im" THEN TheIG ELSE f      \* f itself = no group
Members(g) == IF g.k = "rg" THEN { m \in GM : m.j = g.j } ELSE IF g.k = "ig" THEN IM ELSE {}
\* job._add_inputs / _add_internal_outputs  (_add_resource_to_set, include_rg = False)
FileClosure(r) == IF IsGroup(r) THEN Members(r) ELSE IF GroupOf(r) # r THEN Members(GroupOf(r)) ELSE {r}
\* _add_resource_to_set(job._valid, r)      (include_rg = True)
ValidClosure(r) == FileClosure(r) \cup {r}
\* the files a command that mentions r can read / write
ReadFiles(r) == IF IsGroup(r) THEN Members(r) ELSE {r}

\* Resource._get_path(''), as a string relative to the local / remote root
Rel(r) ==
  CASE r.k \in {"jf", "gm"} -> "/" \o dirn[r.j] \o "/" \o value[r]
    [] r.k = "rg"           -> "/" \o dirn[r.j] \o "/" \o r.n
    [] OTHER                -> "/inputs/" \o value[r]          \* "in", "im": root/basename; "ig": root

\* ---------------------------------------------------------------------------------------------
Init ==
  /\ njobs = 0 /\ always = {} /\ dirn = [j \in Jobs |-> ""]
  /\ created = JF
  /\ value = [r \in Res |-> IF r.k = "jf" THEN r.n ELSE IF r.k = "gm" THEN "g." \o r.n ELSE ""]
  /\ hasext = {}
  /\ inpath = [r \in InF \cup IM |-> ""]
  /\ deps = [j \in Jobs |-> {}] /\ valid = [j \in Jobs |-> {}] /\ mentioned = [j \in Jobs |-> {}]
  /\ inputs = [j \in Jobs |-> {}] /\ intout = [j \in Jobs |-> {}] /\ extout = [j \in Jobs |-> {}]
  /\ outpaths = [r \in Files |-> {}]
  /\ cmd = [j \in Jobs |-> <<>>]
  /\ expl = {} /\ uses = {} /\ wout = {}
  /\ phase = "build" /\ order = <<>>
  /\ cancelled = {} /\ log = <<>> /\ pos = 0 /\ raised = FALSE
  /\ lroot = "" /\ rroot = "" /\ sub = <<>> /\ uploads = {}

\* ---- build -----------------------------------------------------------------------------------
\* Batch.new_job() (+ Job.always_run()); d = Job._dirname (name + random token)
NewJob(a, d) ==
  /\ phase = "build" /\ njobs < MaxJobs
  /\ \A j \in Live : dirn[j] # d                          \* Batch._unique_job_token
  /\ njobs' = njobs + 1
  /\ always' = IF a THEN always \cup {njobs + 1} ELSE always
  /\ dirn' = [dirn EXCEPT ![njobs + 1] = d]
  /\ UNCHANGED <<resvars, attrs, ghosts, phase, order, locvars, srvvars>>

\* Job.depends_on(p)
Depend(c, p) ==
  /\ phase = "build" /\ c \in Live /\ p \in Live
  /\ deps' = [deps EXCEPT ![c] = @ \cup {p}]
  /\ expl' = expl \cup {<<c, p>>}
  /\ UNCHANGED <<jobvars, resvars, valid, mentioned, inputs, intout, extout, outpaths, cmd, uses, wout,
                 phase, order, locvars, srvvars>>

\* BashJob.declare_resource_group(g = {m: '{root}.m'})
DeclareGroup(j) ==
  /\ phase = "build" /\ j \in Live /\ RGof(j) \in RG /\ RGof(j) \notin created
  /\ created' = created \cup {RGof(j)} \cup Members(RGof(j))
  /\ valid' = [valid EXCEPT ![j] = @ \cup ValidClosure(RGof(j))]
  /\ UNCHANGED <<jobvars, value, hasext, inpath, deps, mentioned, inputs, intout, extout, outpaths, cmd,
                 ghosts, phase, order, locvars, srvvars>>

PathOf(ip) == ip.dir \o "/" \o ip.base
\* Batch.read_input(path); root = the random directory the file gets under inputs/
ReadInput(r, ip, root) ==
  /\ phase = "build" /\ r \in InF /\ r \notin created /\ ip \in InPaths
  /\ \A q \in (InF \cup IM) \cap created : value[q] # root \o "/" \o ip.base     \* random roots do not collide
  /\ created' = created \cup {r}
  /\ value' = [value EXCEPT ![r] = root \o "/" \o ip.base]
  /\ inpath' = [inpath EXCEPT ![r] = ip]
  /\ UNCHANGED <<jobvars, hasext, attrs, ghosts, phase, order, locvars, srvvars>>

\* Batch.read_input_group(**{m: path}); f maps member identifiers to input paths; one root for all
ReadInputGroup(f, root) ==
  /\ phase = "build" /\ IG # {} /\ TheIG \notin created
  /\ f \in [InGroupMembers -> InPaths]
  /\ created' = created \cup {TheIG} \cup IM
  /\ value' = [r \in Res |-> IF r = TheIG THEN root
                              ELSE IF r \in IM THEN root \o "/" \o f[r.n].base ELSE value[r]]
  /\ inpath' = [r \in InF \cup IM |-> IF r \in IM THEN f[r.n] ELSE inpath[r]]
  /\ UNCHANGED <<jobvars, hasext, attrs, ghosts, phase, order, locvars, srvvars>>

\* Job._interpolate_command: the regex handler runs once per reference, left to right.
\* st = [deps, valid, mentioned, inputs, intout, uses, out, err]
RECURSIVE Interp(_, _, _, _)
Interp(j, toks, i, st) ==
  IF i > Len(toks) \/ st.err THEN st
  ELSE LET tk == toks[i] IN
    IF tk.t = "lit" THEN Interp(j, toks, i + 1, [st EXCEPT !.out = Append(@, tk)])
    ELSE
      LET r  == tk.r
          s  == Src(r)
          st1 == IF s # j THEN [st EXCEPT !.inputs[j] = @ \cup FileClosure(r)] ELSE st
          bad == s # j /\ s # 0 /\ r \notin st.valid[s]         \* "undefined resource": BatchException
          st2 == IF s = j THEN [st1 EXCEPT !.valid[j] = @ \cup ValidClosure(r)]
                 ELSE IF s # 0 THEN [st1 EXCEPT !.deps[j] = @ \cup {s},
                                                !.intout[s] = @ \cup FileClosure(r),
                                                !.uses = @ \cup {<<j, r>>}]
                 ELSE [st1 EXCEPT !.uses = @ \cup {<<j, r>>}]
          st3 == [st2 EXCEPT !.mentioned[j] = @ \cup {r},
                             !.out = Append(@, [t |-> "path", r |-> r, s |-> Rel(r)])]
      IN IF bad THEN [st1 EXCEPT !.err = TRUE] ELSE Interp(j, toks, i + 1, st3)

IsTok(tk) == \/ tk.t = "lit"
             \/ tk.t = "ref" /\ tk.r \in created /\ (tk.r.j = 0 \/ tk.r.j \in Live)

\* BashJob.command(' '.join(tokens))
Command(j, toks) ==
  /\ phase = "build" /\ j \in Live /\ Len(cmd[j]) < MaxCmds
  /\ Len(toks) > 0 /\ \A i \in 1..Len(toks) : IsTok(toks[i])
  /\ LET st == Interp(j, toks, 1, [deps |-> deps, valid |-> valid, mentioned |-> mentioned, inputs |-> inputs,
                                    intout |-> intout, uses |-> uses, out |-> <<>>, err |-> FALSE])
     IN /\ inputs' = st.inputs
        /\ deps' = st.deps /\ valid' = st.valid /\ mentioned' = st.mentioned /\ intout' = st.intout
        /\ IF st.err        \* the handler raised: what it did for the earlier references stays; the command is not added
           THEN /\ phase' = "aborted"
                /\ UNCHANGED <<uses, cmd>>
           ELSE /\ uses' = st.uses
                /\ cmd' = [cmd EXCEPT ![j] = Append(@, st.out)]
                /\ UNCHANGED phase
  /\ UNCHANGED <<jobvars, resvars, extout, outpaths, expl, wout, order, locvars, srvvars>>

MentionedAnywhere(r) == \E j \in Live : r \in mentioned[j] \/ GroupOf(r) \in mentioned[j]

\* JobResourceFile.add_extension(e)
AddExt(r, e) ==
  /\ phase = "build" /\ r \in JF /\ r.j \in Live /\ e \in Exts
  /\ LateExt \/ ~MentionedAnywhere(r)
  /\ IF r \in hasext
     THEN phase' = "aborted" /\ UNCHANGED <<value, hasext>>          \* "already has a file extension"
     ELSE /\ value' = [value EXCEPT ![r] = @ \o e]
          /\ hasext' = hasext \cup {r}
          /\ UNCHANGED phase
  /\ UNCHANGED <<jobvars, created, inpath, attrs, ghosts, order, locvars, srvvars>>

\* Batch.write_output(r, d); a group writes every member to d.<member>
WriteOutput(r, d) ==
  /\ phase = "build" /\ r \in created /\ r.k \in {"jf", "gm", "rg"} /\ r.j \in Live /\ d \in Dests
  /\ r.k = "gm" => r \in mentioned[r.j]          \* (an unmentioned member makes write_output raise KeyError)
  /\ IF r.k = "jf" /\ r \notin mentioned[r.j]
     THEN phase' = "aborted" /\ UNCHANGED <<outpaths, extout, wout>>    \* "undefined resource"
     ELSE /\ outpaths' = [f \in Files |-> IF IsGroup(r) /\ f \in Members(r) THEN outpaths[f] \cup {d \o "." \o f.n}
                                           ELSE IF f = r THEN outpaths[f] \cup {d} ELSE outpaths[f]]
          /\ extout' = [extout EXCEPT ![r.j] = @ \cup ReadFiles(r)]
          /\ wout' = wout \cup {<<r, d>>}
          /\ UNCHANGED phase
  /\ UNCHANGED <<jobvars, resvars, deps, valid, mentioned, inputs, intout, cmd, expl, uses, order, locvars, srvvars>>

\* ---- Batch._async_run: numbering ---------------------------------------------------------------
\* schedule_job(j): depth first over j._dependencies (a python set: any iteration order), post-order.
\* st = [seen, out];  both operators return the SET of states the traversal can end in.
RECURSIVE Visit(_, _), VisitSet(_, _)
Visit(j, st) ==
  IF j \in st.seen THEN {st}
  ELSE { [seen |-> s.seen, out |-> Append(s.out, j)] :
           s \in VisitSet(deps[j], [seen |-> st.seen \cup {j}, out |-> st.out]) }
VisitSet(S, st) ==
  IF S = {} THEN {st} ELSE UNION { UNION { VisitSet(S \ {p}, s) : s \in Visit(p, st) } : p \in S }

RECURSIVE VisitList(_, _)
VisitList(j, sts) ==                     \* for j in self._jobs: schedule_job(j)
  IF j > njobs THEN sts ELSE VisitList(j + 1, UNION { Visit(j, s) : s \in sts })

DfsOrders == { s.out : s \in VisitList(1, {[seen |-> {}, out |-> <<>>]}) }
Perms(S) == { f \in [1..Cardinality(S) -> S] : \A a, b \in 1..Cardinality(S) : a # b => f[a] # f[b] }
\* The set the numbering is drawn from.  The code computes a depth first post-order; trace validation
\* overrides Orders by AnyOrders, so the implementation is held only to what the property demands.
AnyOrders == Perms(Live)
Orders == DfsOrders

IndexIn(o, j) == CHOOSE i \in 1..Len(o) : o[i] = j
\* the check in Batch._async_run:  job_index[d] >= i  ->  BatchException("cycle detected ...")
CheckFails(o) == \E i \in 1..Len(o) : \E d \in deps[o[i]] : IndexIn(o, d) >= i

Number(o) ==
  /\ phase = "build" /\ njobs > 0 /\ o \in Orders
  /\ IF CheckFails(o) THEN phase' = "rejected" /\ UNCHANGED order
                      ELSE phase' = "numbered" /\ order' = o
  /\ UNCHANGED <<jobvars, resvars, attrs, ghosts, locvars, srvvars>>

\* ---- LocalBackend._async_run ---------------------------------------------------------------------
Children(j) == { c \in Live : j \in deps[c] }                  \* child_jobs[j]
CancelChildren(j) == cancelled \cup { c \in Children(j) : c \notin always }

StartLocal ==
  /\ phase = "numbered" /\ "local" \in Backends
  /\ phase' = "local" /\ pos' = 1
  /\ UNCHANGED <<jobvars, resvars, attrs, ghosts, order, cancelled, log, raised, srvvars>>

\* one loop iteration for a job that is not cancelled: run its script; ok = exit status 0
RunLocal(j, ok) ==
  /\ phase = "local" /\ pos <= njobs /\ j = order[pos] /\ j \notin cancelled
  /\ log' = Append(log, [j |-> j, r |-> IF ok THEN "ok" ELSE "fail"])
  /\ cancelled' = IF ok THEN cancelled ELSE CancelChildren(j)
  /\ raised' = (raised \/ ~ok)
  /\ pos' = pos + 1
  /\ UNCHANGED <<jobvars, resvars, attrs, ghosts, phase, order, srvvars>>

\* one loop iteration for a cancelled job: "Job ... was cancelled. Not running"
SkipLocal(j) ==
  /\ phase = "local" /\ pos <= njobs /\ j = order[pos] /\ j \in cancelled
  /\ log' = Append(log, [j |-> j, r |-> "skip"])
  /\ cancelled' = CancelChildren(j)
  /\ pos' = pos + 1
  /\ UNCHANGED <<jobvars, resvars, attrs, ghosts, phase, order, raised, srvvars>>

EndLocal ==            \* raise first_exc if any job failed
  /\ phase = "local" /\ pos > njobs
  /\ phase' = "localdone"
  /\ UNCHANGED <<jobvars, resvars, attrs, ghosts, order, locvars, srvvars>>

\* ---- ServiceBackend._async_run -------------------------------------------------------------------
SetOf(s) == { s[i] : i \in 1..Len(s) }

StartService(l, r) ==        \* l = local_tmpdir (/io/batch/<uid>), r = batch_remote_tmpdir (<remote_tmpdir>/<uid>)
  /\ phase = "numbered" /\ "service" \in Backends
  /\ phase' = "service" /\ pos' = 1 /\ lroot' = l /\ rroot' = r
  /\ UNCHANGED <<jobvars, resvars, attrs, ghosts, order, cancelled, log, raised, sub, uploads>>

\* what the code hands to create_job for job j (copy_input / copy_internal_output / copy_external_output,
\* symlink_input_resource_group, the command as interpolated when BashJob.command was called)
UplDir(j, r) == rroot \o "/u" \o ToString(j) \o r.k \o r.n       \* stands for <remote>/<uuid4().hex[:8]>
InSrc(j, r) == IF Src(r) # 0 THEN rroot \o Rel(r)
               ELSE IF inpath[r].loc THEN UplDir(j, r) \o Rel(r) ELSE PathOf(inpath[r])
FaithfulUploads(j) == { [src |-> PathOf(inpath[r]), dst |-> InSrc(j, r)] : r \in { q \in inputs[j] : Src(q) = 0 /\ inpath[q].loc } }
FaithfulRec(j) ==
  [ parents |-> deps[j],
    inputs  |-> { [src |-> InSrc(j, r), dst |-> lroot \o Rel(r)] : r \in inputs[j] },
    outputs |-> { [src |-> lroot \o Rel(r), dst |-> rroot \o Rel(r)] : r \in intout[j] }
                \cup UNION { { [src |-> lroot \o Rel(r), dst |-> d] : d \in outpaths[r] } : r \in extout[j] },
    links   |-> UNION { { [src |-> lroot \o Rel(m), dst |-> lroot \o Rel(g) \o "." \o m.n] : m \in Members(g) }
                        : g \in mentioned[j] \cap IG },
    cmds    |-> [ i \in 1..Len(cmd[j]) |-> [ k \in 1..Len(cmd[j][i]) |->
                    LET tk == cmd[j][i][k] IN
                    IF tk.t = "lit" THEN [raw |-> tk.s, words |-> <<>>]
                    ELSE [raw |-> "", words |-> <<lroot \o tk.s>>] ] ] ]

\* rec is a parameter: the pure specification submits FaithfulRec(j); trace validation passes the job spec
\* the real backend produced, and the C18 invariants judge it.  parents must already be submitted
\* (the batch client refuses anything else).
Submit(j, rec) ==
  /\ phase = "service" /\ pos <= njobs /\ j = order[pos]
  /\ rec.parents \subseteq { order[i] : i \in 1..(pos - 1) }
  /\ sub' = sub @@ (j :> rec)
  /\ pos' = pos + 1
  /\ UNCHANGED <<jobvars, resvars, attrs, ghosts, phase, order, cancelled, log, raised, lroot, rroot, uploads>>

\* copy_from_dict(local_input_file_transfers) and async_batch.submit(); ups = the local files uploaded
EndService(ups) ==
  /\ phase = "service" /\ pos > njobs
  /\ phase' = "submitted" /\ uploads' = ups
  /\ UNCHANGED <<jobvars, resvars, attrs, ghosts, order, locvars, lroot, rroot, sub>>

\* ---- the pure specification ----------------------------------------------------------------------
DDir(j) == "d" \o ToString(j)
RefToks == { [t |-> "ref", r |-> r] : r \in created }
LitTok == [t |-> "lit", s |-> "x"]
TokSeqs == UNION { [1..n -> RefToks \cup {LitTok}] : n \in 1..MaxToks }

\* (zero-arity wrappers with state-dependent bounds so that TLC's coverage report names the action)
NewJobAny   == \E a \in BOOLEAN, d \in {DDir(njobs + 1)} : NewJob(a, d)
ReadInputAny == \E r \in InF, ip \in InPaths : ReadInput(r, ip, "r" \o r.n)
ReadInputGroupAny == \E f \in [InGroupMembers -> InPaths] : ReadInputGroup(f, "rG")
CommandAny  == \E j \in Jobs, toks \in TokSeqs : Command(j, toks)
NumberAny   == \E o \in Orders : Number(o)
SubmitAny   == \E j \in Live : Submit(j, FaithfulRec(j))
EndServiceAny == \E ups \in { UNION { FaithfulUploads(j) : j \in Live } } : EndService(ups)

BuildStep ==
  \/ NewJobAny
  \/ \E c, p \in Jobs : Depend(c, p)
  \/ \E j \in Jobs : DeclareGroup(j)
  \/ ReadInputAny
  \/ ReadInputGroupAny
  \/ CommandAny
  \/ \E r \in JF, e \in Exts : AddExt(r, e)
  \/ \E r \in Res, d \in Dests : WriteOutput(r, d)

RunStep ==
  \/ NumberAny
  \/ StartLocal
  \/ \E j \in Jobs, ok \in BOOLEAN : RunLocal(j, ok)
  \/ \E j \in Jobs : SkipLocal(j)
  \/ EndLocal
  \/ StartService("/L", "R:")
  \/ SubmitAny
  \/ EndServiceAny

Next == BuildStep \/ RunStep
Spec == Init /\ [][Next]_vars

\* =============================================================================================
\* Properties
\* ---------------------------------------------------------------------------------------------
\* "j depends on p, explicitly or through a consumed resource" - from the ghosts only
Edges == expl \cup { <<u[1], Src(u[2])>> : u \in { v \in uses : Src(v[2]) # 0 } }
Parents(j) == { e[2] : e \in { d \in Edges : d[1] = j } }

RECURSIVE ReachFrom(_, _)
ReachFrom(S, seen) ==             \* jobs reachable from S along Parents in >= 1 step
  LET nxt == UNION { Parents(j) : j \in S } \ seen
  IN IF nxt = {} THEN seen ELSE ReachFrom(nxt, seen \cup nxt)
Cyclic == \E j \in Live : j \in ReachFrom({j}, {})

Numbered == phase \in {"numbered", "local", "localdone", "service", "submitted"}

TypeOK ==
  /\ njobs \in 0..MaxJobs /\ always \subseteq Live
  /\ phase \in {"build", "aborted", "rejected", "numbered", "local", "localdone", "service", "submitted"}
  /\ \A j \in Jobs : deps[j] \subseteq Live /\ (j \notin Live => deps[j] = {} /\ cmd[j] = <<>>)
  /\ created \subseteq Res /\ hasext \subseteq Files

\* The code's single dependency set is exactly the program's explicit + resource-induced edges
\* (Job._interpolate_command adds the producer of every consumed resource).
C17_DepsAreEdges == phase # "aborted" => \A c \in Live : deps[c] = Parents(c)

\* numbering: a permutation of the jobs in which every job comes after everything it depends on
C17_Topological ==
  Numbered => /\ Len(order) = njobs /\ SetOf(order) = Live
              /\ \A e \in Edges : IndexIn(order, e[2]) < IndexIn(order, e[1])

\* cyclic pipelines are rejected (never numbered, hence nothing runs or is submitted) ...
C17_CyclicRejected == Cyclic => phase \in {"build", "aborted", "rejected"}
\* ... and only those
C17_OnlyCyclicRejected == phase = "rejected" => Cyclic
C17_NothingRunsUnlessNumbered == ~Numbered => log = <<>> /\ sub = <<>>

\* execution order: every job is resolved (run or skipped) after all the jobs it depends on
C17_RunAfterParents ==
  \A i \in 1..Len(log) : \A p \in Parents(log[i].j) : \E k \in 1..(i - 1) : log[k].j = p

LogJobs(kind) == { log[i].j : i \in { k \in 1..Len(log) : log[k].r = kind } }
\* least fixpoint of  S = { j not always_run : some parent failed or is in S }
RECURSIVE SkipLfp(_, _)
SkipLfp(failed, S) ==
  LET T == { j \in Live : j \notin always /\ \E p \in Parents(j) : p \in failed \/ p \in S }
  IN IF T = S THEN S ELSE SkipLfp(failed, T)
\* every job is resolved exactly once; a job is skipped iff it is in the fixpoint
C17_SkipExact ==
  /\ \A i, k \in 1..Len(log) : i # k => log[i].j # log[k].j
  /\ phase = "localdone" =>
       /\ Len(log) = njobs
       /\ LogJobs("skip") = SkipLfp(LogJobs("fail"), {})
       /\ raised = (LogJobs("fail") # {})
\* while running: nothing outside the fixpoint of the failures so far has been skipped, and nothing in it ran
C17_SkipSound ==
  phase \in {"local", "localdone"} =>
     LET S == SkipLfp(LogJobs("fail"), {})
     IN LogJobs("skip") \subseteq S /\ (LogJobs("ok") \cup LogJobs("fail")) \cap S = {}

\* ---- C18: judged on the submitted job specs ---------------------------------------------------
Submitted == DOMAIN sub
RefPos(q) == { ik \in UNION { { <<i, k>> : k \in 1..Len(cmd[q][i]) } : i \in 1..Len(cmd[q]) } :
                 cmd[q][ik[1]][ik[2]].t = "path" }
ShapeOk(q) == /\ Len(sub[q].cmds) = Len(cmd[q])
              /\ \A i \in 1..Len(cmd[q]) : Len(sub[q].cmds[i]) = Len(cmd[q][i])
\* every literal token is untouched; every reference became exactly one shell word
C18_Command ==
  \A q \in Submitted :
    /\ ShapeOk(q)
    /\ \A i \in 1..Len(cmd[q]) : \A k \in 1..Len(cmd[q][i]) :
         IF cmd[q][i][k].t = "lit" THEN sub[q].cmds[i][k].raw = cmd[q][i][k].s
         ELSE Len(sub[q].cmds[i][k].words) = 1
WordAt(q, ik) == sub[q].cmds[ik[1]][ik[2]].words[1]
\* the strings under which the commands of job q address file f: a reference to f itself, or a reference
\* to its group (the member is then <group path>.<member>)
Addr(q, f) ==
  { WordAt(q, ik) : ik \in { p \in RefPos(q) : cmd[q][p[1]][p[2]].r = f } }
  \cup (IF GroupOf(f) = f THEN {}
        ELSE { WordAt(q, ik) \o "." \o f.n : ik \in { p \in RefPos(q) : cmd[q][p[1]][p[2]].r = GroupOf(f) } })
\* the file a word denotes in job q: itself, or the target of a symbolic link the job sets up first
Phys1(q, w) == LET L == { l \in sub[q].links : l.dst = w } IN IF L = {} THEN {w} ELSE { l.src : l \in L }
Phys(q, f) == UNION { Phys1(q, w) : w \in Addr(q, f) }

Wellformed == \A q \in Submitted : ShapeOk(q) /\ \A ik \in RefPos(q) : Len(sub[q].cmds[ik[1]][ik[2]].words) = 1

\* the files the commands of q address (every other file has Phys = {})
FilesOf(q) == UNION { ReadFiles(cmd[q][p[1]][p[2]].r) : p \in RefPos(q) }
\* within a job, a resource has one local path ...
C18_OnePath == Wellformed => \A q \in Submitted : \A f \in FilesOf(q) : Cardinality(Phys(q, f)) <= 1
\* ... and distinct resources have distinct local paths
C18_DistinctLocal ==
  Wellformed => \A q \in Submitted : \A f, g \in FilesOf(q) : f # g => Phys(q, f) \cap Phys(q, g) = {}

\* the job-to-job transfer of file f consumed by c: an input of c that lands where c's command reads f, whose
\* source is the destination of an output of the producer taken from where the producer's command writes f
TransferOk(c, f) ==
  LET p == Src(f) IN
  \E x \in sub[c].inputs :
    /\ Phys(c, f) = {x.dst}
    /\ IF p # 0
       THEN /\ p \in Submitted
            /\ \E y \in sub[p].outputs : y.dst = x.src /\ Phys(p, f) \subseteq {y.src}
       ELSE \/ x.src = PathOf(inpath[f])
            \/ [src |-> PathOf(inpath[f]), dst |-> x.src] \in uploads
C18_Transfer ==
  (phase = "submitted" /\ Wellformed) =>
     \A u \in uses : \A f \in ReadFiles(u[2]) : TransferOk(u[1], f)

\* no download without an upload: every input a submitted job copies in comes from the destination of an output of a submitted
\* job, from an external input file, or from where this submission uploaded a local input file.  (With a resource group, the
\* consumer of one member copies in ALL members: each of them must have been copied out by the producer.)
C18_NoDangling ==
  phase = "submitted" =>
     \A c \in Submitted : \A x \in sub[c].inputs :
        \/ \E p \in Submitted : \E y \in sub[p].outputs : y.dst = x.src
        \/ \E r \in (DOMAIN inpath) \cap created : x.src = PathOf(inpath[r])
        \/ \E u \in uploads : u.dst = x.src

\* the consumer is submitted as a child of the producer (and of every explicit dependency)
C18_Parents ==
  \A c \in Submitted : \A p \in Parents(c) : p \in sub[c].parents

\* remote (upload) locations of distinct job files are distinct (two input resources may well name the same
\* external file)
Remote(c, f) == { x.src : x \in { y \in sub[c].inputs : y.dst \in Phys(c, f) } }
C18_DistinctRemote ==
  (phase = "submitted" /\ Wellformed) =>
     \A u, v \in uses : \A f \in ReadFiles(u[2]), g \in ReadFiles(v[2]) :
        (f # g /\ Src(f) # 0 /\ Src(g) # 0) => Remote(u[1], f) \cap Remote(v[1], g) = {}

\* write_output(r, d): the producing job copies r from where its command writes it to d
ExtOk(f, d) ==
  LET p == Src(f) IN p \in Submitted /\ \E y \in sub[p].outputs : y.dst = d /\ Phys(p, f) \subseteq {y.src}
C18_External ==
  (phase = "submitted" /\ Wellformed) =>
     \A w \in wout : IF IsGroup(w[1]) THEN \A m \in Members(w[1]) : ExtOk(m, w[2] \o "." \o m.n)
                     ELSE ExtOk(w[1], w[2])

EdgeBound == Cardinality(expl) + Cardinality(uses) <= EdgeLimit

\* views for exploration without the command text
NoCmdView == <<jobvars, created, value, hasext, inpath, deps, valid, mentioned, inputs, intout, extout, outpaths,
               ghosts, phase, order, locvars, srvvars>>
=============================================================================
