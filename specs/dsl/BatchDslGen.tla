---------------------------- MODULE BatchDslGen ----------------------------
(* Program enumeration for the binding of BatchDsl to hailtop.batch.

   The build phase of BatchDsl is explored with the program text (the sequence of DSL calls) as a history
   variable.  Calls whose order is irrelevant to the DSL (they update disjoint attributes or add to sets)
   are generated in one canonical order, so every program is produced once:

     1 new_job*           2 depends_on* (sorted)      3 declare_resource_group* (sorted)
     4 read_input*        5 read_input_group          6 add_extension* before the resource is mentioned
     7 commands that mention the job's own resources ("define", sorted)
     8 add_extension* between definition and use      9 commands that consume another job's / an input
    10 add_extension* after the uses                    resource ("use", sorted)
    11 write_output* (sorted)                          12 done

   A call that raises ends the program.  Finished programs are printed (one JSON line each, Emit) by an
   exhaustive run (small bounds) or by `-simulate` (larger bounds).  GFullNext continues every finished
   program with Batch.run() (RunStep of BatchDsl), so one exhaustive run both checks the invariants on all
   canonical programs of the bound and hands the same programs to the harness.                          *)
EXTENDS BatchDsl, Json, SequencesExt

CONSTANTS
  MaxDeps, MaxUses, MaxEdges,   \* depends_on calls, consuming commands, their sum
  MaxExt, MaxWrites,            \* add_extension / write_output calls
  MaxRefs,                      \* references per consuming command
  FullJobs,                     \* TRUE: only programs with exactly MaxJobs jobs
  UsedDefsOnly,                 \* TRUE: drop programs that define a job resource nobody consumes or writes
  DefMembers,                   \* TRUE: also commands in which a job mentions a member of its own group directly
  SameBase,                     \* TRUE: also input groups in which two members have the same file name
  Undefined,                    \* TRUE: also commands that consume a resource its job has not defined (the call raises)
  MinLen                        \* a program is finished only when it has at least this many calls (simulation)

VARIABLES prog, gph, gkey, ncalls
gvars == <<vars, prog, gph, gkey, ncalls>>

ResOrder == SetToSeq(Res)
Rk(r) == CHOOSE i \in 1..Len(ResOrder) : ResOrder[i] = r
DestOrder == SetToSeq(Dests)
Dk(d) == CHOOSE i \in 1..Len(DestOrder) : DestOrder[i] = d
ExtOrder == SetToSeq(Exts)
Ek(e) == CHOOSE i \in 1..Len(ExtOrder) : ExtOrder[i] = e

KeyLt(a, b) == a[1] < b[1] \/ (a[1] = b[1] /\ a[2] < b[2])
\* canonical position: phase ph with sort key k
At(ph, k) ==
  /\ gph < ph \/ (gph = ph /\ KeyLt(gkey, k))
  /\ gph' = ph /\ gkey' = k
Log(op) == prog' = Append(prog, op)
Bump(c) == ncalls' = [ncalls EXCEPT ![c] = @ + 1]
Keep == UNCHANGED ncalls
Building == phase = "build" /\ gph < 12
JobsReady == Building /\ njobs >= (IF FullJobs THEN MaxJobs ELSE 1)

GInit == Init /\ prog = <<>> /\ gph = 0 /\ gkey = <<0, 0>>
              /\ ncalls = [c \in {"dep", "use", "ext", "write"} |-> 0]

\* (each action starts with a state predicate so that TLC reports it under its own name)
GNewJob == Building /\ \E a \in BOOLEAN :
  /\ gph = 0 /\ NewJob(a, DDir(njobs + 1)) /\ Log([op |-> "NewJob", always |-> a])
  /\ UNCHANGED <<gph, gkey>> /\ Keep

GDepend == JobsReady /\ \E c, p \in Jobs :
  /\ ncalls["dep"] < MaxDeps /\ ncalls["dep"] + ncalls["use"] < MaxEdges
  /\ At(1, <<c, p>>) /\ Depend(c, p) /\ Log([op |-> "Depend", c |-> c, p |-> p]) /\ Bump("dep")

GDeclareGroup == JobsReady /\ \E j \in Jobs :
  /\ At(3, <<j, 0>>) /\ DeclareGroup(j) /\ Log([op |-> "DeclareGroup", j |-> j]) /\ Keep

GReadInput == JobsReady /\ \E r \in InF, ip \in InPaths :
  /\ At(4, <<Rk(r), 0>>)
  /\ \A q \in InF : Rk(q) < Rk(r) => q \in created
  /\ ReadInput(r, ip, "r" \o r.n)
  /\ Log([op |-> "ReadInput", r |-> r, ip |-> ip]) /\ Keep

GReadInputGroup == JobsReady /\ \E f \in [InGroupMembers -> InPaths] :
  /\ SameBase \/ \A a, b \in InGroupMembers : a # b => f[a].base # f[b].base
  /\ At(5, <<0, 0>>) /\ ReadInputGroup(f, "rG") /\ Log([op |-> "ReadInputGroup", f |-> f]) /\ Keep

GAddExt(ph) == JobsReady /\ \E r \in JF, e \in Exts :
  /\ ncalls["ext"] < MaxExt /\ At(ph, <<Rk(r), Ek(e)>>)
  /\ ph = 6  => ~MentionedAnywhere(r)
  /\ ph = 8  => r \in mentioned[r.j]
  /\ ph = 10 => MentionedAnywhere(r)
  /\ AddExt(r, e) /\ Log([op |-> "AddExt", r |-> r, e |-> e]) /\ Bump("ext")

\* a command that mentions one of the job's own resources (makes it valid for consumers)
GDefine == JobsReady /\ \E r \in Res :
  /\ Src(r) \in Live /\ r \in created /\ (DefMembers \/ r.k # "gm") /\ At(7, <<Rk(r), 0>>)
  /\ Command(Src(r), <<[t |-> "ref", r |-> r]>>)
  /\ Log([op |-> "Command", j |-> Src(r), refs |-> <<r>>]) /\ Keep

\* a command of job c that references 1..MaxRefs resources, the first of which is not its own
RefSeqs == UNION { [1..n -> { r \in created : r.j = 0 \/ r.j \in Live }] : n \in 1..MaxRefs }
GUse == JobsReady /\ \E c \in Jobs : \E rs \in RefSeqs :
  /\ Src(rs[1]) # c /\ ncalls["use"] < MaxUses /\ ncalls["dep"] + ncalls["use"] < MaxEdges
  /\ \A i \in 2..Len(rs) : Rk(rs[i - 1]) < Rk(rs[i])
  /\ Undefined \/ \A i \in 1..Len(rs) : IF Src(rs[i]) \in {0, c} THEN TRUE ELSE rs[i] \in valid[Src(rs[i])]
  /\ At(9, <<c, Rk(rs[1])>>)
  /\ Command(c, [i \in 1..Len(rs) |-> [t |-> "ref", r |-> rs[i]]])
  /\ Log([op |-> "Command", j |-> c, refs |-> rs]) /\ Bump("use")

GWrite == JobsReady /\ \E r \in Res, d \in Dests :
  /\ ncalls["write"] < MaxWrites /\ At(11, <<Rk(r), Dk(d)>>)
  /\ WriteOutput(r, d) /\ Log([op |-> "WriteOutput", r |-> r, d |-> d]) /\ Bump("write")

Consumed(r) == \/ \E u \in uses : r \in ValidClosure(u[2]) \/ u[2] \in ValidClosure(r)
               \/ \E w \in wout : r \in ValidClosure(w[1]) \/ w[1] \in ValidClosure(r)
GDone ==
  /\ JobsReady /\ Len(prog) >= MinLen
  /\ UsedDefsOnly => \A j \in Live : \A r \in mentioned[j] : Src(r) = j => Consumed(r)
  /\ gph' = 12 /\ UNCHANGED <<vars, prog, gkey, ncalls>>

GNext ==
  \/ GNewJob \/ GDepend \/ GDeclareGroup \/ GReadInput \/ GReadInputGroup
  \/ GAddExt(6) \/ GDefine \/ GAddExt(8) \/ GUse \/ GAddExt(10) \/ GWrite \/ GDone

\* canonical programs followed by Batch.run(): the C17 / C18 invariants are checked on these behaviours too
Ran == gph = 12 /\ UNCHANGED <<prog, gph, gkey, ncalls>>
GNumber       == Ran /\ NumberAny
GStartLocal   == Ran /\ StartLocal
GRunLocal     == Ran /\ \E j \in Live, ok \in BOOLEAN : RunLocal(j, ok)
GSkipLocal    == Ran /\ \E j \in Live : SkipLocal(j)
GEndLocal     == Ran /\ EndLocal
GStartService == Ran /\ StartService("/L", "R:")
GSubmit       == Ran /\ SubmitAny
GEndService   == Ran /\ EndServiceAny
GFullNext == GNext \/ GNumber \/ GStartLocal \/ GRunLocal \/ GSkipLocal \/ GEndLocal
                   \/ GStartService \/ GSubmit \/ GEndService

Finished == (gph = 12 /\ phase = "build") \/ phase = "aborted"
\* "invariant" with a side effect: print every finished program once (the state right after the last call)
Emit == Finished => PrintT(<<"PROG", ToJson(prog)>>)
=============================================================================
