--------------------------- MODULE BatchDslTrace ---------------------------
(* Trace validation (B2) for BatchDsl.  Each line of the ndjson file is one recorded execution of the real
   hailtop.batch API: the DSL calls of one program with their observed outcome ("ok" | "refused" = the call
   raised BatchException) and the Job._dependencies sets afterwards, then what Batch.run() did:

     Number(order) | Reject                       the numbering Batch._async_run computed / its cycle error
     StartLocal, Run(j, ok), Skip(j), EndLocal    LocalBackend (from the jobs' marker files)
     StartService(l, r), Submit(j, rec), EndService(ups)
                                                  ServiceBackend with a recording batch client: rec is the
                                                  job spec it would POST, with every token of the command
                                                  evaluated by bash (words)

   Every event must be a step of BatchDsl with the logged arguments whose successor state matches the logged
   observations; an event the specification cannot take is a deadlock here.  All C17 / C18 invariants are
   evaluated in every state.  The numbering is only required to be a permutation (Orders <- AnyOrders in the
   configuration): whether it is a correct one is for the invariants to say.                              *)
EXTENDS BatchDsl, Json, IOUtils

Traces == ndJsonDeserialize(IOEnv.TRACE_FILE)
VARIABLES tid, l
tvars == <<vars, tid, l>>

TraceInit == Init /\ tid \in 1..Len(Traces) /\ l = 1
Ev == Traces[tid].ev

\* "ok" | "refused" (BatchException); any other outcome (the call crashed) is no step of the specification
Outcome(e) == /\ e.out \in {"ok", "refused"}
              /\ IF e.out = "ok" THEN phase' = "build" ELSE phase' = "aborted"
DepsOk(e) == \A j \in 1..Len(e.deps) : deps'[j] = SetOf(e.deps[j])

Rec(e) == [ parents |-> SetOf(e.rec.parents), inputs |-> SetOf(e.rec.inputs), outputs |-> SetOf(e.rec.outputs),
            links |-> SetOf(e.rec.links), cmds |-> e.rec.cmds ]

SameBase(f) == \E a, b \in DOMAIN f : a # b /\ f[a].base = f[b].base
\* a call the specification accepts but a stricter implementation may refuse: the program simply ends
Refused ==
  /\ phase' = "aborted"
  /\ UNCHANGED <<jobvars, resvars, attrs, ghosts, order, locvars, srvvars>>

Build(e) ==
  \/ /\ e.a = "NewJob" /\ NewJob(e.always, e.dir)
  \/ /\ e.a = "Depend" /\ Depend(e.c, e.p)
  \/ /\ e.a = "DeclareGroup" /\ DeclareGroup(e.j)
  \/ /\ e.a = "ReadInput" /\ ReadInput(e.r, e.ip, e.root)
  \/ /\ e.a = "ReadInputGroup" /\ e.out = "ok" /\ ReadInputGroup(e.f, e.root)
  \/ /\ e.a = "ReadInputGroup" /\ e.out = "refused" /\ SameBase(e.f) /\ phase = "build" /\ Refused
  \/ /\ e.a = "Command" /\ Command(e.j, e.toks)
  \/ /\ e.a = "AddExt" /\ (e.out = "ok" \/ ~MentionedAnywhere(e.r)) /\ AddExt(e.r, e.e)
  \/ /\ e.a = "AddExt" /\ e.out = "refused" /\ MentionedAnywhere(e.r) /\ phase = "build" /\ Refused
  \/ /\ e.a = "WriteOutput" /\ WriteOutput(e.r, e.d)

TraceStep ==
  /\ l <= Len(Ev)
  /\ LET e == Ev[l] IN
     \/ /\ e.a \in {"NewJob", "Depend", "DeclareGroup", "ReadInput", "ReadInputGroup", "Command", "AddExt", "WriteOutput"}
        /\ Build(e) /\ Outcome(e) /\ DepsOk(e)
     \/ /\ e.a = "Number" /\ Number(e.order) /\ phase' = "numbered"
     \/ /\ e.a = "Reject" /\ (\E o \in Orders : Number(o)) /\ phase' = "rejected"
     \/ /\ e.a = "StartLocal" /\ StartLocal
     \/ /\ e.a = "Run" /\ RunLocal(e.j, e.ok)
     \/ /\ e.a = "Skip" /\ SkipLocal(e.j)
     \/ /\ e.a = "EndLocal" /\ EndLocal /\ raised = e.raised
     \/ /\ e.a = "StartService" /\ StartService(e.l, e.r)
     \/ /\ e.a = "Submit" /\ Submit(e.j, Rec(e))
     \/ /\ e.a = "EndService" /\ EndService(SetOf(e.ups))
  /\ l' = l + 1 /\ UNCHANGED tid

TraceDone == l > Len(Ev) /\ UNCHANGED tvars

TraceNext == TraceStep \/ TraceDone
TraceSpec == TraceInit /\ [][TraceNext]_tvars

\* every trace is consumed to its end (checked by the harness through the number of distinct states)
=============================================================================
