----------------------- MODULE FrontEndTypesVerdict -----------------------
(* TLC judges every case recorded from the real front end (FrontEndTypes!Why). *)
EXTENDS FrontEndTypes
ASSUME Verdict(0)
=============================================================================
