--------------------------- MODULE FrontEndTypes ---------------------------
(* C36 - the types the Hail query front end REPORTS agree with the types IMPLIED BY THE IR it builds, and
   literals carry a type their Python value satisfies.

       hail/python/hail/expr/expressions/base_expression.py   impute_type, to_expr, unify_*, _bin_op_numeric
       hail/python/hail/expr/expressions/typed_expressions.py  the typed expression classes (API typing rules)
       hail/python/hail/expr/functions.py, aggregators/         hl.* functions
       hail/python/hail/ir/ir.py                                IR._compute_type (IR typing rules)

   The module defines

     (1) TYPE TERMS                  records [k |-> kind, ...] (int32 int64 float32 float64 bool str, array set
                                     dict tuple struct),
     (2) PYTHON VALUES               abstract trees whose leaves are symbolic (TLC has no int64 / float); the
                                     harness owns name <-> object; the module owns Satisfies(v, t) - the typing
                                     RELATION of values - and Imp(v), the imputation FUNCTION of hl.literal / to_expr,
     (3) EXPRESSION PROGRAMS         terms [op |-> ..., ...] that mirror the public API one call per node,
     (4) Ty(e, env)                  the API typing rule: the type the front end has to REPORT for e (or Reject),
     (5) IR TERMS, Lower(e, env)     the IR the front end builds for e, and IrTy(x), the typing rule of the IR
         and IrTy(x)                 (one case per IR node class, as in ir.py),
     (6) the PROPERTY inside the model:   Agree(e, env) ==  Ty(e) # Reject  =>  IrTy(Lower(e)) = Ty(e)
                                          LiteralOK(v)  ==  Imp(v) # Reject =>  Satisfies(v, Imp(v))
         checked by TLC for every program of the bounded universe (module FrontEndTypesGen), before any binding.

   Binding (B3, call/return): FrontEndTypesGen writes the universe; the harness builds every program with the
   real hl.* API and records the reported type (Expression.dtype), the type carried by the IR (Expression._ir.typ),
   the result of recomputing every IR node's type from its children, and the result of the code's own
   whole-tree recomputation; FrontEndTypesVerdict judges every recorded case (Why).                        *)
EXTENDS Integers, Sequences, SequencesExt, FiniteSets, TLC, Json, IOUtils

(* ------------------------------------------------------------------------------------------------ *)
(* (1) Types                                                                                         *)
P(k)            == [k |-> k]
TArr(e)         == [k |-> "array", e |-> e]
TSet(e)         == [k |-> "set", e |-> e]
TDict(a, b)     == [k |-> "dict", key |-> a, val |-> b]
TTup(ts)        == [k |-> "tuple", ts |-> ts]
TStruct(ns, ts) == [k |-> "struct", ns |-> ns, ts |-> ts]
TStream(e)      == [k |-> "stream", e |-> e]                    \* IR only
Reject          == [k |-> "reject"]                             \* "the front end refuses this program"
Hole            == [k |-> "hole"]                               \* imputation: no information (None, [])

I32 == P("int32")  I64 == P("int64")  F32 == P("float32")  F64 == P("float64")  TB == P("bool")  TS == P("str")
Numeric  == {"int32", "int64", "float32", "float64"}
NumericB == Numeric \cup {"bool"}                                \* is_numeric() of the front end includes bool
Prims    == NumericB \cup {"str"}

Rank(k) == CASE k = "bool" -> 0 [] k = "int32" -> 1 [] k = "int64" -> 2 [] k = "float32" -> 3 [] k = "float64" -> 4
RankT   == <<I32, I64, F32, F64>>
MaxOf(S) == CHOOSE x \in S : \A y \in S : y <= x
\* unify_types_limited on numeric types: one type -> itself; otherwise the largest of int32 < int64 < float32 < float64
\* (bool counts as int32 as soon as it meets another numeric type)
NumJoin(S) == IF Cardinality(S) = 1 THEN CHOOSE t \in S : TRUE
              ELSE RankT[MaxOf({1} \cup {Rank(t.k) : t \in S})]
Proxy(t)  == IF t.k = "bool" THEN I32 ELSE t

Rng(s) == {s[i] : i \in 1 .. Len(s)}
Distinct(s) == \A i, j \in 1 .. Len(s) : i # j => s[i] # s[j]
IndexOf(s, x) == IF x \in Rng(s) THEN CHOOSE i \in 1 .. Len(s) : s[i] = x ELSE 0

RECURSIVE IsType(_)
IsType(t) ==
  CASE t.k \in Prims            -> TRUE
    [] t.k \in {"array", "set"} -> IsType(t.e)
    [] t.k = "dict"             -> IsType(t.key) /\ IsType(t.val)
    [] t.k = "tuple"            -> \A i \in 1 .. Len(t.ts) : IsType(t.ts[i])
    [] t.k = "struct"           -> Len(t.ns) = Len(t.ts) /\ Distinct(t.ns) /\ \A i \in 1 .. Len(t.ts) : IsType(t.ts[i])
    [] OTHER                    -> FALSE

\* struct algebra (tstruct._insert_fields / _select_fields / _drop_fields / _concat / _rename)
FType(t, n)        == t.ts[IndexOf(t.ns, n)]
HasF(t, n)         == n \in Rng(t.ns)
InsertF(t, n, ft)  == IF HasF(t, n) THEN TStruct(t.ns, [i \in 1 .. Len(t.ts) |-> IF t.ns[i] = n THEN ft ELSE t.ts[i]])
                      ELSE TStruct(Append(t.ns, n), Append(t.ts, ft))
RECURSIVE InsertFs(_, _, _)
InsertFs(t, ns, ts) == IF Len(ns) = 0 THEN t ELSE InsertFs(InsertF(t, ns[1], ts[1]), Tail(ns), Tail(ts))
SelectFs(t, ns)    == TStruct(ns, [i \in 1 .. Len(ns) |-> FType(t, ns[i])])
DropFs(t, D)       == LET keep == SelectSeq(t.ns, LAMBDA n : n \notin D) IN SelectFs(t, keep)
ConcatS(a, b)      == TStruct(a.ns \o b.ns, a.ts \o b.ts)
RenameS(t, f)      == TStruct([i \in 1 .. Len(t.ns) |-> f[t.ns[i]]], t.ts)      \* f: function on the field names

\* equality up to the order of struct fields (imputation of heterogeneous structs goes through a Python set)
RECURSIVE EqPerm(_, _)
EqPerm(a, b) ==
  IF a.k # b.k THEN FALSE
  ELSE CASE a.k \in {"array", "set"} -> EqPerm(a.e, b.e)
         [] a.k = "dict"             -> EqPerm(a.key, b.key) /\ EqPerm(a.val, b.val)
         [] a.k = "tuple"            -> Len(a.ts) = Len(b.ts) /\ \A i \in 1 .. Len(a.ts) : EqPerm(a.ts[i], b.ts[i])
         [] a.k = "struct"           -> /\ Len(a.ns) = Len(b.ns) /\ Rng(a.ns) = Rng(b.ns)
                                        /\ \A i \in 1 .. Len(a.ns) : EqPerm(a.ts[i], FType(b, a.ns[i]))
         [] OTHER                    -> TRUE

\* coercion (expression_typecheck.py: coercer_from_dtype(to).can_coerce(from)); a partial order on types
RECURSIVE CanCoerce(_, _)
CanCoerce(from, to) ==
  CASE to.k \in Numeric -> from.k \in NumericB /\ Rank(from.k) <= Rank(to.k)
    [] to.k \in {"bool", "str"} -> from.k = to.k
    [] to.k \in {"array", "set"} -> from.k = to.k /\ IF from.k = to.k THEN CanCoerce(from.e, to.e) ELSE FALSE
    [] to.k = "dict" -> IF from.k = "dict" THEN CanCoerce(from.key, to.key) /\ CanCoerce(from.val, to.val) ELSE FALSE
    [] to.k = "tuple" -> IF from.k = "tuple" /\ Len(from.ts) = Len(to.ts)
                         THEN \A i \in 1 .. Len(to.ts) : CanCoerce(from.ts[i], to.ts[i]) ELSE FALSE
    [] to.k = "struct" -> IF from.k = "struct" /\ from.ns = to.ns
                          THEN \A i \in 1 .. Len(to.ts) : CanCoerce(from.ts[i], to.ts[i]) ELSE FALSE
    [] OTHER -> FALSE
\* unify_exprs: the type among S that every member can be coerced to
Unify(S) == IF \E t \in S : \A u \in S : CanCoerce(u, t) THEN CHOOSE t \in S : \A u \in S : CanCoerce(u, t) ELSE Reject

(* ------------------------------------------------------------------------------------------------ *)
(* (2) Python values                                                                                 *)
VInt(x) == [c |-> "int", x |-> x]       VFloat(x) == [c |-> "float", x |-> x]    VBool(x) == [c |-> "bool", x |-> x]
VStr(x) == [c |-> "str", x |-> x]       VNone == [c |-> "none"]
VList(xs) == [c |-> "list", xs |-> xs]  VTup(xs) == [c |-> "tuple", xs |-> xs]   VSet(xs) == [c |-> "set", xs |-> xs]
VDict(ks, xs) == [c |-> "dict", ks |-> ks, xs |-> xs]
VStruct(ns, xs) == [c |-> "struct", ns |-> ns, xs |-> xs]                      \* hail.utils.Struct

IntsI32  == {"one", "two", "zero", "neg", "i32max", "i32min"}
IntsI64  == {"i32maxp1", "i32minm1", "big", "i64max", "i64min"}
IntsHuge == {"huge", "nhuge"}                                    \* outside 64 bits: no Hail type
IntClass(x) == IF x \in IntsI32 THEN "i32" ELSE IF x \in IntsI64 THEN "i64" ELSE "huge"

\* the Python str behind a symbolic name (field names of structs given as dicts / Structs given as dicts)
StrOf(x) == CASE x = "sa" -> "a" [] x = "sb" -> "b" [] x = "sempty" -> "" [] OTHER -> x

\* Satisfies(v, t): the Python value v is a value of the Hail type t.
\*   - missing (None) is a value of every type;
\*   - a Python bool is a Python int; Python ints and bools convert to float32 / float64;
\*   - Hail takes any Python Sequence for an array (list, tuple, and a str as the sequence of its characters), any
\*     Mapping for a dict (a Struct is a Mapping from its field names) and for a struct (a dict with str keys);
\*   - a struct value may omit fields of the type (they are missing) but may not have others;
\*   - a tuple value has exactly the length of the tuple type.
RECURSIVE Satisfies(_, _)
Satisfies(v, t) ==
  IF v.c = "none" THEN TRUE
  ELSE CASE t.k = "int32"   -> (v.c = "int" /\ IF v.c = "int" THEN IntClass(v.x) = "i32" ELSE FALSE) \/ v.c = "bool"
         [] t.k = "int64"   -> (v.c = "int" /\ IF v.c = "int" THEN IntClass(v.x) \in {"i32", "i64"} ELSE FALSE) \/ v.c = "bool"
         [] t.k \in {"float32", "float64"} -> v.c \in {"float", "int", "bool"}
         [] t.k = "bool"    -> v.c = "bool"
         [] t.k = "str"     -> v.c = "str"
         [] t.k = "array"   -> IF v.c \in {"list", "tuple"} THEN \A i \in 1 .. Len(v.xs) : Satisfies(v.xs[i], t.e)
                               ELSE IF v.c = "str" THEN v.x = "sempty" \/ t.e = TS ELSE FALSE
         [] t.k = "set"     -> v.c = "set" /\ IF v.c = "set" THEN \A i \in 1 .. Len(v.xs) : Satisfies(v.xs[i], t.e) ELSE FALSE
         [] t.k = "dict"    -> IF v.c = "dict" THEN \A i \in 1 .. Len(v.xs) : Satisfies(v.ks[i], t.key) /\ Satisfies(v.xs[i], t.val)
                               ELSE IF v.c = "struct" THEN \A i \in 1 .. Len(v.xs) : t.key = TS /\ Satisfies(v.xs[i], t.val)
                               ELSE FALSE
         [] t.k = "tuple"   -> v.c = "tuple" /\ IF v.c = "tuple" /\ Len(v.xs) = Len(t.ts)
                                                THEN \A i \in 1 .. Len(v.xs) : Satisfies(v.xs[i], t.ts[i]) ELSE FALSE
         [] t.k = "struct"  -> IF v.c = "struct" THEN \A i \in 1 .. Len(v.xs) :
                                                  HasF(t, v.ns[i]) /\ IF HasF(t, v.ns[i]) THEN Satisfies(v.xs[i], FType(t, v.ns[i])) ELSE FALSE
                               ELSE IF v.c = "dict" THEN \A i \in 1 .. Len(v.xs) :
                                                  v.ks[i].c = "str" /\ IF v.ks[i].c = "str" THEN
                                                    HasF(t, StrOf(v.ks[i].x)) /\ IF HasF(t, StrOf(v.ks[i].x)) THEN Satisfies(v.xs[i], FType(t, StrOf(v.ks[i].x))) ELSE FALSE
                                                  ELSE FALSE
                               ELSE FALSE
         [] OTHER           -> FALSE

\* super_unify_types: the unifier of impute_type.  Hole = Python None: "no information" AND "cannot unify" (the
\* code uses None for both; what None means is decided by the caller)
RECURSIVE SU(_)
SU(S) ==
  LET nh == S \ {Hole} IN
  IF nh = {} THEN Hole
  ELSE IF \A t \in nh : t.k \in NumericB THEN NumJoin(nh)
  ELSE IF \E k \in {"array", "set"} : \A t \in nh : t.k = k
       THEN [k |-> (CHOOSE t \in nh : TRUE).k, e |-> SU({t.e : t \in nh})]
  ELSE IF \A t \in nh : t.k = "dict" THEN TDict(SU({t.key : t \in nh}), SU({t.val : t \in nh}))
  ELSE IF \A t \in nh : t.k = "struct"
       THEN \* the union of the fields (a field absent from one member is missing there); field order: first
            \* occurrence in the iteration order of a Python set of types - compared up to order (EqPerm)
            LET ord == SetToSeq(UNION {Rng(t.ns) : t \in nh})
            IN TStruct(ord, [i \in 1 .. Len(ord) |-> SU({FType(t, ord[i]) : t \in {u \in nh : HasF(u, ord[i])}})])
  ELSE IF Cardinality(nh) = 1 THEN CHOOSE t \in nh : TRUE
  ELSE Hole

RECURSIVE HasHole(_)
HasHole(t) ==
  CASE t.k = "hole" -> TRUE
    [] t.k \in {"array", "set"} -> HasHole(t.e)
    [] t.k = "dict" -> HasHole(t.key) \/ HasHole(t.val)
    [] t.k \in {"tuple", "struct"} -> \E i \in 1 .. Len(t.ts) : HasHole(t.ts[i])
    [] OTHER -> FALSE
\* Python truthiness of a type object: tstruct and ttuple are sized (an empty one is falsy), None is falsy
Falsy(t) == t = Hole \/ (t.k \in {"tuple", "struct"} /\ IF t.k \in {"tuple", "struct"} THEN Len(t.ts) = 0 ELSE FALSE)

\* _impute_type (no partial type); Reject: an exception (an int outside 64 bits, "heterogeneous")
RECURSIVE Imp0(_)
Imp0(v) ==
  CASE v.c = "int"   -> IF IntClass(v.x) = "i32" THEN I32 ELSE IF IntClass(v.x) = "i64" THEN I64 ELSE Reject
    [] v.c = "float" -> F64
    [] v.c = "bool"  -> TB
    [] v.c = "str"   -> TS
    [] v.c = "none"  -> Hole
    [] v.c \in {"list", "set"} ->
         LET k == IF v.c = "list" THEN "array" ELSE "set" IN
         IF Len(v.xs) = 0 THEN [k |-> k, e |-> Hole]
         ELSE LET ts == {Imp0(v.xs[i]) : i \in 1 .. Len(v.xs)} IN
              IF Reject \in ts THEN Reject
              ELSE LET u == SU(ts) IN
                   IF u = Hole \/ (v.c = "set" /\ Falsy(u)) THEN Reject ELSE [k |-> k, e |-> u]
    [] v.c = "tuple" -> LET ts == [i \in 1 .. Len(v.xs) |-> Imp0(v.xs[i])]
                        IN IF \E i \in 1 .. Len(ts) : ts[i] = Reject THEN Reject ELSE TTup(ts)
    [] v.c = "struct" -> LET ts == [i \in 1 .. Len(v.xs) |-> Imp0(v.xs[i])]
                         IN IF \E i \in 1 .. Len(ts) : ts[i] = Reject THEN Reject ELSE TStruct(v.ns, ts)
    [] v.c = "dict" ->
         IF Len(v.xs) = 0 THEN TDict(Hole, Hole)
         ELSE LET kts == {Imp0(v.ks[i]) : i \in 1 .. Len(v.ks)}
                  ts  == [i \in 1 .. Len(v.xs) |-> Imp0(v.xs[i])]
              IN IF Reject \in kts \/ \E i \in 1 .. Len(ts) : ts[i] = Reject THEN Reject
                 ELSE LET a == SU(kts)  b == SU(Rng(ts)) IN
                      IF a = Hole THEN Reject
                      ELSE IF Falsy(b)
                           THEN \* values that do not unify under str keys: the dict is read as a struct
                                IF a = TS THEN TStruct([i \in 1 .. Len(v.ks) |-> StrOf(v.ks[i].x)], ts) ELSE Reject
                           ELSE TDict(a, b)
Imp(v) == LET t == Imp0(v) IN IF t = Reject THEN Reject ELSE IF HasHole(t) THEN Reject ELSE t

(* ------------------------------------------------------------------------------------------------ *)
(* (3) Expression programs - see the operator table in checks/_fetypes.py (Builder.expr)             *)
Lit(v)  == [op |-> "lit", v |-> v]            \* hl.literal(v)
Py(v)   == [op |-> "py", v |-> v]             \* a bare Python value given as an operand (goes through to_expr)
NA(t)   == [op |-> "na", t |-> t]             \* hl.missing(t)
Fld(s, n) == [op |-> "fld", src |-> s, n |-> n]
Var(i)  == [op |-> "var", i |-> i]
Bin(o, a, b) == [op |-> "bin", o |-> o, a |-> a, b |-> b]
Cmp(o, a, b) == [op |-> "cmp", o |-> o, a |-> a, b |-> b]
Log(o, a, b) == [op |-> "log", o |-> o, a |-> a, b |-> b]
U1(op, a)    == [op |-> op, a |-> a]                         \* neg not isdef len keys values key_set items toarray toset todict asum amax amean sorted range
Conv(f, a)   == [op |-> "conv", f |-> f, a |-> a]
Cond(c, a, b) == [op |-> "cond", c |-> c, a |-> a, b |-> b]
Coalesce(a, b) == [op |-> "coalesce", a |-> a, b |-> b]
OrMiss(c, a) == [op |-> "ormiss", c |-> c, a |-> a]
Idx(a, i)    == [op |-> "idx", a |-> a, i |-> i]
Slice(a, i, j) == [op |-> "slice", a |-> a, i |-> i, j |-> j]
Lam(op, a, f) == [op |-> op, a |-> a, fb |-> f]               \* map filter flatmap any all ; body f uses Var(depth+1)
Fold(a, f, z) == [op |-> "fold", a |-> a, fb |-> f, z |-> z]  \* body uses Var(depth+1) (accumulator), Var(depth+2)
X2(op, a, x) == [op |-> op, a |-> a, x |-> x]                \* contains get append extend setadd union
Get2(a, x, d) == [op |-> "get2", a |-> a, x |-> x, d |-> d]
Mk(op, xs)   == [op |-> op, xs |-> xs]                       \* mkarray mkset mktuple
MkStruct(ns, xs) == [op |-> "mkstruct", ns |-> ns, xs |-> xs]
MkDict(ks, xs)   == [op |-> "mkdict", ks |-> ks, xs |-> xs]
GetF(a, n)   == [op |-> "getf", a |-> a, n |-> n]
SAnnot(a, ns, xs) == [op |-> "sannot", a |-> a, ns |-> ns, xs |-> xs]
SSel(a, ns)  == [op |-> "sselect", a |-> a, ns |-> ns]
SDrop(a, ns) == [op |-> "sdrop", a |-> a, ns |-> ns]
Agg(f, a)    == [op |-> "agg", f |-> f, a |-> a]
AggCount     == [op |-> "aggcount"]
AggTake(a)   == [op |-> "aggtake", a |-> a]
AggFilter(c, a) == [op |-> "aggfilter", c |-> c, a |-> a]
AggGroup(k, a)  == [op |-> "agggroup", k |-> k, a |-> a]
AggExplode(a, f) == [op |-> "aggexplode", a |-> a, fb |-> f]

\* typing environment: the struct types the field references of a program may read (a Table has row and globals, a
\* MatrixTable also columns and entries) and the types of the bound lambda variables
EnvM(row, col, entry, glob, vars) == [row |-> row, col |-> col, entry |-> entry, glob |-> glob, vars |-> vars]
Env(row, glob, vars) == EnvM(row, TStruct(<<>>, <<>>), TStruct(<<>>, <<>>), glob, vars)
Bind(env, t) == [env EXCEPT !.vars = Append(@, t)]

(* ------------------------------------------------------------------------------------------------ *)
(* (4) The API typing rule                                                                           *)
IsNumB(t)  == t.k \in NumericB
IsArrNum(t) == t.k = "array" /\ IF t.k = "array" THEN t.e.k \in NumericB ELSE FALSE
Scalar(t)  == IF t.k = "array" THEN t.e ELSE t
IsArith(t) == IsNumB(t) \/ IsArrNum(t)

\* NumericExpression arithmetic (_bin_op_numeric): unify the scalar types (bool as int32), true division of integers
\* is float64, a power is float64; an array operand broadcasts
ArithT(o, a, b) ==
  IF o = "+" /\ a.k = "str" /\ b.k = "str" THEN TS
  ELSE IF ~(IsArith(a) /\ IsArith(b)) THEN Reject
  ELSE LET u == NumJoin({Proxy(Scalar(a)), Proxy(Scalar(b))})
           r == CASE o = "/"  -> IF u.k \in {"int32", "int64"} THEN F64 ELSE u
                  [] o = "**" -> F64
                  [] OTHER    -> u
       IN IF a.k = "array" \/ b.k = "array" THEN TArr(r) ELSE r

\* comparisons: two numeric scalars compare after numeric unification; anything else (arrays included: they
\* compare as wholes, there is no broadcasting) needs a common type both sides coerce to
CmpT(o, a, b) == IF Unify({a, b}) # Reject THEN TB ELSE Reject

ConvT(f, a) ==
  LET to == CASE f \in {"int32", "int"} -> I32 [] f = "int64" -> I64 [] f = "float32" -> F32
              [] f \in {"float64", "float"} -> F64 [] f = "bool" -> TB [] f = "str" -> TS
  IN IF f = "str" THEN TS
     ELSE IF f = "bool" THEN (IF a.k \in NumericB \cup {"str"} THEN TB ELSE Reject)
     ELSE IF a.k \in NumericB \cup {"str"} THEN to ELSE Reject

AggT(f, a) ==
  CASE f = "sum"     -> IF a.k \in {"int32", "int64", "bool"} THEN I64 ELSE IF a.k \in {"float32", "float64"} THEN F64 ELSE Reject
    [] f = "product" -> IF a.k \in {"int32", "int64", "bool"} THEN I64 ELSE IF a.k \in {"float32", "float64"} THEN F64 ELSE Reject
    [] f = "mean"    -> IF IsNumB(a) THEN F64 ELSE Reject
    [] f \in {"max", "min"} -> IF a.k \in Numeric THEN a ELSE IF a.k = "bool" THEN I32 ELSE Reject
    [] f = "collect" -> TArr(a)
    [] f = "collect_as_set" -> TSet(a)
    [] f = "counter" -> TDict(a, I64)
    [] f \in {"any", "all"} -> IF a.k = "bool" THEN TB ELSE Reject
    [] f = "count_where" -> IF a.k = "bool" THEN I64 ELSE Reject
    [] f = "fraction" -> IF a.k = "bool" THEN F64 ELSE Reject
    [] OTHER -> Reject

RECURSIVE Ty(_, _)
Ty(e, env) ==
  LET T(x) == Ty(x, env) IN
  CASE e.op \in {"lit", "py"} -> Imp(e.v)
    [] e.op = "na"   -> e.t
    [] e.op = "litT" -> IF IsType(e.t) /\ Satisfies(e.v, e.t) THEN e.t ELSE Reject       \* hl.literal(v, t)
    [] e.op = "fld"  -> LET s == CASE e.src = "row" -> env.row [] e.src = "col" -> env.col [] e.src = "entry" -> env.entry [] OTHER -> env.glob
                        IN IF HasF(s, e.n) THEN FType(s, e.n) ELSE Reject
    [] e.op = "var"  -> env.vars[e.i]
    [] e.op = "bin"  -> LET a == T(e.a) b == T(e.b) IN IF a = Reject \/ b = Reject THEN Reject ELSE ArithT(e.o, a, b)
    [] e.op = "cmp"  -> LET a == T(e.a) b == T(e.b) IN IF a = Reject \/ b = Reject THEN Reject ELSE CmpT(e.o, a, b)
    [] e.op = "log"  -> LET a == T(e.a) b == T(e.b) IN IF a = TB /\ b = TB THEN TB ELSE Reject
    [] e.op = "neg"  -> LET a == T(e.a) IN IF IsArith(a) THEN (IF a.k = "array" THEN TArr(Proxy(a.e)) ELSE Proxy(a)) ELSE Reject
    [] e.op = "not"  -> IF T(e.a) = TB THEN TB ELSE Reject
    [] e.op = "isdef" -> IF T(e.a) = Reject THEN Reject ELSE TB
    [] e.op = "conv" -> LET a == T(e.a) IN IF a = Reject THEN Reject ELSE ConvT(e.f, a)
    [] e.op = "cond" -> LET c == T(e.c) a == T(e.a) b == T(e.b)
                        IN IF c # TB \/ a = Reject \/ b = Reject THEN Reject ELSE Unify({a, b})
    [] e.op = "coalesce" -> LET a == T(e.a) b == T(e.b) IN IF a = Reject \/ b = Reject THEN Reject ELSE Unify({a, b})
    [] e.op = "ormiss" -> LET c == T(e.c) a == T(e.a) IN IF c # TB \/ a = Reject THEN Reject ELSE a
    [] e.op = "len"  -> LET a == T(e.a) IN IF a.k \in {"array", "set", "dict", "str", "tuple", "struct"} THEN I32 ELSE Reject
    [] e.op = "idx"  -> LET a == T(e.a) IN
                        IF a = Reject THEN Reject
                        ELSE IF a.k = "tuple" THEN (IF e.i.op = "py" /\ IF e.i.op = "py" THEN e.i.v.c = "int" ELSE FALSE
                                                    THEN (IF e.i.v.x = "zero" /\ Len(a.ts) >= 1 THEN a.ts[1]
                                                          ELSE IF e.i.v.x = "one" /\ Len(a.ts) >= 2 THEN a.ts[2] ELSE Reject)
                                                    ELSE Reject)
                        ELSE IF a.k = "struct" THEN (IF e.i.op = "py" /\ IF e.i.op = "py" THEN e.i.v.c = "str" ELSE FALSE
                                                     THEN (IF HasF(a, StrOf(e.i.v.x)) THEN FType(a, StrOf(e.i.v.x)) ELSE Reject)
                                                     ELSE IF e.i.op = "py" /\ IF e.i.op = "py" THEN e.i.v.c = "int" ELSE FALSE
                                                     THEN (IF e.i.v.x = "zero" /\ Len(a.ts) >= 1 THEN a.ts[1]
                                                           ELSE IF e.i.v.x = "one" /\ Len(a.ts) >= 2 THEN a.ts[2] ELSE Reject)
                                                     ELSE Reject)
                        ELSE LET i == T(e.i) IN
                             IF i = Reject THEN Reject
                             ELSE IF a.k = "array" /\ e.i.op = "py" /\ IF e.i.op = "py" THEN e.i.v.c = "str" ELSE FALSE
                                  THEN \* an array of structs projects a field
                                       (IF a.e.k = "struct" /\ IF a.e.k = "struct" THEN HasF(a.e, StrOf(e.i.v.x)) ELSE FALSE
                                        THEN TArr(FType(a.e, StrOf(e.i.v.x))) ELSE Reject)
                             ELSE IF a.k = "array" THEN (IF i = I32 THEN a.e ELSE Reject)          \* an int32 exactly (no coercion)
                             ELSE IF a.k = "str" THEN (IF i = I32 THEN TS ELSE Reject)
                             ELSE IF a.k = "dict" THEN (IF CanCoerce(i, a.key) THEN a.val ELSE Reject)
                             ELSE Reject
    [] e.op = "slice" -> LET a == T(e.a) i == T(e.i) j == T(e.j) IN
                         IF a = Reject \/ i = Reject \/ j = Reject THEN Reject
                         ELSE IF a.k \in {"array", "str"} /\ CanCoerce(i, I32) /\ CanCoerce(j, I32) THEN a ELSE Reject
    [] e.op \in {"map", "filter", "flatmap", "any", "all"} ->
         LET a == T(e.a) IN
         IF a.k \notin {"array", "set"} THEN Reject
         ELSE LET b == Ty(e.fb, Bind(env, a.e)) IN
              IF b = Reject THEN Reject
              ELSE CASE e.op = "map"     -> [k |-> a.k, e |-> b]
                     [] e.op = "filter"  -> IF b = TB THEN a ELSE Reject
                     [] e.op = "flatmap" -> IF b.k = a.k THEN b ELSE Reject
                     [] OTHER            -> IF b = TB THEN TB ELSE Reject
    [] e.op = "fold" -> LET a == T(e.a) z == T(e.z) IN
                        IF a.k \notin {"array", "set"} \/ z = Reject THEN Reject
                        ELSE \* the body is typed with the accumulator at the type of zero; a wider body type is retried
                             \* with zero (and the accumulator) coerced to it
                             LET b == Ty(e.fb, Bind(Bind(env, z), a.e)) IN
                             IF b = Reject THEN Reject
                             ELSE IF CanCoerce(b, z) THEN z
                             ELSE IF CanCoerce(z, b)
                                  THEN LET b2 == Ty(e.fb, Bind(Bind(env, b), a.e)) IN
                                       IF b2 # Reject /\ IF b2 # Reject THEN CanCoerce(b2, b) ELSE FALSE THEN b ELSE Reject
                                  ELSE Reject
    [] e.op = "contains" -> LET a == T(e.a) x == T(e.x) IN
                            IF a = Reject \/ x = Reject THEN Reject
                            ELSE IF a.k \in {"array", "set"} THEN (IF CanCoerce(x, a.e) THEN TB ELSE Reject)    \* the item is coerced
                            ELSE IF a.k = "dict" THEN (IF CanCoerce(x, a.key) THEN TB ELSE Reject)
                            ELSE Reject
    [] e.op = "get"  -> LET a == T(e.a) x == T(e.x) IN
                        IF a.k = "dict" /\ x # Reject THEN (IF CanCoerce(x, a.key) THEN a.val ELSE Reject) ELSE Reject
    [] e.op = "get2" -> LET a == T(e.a) x == T(e.x) d == T(e.d) IN
                        IF a.k = "dict" /\ x # Reject /\ d # Reject
                        THEN (IF CanCoerce(x, a.key) /\ CanCoerce(d, a.val) THEN a.val ELSE Reject) ELSE Reject
    [] e.op = "keys"    -> LET a == T(e.a) IN IF a.k = "dict" THEN TArr(a.key) ELSE Reject
    [] e.op = "values"  -> LET a == T(e.a) IN IF a.k = "dict" THEN TArr(a.val) ELSE Reject
    [] e.op = "key_set" -> LET a == T(e.a) IN IF a.k = "dict" THEN TSet(a.key) ELSE Reject
    [] e.op = "items"   -> LET a == T(e.a) IN IF a.k = "dict" THEN TArr(TTup(<<a.key, a.val>>)) ELSE Reject
    [] e.op \in {"mkarray", "mkset"} ->
         \* hl.array([...]) goes through impute_type / to_expr: the same type, or numeric scalars (unified)
         LET ts == [i \in 1 .. Len(e.xs) |-> T(e.xs[i])] IN
         IF Len(ts) = 0 \/ \E i \in 1 .. Len(ts) : ts[i] = Reject THEN Reject
         ELSE LET S == Rng(ts)
                  u == IF Cardinality(S) = 1 THEN CHOOSE t \in S : TRUE ELSE IF \A t \in S : t.k \in NumericB THEN NumJoin(S) ELSE Reject
              IN IF u = Reject THEN Reject ELSE [k |-> IF e.op = "mkarray" THEN "array" ELSE "set", e |-> u]
    [] e.op = "mktuple" -> LET ts == [i \in 1 .. Len(e.xs) |-> T(e.xs[i])] IN
                           IF \E i \in 1 .. Len(ts) : ts[i] = Reject THEN Reject ELSE TTup(ts)
    [] e.op = "mkstruct" -> LET ts == [i \in 1 .. Len(e.xs) |-> T(e.xs[i])] IN
                            IF \E i \in 1 .. Len(ts) : ts[i] = Reject THEN Reject ELSE TStruct(e.ns, ts)
    [] e.op = "mkdict" -> LET ks == [i \in 1 .. Len(e.ks) |-> T(e.ks[i])]  vs == [i \in 1 .. Len(e.xs) |-> T(e.xs[i])] IN
                          IF Len(ks) = 0 \/ (\E i \in 1 .. Len(ks) : ks[i] = Reject \/ vs[i] = Reject) THEN Reject
                          ELSE LET U(S) == IF Cardinality(S) = 1 THEN CHOOSE t \in S : TRUE ELSE IF \A t \in S : t.k \in NumericB THEN NumJoin(S) ELSE Reject
                                   a == U(Rng(ks)) b == U(Rng(vs)) IN
                               IF a = Reject \/ b = Reject THEN Reject ELSE TDict(a, b)
    [] e.op = "toarray" -> LET a == T(e.a) IN
                           IF a.k = "array" THEN a ELSE IF a.k = "set" THEN TArr(a.e)
                           ELSE IF a.k = "dict" THEN TArr(TTup(<<a.key, a.val>>)) ELSE Reject
    [] e.op = "toset"   -> LET a == T(e.a) IN IF a.k = "set" THEN a ELSE IF a.k = "array" THEN TSet(a.e) ELSE Reject
    [] e.op = "todict"  -> LET a == T(e.a) IN
                           IF a.k = "dict" THEN a
                           ELSE IF a.k \in {"array", "set"} /\ IF a.k \in {"array", "set"} THEN a.e.k = "tuple" /\ IF a.e.k = "tuple" THEN Len(a.e.ts) = 2 ELSE FALSE ELSE FALSE
                                THEN TDict(a.e.ts[1], a.e.ts[2]) ELSE Reject
    [] e.op = "getf"    -> LET a == T(e.a) IN IF a.k = "struct" /\ IF a.k = "struct" THEN HasF(a, e.n) ELSE FALSE THEN FType(a, e.n) ELSE Reject
    [] e.op = "sannot"  -> LET a == T(e.a) ts == [i \in 1 .. Len(e.xs) |-> T(e.xs[i])] IN
                           IF a.k # "struct" \/ \E i \in 1 .. Len(ts) : ts[i] = Reject THEN Reject ELSE InsertFs(a, e.ns, ts)
    [] e.op = "sselect" -> LET a == T(e.a) IN
                           IF a.k = "struct" /\ IF a.k = "struct" THEN \A i \in 1 .. Len(e.ns) : HasF(a, e.ns[i]) ELSE FALSE
                           THEN (IF Distinct(e.ns) THEN SelectFs(a, e.ns) ELSE Reject) ELSE Reject
    [] e.op = "sdrop"   -> LET a == T(e.a) IN
                           IF a.k = "struct" /\ IF a.k = "struct" THEN \A i \in 1 .. Len(e.ns) : HasF(a, e.ns[i]) ELSE FALSE
                           THEN DropFs(a, Rng(e.ns)) ELSE Reject
    [] e.op = "asum"    -> LET a == T(e.a) IN IF a.k \in {"array", "set"} /\ IF a.k \in {"array", "set"} THEN a.e.k \in NumericB ELSE FALSE
                                               THEN Proxy(a.e) ELSE Reject
    [] e.op = "amax"    -> LET a == T(e.a) IN IF a.k \in {"array", "set"} /\ IF a.k \in {"array", "set"} THEN a.e.k \in NumericB ELSE FALSE
                                               THEN Proxy(a.e) ELSE IF a.k \in NumericB THEN Proxy(a) ELSE Reject
    [] e.op = "amean"   -> LET a == T(e.a) IN IF a.k \in {"array", "set"} /\ IF a.k \in {"array", "set"} THEN a.e.k \in NumericB ELSE FALSE
                                               THEN F64 ELSE Reject
    [] e.op = "sorted"  -> LET a == T(e.a) IN IF a.k = "array" THEN a ELSE IF a.k = "set" THEN TArr(a.e) ELSE IF a.k = "dict" THEN TArr(TTup(<<a.key, a.val>>)) ELSE Reject
    [] e.op = "range"   -> LET a == T(e.a) IN IF a # Reject /\ CanCoerce(a, I32) THEN TArr(I32) ELSE Reject
    [] e.op = "append"  -> LET a == T(e.a) x == T(e.x) IN
                           IF a.k = "array" /\ x # Reject THEN (IF x = a.e THEN a ELSE Reject) ELSE Reject      \* no coercion
    [] e.op = "extend"  -> LET a == T(e.a) x == T(e.x) IN
                           IF a.k = "array" /\ x # Reject THEN (IF x = a THEN a ELSE Reject) ELSE Reject
    [] e.op \in {"setadd", "remove"} -> LET a == T(e.a) x == T(e.x) IN        \* the item is coerced to the element type
                           IF a.k = "set" /\ x # Reject THEN (IF CanCoerce(x, a.e) THEN a ELSE Reject) ELSE Reject
    [] e.op \in {"union", "difference", "intersection"} -> LET a == T(e.a) x == T(e.x) IN      \* sets of the same type
                           IF a.k = "set" /\ x # Reject THEN (IF x = a THEN a ELSE Reject) ELSE Reject
    [] e.op = "is_subset" -> LET a == T(e.a) x == T(e.x) IN
                           IF a.k = "set" /\ x # Reject THEN (IF x = a THEN TB ELSE Reject) ELSE Reject
    [] e.op = "agg"      -> LET a == T(e.a) IN IF a = Reject THEN Reject ELSE AggT(e.f, a)
    [] e.op = "aggcount" -> I64
    [] e.op = "aggtake"  -> LET a == T(e.a) IN IF a = Reject THEN Reject ELSE TArr(a)
    [] e.op = "aggfilter" -> LET c == T(e.c) a == T(e.a) IN IF c = TB THEN a ELSE Reject
    [] e.op = "agggroup" -> LET k == T(e.k) a == T(e.a) IN IF k = Reject \/ a = Reject THEN Reject ELSE TDict(k, a)
    [] e.op = "aggexplode" -> LET a == T(e.a) IN
                              IF a.k \notin {"array", "set"} THEN Reject ELSE Ty(e.fb, Bind(env, a.e))
    [] OTHER -> Reject

(* ------------------------------------------------------------------------------------------------ *)
(* (5) The IR the front end builds, and the IR's own typing rule                                      *)
(*     IR terms [n |-> node class, ...].  Lower(e, env) follows the API functions (which coercions they  *)
(*     insert, which node they pick); IrTy(x) follows IR._compute_type of each node class (ir.py).       *)
(*     Nodes with a DECLARED type: Const (I32 / I64 / F64 / Str / True / EncodedLiteral), NA, Ref, Apply *)
(*     (a registered function: the front end passes the return type along).                             *)
IrBad == [k |-> "ir-bad"]                                      \* the node's own assertion would fail
Const(t)          == [n |-> "Const", t |-> t]
NAx(t)            == [n |-> "NA", t |-> t]
Ref(t)            == [n |-> "Ref", t |-> t]
ApplyF(f, t, xs)  == [n |-> "Apply", f |-> f, t |-> t, xs |-> xs]
Prim(op, l, r)    == [n |-> "ApplyBinaryPrimOp", op |-> op, l |-> l, r |-> r]
CmpOp(op, l, r)   == [n |-> "ApplyComparisonOp", op |-> op, l |-> l, r |-> r]
UnOp(op, x)       == [n |-> "ApplyUnaryPrimOp", op |-> op, x |-> x]
IsNAx(x)          == [n |-> "IsNA", x |-> x]
IfX(c, a, b)      == [n |-> "If", c |-> c, a |-> a, b |-> b]
CoalesceX(xs)     == [n |-> "Coalesce", xs |-> xs]
MakeArrayX(xs)    == [n |-> "MakeArray", xs |-> xs]
MakeStructX(ns, xs) == [n |-> "MakeStruct", ns |-> ns, xs |-> xs]
MakeTupleX(xs)    == [n |-> "MakeTuple", xs |-> xs]
GetFieldX(o, f)   == [n |-> "GetField", o |-> o, f |-> f]
GetTupleElementX(o, i) == [n |-> "GetTupleElement", o |-> o, i |-> i]
InsertFieldsX(o, ns, xs) == [n |-> "InsertFields", o |-> o, ns |-> ns, xs |-> xs]
SelectFieldsX(o, ns) == [n |-> "SelectFields", o |-> o, ns |-> ns]
ArrayRefX(a, i)   == [n |-> "ArrayRef", a |-> a, i |-> i]
ArrayLenX(a)      == [n |-> "ArrayLen", a |-> a]
ArraySliceX(a)    == [n |-> "ArraySlice", a |-> a]
ToStreamX(a)      == [n |-> "ToStream", a |-> a]
ToArrayX(a)       == [n |-> "ToArray", a |-> a]
ToSetX(a)         == [n |-> "ToSet", a |-> a]
ToDictX(a)        == [n |-> "ToDict", a |-> a]
StreamMapX(a, b)  == [n |-> "StreamMap", a |-> a, b |-> b]
StreamFilterX(a, b) == [n |-> "StreamFilter", a |-> a, b |-> b]
StreamFlatMapX(a, b) == [n |-> "StreamFlatMap", a |-> a, b |-> b]
StreamFoldX(a, z, b) == [n |-> "StreamFold", a |-> a, z |-> z, b |-> b]
AggOpX(op, xs)    == [n |-> "ApplyAggOp", op |-> op, xs |-> xs]
AggFilterX(c, b)  == [n |-> "AggFilter", c |-> c, b |-> b]
AggGroupByX(k, b) == [n |-> "AggGroupBy", k |-> k, b |-> b]
AggExplodeX(a, b) == [n |-> "AggExplode", a |-> a, b |-> b]

\* the aggregator signatures the IR looks up (ir/register_aggregators.py)
IrAggTy(op, a) ==
  CASE op = "Sum"     -> IF a \in {I32, I64} THEN I64 ELSE IF a \in {F32, F64} THEN F64 ELSE IrBad
    [] op = "Product" -> IF a \in {I32, I64} THEN I64 ELSE IF a \in {F32, F64} THEN F64 ELSE IrBad
    [] op \in {"Max", "Min"} -> IF a.k \in NumericB \cup {"str"} THEN a ELSE IrBad
    [] op = "Collect" -> TArr(a)
    [] op = "CollectAsSet" -> TSet(a)
    [] op = "Take"    -> TArr(a)
    [] op = "Count"   -> I64
    [] OTHER -> IrBad

RECURSIVE IrTy(_)
IrTy(x) ==
  CASE x.n \in {"Const", "NA", "Ref", "Apply"} -> x.t
    [] x.n = "ApplyBinaryPrimOp" ->
         LET l == IrTy(x.l)  r == IrTy(x.r) IN
         IF x.op = "/" THEN (IF l \in {I32, I64} /\ r \in {I32, I64} THEN F64 ELSE IF l = F64 THEN F64 ELSE F32) ELSE l
    [] x.n = "ApplyComparisonOp" -> TB
    [] x.n = "ApplyUnaryPrimOp" -> IrTy(x.x)
    [] x.n = "IsNA" -> TB
    [] x.n = "If" -> IF IrTy(x.a) = IrTy(x.b) THEN IrTy(x.a) ELSE IrBad
    [] x.n = "Coalesce" -> IF \A i \in 1 .. Len(x.xs) : IrTy(x.xs[i]) = IrTy(x.xs[1]) THEN IrTy(x.xs[1]) ELSE IrBad
    [] x.n = "MakeArray" -> TArr(IrTy(x.xs[1]))
    [] x.n = "MakeStruct" -> TStruct(x.ns, [i \in 1 .. Len(x.xs) |-> IrTy(x.xs[i])])
    [] x.n = "MakeTuple" -> TTup([i \in 1 .. Len(x.xs) |-> IrTy(x.xs[i])])
    [] x.n = "GetField" -> FType(IrTy(x.o), x.f)
    [] x.n = "GetTupleElement" -> IrTy(x.o).ts[x.i]
    [] x.n = "InsertFields" -> InsertFs(IrTy(x.o), x.ns, [i \in 1 .. Len(x.xs) |-> IrTy(x.xs[i])])
    [] x.n = "SelectFields" -> SelectFs(IrTy(x.o), x.ns)
    [] x.n = "ArrayRef" -> IrTy(x.a).e
    [] x.n = "ArrayLen" -> I32
    [] x.n = "ArraySlice" -> IrTy(x.a)
    [] x.n = "ToStream" -> TStream(IrTy(x.a).e)
    [] x.n = "ToArray" -> TArr(IrTy(x.a).e)
    [] x.n = "ToSet" -> TSet(IrTy(x.a).e)
    [] x.n = "ToDict" -> LET el == IrTy(x.a).e IN TDict(el.ts[1], el.ts[2])
    [] x.n = "StreamMap" -> TStream(IrTy(x.b))
    [] x.n = "StreamFilter" -> IrTy(x.a)
    [] x.n = "StreamFlatMap" -> TStream(IrTy(x.b).e)
    [] x.n = "StreamFold" -> IrTy(x.z)
    [] x.n = "ApplyAggOp" -> IrAggTy(x.op, IF Len(x.xs) = 0 THEN TB ELSE IrTy(x.xs[1]))
    [] x.n = "AggFilter" -> IrTy(x.b)
    [] x.n = "AggGroupBy" -> TDict(IrTy(x.k), IrTy(x.b))
    [] x.n = "AggExplode" -> IrTy(x.b)

\* ExprCoercer.coerce: numeric scalars through toInt32 / toInt64 / toFloat32 / toFloat64, collections element-wise
RECURSIVE CoerceX(_, _, _)
CoerceX(x, from, to) ==
  IF from = to THEN x
  ELSE IF to.k \in Numeric THEN ApplyF("to" \o to.k, to, <<x>>)
  ELSE IF to.k = "array" THEN ToArrayX(StreamMapX(ToStreamX(x), CoerceX(Ref(from.e), from.e, to.e)))
  ELSE IF to.k = "set" THEN ToSetX(StreamMapX(ToStreamX(x), CoerceX(Ref(from.e), from.e, to.e)))
  ELSE ApplyF("coerce", to, <<x>>)                       \* dicts / tuples / structs are rebuilt field by field: not modelled
ConstOf(v) == Const(Imp(v))
AggName(f) == CASE f = "sum" -> "Sum" [] f = "product" -> "Product" [] f = "max" -> "Max" [] f = "min" -> "Min"
                [] f = "collect" -> "Collect" [] f = "collect_as_set" -> "CollectAsSet" [] OTHER -> ""

\* Lower is defined on the programs the API accepts (Ty(e, env) # Reject)
RECURSIVE Lower(_, _)
Lower(e, env) ==
  LET L(x) == Lower(x, env)  T(x) == Ty(x, env)  ty == Ty(e, env) IN
  CASE e.op \in {"lit", "py"} -> ConstOf(e.v)
    [] e.op = "litT" -> Const(e.t)
    [] e.op = "na"  -> NAx(e.t)
    [] e.op = "fld" -> GetFieldX(Ref(CASE e.src = "row" -> env.row [] e.src = "col" -> env.col [] e.src = "entry" -> env.entry [] OTHER -> env.glob), e.n)
    [] e.op = "var" -> Ref(env.vars[e.i])
    [] e.op = "bin" ->
         LET a == T(e.a)  b == T(e.b) IN
         IF a = TS THEN ApplyF("concat", TS, <<L(e.a), L(e.b)>>)
         ELSE LET u  == NumJoin({Proxy(Scalar(a)), Proxy(Scalar(b))})
                  ua == IF a.k = "array" THEN TArr(u) ELSE u          \* _promote_numeric: a scalar stays a scalar
                  ub == IF b.k = "array" THEN TArr(u) ELSE u
                  l  == CoerceX(L(e.a), a, ua)  r == CoerceX(L(e.b), b, ub)
              IN IF e.o \in {"+", "-", "*", "/", "//"} /\ ty.k \in Numeric THEN Prim(e.o, l, r) ELSE ApplyF(e.o, ty, <<l, r>>)
    [] e.op = "cmp" -> LET a == T(e.a)  b == T(e.b)  u == IF IsNumB(a) /\ IsNumB(b) THEN NumJoin({Proxy(a), Proxy(b)}) ELSE Unify({a, b})
                       IN CmpOp(e.o, CoerceX(L(e.a), a, u), CoerceX(L(e.b), b, u))
    [] e.op = "log" -> ApplyF(e.o, TB, <<L(e.a), L(e.b)>>)
    [] e.op = "neg" -> LET a == T(e.a) IN IF a.k = "array" THEN ApplyF("negate", ty, <<L(e.a)>>) ELSE UnOp("-", CoerceX(L(e.a), a, Proxy(a)))
    [] e.op = "not" -> UnOp("!", L(e.a))
    [] e.op = "isdef" -> UnOp("!", IsNAx(L(e.a)))
    [] e.op = "conv" -> ApplyF("to_" \o e.f, ty, <<L(e.a)>>)
    [] e.op = "cond" -> IfX(L(e.c), CoerceX(L(e.a), T(e.a), ty), CoerceX(L(e.b), T(e.b), ty))
    [] e.op = "coalesce" -> CoalesceX(<<CoerceX(L(e.a), T(e.a), ty), CoerceX(L(e.b), T(e.b), ty)>>)
    [] e.op = "ormiss" -> IfX(L(e.c), L(e.a), NAx(ty))
    [] e.op = "len" -> IF T(e.a).k = "array" THEN ArrayLenX(L(e.a)) ELSE ApplyF("len", I32, <<L(e.a)>>)
    [] e.op = "idx" ->
         LET a == T(e.a) IN
         IF a.k = "tuple" THEN GetTupleElementX(L(e.a), IF e.i.v.x = "zero" THEN 1 ELSE 2)
         ELSE IF a.k = "struct" THEN (IF e.i.v.c = "str" THEN GetFieldX(L(e.a), StrOf(e.i.v.x)) ELSE GetFieldX(L(e.a), a.ns[IF e.i.v.x = "zero" THEN 1 ELSE 2]))
         ELSE IF a.k = "array" /\ ty.k = "array" /\ e.i.op = "py" /\ IF e.i.op = "py" THEN e.i.v.c = "str" ELSE FALSE
              THEN ToArrayX(StreamMapX(ToStreamX(L(e.a)), GetFieldX(Ref(a.e), StrOf(e.i.v.x))))
         ELSE IF a.k = "array" THEN ArrayRefX(L(e.a), L(e.i))
         ELSE ApplyF("index", ty, <<L(e.a), L(e.i)>>)
    [] e.op = "slice" -> IF T(e.a).k = "array" THEN ArraySliceX(L(e.a)) ELSE ApplyF("slice", ty, <<L(e.a)>>)
    [] e.op \in {"map", "filter", "flatmap"} ->
         LET a == T(e.a)
             body == Lower(e.fb, Bind(env, a.e))
             st == CASE e.op = "map" -> StreamMapX(ToStreamX(L(e.a)), body)
                     [] e.op = "filter" -> StreamFilterX(ToStreamX(L(e.a)), body)
                     [] OTHER -> StreamFlatMapX(ToStreamX(L(e.a)), ToStreamX(body))
         IN IF a.k = "array" THEN ToArrayX(st) ELSE ToSetX(st)
    [] e.op = "fold" ->
         LET a == T(e.a)  z == T(e.z)
             b == Ty(e.fb, Bind(Bind(env, z), a.e))
         IN StreamFoldX(ToStreamX(L(e.a)), CoerceX(L(e.z), z, ty), CoerceX(Lower(e.fb, Bind(Bind(env, ty), a.e)), IF CanCoerce(b, z) THEN b ELSE Ty(e.fb, Bind(Bind(env, ty), a.e)), ty))
    [] e.op \in {"mkarray", "mkset"} ->
         LET arr == MakeArrayX([i \in 1 .. Len(e.xs) |-> CoerceX(L(e.xs[i]), T(e.xs[i]), ty.e)])
         IN IF e.op = "mkarray" THEN arr ELSE ToSetX(ToStreamX(arr))
    [] e.op = "mktuple" -> MakeTupleX([i \in 1 .. Len(e.xs) |-> L(e.xs[i])])
    [] e.op = "mkstruct" -> MakeStructX(e.ns, [i \in 1 .. Len(e.xs) |-> L(e.xs[i])])
    [] e.op = "mkdict" -> ToDictX(ToStreamX(MakeArrayX([i \in 1 .. Len(e.xs) |->
                              MakeTupleX(<<CoerceX(L(e.ks[i]), T(e.ks[i]), ty.key), CoerceX(L(e.xs[i]), T(e.xs[i]), ty.val)>>)])))
    [] e.op = "toset" -> IF T(e.a).k = "set" THEN L(e.a) ELSE ToSetX(ToStreamX(L(e.a)))
    [] e.op = "getf" -> GetFieldX(L(e.a), e.n)
    [] e.op = "sannot" -> InsertFieldsX(L(e.a), e.ns, [i \in 1 .. Len(e.xs) |-> L(e.xs[i])])
    [] e.op = "sselect" -> SelectFieldsX(L(e.a), e.ns)
    [] e.op = "sdrop" -> SelectFieldsX(L(e.a), ty.ns)
    [] e.op = "agg" -> IF AggName(e.f) # "" THEN AggOpX(AggName(e.f), <<CoerceX(L(e.a), T(e.a), IF e.f \in {"sum", "product", "max", "min"} THEN Proxy(T(e.a)) ELSE T(e.a))>>)
                       ELSE ApplyF("agg_" \o e.f, ty, <<L(e.a)>>)            \* built from other aggregators: not modelled
    [] e.op = "aggcount" -> AggOpX("Count", <<>>)
    [] e.op = "aggtake" -> AggOpX("Take", <<L(e.a)>>)
    [] e.op = "aggfilter" -> AggFilterX(L(e.c), L(e.a))
    [] e.op = "agggroup" -> AggGroupByX(L(e.k), L(e.a))
    [] e.op = "aggexplode" -> AggExplodeX(ToStreamX(L(e.a)), Lower(e.fb, Bind(env, T(e.a).e)))
    [] OTHER -> \* a method / function that becomes one registered-function call carrying the type the API computed
                ApplyF(e.op, ty, <<>>)

\* (6) the property inside the model
Agree(e, env) == LET t == Ty(e, env) IN t = Reject \/ IrTy(Lower(e, env)) = t

(* ------------------------------------------------------------------------------------------------ *)
(* (7) Registered functions.  An (Apply name (type args) return-type args...) node is resolved by the engine  *)
(*     against the signatures registered under `name` (IRFunctionRegistry; the declarations are read from the *)
(*     working tree, checks/_fetypes_registry.py).  A signature [kind, tparams, params, ret] has PATTERN types: *)
(*     type terms that may contain variables [k |-> "var", n |-> name, c |-> condition].                       *)
(*     Unification (Type.unify / TVariable.unify / Box.unify of the engine): a variable binds to the first      *)
(*     concrete type it meets - if the type meets the variable's condition - and must meet the SAME type at     *)
(*     every later occurrence; constructors unify component-wise (struct: same field names in the same order). *)
(*     Bindings: a sequence of [n |-> variable name, t |-> type].                                              *)
NoMatch == [ok |-> FALSE, b |-> <<>>]
Bound(b, n) == \E i \in 1 .. Len(b) : b[i].n = n
ValOf(b, n) == b[CHOOSE i \in 1 .. Len(b) : b[i].n = n].t
CondOK(c, t) == CASE c = "" -> TRUE
                  [] c = "numeric" -> t.k \in Numeric                       \* TVariable.condMap: int32 int64 float32 float64
                  [] c = "int32" -> t = I32  [] c = "int64" -> t = I64  [] c = "float32" -> t = F32  [] c = "float64" -> t = F64
                  [] c = "struct" -> t.k = "struct"  [] c = "tuple" -> t.k = "tuple"
                  [] OTHER -> FALSE                                         \* locus / ndarray conditions: none of the universe's types
RECURSIVE UnifyP(_, _, _), UnifySeq(_, _, _)
UnifyP(p, c, b) ==
  IF p.k = "var"
  THEN IF Bound(b, p.n) THEN (IF ValOf(b, p.n) = c THEN [ok |-> TRUE, b |-> b] ELSE NoMatch)
       ELSE IF CondOK(p.c, c) THEN [ok |-> TRUE, b |-> Append(b, [n |-> p.n, t |-> c])] ELSE NoMatch
  ELSE IF p.k # c.k THEN NoMatch
  ELSE CASE p.k \in {"array", "set", "stream", "interval"} -> UnifyP(p.e, c.e, b)
         [] p.k = "dict" -> LET r == UnifyP(p.key, c.key, b) IN IF r.ok THEN UnifyP(p.val, c.val, r.b) ELSE NoMatch
         [] p.k = "tuple" -> IF Len(p.ts) = Len(c.ts) THEN UnifySeq(p.ts, c.ts, b) ELSE NoMatch
         [] p.k = "struct" -> IF p.ns = c.ns THEN UnifySeq(p.ts, c.ts, b) ELSE NoMatch
         [] OTHER -> IF p = c THEN [ok |-> TRUE, b |-> b] ELSE NoMatch
UnifySeq(ps, cs, b) ==
  IF Len(ps) = 0 THEN [ok |-> TRUE, b |-> b]
  ELSE LET r == UnifyP(ps[1], cs[1], b) IN IF r.ok THEN UnifySeq(Tail(ps), Tail(cs), r.b) ELSE NoMatch

\* the engine's lookup: type arguments and argument types unify (one set of bindings); a compiled ("jvm") function is
\* also selected by its return type, the declared return type of an IR-defined ("ir") function is not consulted
ArgsUnify(sig, targs, args) ==
  IF Len(sig.tparams) # Len(targs) \/ Len(sig.params) # Len(args) THEN NoMatch
  ELSE LET r == UnifySeq(sig.tparams, targs, <<>>) IN IF r.ok THEN UnifySeq(sig.params, args, r.b) ELSE NoMatch
Resolves(sig, targs, args, ret) ==
  LET r == ArgsUnify(sig, targs, args) IN r.ok /\ (sig.kind = "jvm" => UnifyP(sig.ret, ret, r.b).ok)
\* ... and the return type the node carries is the one the signature gives
GivesRet(sig, targs, args, ret) ==
  LET r == ArgsUnify(sig, targs, args) IN r.ok /\ UnifyP(sig.ret, ret, r.b).ok

\* A recorded Apply node x: name, targs, args, ret (concrete type terms), sigs (the registered signatures of that name)
ApplyWhy(x) ==
  LET n == Len(x.sigs)
      res == {i \in 1 .. n : Resolves(x.sigs[i], x.targs, x.args, x.ret)}
  IN IF res = {} THEN "no-signature"                          \* the engine: "No function found with the signature ..."
     ELSE IF Cardinality(res) > 1 THEN "ambiguous"             \* the engine: "Multiple functions found that satisfy ..."
     ELSE IF ~GivesRet(x.sigs[CHOOSE i \in res : TRUE], x.targs, x.args, x.ret) THEN "return-type-differs"
     ELSE ""
ApplyVerdict(u) ==
  LET xs == ndJsonDeserialize(IOEnv.FE_APPLIES)
      why == [i \in 1 .. Len(xs) |-> ApplyWhy(xs[i])]
  IN JsonSerialize(IOEnv.FE_VERDICT, [n |-> Len(xs), bad |-> SetToSeq({[i |-> i, why |-> why[i]] : i \in {j \in 1 .. Len(xs) : why[j] # ""}})])
\* self-test of the unifier (evaluated with the verdict): the shapes the collection functions use
ApplySelfTest ==
  LET T == [k |-> "var", n |-> "T", c |-> ""]  N == [k |-> "var", n |-> "T", c |-> "numeric"]
      rm == [kind |-> "ir", tparams |-> <<>>, params |-> <<TSet(T), T>>, ret |-> TSet(T)]
      sm == [kind |-> "ir", tparams |-> <<>>, params |-> <<TArr(N)>>, ret |-> N]
      pw == [kind |-> "jvm", tparams |-> <<>>, params |-> <<F64, F64>>, ret |-> F64]
  IN /\ Resolves(rm, <<>>, <<TSet(I64), I64>>, TSet(I64)) /\ ~Resolves(rm, <<>>, <<TSet(I64), I32>>, TSet(I64))
     /\ ~Resolves(rm, <<>>, <<TArr(I64), I64>>, TSet(I64)) /\ ~Resolves(rm, <<>>, <<TSet(I64)>>, TSet(I64))
     /\ Resolves(sm, <<>>, <<TArr(F32)>>, F32) /\ ~Resolves(sm, <<>>, <<TArr(TS)>>, TS) /\ ~GivesRet(sm, <<>>, <<TArr(F32)>>, F64)
     /\ Resolves(pw, <<>>, <<F64, F64>>, F64) /\ ~Resolves(pw, <<>>, <<F64, F64>>, F32) /\ ~Resolves(pw, <<>>, <<F64, I32>>, F64)

(* ------------------------------------------------------------------------------------------------ *)
(* The bounded universe.  Level 0 = quick tier, 1 = thorough tier (IOEnv.FE_LEVEL).                  *)
(* NOTE for TLC: zero-arity definitions are re-evaluated at every use; everything expensive takes a  *)
(* dummy argument and is bound once by LET.                                                          *)
Level == atoi(IOEnv.FE_LEVEL)

\* ---- Python values -------------------------------------------------------------------------------
LeafAll == {VInt(x) : x \in IntsI32 \cup IntsI64 \cup IntsHuge}
           \cup {VFloat(x) : x \in {"f1.5", "nan", "fint", "inf", "fzero"}} \cup {VBool("true"), VBool("false")}
           \cup {VStr("sa"), VStr("sempty"), VStr("suni")} \cup {VNone}
LeafR   == {VInt("one"), VInt("big"), VFloat("f1.5"), VBool("true"), VStr("sa"), VNone}
LeafK   == {VInt("one"), VInt("big"), VFloat("f1.5"), VStr("sa"), VStr("sb")}                  \* dict keys (1 == True in Python: no bool)
LeafV   == {VInt("one"), VFloat("f1.5"), VStr("sa"), VNone}
Seqs(S, n) == UNION {[1 .. k -> S] : k \in 0 .. n}
Containers(S, K, V2) ==
       {VList(xs) : xs \in Seqs(S, 2)} \cup {VTup(xs) : xs \in Seqs(S, 2)}
  \cup {VSet(<<a>>) : a \in S} \cup {VSet(<<>>)}
  \cup {VSet(<<q[1], q[2]>>) : q \in {r \in (S \ {VBool("true")}) \X (S \ {VBool("true")}) : r[1] # r[2]}}   \* True == 1 in Python
  \cup {VDict(<<>>, <<>>)} \cup {VDict(<<k>>, <<x>>) : k \in K, x \in S}
  \cup {VDict(<<q[1], q[2]>>, <<x, y>>) : q \in {r \in K \X K : r[1] # r[2]}, x \in V2, y \in V2}
  \cup {VStruct(<<>>, <<>>)} \cup {VStruct(<<"a">>, <<x>>) : x \in S} \cup {VStruct(<<"a", "b">>, <<x, y>>) : x \in S, y \in S}
Vals1(u) == Containers(LeafR, LeafK, LeafV)
\* representatives of level 1 that are nested once more
Rep1 == {VList(<<>>), VList(<<VInt("one")>>), VList(<<VFloat("f1.5")>>), VList(<<VInt("big")>>), VList(<<VStr("sa")>>),
         VList(<<VNone>>), VTup(<<VInt("one"), VStr("sa")>>), VTup(<<VFloat("f1.5"), VStr("sa")>>),
         VDict(<<VStr("sa")>>, <<VInt("one")>>), VDict(<<VStr("sa")>>, <<VInt("big")>>),
         VDict(<<VStr("sa"), VStr("sb")>>, <<VInt("one"), VStr("sa")>>),
         VStruct(<<"a">>, <<VInt("one")>>), VStruct(<<"a">>, <<VFloat("f1.5")>>), VStruct(<<"b">>, <<VStr("sa")>>),
         VStruct(<<"a">>, <<VNone>>), VStruct(<<"a", "b">>, <<VInt("one"), VStr("sa")>>),
         VStruct(<<"b", "a">>, <<VStr("sa"), VInt("big")>>), VInt("one"), VNone}
Hashable1 == {v \in Rep1 : v.c \in {"tuple", "int", "none"}}
Vals2(u) ==
       {VList(xs) : xs \in Seqs(Rep1, 2)} \cup {VTup(xs) : xs \in [1 .. 2 -> Rep1]}
  \cup {VSet(<<a>>) : a \in Hashable1} \cup {VSet(<<q[1], q[2]>>) : q \in {r \in Hashable1 \X Hashable1 : r[1] # r[2]}}
  \cup {VDict(<<VStr("sa")>>, <<x>>) : x \in Rep1} \cup {VDict(<<VStr("sa"), VStr("sb")>>, <<x, y>>) : x \in Rep1, y \in Rep1}
  \cup {VDict(<<VInt("one")>>, <<x>>) : x \in Rep1}
  \cup {VStruct(<<"a">>, <<x>>) : x \in Rep1} \cup {VStruct(<<"a", "b">>, <<x, y>>) : x \in Rep1, y \in Rep1}
\* depth 3 (thorough): a list / struct around selected depth-2 values
Rep2 == {VList(<<VList(<<VInt("one")>>), VList(<<VFloat("f1.5")>>)>>), VList(<<VList(<<VInt("one")>>), VList(<<>>)>>),
         VList(<<VStruct(<<"a">>, <<VInt("one")>>), VStruct(<<"b">>, <<VStr("sa")>>)>>),
         VStruct(<<"a">>, <<VList(<<VInt("big")>>)>>), VDict(<<VStr("sa")>>, <<VList(<<VInt("one")>>)>>),
         VList(<<VTup(<<VInt("one"), VStr("sa")>>)>>), VList(<<>>), VInt("one")}
Vals3(u) == {VList(xs) : xs \in Seqs(Rep2, 2)} \cup {VStruct(<<"a", "b">>, <<x, y>>) : x \in Rep2, y \in Rep2}
            \cup {VDict(<<VStr("sa"), VStr("sb")>>, <<x, y>>) : x \in Rep2, y \in Rep2}
LitVals(u) == LeafAll \cup Vals1(u) \cup Vals2(u) \cup (IF Level >= 1 THEN Vals3(u) ELSE {})

\* Python values that are falsy (bool(v) is False)
FalsyVals == {VInt("zero"), VFloat("fzero"), VBool("false"), VStr("sempty"), VList(<<>>), VTup(<<>>), VSet(<<>>), VDict(<<>>, <<>>),
              VStruct(<<>>, <<>>)}
\* explicit dtypes for hl.literal(v, t)
ExplicitTypes == {I32, I64, F32, F64, TB, TS, TArr(I32), TArr(I64), TArr(F64), TArr(TS), TSet(I32), TSet(F64),
                  TDict(TS, I32), TDict(TS, F64), TDict(I64, TS), TTup(<<I32, TS>>), TTup(<<F64, TS>>),
                  TStruct(<<"a">>, <<I32>>), TStruct(<<"a", "b">>, <<F64, TS>>), TStruct(<<"b", "a">>, <<TS, I64>>),
                  TArr(TArr(F64)), TArr(TStruct(<<"a">>, <<I64>>))}
ExplicitVals(u) == LeafAll \cup {v \in Vals1(u) : IF v.c \in {"list", "set", "tuple", "struct"} THEN Len(v.xs) <= (IF Level >= 1 THEN 2 ELSE 1)
                                                    ELSE Len(v.xs) <= 1}
                   \cup {VList(<<x>>) : x \in Rep1} \cup {VList(<<VInt("one"), VInt("i32maxp1")>>), VList(<<VInt("one"), VInt("huge")>>)}
                   \cup FalsyVals \cup {VList(<<x>>) : x \in FalsyVals} \cup {VStruct(<<"a">>, <<x>>) : x \in FalsyVals}

\* ---- expression programs ---------------------------------------------------------------------------
BaseRow  == TStruct(<<"idx", "x", "s", "a", "l", "b", "st">>, <<I32, F64, TS, TArr(I32), I64, TB, TStruct(<<"p", "q">>, <<I32, TS>>)>>)
BaseGlob == TStruct(<<"g">>, <<I32>>)
Env0     == Env(BaseRow, BaseGlob, <<>>)

LI(x) == Lit(VInt(x))  LF(x) == Lit(VFloat(x))  LS(x) == Lit(VStr(x))  LB(x) == Lit(VBool(x))
F32Atom == Conv("float32", LF("f1.5"))
AI32 == Lit(VList(<<VInt("one"), VInt("two")>>))   AF64 == Lit(VList(<<VFloat("f1.5")>>))   ASTR == Lit(VList(<<VStr("sa")>>))
SI32 == Lit(VSet(<<VInt("one")>>))                 DSI  == Lit(VDict(<<VStr("sa")>>, <<VInt("one")>>))
TUP  == Lit(VTup(<<VInt("one"), VStr("sa")>>))     STR  == Lit(VStruct(<<"a", "b">>, <<VInt("one"), VStr("sa")>>))
NumAtoms == {LI("one"), LI("big"), F32Atom, LF("f1.5"), LB("true"), NA(I32), AI32, Lit(VList(<<VInt("big")>>)), AF64,
             Lit(VList(<<VBool("true")>>)), Fld("row", "idx"), Fld("row", "x"), Fld("row", "l"), Fld("row", "b"), Fld("row", "a"),
             Fld("global", "g")}
OtherAtoms == {LS("sa"), Fld("row", "s"), ASTR, SI32, Lit(VSet(<<VStr("sa")>>)), DSI, Lit(VDict(<<VInt("one")>>, <<VStr("sa")>>)),
               TUP, STR, Fld("row", "st"), Lit(VList(<<VList(<<VInt("one")>>)>>)), Lit(VList(<<VStruct(<<"a">>, <<VInt("one")>>)>>)),
               Lit(VList(<<VTup(<<VStr("sa"), VInt("one")>>)>>)), NA(TArr(F64))}
Atoms   == NumAtoms \cup OtherAtoms
PyNum   == {Py(VInt("one")), Py(VInt("big")), Py(VFloat("f1.5")), Py(VBool("true")), Py(VList(<<VInt("one")>>)), Py(VList(<<VFloat("f1.5")>>))}
PyAll   == PyNum \cup {Py(VStr("sa")), Py(VInt("zero"))}
\* the pool for constructs that take two or more free operands (quadratic in the pool)
MembersQ == {LI("one"), LI("big"), LF("f1.5"), LB("true"), LS("sa"), Py(VInt("one")), Py(VFloat("f1.5")), Py(VStr("sa")),
             AI32, AF64, STR, Fld("row", "x")}
MembersT == MembersQ \cup {NA(I32), Py(VList(<<VInt("one")>>)), SI32, Fld("row", "idx"), TUP, F32Atom}
CondsQ == {LB("true"), Fld("row", "b"), LI("one")}
CondsT == CondsQ \cup {Cmp(">", Fld("row", "x"), Py(VInt("one"))), NA(TB)}

ArithOps == {"+", "-", "*", "/", "//", "%", "**"}
CmpOps   == {"<", "<=", ">", ">=", "==", "!="}
Unary    == {"neg", "not", "isdef", "len", "keys", "values", "key_set", "items", "toarray", "toset", "todict", "asum", "amax",
             "amean", "sorted", "range"}
Convs    == {"str", "int32", "int64", "float32", "float64", "bool", "int", "float"}
AggFns   == {"sum", "product", "mean", "max", "min", "collect", "collect_as_set", "counter", "any", "all", "count_where", "fraction"}

\* lambda bodies over the variable Var(d)
BodiesQ(d) == {Var(d), Bin("*", Var(d), Py(VFloat("f1.5"))), Bin("/", Var(d), Var(d)), Conv("str", Var(d)), Cmp(">", Var(d), Py(VInt("one"))),
               Mk("mkarray", <<Var(d)>>), MkStruct(<<"x">>, <<Var(d)>>), GetF(Var(d), "a"), U1("len", Var(d)), Bin("+", Var(d), Fld("row", "x"))}
Bodies(d) == IF Level = 0 THEN BodiesQ(d) ELSE {Var(d), Bin("+", Var(d), Py(VInt("one"))), Bin("*", Var(d), Py(VFloat("f1.5"))), Bin("/", Var(d), Var(d)),
              Conv("str", Var(d)), Cmp(">", Var(d), Py(VInt("one"))), Cmp("==", Var(d), Var(d)), Mk("mkarray", <<Var(d)>>),
              MkStruct(<<"x">>, <<Var(d)>>), GetF(Var(d), "a"), U1("len", Var(d)), Bin("+", Var(d), LS("sa")),
              Mk("mktuple", <<Var(d), Var(d)>>), Idx(Var(d), Py(VInt("zero"))), Bin("+", Var(d), Fld("row", "x")),
              Mk("mkset", <<Var(d)>>)}
FoldBodies(d) == {Bin("+", Var(d), Var(d + 1)), Bin("+", Var(d), Py(VFloat("f1.5"))), Var(d + 1), Var(d),
                  Bin("+", Var(d), U1("len", Var(d + 1))), X2("append", Var(d), Var(d + 1))}
Zeros == {Py(VInt("zero")), LI("one"), LI("big"), LF("f1.5"), Py(VFloat("f1.5")), LS("sa"), Lit(VList(<<VInt("one")>>))}
IdxArgs == {Py(VInt("zero")), Py(VInt("one")), LI("one"), LI("big"), Py(VStr("sa")), LS("sa"), Fld("row", "idx"), LF("f1.5")}

\* every one-call program over the pools:  N numeric-ish operands, A all operands, PP bare Python operands,
\* C collections, S structs, B boolean conditions, M members for the constructs with several free operands
CallsA(N, A, PP, C, S, B, M, ops, cmps) ==
       {Bin(o, a, b) : o \in ops, a \in N, b \in N} \cup {Bin(o, a, b) : o \in ops, a \in N, b \in PP} \cup {Bin(o, a, b) : o \in ops, a \in PP, b \in N}
  \cup {Cmp(o, a, b) : o \in cmps, a \in N, b \in N \cup PP} \cup {Cmp(o, a, b) : o \in {"<", "=="}, a \in A, b \in M}
  \cup {Log(o, a, b) : o \in {"&", "|"}, a \in B, b \in B \cup {Py(VBool("true"))}}
  \cup {U1(f, a) : f \in Unary, a \in A} \cup {Conv(f, a) : f \in Convs, a \in A}
  \cup {Cond(c, a, b) : c \in B, a \in M, b \in M} \cup {Coalesce(a, b) : a \in M \ PP, b \in M} \cup {OrMiss(c, a) : c \in B, a \in M \ PP}
  \cup {Idx(a, i) : a \in A, i \in IdxArgs}
  \cup {Slice(a, i, j) : a \in A, i \in {Py(VInt("zero")), LI("one")}, j \in {Py(VInt("one")), Fld("row", "idx"), LI("big")}}
CallsB(N, A, PP, C, S, B, M, ops, cmps) ==
       {Lam(f, a, b) : f \in {"map", "filter", "flatmap", "any", "all"}, a \in C, b \in Bodies(1)}
  \cup {Fold(a, b, z) : a \in C, b \in FoldBodies(1), z \in Zeros}
  \cup {X2(f, a, x) : f \in {"contains", "get", "append", "extend", "setadd", "union"}, a \in C, x \in M}
  \cup {Get2(a, x, d) : a \in C, x \in {Py(VStr("sa")), LI("one")}, d \in M}
  \cup {Mk(f, <<a>>) : f \in {"mkarray", "mkset", "mktuple"}, a \in M} \cup {Mk(f, <<a, b>>) : f \in {"mkarray", "mkset", "mktuple"}, a \in M, b \in M}
  \cup {MkStruct(<<"a", "b">>, <<a, b>>) : a \in M, b \in M} \cup {MkStruct(<<>>, <<>>)} \cup {Mk("mktuple", <<>>)}
  \cup {MkDict(<<k>>, <<x>>) : k \in {Py(VStr("sa")), LS("sa"), LI("one"), Py(VFloat("f1.5")), Fld("row", "s")}, x \in M}
  \cup {MkDict(<<k, j>>, <<x, y>>) : k \in {Py(VStr("sa")), LI("one")}, j \in {Py(VStr("sb")), LS("sa"), LI("big"), Py(VFloat("f1.5"))}, x \in M, y \in {LI("one"), Py(VFloat("f1.5")), LS("sa")}}
  \cup {GetF(s, n) : s \in S \cup {LI("one")}, n \in {"a", "b", "p", "zz"}}
  \cup {SAnnot(s, <<n>>, <<x>>) : s \in S, n \in {"a", "b", "c", "p"}, x \in M}
  \cup {SAnnot(s, <<n, m>>, <<x, y>>) : s \in S, n \in {"c", "b"}, m \in {"a", "d"}, x \in {LF("f1.5"), Py(VStr("sa"))}, y \in {LI("big"), Py(VList(<<VInt("one")>>))}}
  \cup {SSel(s, ns) : s \in S, ns \in {<<>>, <<"a">>, <<"b">>, <<"b", "a">>, <<"a", "b">>, <<"q", "p">>, <<"a", "a">>, <<"zz">>}}
  \cup {SDrop(s, ns) : s \in S, ns \in {<<"a">>, <<"b">>, <<"b", "a">>, <<"p">>, <<"zz">>}}
Calls(N, A, PP, C, S, B, M, ops, cmps) == CallsA(N, A, PP, C, S, B, M, ops, cmps) \cup CallsB(N, A, PP, C, S, B, M, ops, cmps)

\* collection methods that take an element (or a collection of elements) - every combination of numeric element and
\* item types, so that a coercion the API forgets shows as an Apply node no registered signature accepts
NumT == {I32, I64, F32, F64}
LitT(v, t) == [op |-> "litT", v |-> v, t |-> t]
SetOf(t)  == LitT(VSet(<<VInt("one"), VInt("two")>>), TSet(t))
ArrOf(t)  == LitT(VList(<<VInt("one"), VInt("two")>>), TArr(t))
DictOf(k, v) == LitT(VDict(<<VInt("one")>>, <<VInt("two")>>), TDict(k, v))
ItemOf(t) == CASE t = I32 -> LI("one") [] t = I64 -> Conv("int64", LI("one")) [] t = F32 -> F32Atom [] t = F64 -> LF("f1.5")
Items == {ItemOf(t) : t \in NumT} \cup {LB("true"), Py(VInt("one")), Py(VInt("big")), Py(VFloat("f1.5")), LS("sa"), NA(I32)}
NumColl(u) ==
       {X2(f, SetOf(t), x) : f \in {"setadd", "remove", "contains"}, t \in NumT, x \in Items}
  \cup {X2(f, SetOf(t), SetOf(w)) : f \in {"union", "difference", "intersection", "is_subset"}, t \in NumT, w \in NumT}
  \cup {X2(f, SetOf(t), Py(VSet(<<VInt("one")>>))) : f \in {"union", "difference", "intersection", "is_subset"}, t \in NumT}
  \cup {X2(f, ArrOf(t), x) : f \in {"contains", "append"}, t \in NumT, x \in Items}
  \cup {X2("extend", ArrOf(t), ArrOf(w)) : t \in NumT, w \in NumT} \cup {X2("extend", ArrOf(t), Py(VList(<<VInt("one")>>))) : t \in NumT}
  \cup {Idx(ArrOf(t), x) : t \in {I32, F64}, x \in Items}
  \cup {X2(f, DictOf(k, F64), x) : f \in {"get", "contains"}, k \in NumT, x \in Items} \cup {Idx(DictOf(k, I64), x) : k \in NumT, x \in Items}
  \cup {Get2(DictOf(k, v), ItemOf(k), x) : k \in {I32, I64}, v \in NumT, x \in Items}
  \cup {U1(f, DictOf(k, v)) : f \in {"key_set", "keys", "values", "items"}, k \in {I32, F64}, v \in {I64, F32}}
  \cup {Mk(f, <<a, b>>) : f \in {"mkset", "mkarray"}, a \in Items, b \in Items}
  \cup {MkDict(<<a>>, <<b>>) : a \in Items, b \in Items}
  \cup {MkDict(<<a, b>>, <<c, d>>) : a \in {ItemOf(I32), Py(VFloat("f1.5"))}, b \in {ItemOf(I64), ItemOf(I32), Py(VInt("big"))},
                                     c \in {ItemOf(I32), ItemOf(F32)}, d \in {Py(VInt("one")), ItemOf(F64), ItemOf(I64)}}

Colls0   == {a \in Atoms : Ty(a, Env0).k \in {"array", "set", "dict"}}
Structs0 == {a \in Atoms : Ty(a, Env0).k = "struct"}
Level1A(u) == CallsA(NumAtoms \cup {LS("sa"), ASTR, SI32}, Atoms, PyAll, Colls0, Structs0,
                     IF Level >= 1 THEN CondsT ELSE CondsQ, IF Level >= 1 THEN MembersT ELSE MembersQ,
                     IF Level >= 1 THEN ArithOps ELSE {"+", "/", "**"}, IF Level >= 1 THEN CmpOps ELSE {"<", "!="})
Level1B(u) == CallsB(NumAtoms \cup {LS("sa"), ASTR, SI32}, Atoms, PyAll, Colls0, Structs0,
                     IF Level >= 1 THEN CondsT ELSE CondsQ, IF Level >= 1 THEN MembersT ELSE MembersQ, {}, {})
              \cup NumColl(u)
Level1(u) == Level1A(u) \cup Level1B(u)

\* level 2: the operands are themselves calls.  Mid: hand-picked one-call programs, one or two per result type,
\* produced by different API functions
Mid == {Bin("+", LI("one"), Py(VInt("one"))),                         \* int32
        U1("len", AI32),                                              \* int32
        Bin("*", Fld("row", "l"), LB("true")),                        \* int64
        Bin("+", F32Atom, LI("big")),                                 \* float32
        Bin("/", Fld("row", "idx"), LI("one")),                       \* float64
        Idx(AF64, Py(VInt("zero"))),                                  \* float64
        Cmp("<", Fld("row", "x"), Py(VInt("one"))),                   \* bool
        Conv("str", Fld("row", "idx")),                               \* str
        Lam("map", AI32, Bin("+", Var(1), Py(VInt("one")))),          \* array<int32>
        Lam("map", AI32, Bin("*", Var(1), Py(VFloat("f1.5")))),       \* array<float64>
        Bin("+", Fld("row", "a"), LI("big")),                         \* array<int64>
        Lam("map", AI32, Conv("str", Var(1))),                        \* array<str>
        Lam("map", AI32, Cmp(">", Var(1), Py(VInt("one")))),          \* array<bool>
        U1("toset", AI32),                                            \* set<int32>
        Lam("map", SI32, Conv("str", Var(1))),                        \* set<str>
        U1("keys", DSI),                                              \* array<str>
        MkDict(<<Py(VStr("sa"))>>, <<Fld("row", "x")>>),              \* dict<str, float64>
        Mk("mktuple", <<Fld("row", "idx"), LS("sa")>>),               \* tuple(int32, str)
        MkStruct(<<"a", "b">>, <<LF("f1.5"), LS("sa")>>),             \* struct{a: float64, b: str}
        SAnnot(Fld("row", "st"), <<"c">>, <<LI("big")>>),             \* struct{p: int32, q: str, c: int64}
        SSel(STR, <<"b">>),                                           \* struct{b: str}
        Lam("map", AI32, MkStruct(<<"x">>, <<Var(1)>>)),              \* array<struct{x: int32}>
        U1("items", DSI),                                             \* array<tuple(str, int32)>
        Lam("map", AI32, Mk("mkarray", <<Var(1)>>)),                  \* array<array<int32>>
        Cond(Fld("row", "b"), LI("one"), LF("f1.5")),                 \* float64
        Coalesce(NA(I32), LI("big"))}                                 \* int64
MidQ == {e \in Mid : e.op \in {"bin", "cmp", "conv", "map", "mkstruct", "mktuple", "toset", "mkdict"}}
Level2(u) ==
  LET A  == IF Level >= 1 THEN Mid ELSE MidQ
      N  == {e \in A : IsArith(Ty(e, Env0))}
      C  == {e \in A : Ty(e, Env0).k \in {"array", "set", "dict"}}
      S  == {e \in A : Ty(e, Env0).k = "struct"}
      B  == {e \in A : Ty(e, Env0) = TB}
      M  == IF Level >= 1 THEN A ELSE {e \in A : e.op \in {"bin", "conv", "map", "mkstruct"}} \cup {Py(VInt("one"))}
  IN Calls(N, A, PyNum, C, S, B, M, IF Level >= 1 THEN {"+", "/", "**", "%"} ELSE {"+", "/"}, {"<"})

\* level 3 (thorough): calls over one representative level-2 program per result type of a fixed list
Typed(L) == {<<Ty(e, Env0), e>> : e \in L}
Targets == {I32, I64, F32, F64, TB, TS, TArr(I32), TArr(I64), TArr(F64), TArr(TS), TArr(TB), TSet(I32), TSet(TS), TDict(TS, F64),
            TTup(<<I32, TS>>), TStruct(<<"a", "b">>, <<F64, TS>>), TStruct(<<"b">>, <<TS>>), TArr(TArr(I32)), TArr(TStruct(<<"x">>, <<I32>>))}
Level3(u, L2) ==
  LET TP == {p \in Typed(L2) : p[1] \in Targets}
      A  == {(CHOOSE p \in TP : p[1] = t)[2] : t \in {p[1] : p \in TP}}
      N  == {e \in A : IsArith(Ty(e, Env0))}
      C  == {e \in A : Ty(e, Env0).k \in {"array", "set", "dict"}}
      S  == {e \in A : Ty(e, Env0).k = "struct"}
      B  == {e \in A : Ty(e, Env0) = TB}
  IN Calls(N, A, PyNum, C, S, B, A, {"+", "/"}, {"<"})

RECURSIVE TDepth(_)
TDepth(t) == CASE t.k \in {"array", "set"} -> 1 + TDepth(t.e)
               [] t.k = "dict" -> 1 + MaxOf({TDepth(t.key), TDepth(t.val)})
               [] t.k \in {"tuple", "struct"} -> 1 + MaxOf({0} \cup {TDepth(t.ts[i]) : i \in 1 .. Len(t.ts)})
               [] OTHER -> 0

\* aggregations: table.aggregate(<program>)
RowExprs == {Fld("row", n) : n \in {"idx", "x", "s", "a", "l", "b", "st"}}
            \cup {Bin("*", Fld("row", "idx"), Fld("row", "x")), Cmp(">", Fld("row", "x"), Py(VInt("one"))), Conv("float32", Fld("row", "x")),
                  Bin("+", Fld("row", "a"), Fld("row", "l")), LI("one"), Fld("global", "g"), MkStruct(<<"u">>, <<Fld("row", "l")>>),
                  Cond(Fld("row", "b"), Fld("row", "idx"), Fld("row", "l"))}
Aggs1(u) == {Agg(f, a) : f \in AggFns, a \in RowExprs} \cup {AggCount} \cup {AggTake(a) : a \in RowExprs}
AggReps == {AggCount, Agg("sum", Fld("row", "x")), Agg("sum", Fld("row", "idx")), Agg("collect", Fld("row", "s")), Agg("mean", Fld("row", "l")),
            Agg("max", Fld("row", "idx")), Agg("counter", Fld("row", "s")), Agg("any", Fld("row", "b")), Agg("sum", Fld("row", "a")),
            Agg("collect_as_set", Fld("row", "st")), AggTake(Fld("row", "x")), Agg("fraction", Fld("row", "b"))}
AggProgs(u) ==
  LET A1 == Aggs1(u)
      AR == IF Level >= 1 THEN AggReps ELSE {a \in AggReps : a.op = "aggcount" \/ IF a.op = "agg" THEN a.f \in {"sum", "collect", "max"} ELSE FALSE}
  IN A1 \cup {AggFilter(c, a) : c \in {Fld("row", "b"), Fld("row", "idx")}, a \in AR}
        \cup {AggGroup(k, a) : k \in {Fld("row", "s"), Fld("row", "st"), Bin("%", Fld("row", "idx"), Py(VInt("two")))}, a \in AR}
        \cup {AggExplode(a, f) : a \in {Fld("row", "a"), Fld("row", "s"), Lit(VList(<<VFloat("f1.5")>>))},
                                 f \in {Agg(g, Var(1)) : g \in {"sum", "collect", "max", "mean"}} \cup {AggCount}}
        \cup {Bin(o, a, b) : o \in {"+", "/"}, a \in AR, b \in AR \cup {Py(VInt("one")), Fld("global", "g")}}
        \cup {Cmp(">", a, Py(VInt("one"))) : a \in AR} \cup {U1("len", a) : a \in AR}
        \cup {MkStruct(<<"n", "m">>, <<a, b>>) : a \in {AggCount, Agg("sum", Fld("row", "x"))}, b \in AR}

(* ------------------------------------------------------------------------------------------------ *)
(* The property inside the model, checked on the whole universe before any binding                   *)
LiteralOK(v) == LET t == Imp(v) IN t = Reject \/ (IsType(t) /\ Satisfies(v, t))

\* IOEnv.FE_PART selects what one TLC process computes (the parts run side by side):
\*   "lits" | "l1a" | "l1b" | "l2"    write that part of the universe (after checking LiteralOK / well-formed types)
\*   "agree_l1a" | "agree_l1b" | "agree_l2"   check Agree on that part
Gen(u) ==
  LET part == IOEnv.FE_PART IN
  IF part = "lits"
  THEN LET vals == LitVals(u)
           lits == {[kind |-> "lit", v |-> v] : v \in vals}
                   \cup {[kind |-> "litT", v |-> v, t |-> t] : v \in ExplicitVals(u), t \in ExplicitTypes}
       IN /\ \A v \in vals : LiteralOK(v)
          /\ PrintT(<<"universe", "lits", Cardinality(vals), Cardinality(lits)>>)
          /\ ndJsonSerialize(IOEnv.FE_OUT, SetToSeq(lits))
  ELSE LET base  == IF part \in {"l1a", "agree_l1a"} THEN "l1a" ELSE IF part \in {"l1b", "agree_l1b"} THEN "l1b" ELSE "l2"
           exprs == IF base = "l1a" THEN Level1A(u) ELSE IF base = "l1b" THEN Level1B(u)
                    ELSE LET l2 == Level2(u) IN l2 \cup (IF Level >= 1 THEN Level3(u, l2) ELSE {})
           aggs  == IF base = "l2" THEN AggProgs(u) ELSE {}
       IN IF part \in {"agree_l1a", "agree_l1b", "agree_l2"}
          THEN \* the property inside the model: the IR the API builds has, by the IR's own rules, the type the API reports
               LET bad == {e \in exprs \cup aggs : ~Agree(e, Env0)}
               IN /\ PrintT(<<"agree", part, Cardinality(exprs \cup aggs), Cardinality({e \in exprs \cup aggs : Ty(e, Env0) # Reject})>>)
                  /\ (bad = {} \/ (PrintT(<<"disagree", CHOOSE e \in bad : TRUE>>) /\ FALSE))
          ELSE /\ \A e \in exprs \cup aggs : LET t == Ty(e, Env0) IN t = Reject \/ IsType(t)
               /\ PrintT(<<"universe", part, Cardinality(exprs), Cardinality(aggs)>>)
               /\ ndJsonSerialize(IOEnv.FE_OUT, SetToSeq({[kind |-> "expr", e |-> e] : e \in exprs} \cup {[kind |-> "agg", e |-> e] : e \in aggs}))

(* ------------------------------------------------------------------------------------------------ *)
(* Verdict.  A recorded case x:                                                                        *)
(*   kind "lit" | "litT" | "expr" | "agg";  st  "ok" | "rej" | "assert" | "backend"                    *)
(*   rep   the type the front end reports (Expression.dtype)          } type terms; [k |-> "none"] when *)
(*   ir    the type carried by the IR (Expression._ir.typ)            } st # "ok"                       *)
(*   loc   number of IR nodes whose rule, applied to the children's types, gives another type           *)
(*   deep  "" or the assertion that failed in the code's whole-tree recomputation                       *)
(*   imp   (literals) the type impute_type returns, tc / enc: the type's own typecheck / encoder accept *)
WhyLit(x) ==
  IF x.st = "assert" THEN "assert"
  ELSE IF x.st # "ok" THEN ""
  ELSE IF x.rep # x.ir THEN "reported-vs-ir"
  ELSE IF ~IsType(x.rep) THEN "not-a-type"
  ELSE IF ~Satisfies(x.v, x.rep) THEN "literal-unsatisfied"
  ELSE IF ~x.tc THEN "literal-typecheck"
  ELSE IF ~x.enc THEN "literal-unencodable"
  ELSE IF x.kind = "litT" THEN (IF x.rep # x.t THEN "literal-dtype-ignored" ELSE "")
  ELSE IF x.imp.k # "none" /\ x.imp # x.rep THEN "literal-vs-impute_type"
  ELSE LET t == Imp(x.v) IN IF t # Reject /\ IF t # Reject THEN ~EqPerm(t, x.rep) ELSE FALSE THEN "spec-impute" ELSE ""
\* impute_type called directly: whatever it returns must be satisfied by the value
WhyImp(x) == IF x.kind = "lit" /\ x.imp.k # "none" /\ IF x.imp.k # "none" THEN IsType(x.imp) /\ ~Satisfies(x.v, x.imp) ELSE FALSE
             THEN "impute-unsatisfied" ELSE ""
WhyExpr(x, t) ==
  IF x.st = "assert" THEN "assert"
  ELSE IF x.st # "ok" THEN ""
  ELSE IF x.rep # x.ir THEN "reported-vs-ir"
  ELSE IF x.loc > 0 THEN "ir-node"
  ELSE IF x.deep # "" THEN "ir-deep"
  ELSE IF t # Reject /\ t # x.rep THEN "spec" ELSE ""
\* -> [why |-> "" or the reason the case is bad, sa |-> the specification accepts the program]
Judge(x) ==
  IF x.kind = "lit" THEN [why |-> IF WhyImp(x) # "" THEN WhyImp(x) ELSE WhyLit(x), sa |-> Imp(x.v) # Reject]
  ELSE IF x.kind = "litT" THEN [why |-> WhyLit(x), sa |-> Satisfies(x.v, x.t)]
  ELSE LET t == Ty(x.e, Env0) IN [why |-> WhyExpr(x, t), sa |-> t # Reject]

Verdict(u) ==
  LET cases == ndJsonDeserialize(IOEnv.FE_CASES)
      n     == Len(cases)
      jd    == [i \in 1 .. n |-> Judge(cases[i])]
      why   == [i \in 1 .. n |-> jd[i].why]
      sa    == [i \in 1 .. n |-> jd[i].sa]
      bad   == {i \in 1 .. n : why[i] # ""}
  IN JsonSerialize(IOEnv.FE_VERDICT,
       [n |-> n,
        accepted |-> Cardinality({i \in 1 .. n : cases[i].st = "ok"}),
        spec_accepts |-> Cardinality({i \in 1 .. n : sa[i]}),
        both_accept |-> Cardinality({i \in 1 .. n : sa[i] /\ cases[i].st = "ok"}),
        spec_only |-> SetToSeq({i \in 1 .. n : sa[i] /\ cases[i].st = "rej"}),
        impl_only |-> SetToSeq({i \in 1 .. n : ~sa[i] /\ cases[i].st = "ok"}),
        bad |-> SetToSeq({[i |-> i, why |-> why[i]] : i \in bad})])
=============================================================================
