------------------------ MODULE FrontEndTypesApply ------------------------
(* TLC judges every distinct Apply node recorded from the IR the real front end built: some registered signature of
   that name must unify with the node's type arguments and argument types (FrontEndTypes!ApplyWhy). *)
EXTENDS FrontEndTypes
ASSUME ApplySelfTest
ASSUME ApplyVerdict(0)
=============================================================================
