------------------------- MODULE FrontEndTypesGen -------------------------
(* TLC evaluates the universe of C36 (literal values, expression programs, aggregation programs), checks the
   property on the model (LiteralOK, well-formedness of every predicted type) and writes the programs. *)
EXTENDS FrontEndTypes
ASSUME Gen(0)
=============================================================================
