-------------------------- MODULE FrontEndMatrix --------------------------
(* C36, MatrixTable half: the type a MatrixTable REPORTS (globals, row, col, entry, row_key, col_key) after every
   API call equals the type IMPLIED BY THE MatrixIR the call builds; the tables derived from it (rows(), cols(),
   entries(), localize_entries()) have the types implied by MatrixRowsTable / MatrixColsTable / MatrixEntriesTable /
   CastMatrixToTable.

       hail/python/hail/matrixtable.py   annotate_rows/cols/entries/globals, select_*, key_rows_by, key_cols_by, drop,
                                         rename, filter_*, transmute_*, explode_rows/cols, group_rows_by / group_cols_by
                                         (..).aggregate, annotate_rows(x = table[mt.row_key]), add_row_index, add_col_index
       hail/python/hail/ir/matrix_ir.py  MatrixMapRows, MatrixMapCols, MatrixMapEntries, MatrixMapGlobals, MatrixKeyRowsBy,
                                         MatrixExplodeRows/Cols, MatrixAggregateRowsByKey/ColsByKey, MatrixAnnotateRowsTable/
                                         ColsTable, MatrixRename, MatrixFilter* ._compute_type;  table_ir.py Matrix*Table

   A MATRIX TYPE is [g, row, col, entry |-> struct types, rk, ck |-> key field name sequences].
   State: fe (what the API documents / reports), ir (what the MatrixIR nodes imply), two separately written rule sets
   as in FrontEndTables; proj = the table types derived from fe (API rule) next to those derived from ir (IR rule).
   Property: C36M_Agree (fe = ir, derived tables agree), C36M_WF (well-formed: field names are unique across the four
   parts, keys are fields).                                                                                   *)
EXTENDS FrontEndTypes
CONSTANTS RowNew, ColNew, EntryNew,   \* names for new fields of each part
          RowTpl, ColTpl, EntryTpl, AggTplNames,
          MaxSteps, MaxFields
VARIABLES fe, ir, proj, n
vars == <<fe, ir, proj, n>>

MT(g, row, col, entry, rk, ck) == [g |-> g, row |-> row, col |-> col, entry |-> entry, rk |-> rk, ck |-> ck]
TT(g, row, key) == [g |-> g, row |-> row, key |-> key]
EmptyS == TStruct(<<>>, <<>>)

(* ---- templates ------------------------------------------------------------------------------------------ *)
R(f) == Fld("row", f)   C(f) == Fld("col", f)   E(f) == Fld("entry", f)
Tpl(x) ==
  CASE x = "one"     -> LI("one")
    [] x = "flt"     -> Py(VFloat("f1.5"))
    [] x = "str"     -> LS("sa")
    [] x = "ridxmul" -> Bin("*", R("row_idx"), Py(VFloat("f1.5")))
    [] x = "ridxstr" -> Conv("str", R("row_idx"))
    [] x = "ra"      -> R("ra")
    [] x = "arr_ra"  -> Mk("mkarray", <<R("ra")>>)
    [] x = "arr_ridx" -> Mk("mkarray", <<R("row_idx"), LI("one")>>)
    [] x = "arr_cidx" -> Mk("mkarray", <<C("col_idx")>>)
    [] x = "g"       -> Fld("global", "g")
    [] x = "cidxstr" -> Conv("str", C("col_idx"))
    [] x = "cidxmod" -> Bin("%", C("col_idx"), Py(VInt("two")))
    [] x = "ca"      -> C("ca")
    [] x = "prod"    -> Bin("*", R("row_idx"), C("col_idx"))
    [] x = "eplusra" -> Bin("+", E("e"), R("ra"))
    [] x = "e"       -> E("e")
    [] x = "estruct" -> MkStruct(<<"u">>, <<E("e")>>)
    [] x = "ridxmod" -> Bin("%", R("row_idx"), Py(VInt("two")))
AggTpl(x) ==
  CASE x = "count"    -> AggCount
    [] x = "sume"     -> Agg("sum", E("e"))
    [] x = "collecte" -> Agg("collect", E("e"))
    [] x = "meane"    -> Agg("mean", E("e"))
    [] x = "maxcidx"  -> Agg("max", C("col_idx"))
AllTpl == {"one", "flt", "str", "ridxmul", "ridxstr", "ra", "arr_ra", "arr_ridx", "arr_cidx", "g", "cidxstr", "cidxmod", "ca", "prod", "eplusra", "e", "estruct", "ridxmod"}
AllAgg == {"count", "sume", "collecte", "meane", "maxcidx"}
ASSUME IF "FE_TPL" \in DOMAIN IOEnv
       THEN JsonSerialize(IOEnv.FE_TPL, [tpl |-> [x \in AllTpl |-> Tpl(x)], agg |-> [x \in AllAgg |-> AggTpl(x)]])
       ELSE TRUE

\* what an expression may read, by the part of the matrix table it is evaluated for
RowEnv(m)   == EnvM(m.row, EmptyS, EmptyS, m.g, <<>>)
ColEnv(m)   == EnvM(EmptyS, m.col, EmptyS, m.g, <<>>)
EntryEnv(m) == EnvM(m.row, m.col, m.entry, m.g, <<>>)
GlobEnv(m)  == EnvM(EmptyS, EmptyS, EmptyS, m.g, <<>>)
\* aggregations per row run over the columns (and per column over the rows): everything is readable inside them
AggEnv(m)   == EntryEnv(m)

Other(w) == CASE w = "T1" -> TT(TStruct(<<"gg">>, <<I32>>), TStruct(<<"idx", "y", "a">>, <<I32, I32, TS>>), <<"idx">>)
              [] w = "T2" -> TT(EmptyS, TStruct(<<"idx", "ks", "v">>, <<I32, TS, F64>>), <<"ks">>)
ValT(t) == DropFs(t.row, Rng(t.key))

\* (the typing rule is the expensive part of every guard: not evaluated once the step bound is reached)
TyE(e, env) == IF n < MaxSteps THEN Ty(e, env) ELSE Reject

AllNames(m) == Rng(m.g.ns) \cup Rng(m.row.ns) \cup Rng(m.col.ns) \cup Rng(m.entry.ns)
WF(m) == /\ \A s \in {m.g, m.row, m.col, m.entry} : IsType(s) /\ s.k = "struct"
         /\ Distinct(m.rk) /\ Distinct(m.ck)
         /\ \A i \in 1 .. Len(m.rk) : HasF(m.row, m.rk[i])
         /\ \A i \in 1 .. Len(m.ck) : HasF(m.col, m.ck[i])
         /\ Len(m.g.ns) + Len(m.row.ns) + Len(m.col.ns) + Len(m.entry.ns) = Cardinality(AllNames(m))     \* names are unique overall
Small(m) == Len(m.row.ns) <= MaxFields /\ Len(m.col.ns) <= MaxFields /\ Len(m.entry.ns) <= MaxFields /\ Len(m.g.ns) <= 2
            /\ \A s \in {m.row, m.col, m.entry} : TDepth(s) <= 2

(* ---- derived tables --------------------------------------------------------------------------------------- *)
\* API: rows() "a table of the row fields keyed by the row key", cols() likewise, entries() "row fields, column fields
\* and entry fields, keyed by row key then column key", localize_entries(e, c): "entries as an array field e of the
\* rows, the columns as an array global c"
FeProj(m) == [rows |-> TT(m.g, m.row, m.rk), cols |-> TT(m.g, m.col, m.ck),
              entries |-> TT(m.g, TStruct(m.row.ns \o m.col.ns \o m.entry.ns, m.row.ts \o m.col.ts \o m.entry.ts), m.rk \o m.ck),
              localized |-> TT(InsertF(m.g, "cols", TArr(m.col)), InsertF(m.row, "ent", TArr(m.entry)), m.rk)]
\* IR: MatrixRowsTable / MatrixColsTable / MatrixEntriesTable / CastMatrixToTable
IR_MatrixRowsTable(c) == TT(c.g, c.row, c.rk)
IR_MatrixColsTable(c) == TT(c.g, c.col, c.ck)
IR_MatrixEntriesTable(c) == TT(c.g, ConcatS(ConcatS(c.row, c.col), c.entry), c.rk \o c.ck)
IR_CastMatrixToTable(c, en, cn) == TT(InsertF(c.g, cn, TArr(c.col)), InsertF(c.row, en, TArr(c.entry)), c.rk)
IrProj(c) == [rows |-> IR_MatrixRowsTable(c), cols |-> IR_MatrixColsTable(c), entries |-> IR_MatrixEntriesTable(c),
              localized |-> IR_CastMatrixToTable(c, "ent", "cols")]

(* ---- IR rules (matrix_ir.py) -------------------------------------------------------------------------------- *)
IR_InsertFields(old, ns, ts) == InsertFs(old, ns, ts)
IR_SelectFields(old, ns)     == SelectFs(old, ns)
IR_MatrixMapRows(c, newrow)  == [c EXCEPT !.row = newrow]
IR_MatrixMapCols(c, newcol, newkey) == [c EXCEPT !.col = newcol, !.ck = newkey]
IR_MatrixMapEntries(c, newentry) == [c EXCEPT !.entry = newentry]
IR_MatrixMapGlobals(c, newg) == [c EXCEPT !.g = newg]
IR_MatrixKeyRowsBy(c, keys)  == [c EXCEPT !.rk = keys]
IR_MatrixFilter(c)           == c
IR_MatrixExplodeRows(c, f)   == [c EXCEPT !.row = InsertF(c.row, f, FType(c.row, f).e)]
IR_MatrixExplodeCols(c, f)   == [c EXCEPT !.col = InsertF(c.col, f, FType(c.col, f).e)]
IR_MatrixAggregateRowsByKey(c, entryT, rowT) == [c EXCEPT !.row = ConcatS(SelectFs(c.row, c.rk), rowT), !.entry = entryT]
IR_MatrixAggregateColsByKey(c, entryT, colT) == [c EXCEPT !.col = ConcatS(SelectFs(c.col, c.ck), colT), !.entry = entryT]
IR_MatrixAnnotateRowsTable(c, t, root) == [c EXCEPT !.row = InsertF(c.row, root, ValT(t))]
IR_MatrixAnnotateColsTable(c, t, root) == [c EXCEPT !.col = InsertF(c.col, root, ValT(t))]
IR_MatrixRename(c, f) == MT(RenameS(c.g, f), RenameS(c.row, f), RenameS(c.col, f), RenameS(c.entry, f),
                            [i \in 1 .. Len(c.rk) |-> f[c.rk[i]]], [i \in 1 .. Len(c.ck) |-> f[c.ck[i]]])

(* ---- actions ------------------------------------------------------------------------------------------------- *)
Step(f, i) == /\ n < MaxSteps /\ WF(f) /\ Small(f)
              /\ fe' = f /\ ir' = i /\ n' = n + 1
              /\ proj' = [fe |-> FeProj(f), ir |-> IrProj(i)]
Fresh(m, nm, own) == nm \notin (AllNames(m) \ Rng(own.ns))     \* a new name, or an existing field of the same part

\* mt.annotate_rows(nm = Tpl(x))            ->  MatrixMapRows(mt, InsertFields(va, nm -> x))
AnnotateRows(nm, x) ==
  LET ty == TyE(Tpl(x), RowEnv(fe)) IN
  /\ ty # Reject /\ Fresh(fe, nm, fe.row) /\ nm \notin Rng(fe.rk)
  /\ Step([fe EXCEPT !.row = InsertF(fe.row, nm, ty)],
          IR_MatrixMapRows(ir, IR_InsertFields(ir.row, <<nm>>, <<TyE(Tpl(x), RowEnv(ir))>>)))
\* mt.annotate_rows(nm = AggTpl(ax))        an aggregation over the columns of each row
AnnotateRowsAgg(nm, ax) ==
  LET ty == TyE(AggTpl(ax), AggEnv(fe)) IN
  /\ ty # Reject /\ Fresh(fe, nm, fe.row) /\ nm \notin Rng(fe.rk)
  /\ Step([fe EXCEPT !.row = InsertF(fe.row, nm, ty)],
          IR_MatrixMapRows(ir, IR_InsertFields(ir.row, <<nm>>, <<TyE(AggTpl(ax), AggEnv(ir))>>)))
AnnotateCols(nm, x) ==
  LET ty == TyE(Tpl(x), ColEnv(fe)) IN
  /\ ty # Reject /\ Fresh(fe, nm, fe.col) /\ nm \notin Rng(fe.ck)
  /\ Step([fe EXCEPT !.col = InsertF(fe.col, nm, ty)],
          IR_MatrixMapCols(ir, IR_InsertFields(ir.col, <<nm>>, <<TyE(Tpl(x), ColEnv(ir))>>), ir.ck))
AnnotateColsAgg(nm, ax) ==
  LET ty == TyE(AggTpl(ax), AggEnv(fe)) IN
  /\ ty # Reject /\ Fresh(fe, nm, fe.col) /\ nm \notin Rng(fe.ck)
  /\ Step([fe EXCEPT !.col = InsertF(fe.col, nm, ty)],
          IR_MatrixMapCols(ir, IR_InsertFields(ir.col, <<nm>>, <<TyE(AggTpl(ax), AggEnv(ir))>>), ir.ck))
AnnotateEntries(nm, x) ==
  LET ty == TyE(Tpl(x), EntryEnv(fe)) IN
  /\ ty # Reject /\ Fresh(fe, nm, fe.entry)
  /\ Step([fe EXCEPT !.entry = InsertF(fe.entry, nm, ty)],
          IR_MatrixMapEntries(ir, IR_InsertFields(ir.entry, <<nm>>, <<TyE(Tpl(x), EntryEnv(ir))>>)))
AnnotateGlobals(nm, x) ==
  LET ty == TyE(Tpl(x), GlobEnv(fe)) IN
  /\ ty # Reject /\ Fresh(fe, nm, fe.g)
  /\ Step([fe EXCEPT !.g = InsertF(fe.g, nm, ty)],
          IR_MatrixMapGlobals(ir, IR_InsertFields(ir.g, <<nm>>, <<TyE(Tpl(x), GlobEnv(ir))>>)))
\* mt.select_rows(*names) / select_cols / select_entries: the key fields stay (first), entries have no key
SelectRows(names) ==
  /\ Distinct(names) /\ \A i \in 1 .. Len(names) : HasF(fe.row, names[i]) /\ names[i] \notin Rng(fe.rk)
  /\ Step([fe EXCEPT !.row = SelectFs(fe.row, fe.rk \o names)], IR_MatrixMapRows(ir, IR_SelectFields(ir.row, ir.rk \o names)))
SelectCols(names) ==
  /\ Distinct(names) /\ \A i \in 1 .. Len(names) : HasF(fe.col, names[i]) /\ names[i] \notin Rng(fe.ck)
  /\ Step([fe EXCEPT !.col = SelectFs(fe.col, fe.ck \o names)], IR_MatrixMapCols(ir, IR_SelectFields(ir.col, ir.ck \o names), ir.ck))
SelectEntries(names, nm, x) ==
  LET ty == IF x = "" THEN TB ELSE TyE(Tpl(x), EntryEnv(fe)) IN
  /\ ty # Reject /\ Distinct(names) /\ \A i \in 1 .. Len(names) : HasF(fe.entry, names[i])
  /\ (x # "" => nm \notin Rng(names) /\ Fresh(fe, nm, fe.entry))
  /\ LET base == SelectFs(fe.entry, names)  ibase == IR_SelectFields(ir.entry, names) IN
     Step([fe EXCEPT !.entry = IF x = "" THEN base ELSE InsertF(base, nm, ty)],
          IR_MatrixMapEntries(ir, IF x = "" THEN ibase ELSE IR_InsertFields(ibase, <<nm>>, <<TyE(Tpl(x), EntryEnv(ir))>>)))
\* mt.key_rows_by(*names) / key_rows_by(nm = Tpl(x)) / key_cols_by(..)
KeyRowsBy(names) ==
  /\ Distinct(names) /\ \A i \in 1 .. Len(names) : HasF(fe.row, names[i])
  /\ Step([fe EXCEPT !.rk = names], IR_MatrixKeyRowsBy(ir, names))
KeyRowsByExpr(nm, x) ==
  LET ty == TyE(Tpl(x), RowEnv(fe)) IN
  /\ ty # Reject /\ Fresh(fe, nm, fe.row)
  /\ Step([fe EXCEPT !.row = InsertF(fe.row, nm, ty), !.rk = <<nm>>],
          IR_MatrixKeyRowsBy(IR_MatrixMapRows(IR_MatrixKeyRowsBy(ir, <<>>), IR_InsertFields(ir.row, <<nm>>, <<TyE(Tpl(x), RowEnv(ir))>>)), <<nm>>))
KeyColsBy(names) ==
  /\ Distinct(names) /\ \A i \in 1 .. Len(names) : HasF(fe.col, names[i])
  /\ Step([fe EXCEPT !.ck = names], IR_MatrixMapCols(ir, ir.col, names))
KeyColsByExpr(nm, x) ==
  LET ty == TyE(Tpl(x), ColEnv(fe)) IN
  /\ ty # Reject /\ Fresh(fe, nm, fe.col)
  /\ Step([fe EXCEPT !.col = InsertF(fe.col, nm, ty), !.ck = <<nm>>],
          IR_MatrixMapCols(ir, IR_InsertFields(ir.col, <<nm>>, <<TyE(Tpl(x), ColEnv(ir))>>), <<nm>>))
\* mt.drop(*D): fields of any part, not key fields
Drop(D) ==
  /\ D # {} /\ D \subseteq AllNames(fe) /\ D \cap (Rng(fe.rk) \cup Rng(fe.ck)) = {}
  /\ LET keep(s) == SelectSeq(s.ns, LAMBDA f : f \notin D) IN
     Step(MT(DropFs(fe.g, D), DropFs(fe.row, D), DropFs(fe.col, D), DropFs(fe.entry, D), fe.rk, fe.ck),
          IR_MatrixMapGlobals(IR_MatrixMapEntries(IR_MatrixMapCols(IR_MatrixMapRows(ir, IR_SelectFields(ir.row, keep(ir.row))),
                                                                    IR_SelectFields(ir.col, keep(ir.col)), ir.ck),
                                                  IR_SelectFields(ir.entry, keep(ir.entry))), IR_SelectFields(ir.g, keep(ir.g))))
Rename(from, to) ==
  /\ from \in AllNames(fe) /\ to \notin AllNames(fe)
  /\ LET m == [x \in AllNames(fe) |-> IF x = from THEN to ELSE x] IN
     Step(MT(RenameS(fe.g, m), RenameS(fe.row, m), RenameS(fe.col, m), RenameS(fe.entry, m),
             [i \in 1 .. Len(fe.rk) |-> m[fe.rk[i]]], [i \in 1 .. Len(fe.ck) |-> m[fe.ck[i]]]),
          IR_MatrixRename(ir, [x \in AllNames(ir) |-> IF x = from THEN to ELSE x]))
\* filter_rows / filter_cols / filter_entries with a boolean over the readable fields: the type does not change
Filter(part) ==
  /\ part \in {"rows", "cols", "entries"} /\ Step(fe, IR_MatrixFilter(ir))
\* mt.transmute_entries(nm = Tpl(x)): annotate, then drop the ENTRY fields the expression reads
RECURSIVE Refs(_, _)
Refs(e, src) ==
  IF e.op = "fld" THEN (IF e.src = src THEN {e.n} ELSE {})
  ELSE UNION {IF k \in {"a", "b", "c", "x", "z", "d", "i", "j", "fb", "k"} THEN Refs(e[k], src)
              ELSE IF k \in {"xs", "ks"} THEN UNION {Refs(e[k][i], src) : i \in 1 .. Len(e[k])} ELSE {} : k \in DOMAIN e \ {"op", "o", "f", "v", "t", "n", "ns", "src"}}
TransmuteEntries(nm, x) ==
  LET ty == TyE(Tpl(x), EntryEnv(fe))  refs == Refs(Tpl(x), "entry") \ {nm} IN
  /\ ty # Reject /\ Fresh(fe, nm, fe.entry)
  /\ Step([fe EXCEPT !.entry = DropFs(InsertF(fe.entry, nm, ty), refs)],
          LET ins == IR_InsertFields(ir.entry, <<nm>>, <<TyE(Tpl(x), EntryEnv(ir))>>)
          IN IR_MatrixMapEntries(ir, IR_SelectFields(ins, SelectSeq(ins.ns, LAMBDA f : f \notin refs))))
TransmuteRows(nm, x) ==
  LET ty == TyE(Tpl(x), RowEnv(fe))  refs == (Refs(Tpl(x), "row") \ {nm}) \ Rng(fe.rk) IN
  /\ ty # Reject /\ Fresh(fe, nm, fe.row) /\ nm \notin Rng(fe.rk)
  /\ Step([fe EXCEPT !.row = DropFs(InsertF(fe.row, nm, ty), refs)],
          LET ins == IR_InsertFields(ir.row, <<nm>>, <<TyE(Tpl(x), RowEnv(ir))>>)
          IN IR_MatrixMapRows(ir, IR_SelectFields(ins, SelectSeq(ins.ns, LAMBDA f : f \notin refs))))
ExplodeRows(f) ==
  /\ HasF(fe.row, f) /\ f \notin Rng(fe.rk) /\ IF HasF(fe.row, f) THEN FType(fe.row, f).k \in {"array", "set"} ELSE FALSE
  /\ Step([fe EXCEPT !.row = InsertF(fe.row, f, FType(fe.row, f).e)], IR_MatrixExplodeRows(ir, f))
ExplodeCols(f) ==
  /\ HasF(fe.col, f) /\ f \notin Rng(fe.ck) /\ IF HasF(fe.col, f) THEN FType(fe.col, f).k \in {"array", "set"} ELSE FALSE
  /\ Step([fe EXCEPT !.col = InsertF(fe.col, f, FType(fe.col, f).e)], IR_MatrixExplodeCols(ir, f))
\* mt.group_rows_by(kn = Tpl(kx)).aggregate(an = AggTpl(ax)): rows = the group key only, entries = the aggregations
\*     ->  MatrixAggregateRowsByKey(MatrixKeyRowsBy(MatrixMapRows(MatrixKeyRowsBy(mt, []), + kn), [kn]), MakeStruct(an), MakeStruct())
GroupRowsAgg(kn, kx, an, ax) ==
  LET kt == TyE(Tpl(kx), RowEnv(fe))  at == TyE(AggTpl(ax), AggEnv(fe)) IN
  /\ kt # Reject /\ at # Reject /\ kn # an /\ Fresh(fe, kn, fe.row) /\ Fresh(fe, an, fe.entry) /\ an \notin Rng(fe.row.ns)
  /\ Step([fe EXCEPT !.row = TStruct(<<kn>>, <<kt>>), !.rk = <<kn>>, !.entry = TStruct(<<an>>, <<at>>)],
          LET keyed == IR_MatrixKeyRowsBy(IR_MatrixMapRows(IR_MatrixKeyRowsBy(ir, <<>>), IR_InsertFields(ir.row, <<kn>>, <<TyE(Tpl(kx), RowEnv(ir))>>)), <<kn>>)
          IN IR_MatrixAggregateRowsByKey(keyed, TStruct(<<an>>, <<TyE(AggTpl(ax), AggEnv(ir))>>), EmptyS))
GroupColsAgg(kn, kx, an, ax) ==
  LET kt == TyE(Tpl(kx), ColEnv(fe))  at == TyE(AggTpl(ax), AggEnv(fe)) IN
  /\ kt # Reject /\ at # Reject /\ kn # an /\ Fresh(fe, kn, fe.col) /\ Fresh(fe, an, fe.entry) /\ an \notin Rng(fe.col.ns)
  /\ Step([fe EXCEPT !.col = TStruct(<<kn>>, <<kt>>), !.ck = <<kn>>, !.entry = TStruct(<<an>>, <<at>>)],
          LET keyed == IR_MatrixMapCols(ir, IR_InsertFields(ir.col, <<kn>>, <<TyE(Tpl(kx), ColEnv(ir))>>), <<kn>>)
          IN IR_MatrixAggregateColsByKey(keyed, TStruct(<<an>>, <<TyE(AggTpl(ax), AggEnv(ir))>>), EmptyS))
\* mt.annotate_rows(nm = Other(w)[mt.row_key])   ->  MatrixAnnotateRowsTable(mt, table, uid) + MatrixMapRows
AnnotateRowsIndex(nm, w) ==
  LET t == Other(w) IN
  /\ Len(fe.rk) > 0 /\ SelectFs(fe.row, fe.rk).ts = SelectFs(t.row, t.key).ts /\ Fresh(fe, nm, fe.row) /\ nm \notin Rng(fe.rk)
  /\ Step([fe EXCEPT !.row = InsertF(fe.row, nm, ValT(t))],
          LET j == IR_MatrixAnnotateRowsTable(ir, t, "__uid")
              ins == IR_InsertFields(j.row, <<nm>>, <<FType(j.row, "__uid")>>)
          IN IR_MatrixMapRows(j, IR_SelectFields(ins, SelectSeq(ins.ns, LAMBDA f : f # "__uid"))))
AnnotateColsIndex(nm, w) ==
  LET t == Other(w) IN
  /\ Len(fe.ck) > 0 /\ SelectFs(fe.col, fe.ck).ts = SelectFs(t.row, t.key).ts /\ Fresh(fe, nm, fe.col) /\ nm \notin Rng(fe.ck)
  /\ Step([fe EXCEPT !.col = InsertF(fe.col, nm, ValT(t))],
          LET j == IR_MatrixAnnotateColsTable(ir, t, "__uid")
              ins == IR_InsertFields(j.col, <<nm>>, <<FType(j.col, "__uid")>>)
          IN IR_MatrixMapCols(j, IR_SelectFields(ins, SelectSeq(ins.ns, LAMBDA f : f # "__uid")), j.ck))
\* mt.add_row_index(nm) / add_col_index(nm): an int64 counter
AddRowIndex(nm) ==
  /\ Fresh(fe, nm, fe.row) /\ nm \notin Rng(fe.rk)
  /\ Step([fe EXCEPT !.row = InsertF(fe.row, nm, I64)], IR_MatrixMapRows(ir, IR_InsertFields(ir.row, <<nm>>, <<I64>>)))
AddColIndex(nm) ==
  /\ Fresh(fe, nm, fe.col) /\ nm \notin Rng(fe.ck)
  /\ Step([fe EXCEPT !.col = InsertF(fe.col, nm, I64)], IR_MatrixMapCols(ir, IR_InsertFields(ir.col, <<nm>>, <<I64>>), ir.ck))

Seq1(S) == {<<>>} \cup {<<a>> : a \in S}
Seq2(S) == Seq1(S) \cup {<<q[1], q[2]>> : q \in {r \in S \X S : r[1] # r[2]}}
Sets12(S) == {{a} : a \in S} \cup {{q[1], q[2]} : q \in S \X S}
RowF == RowNew \cup {"row_idx"}   ColF == ColNew \cup {"col_idx"}
Next ==
  \/ \E nm \in RowNew, x \in RowTpl : AnnotateRows(nm, x)
  \/ \E nm \in RowNew, ax \in AggTplNames : AnnotateRowsAgg(nm, ax)
  \/ \E nm \in ColNew, x \in ColTpl : AnnotateCols(nm, x)
  \/ \E nm \in ColNew, ax \in AggTplNames : AnnotateColsAgg(nm, ax)
  \/ \E nm \in EntryNew, x \in EntryTpl : AnnotateEntries(nm, x)
  \/ \E nm \in {"g"}, x \in {"one", "str"} : AnnotateGlobals(nm, x)
  \/ \E names \in Seq2(RowF) : SelectRows(names)
  \/ \E names \in Seq1(ColF) : SelectCols(names)
  \/ \E names \in Seq2(EntryNew), nm \in EntryNew, x \in EntryTpl \cup {""} : SelectEntries(names, nm, x)
  \/ \E names \in Seq2(RowF) : KeyRowsBy(names)
  \/ \E nm \in RowNew \cup {"k"}, x \in RowTpl : KeyRowsByExpr(nm, x)
  \/ \E names \in Seq2(ColF) : KeyColsBy(names)
  \/ \E nm \in ColNew \cup {"k"}, x \in ColTpl : KeyColsByExpr(nm, x)
  \/ \E D \in Sets12(RowF \cup ColF \cup EntryNew \cup {"g"}) : Drop(D)
  \/ \E from \in RowF \cup ColF \cup EntryNew \cup {"g"}, to \in {"z"} \cup EntryNew : Rename(from, to)
  \/ \E part \in {"rows", "cols", "entries"} : Filter(part)
  \/ \E nm \in EntryNew, x \in EntryTpl : TransmuteEntries(nm, x)
  \/ \E nm \in RowNew, x \in RowTpl : TransmuteRows(nm, x)
  \/ \E f \in RowF : ExplodeRows(f)
  \/ \E f \in ColF : ExplodeCols(f)
  \/ \E kn \in {"k"}, kx \in RowTpl, an \in EntryNew \cup {"n"}, ax \in AggTplNames : GroupRowsAgg(kn, kx, an, ax)
  \/ \E kn \in {"k"}, kx \in ColTpl, an \in EntryNew \cup {"n"}, ax \in AggTplNames : GroupColsAgg(kn, kx, an, ax)
  \/ \E nm \in RowNew, w \in {"T1", "T2"} : AnnotateRowsIndex(nm, w)
  \/ \E nm \in ColNew, w \in {"T1", "T2"} : AnnotateColsIndex(nm, w)
  \/ \E nm \in RowNew : AddRowIndex(nm)
  \/ \E nm \in ColNew : AddColIndex(nm)

\* hl.utils.range_matrix_table(r, c): MatrixRead of a range reader
Init0 == MT(EmptyS, TStruct(<<"row_idx">>, <<I32>>), TStruct(<<"col_idx">>, <<I32>>), EmptyS, <<"row_idx">>, <<"col_idx">>)
Init == /\ fe = Init0 /\ ir = Init0 /\ n = 0 /\ proj = [fe |-> FeProj(Init0), ir |-> IrProj(Init0)]
Spec == Init /\ [][Next]_vars

C36M_Agree == fe = ir /\ proj.fe = proj.ir
C36M_WF    == WF(fe) /\ WF(ir)
TypeOK     == n \in 0 .. MaxSteps
=============================================================================
