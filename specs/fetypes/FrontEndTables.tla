-------------------------- MODULE FrontEndTables --------------------------
(* C36, Table half: the type a Table REPORTS (Table.globals / .row / .key) after every API call equals the type
   IMPLIED BY THE TableIR the call builds.

       hail/python/hail/table.py        Table.annotate / select / key_by / drop / rename / transmute / explode /
                                        group_by(..).aggregate / join / index (t2[t.key]) / add_index /
                                        annotate_globals / select_globals / order_by / filter / union / distinct / head
       hail/python/hail/ir/table_ir.py  TableMapRows, TableMapGlobals, TableKeyBy, TableExplode, TableKeyByAndAggregate,
                                        TableJoin, TableLeftJoinRightDistinct, TableRename, TableOrderBy, ... ._compute_type

   A TABLE TYPE is [g |-> struct type of the globals, row |-> struct type of the row, key |-> sequence of key field names].

   The state holds TWO table types that are computed by two separately written rule sets:
       fe   what the API documents / reports (struct algebra of the public methods: "new fields are appended,
            existing ones replaced in place, key fields first after select, ..."),
       ir   what the TableIR node(s) the method builds imply (one operator per IR node class, composed the way
            table.py composes the nodes).
   One action = one public API call.  Arguments come from constant vocabularies (field names, expression templates
   Tpl(x), aggregation templates), an action is enabled when the front end accepts the call (API rule # Reject).

   Property:  C36_Agree   fe = ir in every reachable state,
              C36_WF      both are well-formed table types (distinct field names, key fields are row fields, no name
                          is both a row field and a global),
   checked exhaustively by TLC for a bounded number of calls; the labelled state graph is then replayed on real
   Table objects (B1): reported type = fe, type of the real TableIR (node-by-node recomputed) = ir.           *)
EXTENDS FrontEndTypes
CONSTANTS NewNames,      \* names for new row fields
          TplNames,      \* names of the expression templates in use (row context)
          AggNames,      \* names of the aggregation templates in use
          KeyTplNames,   \* names of the templates used for computed keys / group keys
          MaxSteps, MaxFields, MaxTypeDepth
VARIABLES fe, ir, n
vars == <<fe, ir, n>>

TT(g, row, key) == [g |-> g, row |-> row, key |-> key]
EmptyS == TStruct(<<>>, <<>>)

(* ---- templates: expression programs over the row fields idx, a, b, c and the global g ------------------- *)
R(f) == Fld("row", f)
Tpl(x) ==
  CASE x = "one"    -> LI("one")                                   \* int32
    [] x = "big"    -> Py(VInt("big"))                             \* int64 (a bare Python int that needs 64 bits)
    [] x = "flt"    -> Py(VFloat("f1.5"))                          \* float64
    [] x = "str"    -> LS("sa")                                    \* str
    [] x = "idxmul" -> Bin("*", R("idx"), Py(VFloat("f1.5")))      \* float64
    [] x = "a"      -> R("a")
    [] x = "aplusb" -> Bin("+", R("a"), R("b"))
    [] x = "stra"   -> Conv("str", R("a"))
    [] x = "arra"   -> Mk("mkarray", <<R("a"), R("a")>>)
    [] x = "arridx" -> Mk("mkarray", <<R("idx"), LI("one")>>)       \* array<int32>
    [] x = "structb" -> MkStruct(<<"u", "w">>, <<R("b"), LI("one")>>)
    [] x = "adivb"  -> Bin("/", R("a"), R("b"))
    [] x = "g"      -> Fld("global", "g")
    [] x = "cond"   -> Cond(Cmp(">", R("idx"), Py(VInt("one"))), R("a"), R("b"))
    [] x = "idxmod" -> Bin("%", R("idx"), Py(VInt("two")))
    [] x = "lena"   -> U1("len", R("a"))
    [] x = "bool"   -> Cmp("==", R("a"), R("a"))
    [] x = "setc"   -> U1("toset", R("c"))
AggTpl(x) ==
  CASE x = "count"    -> AggCount
    [] x = "suma"     -> Agg("sum", R("a"))
    [] x = "collectb" -> Agg("collect", R("b"))
    [] x = "maxidx"   -> Agg("max", R("idx"))
    [] x = "meana"    -> Agg("mean", R("a"))
    [] x = "ratio"    -> Bin("/", Agg("sum", R("a")), AggCount)
    [] x = "counterb" -> Agg("counter", R("b"))
AllTpl == {"one", "big", "flt", "str", "idxmul", "a", "aplusb", "stra", "arra", "arridx", "structb", "adivb", "g", "cond", "idxmod", "lena",
           "bool", "setc"}
AllAgg == {"count", "suma", "collectb", "maxidx", "meana", "ratio", "counterb"}
\* the harness reads the templates from here
ASSUME IF "FE_TPL" \in DOMAIN IOEnv
       THEN JsonSerialize(IOEnv.FE_TPL, [tpl |-> [x \in AllTpl |-> Tpl(x)], agg |-> [x \in AllAgg |-> AggTpl(x)]])
       ELSE TRUE

EnvOf(t)   == Env(t.row, t.g, <<>>)
\* (the typing rule is the expensive part of every guard: not evaluated once the step bound is reached)
TyIn(t, x) == IF n < MaxSteps THEN Ty(Tpl(x), EnvOf(t)) ELSE Reject
AggIn(t, x) == IF n < MaxSteps THEN Ty(AggTpl(x), EnvOf(t)) ELSE Reject

(* ---- the other tables of joins / index annotations (the harness builds the same) ----------------------- *)
Other(w) == CASE w = "T1" -> TT(TStruct(<<"gg">>, <<I32>>), TStruct(<<"idx", "y", "a">>, <<I32, I32, TS>>), <<"idx">>)
              [] w = "T2" -> TT(EmptyS, TStruct(<<"idx", "ks", "v">>, <<I32, TS, F64>>), <<"ks">>)
Others == {"T1", "T2"}

KeyT(t) == SelectFs(t.row, t.key)
ValT(t) == DropFs(t.row, Rng(t.key))
AllNames(t) == Rng(t.row.ns) \cup Rng(t.g.ns)

\* deduplicate(): the first of name, name_1, name_2, ... that is not in use
Mangle(name, used) == IF name \notin used THEN name
                      ELSE LET i == CHOOSE j \in 1 .. 9 : (name \o "_" \o ToString(j)) \notin used
                                                         /\ \A h \in 1 .. j - 1 : (name \o "_" \o ToString(h)) \in used
                           IN name \o "_" \o ToString(i)
RenameAway(s, used) == [i \in 1 .. Len(s.ns) |-> Mangle(s.ns[i], used)]       \* new names of the fields of struct s

WF(t) == /\ IsType(t.g) /\ IsType(t.row) /\ t.g.k = "struct" /\ t.row.k = "struct"
         /\ Distinct(t.key) /\ \A i \in 1 .. Len(t.key) : HasF(t.row, t.key[i])
         /\ Rng(t.row.ns) \cap Rng(t.g.ns) = {}
Small(t) == Len(t.row.ns) <= MaxFields /\ Len(t.g.ns) <= 2 /\ TDepth(t.row) <= MaxTypeDepth + 1 /\ TDepth(t.g) <= MaxTypeDepth + 1

(* ================================================================================================ *)
(* IR rules (table_ir.py / ir.py), one operator per node class                                        *)
IR_InsertFields(old, ns, ts) == InsertFs(old, ns, ts)                     \* tstruct._insert_fields
IR_SelectFields(old, ns)     == SelectFs(old, ns)
IR_TableMapRows(c, newrow)   == TT(c.g, newrow, c.key)
IR_TableMapGlobals(c, newg)  == TT(newg, c.row, c.key)
IR_TableKeyBy(c, keys)       == TT(c.g, c.row, keys)
IR_TableFilter(c)            == c
IR_TableExplode(c, f)        == TT(c.g, InsertF(c.row, f, FType(c.row, f).e), c.key)
IR_TableKeyByAndAggregate(c, exprT, keyT) == TT(c.g, ConcatS(keyT, exprT), keyT.ns)
IR_TableRename(c, rowmap, gmap) == TT(RenameS(c.g, gmap), RenameS(c.row, rowmap), [i \in 1 .. Len(c.key) |-> rowmap[c.key[i]]])
IR_TableJoin(l, r, jk)       == TT(ConcatS(l.g, r.g), ConcatS(ConcatS(KeyT(l), ValT(l)), ValT(r)), l.key \o SubSeq(r.key, jk + 1, Len(r.key)))
IR_TableLeftJoinRightDistinct(l, r, root) == TT(l.g, InsertF(l.row, root, ValT(r)), l.key)
IR_TableOrderBy(c)           == TT(c.g, c.row, <<>>)
IR_TableUnion(cs)            == cs[1]
IdMap(s) == [x \in Rng(s.ns) |-> x]

(* ================================================================================================ *)
(* Actions.  Each computes the API result (Fe...) and the IR result (Ir...) from the respective side.   *)
Step(f, i) == /\ n < MaxSteps /\ WF(f) /\ Small(f)
              /\ fe' = f /\ ir' = i /\ n' = n + 1

\* t.annotate(nm = Tpl(x))                  ->  TableMapRows(t, InsertFields(row, nm -> x))
Annotate(nm, x) ==
  LET ty == TyIn(fe, x) IN
  /\ ty # Reject /\ nm \notin Rng(fe.key) /\ nm \notin Rng(fe.g.ns)
  /\ Step(TT(fe.g, InsertF(fe.row, nm, ty), fe.key),
          IR_TableMapRows(ir, IR_InsertFields(ir.row, <<nm>>, <<TyIn(ir, x)>>)))
\* t.annotate(nm = Tpl(x), nm2 = "str")     two fields at once: the order of the keyword arguments
Annotate2(nm, x, nm2) ==
  LET ty == TyIn(fe, x) IN
  /\ ty # Reject /\ nm # nm2 /\ {nm, nm2} \cap (Rng(fe.key) \cup Rng(fe.g.ns)) = {}
  /\ Step(TT(fe.g, InsertF(InsertF(fe.row, nm, ty), nm2, TS), fe.key),
          IR_TableMapRows(ir, IR_InsertFields(ir.row, <<nm, nm2>>, <<TyIn(ir, x), TS>>)))
\* t.select(*names, nm = Tpl(x))            key fields first, then the named fields, then the new one
\*                                          ->  TableMapRows(t, InsertFields(SelectFields(row, key ++ names), nm -> x))
Select(names, nm, x) ==
  LET ty == IF x = "" THEN TB ELSE TyIn(fe, x) IN
  /\ ty # Reject /\ Distinct(names) /\ \A i \in 1 .. Len(names) : HasF(fe.row, names[i]) /\ names[i] \notin Rng(fe.key)
  /\ (x # "" => nm \notin Rng(fe.key) \cup Rng(names) \cup Rng(fe.g.ns))
  /\ LET base == SelectFs(fe.row, fe.key \o names)
         ibase == IR_SelectFields(ir.row, ir.key \o names)
     IN Step(TT(fe.g, IF x = "" THEN base ELSE InsertF(base, nm, ty), fe.key),
             IR_TableMapRows(ir, IF x = "" THEN ibase ELSE IR_InsertFields(ibase, <<nm>>, <<TyIn(ir, x)>>)))
\* t.key_by(*names)                         ->  TableKeyBy(t, names)
KeyBy(names) ==
  /\ Distinct(names) /\ \A i \in 1 .. Len(names) : HasF(fe.row, names[i])
  /\ Step(TT(fe.g, fe.row, names), IR_TableKeyBy(ir, names))
\* t.key_by(*names, nm = Tpl(x))            ->  TableKeyBy(TableMapRows(TableKeyBy(t, []), InsertFields(row, nm -> x)), names ++ nm)
KeyByExpr(names, nm, x) ==
  LET ty == TyIn(fe, x) IN
  /\ ty # Reject /\ Distinct(names) /\ nm \notin Rng(names) /\ \A i \in 1 .. Len(names) : HasF(fe.row, names[i])
  /\ nm \notin Rng(fe.g.ns)
  /\ Step(TT(fe.g, InsertF(fe.row, nm, ty), Append(names, nm)),
          IR_TableKeyBy(IR_TableMapRows(IR_TableKeyBy(ir, <<>>), IR_InsertFields(ir.row, <<nm>>, <<TyIn(ir, x)>>)), Append(names, nm)))
\* t.drop(*D)                               ->  TableMapRows(t, SelectFields(row, the others))  (globals: TableMapGlobals)
Drop(D) ==
  /\ D # {} /\ D \subseteq AllNames(fe) /\ D \cap Rng(fe.key) = {}
  /\ Step(TT(DropFs(fe.g, D), DropFs(fe.row, D), fe.key),
          LET keepR == SelectSeq(ir.row.ns, LAMBDA f : f \notin D)  keepG == SelectSeq(ir.g.ns, LAMBDA f : f \notin D)
          IN IR_TableMapGlobals(IR_TableMapRows(ir, IR_SelectFields(ir.row, keepR)), IR_SelectFields(ir.g, keepG)))
\* t.rename({from: to})                     ->  TableRename(t, row map, global map)
Rename(from, to) ==
  /\ from \in AllNames(fe) /\ to \notin AllNames(fe) /\ from # to
  /\ LET m == [x \in AllNames(fe) |-> IF x = from THEN to ELSE x] IN
     Step(TT(RenameS(fe.g, m), RenameS(fe.row, m), [i \in 1 .. Len(fe.key) |-> m[fe.key[i]]]),
          IR_TableRename(ir, [x \in Rng(ir.row.ns) |-> IF x = from THEN to ELSE x], [x \in Rng(ir.g.ns) |-> IF x = from THEN to ELSE x]))
\* t.transmute(nm = Tpl(x))                 annotate, then drop the row fields the expression reads (not keys, not nm)
\*                                          ->  TableMapRows(t, SelectFields(InsertFields(row, nm -> x), remaining))
\* the row fields an expression reads IN ITS IR: hl.len of a struct / tuple is a Python-level constant and reads nothing
RECURSIVE RowRefs(_, _)
RowRefs(e, env) ==
  IF e.op = "fld" THEN (IF e.src = "row" THEN {e.n} ELSE {})
  ELSE IF e.op = "len" /\ Ty(e.a, env).k \in {"tuple", "struct"} THEN {}
  ELSE UNION {IF k \in {"a", "b", "c", "x", "z", "d", "i", "j", "fb", "k"} THEN RowRefs(e[k], env)
              ELSE IF k \in {"xs", "ks"} THEN UNION {RowRefs(e[k][i], env) : i \in 1 .. Len(e[k])} ELSE {} : k \in DOMAIN e \ {"op", "o", "f", "v", "t", "n", "ns", "src"}}
Transmute(nm, x) ==
  LET ty == TyIn(fe, x)
      refs == (RowRefs(Tpl(x), EnvOf(fe)) \ Rng(fe.key)) \ {nm}
  IN /\ ty # Reject /\ nm \notin Rng(fe.key) /\ nm \notin Rng(fe.g.ns)
     /\ Step(TT(fe.g, DropFs(InsertF(fe.row, nm, ty), refs), fe.key),
             LET ins == IR_InsertFields(ir.row, <<nm>>, <<TyIn(ir, x)>>)
             IN IR_TableMapRows(ir, IR_SelectFields(ins, SelectSeq(ins.ns, LAMBDA f : f \notin refs))))
\* t.explode(f)                             ->  TableExplode(t, [f])
Explode(f) ==
  /\ HasF(fe.row, f) /\ f \notin Rng(fe.key)
  /\ IF HasF(fe.row, f) THEN FType(fe.row, f).k \in {"array", "set"} ELSE FALSE
  /\ Step(TT(fe.g, InsertF(fe.row, f, FType(fe.row, f).e), fe.key), IR_TableExplode(ir, f))
\* t.group_by(kn = Tpl(kx)).aggregate(an = AggTpl(ax))
\*                                          ->  TableKeyByAndAggregate(t, MakeStruct(an -> ax), MakeStruct(kn -> kx))
GroupAgg(kn, kx, an, ax) ==
  LET kt == TyIn(fe, kx)  at == AggIn(fe, ax) IN
  /\ kt # Reject /\ at # Reject /\ kn # an /\ an \notin Rng(fe.g.ns) /\ kn \notin Rng(fe.g.ns)
  /\ Step(TT(fe.g, TStruct(<<kn, an>>, <<kt, at>>), <<kn>>),
          IR_TableKeyByAndAggregate(ir, TStruct(<<an>>, <<AggIn(ir, ax)>>), TStruct(<<kn>>, <<TyIn(ir, kx)>>)))
\* t.group_by(f).aggregate(an = ..)         grouping by an existing field keeps its name
GroupAggField(f, an, ax) ==
  LET at == AggIn(fe, ax) IN
  /\ HasF(fe.row, f) /\ at # Reject /\ f # an /\ an \notin Rng(fe.g.ns)
  /\ Step(TT(fe.g, TStruct(<<f, an>>, <<FType(fe.row, f), at>>), <<f>>),
          IR_TableKeyByAndAggregate(ir, TStruct(<<an>>, <<AggIn(ir, ax)>>), IR_SelectFields(ir.row, <<f>>)))
\* t.join(Other(w), how)                    the key types must agree; key, then the left values, then the right values;
\*                                          right names that are in use on the left (rows or globals) are renamed name_1 ...
\*                                          ->  TableJoin(t, TableRename(right, ..), how, |key|)
Join(w, how) ==
  LET r == Other(w)
      used == AllNames(fe)
      rv == ValT(r)
      rvn == RenameAway(rv, used)
      rgn == RenameAway(r.g, used)
  IN /\ KeyT(fe).ts = KeyT(r).ts
     /\ Step(TT(TStruct(fe.g.ns \o rgn, fe.g.ts \o r.g.ts),
                TStruct(fe.key \o ValT(fe).ns \o rvn, KeyT(fe).ts \o ValT(fe).ts \o rv.ts), fe.key),
             LET rowmap == [x \in Rng(r.row.ns) |-> Mangle(x, IF x \in Rng(r.key) THEN {} ELSE AllNames(ir))]
                 gmap == [x \in Rng(r.g.ns) |-> Mangle(x, AllNames(ir))]
             IN IR_TableJoin(ir, IR_TableRename(r, rowmap, gmap), Len(ir.key)))
\* t.annotate(nm = Other(w)[t.key])         a struct of the other table's value fields
\*     ->  TableMapRows(TableLeftJoinRightDistinct(t, right, uid), InsertFields(row, nm -> GetField(row, uid))) minus uid
AnnotateIndex(nm, w) ==
  LET r == Other(w) IN
  /\ Len(fe.key) > 0 /\ KeyT(fe).ts = KeyT(r).ts /\ nm \notin Rng(fe.key) /\ nm \notin Rng(fe.g.ns)
  /\ Step(TT(fe.g, InsertF(fe.row, nm, ValT(r)), fe.key),
          LET j == IR_TableLeftJoinRightDistinct(ir, r, "__uid")
              ins == IR_InsertFields(j.row, <<nm>>, <<FType(j.row, "__uid")>>)
          IN IR_TableMapRows(j, IR_SelectFields(ins, SelectSeq(ins.ns, LAMBDA f : f # "__uid"))))
\* t.add_index(nm)                          an int64 row number  ->  TableMapRows(t, InsertFields(row, nm -> ApplyScanOp(Count)))
AddIndex(nm) ==
  /\ nm \notin Rng(fe.key) /\ nm \notin Rng(fe.g.ns)
  /\ Step(TT(fe.g, InsertF(fe.row, nm, I64), fe.key), IR_TableMapRows(ir, IR_InsertFields(ir.row, <<nm>>, <<I64>>)))
\* t.annotate_globals(nm = Tpl(x))          x may only read globals  ->  TableMapGlobals(t, InsertFields(global, nm -> x))
AnnotateGlobals(nm, x) ==
  LET ty == IF n < MaxSteps THEN Ty(Tpl(x), Env(EmptyS, fe.g, <<>>)) ELSE Reject IN
  /\ ty # Reject /\ nm \notin Rng(fe.row.ns)
  /\ Step(TT(InsertF(fe.g, nm, ty), fe.row, fe.key),
          IR_TableMapGlobals(ir, IR_InsertFields(ir.g, <<nm>>, <<Ty(Tpl(x), Env(EmptyS, ir.g, <<>>))>>)))
\* t.select_globals(*names)                 ->  TableMapGlobals(t, SelectFields(global, names))
SelectGlobals(names) ==
  /\ Distinct(names) /\ \A i \in 1 .. Len(names) : HasF(fe.g, names[i]) /\ Len(fe.g.ns) > 0
  /\ Step(TT(SelectFs(fe.g, names), fe.row, fe.key), IR_TableMapGlobals(ir, IR_SelectFields(ir.g, names)))
\* t.order_by(f)                            the result has no key  ->  TableOrderBy
OrderBy(f) == /\ HasF(fe.row, f) /\ Step(TT(fe.g, fe.row, <<>>), IR_TableOrderBy(ir))
\* t.filter(Tpl(x)) / t.distinct() / t.head(2) / t.union(t): the type does not change
Filter(x)  == /\ TyIn(fe, x) = TB /\ Step(fe, IR_TableFilter(ir))
SameType(w) == /\ w \in {"distinct", "head", "union"} /\ (w = "distinct" => Len(fe.key) > 0) /\ Step(fe, IF w = "union" THEN IR_TableUnion(<<ir, ir>>) ELSE ir)

Seq1(S) == {<<>>} \cup {<<a>> : a \in S}
Sets12(S) == {{a} : a \in S} \cup {{q[1], q[2]} : q \in S \X S}
Seq2(S) == {<<>>} \cup {<<a>> : a \in S} \cup {<<q[1], q[2]>> : q \in {r \in S \X S : r[1] # r[2]}}
FieldNames == NewNames \cup {"idx"}
Next ==
  \/ \E nm \in NewNames, x \in TplNames : Annotate(nm, x)
  \/ \E nm \in NewNames, x \in TplNames, nm2 \in NewNames : Annotate2(nm, x, nm2)
  \/ \E names \in Seq2(FieldNames), nm \in NewNames, x \in KeyTplNames \cup {""} : Select(names, nm, x)
  \/ \E names \in Seq2(FieldNames) : KeyBy(names)
  \/ \E names \in Seq1(FieldNames), nm \in NewNames \cup {"idx"}, x \in KeyTplNames : KeyByExpr(names, nm, x)
  \/ \E D \in Sets12(FieldNames \cup {"g"}) : Drop(D)
  \/ \E from \in FieldNames \cup {"g"}, to \in NewNames \cup {"z"} : Rename(from, to)
  \/ \E nm \in NewNames, x \in TplNames : Transmute(nm, x)
  \/ \E f \in FieldNames : Explode(f)
  \/ \E kn \in {"k"} \cup NewNames, kx \in KeyTplNames, an \in NewNames \cup {"idx"}, ax \in AggNames : GroupAgg(kn, kx, an, ax)
  \/ \E f \in FieldNames, an \in NewNames, ax \in AggNames : GroupAggField(f, an, ax)
  \/ \E w \in Others, how \in {"inner", "outer"} : Join(w, how)
  \/ \E nm \in NewNames, w \in Others : AnnotateIndex(nm, w)
  \/ \E nm \in NewNames : AddIndex(nm)
  \/ \E nm \in {"g", "h"}, x \in {"one", "str", "g"} : AnnotateGlobals(nm, x)
  \/ \E names \in Seq2({"g", "h"}) : SelectGlobals(names)
  \/ \E f \in FieldNames : OrderBy(f)
  \/ \E x \in {"bool"} : Filter(x)
  \/ \E w \in {"distinct", "head", "union"} : SameType(w)

Init == /\ fe = TT(EmptyS, TStruct(<<"idx">>, <<I32>>), <<"idx">>)        \* hl.utils.range_table(n):  TableRange
        /\ ir = fe /\ n = 0
Spec == Init /\ [][Next]_vars

C36_Agree == fe = ir
C36_WF    == WF(fe) /\ WF(ir)
TypeOK    == n \in 0 .. MaxSteps
=============================================================================
