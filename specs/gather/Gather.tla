------------------------------ MODULE Gather ------------------------------
(* C20: hail/python/hailtop/utils/utils.py
        bounded_gather2_raise_exceptions / bounded_gather2_return_exceptions / bounded_gather2 / WithoutSemaphore
   together with the parts of asyncio they are built from: asyncio.Semaphore (value, FIFO waiters with
   grant-at-release and hand-back on cancellation), Task.cancel, asyncio.gather (one _done_callback per child),
   asyncio.wait (one _on_completion per child), and the FIFO queue of ready callbacks (rq).

   The helper is called by a caller that holds one permit of the semaphore (the documented use: "sema ... whose
   initial value is the level of parallelism"; WithoutSemaphore gives the caller's permit to the tasks while the
   caller waits).  Bound is the initial value of the semaphore.

     mode = "return"        bounded_gather2(..., return_exceptions=True)
     mode = "raise"         bounded_gather2(...)                          (cancel_on_error=False)
     mode = "raise_cancel"  bounded_gather2(..., cancel_on_error=True)
         Fixed = FALSE  the clean-up loop in `finally` as it stands in the repository: `raise exc` at the first
                        finished task that holds an exception
         Fixed = TRUE   the repaired loop (build/proposed_fixes/C20.diff): cancel every unfinished task, then
                        wait for all of them

   One action per atomic region (code between two awaits):
     Start        the caller (holding a permit) creates the task that runs the helper
     Complete(t)  the environment lets the running body of task t return    (resolves the future it awaits)
     Fail(t)      the environment lets the running body of task t raise
     FailCancelled(t)  the running body of task t raises asyncio.CancelledError on its own: the future it awaits is
                  cancelled (nobody called cancel() on the task or on the helper)
     Step         asyncio runs the callback at the head of the ready queue:
                    <<"H",0>>  a step of the helper
                    <<"T",t>>  a step of task t  (`async with sema: return await pf()`)
                    <<"G",t>>  gather's _done_callback for child t
                    <<"W",0>>  asyncio.wait's _on_completion (the same function for every child)
*)
EXTENDS Naturals, Sequences, FiniteSets, TLC

CONSTANTS N,        \* number of partial functions
          Bounds,   \* initial values of the semaphore to explore
          Modes,    \* subset of {"return", "raise", "raise_cancel"} to explore
          Fixed,
          Wrapper   \* TRUE: called through bounded_gather(parallelism = bound) AS IT STOOD: the wrapper creates the semaphore and calls
                    \* bounded_gather2 without holding a permit, so WithoutSemaphore.__aenter__ releases a permit nobody acquired

Tasks == 1..N

VARIABLES
  mode,     \* how bounded_gather2 is called (chosen initially, then constant)
  bound,    \* initial value of the semaphore (chosen initially, then constant)
  value,    \* Semaphore._value
  sq,       \* Semaphore._waiters: sequence of [who, st], st: "p" pending | "g" granted (result set) | "c" cancelled
  tpc,      \* task: idle | new | acq | grant | canc_acq | run | res_ok | res_fail | canc_run | done | failed | cancelled
  must,     \* Task._must_cancel
  cbs,      \* done-callbacks registered on the task, in order: "G" (gather) / "W" (wait)
  hpc,      \* helper: idle | new | gather | gwoken | wait | wwoken | hacq | end
  gout,     \* gather's outer future: none | pending | ok | exc
  gexc,     \* task whose exception gather's outer future holds (0: CancelledError)
  nfin,     \* gather's nfinished
  wcount,   \* asyncio.wait's counter
  rq,       \* asyncio's ready queue
  hres,     \* what the helper did: none | returned | raised
  hexc,     \* task whose exception the helper raised
  hval,     \* the list the helper returned: sequence of [ok, id]
  \* ---- history variables used only by the properties
  fails,    \* the exceptions in the order in which the bodies raised them (task id; 0: a CancelledError of the body's own)
  outcome   \* what the environment did to the task's body: none | ok | fail | cancel

vars == <<mode, bound, value, sq, tpc, must, cbs, hpc, gout, gexc, nfin, wcount, rq, hres, hexc, hval, fails, outcome>>

Init ==
  /\ mode \in Modes /\ bound \in Bounds
  /\ value = bound
  /\ sq = <<>>
  /\ tpc = [t \in Tasks |-> "idle"]
  /\ must = [t \in Tasks |-> FALSE]
  /\ cbs = [t \in Tasks |-> <<>>]
  /\ hpc = "idle"
  /\ gout = "none" /\ gexc = 0 /\ nfin = 0 /\ wcount = 0
  /\ rq = <<>>
  /\ hres = "none" /\ hexc = 0 /\ hval = <<>>
  /\ fails = <<>>
  /\ outcome = [t \in Tasks |-> "none"]

----------------------------------------------------------------------------
\* ---- asyncio.Semaphore -------------------------------------------------------------------------
Terminal == {"done", "failed", "cancelled"}
Holding  == {"run", "res_ok", "res_fail", "canc_run"}       \* inside `async with sema`

Locked(v, q) == v = 0 \/ \E i \in 1..Len(q) : q[i].st # "c"
HasPending(q) == \E i \in 1..Len(q) : q[i].st = "p"
FirstPending(q) == CHOOSE i \in 1..Len(q) : q[i].st = "p" /\ \A j \in 1..(i - 1) : q[j].st # "p"
\* _wake_up_next: hand one unit to the first waiter that is not done; who = N + 1 means nobody was woken
Wake(v, q) == IF HasPending(q)
              THEN LET i == FirstPending(q) IN [v |-> v - 1, q |-> [q EXCEPT ![i].st = "g"], who |-> q[i].who]
              ELSE [v |-> v, q |-> q, who |-> N + 1]
Release(v, q) == Wake(v + 1, q)
NoWake(v, q) == [v |-> v, q |-> q, who |-> N + 1]
Dequeued(q, t) == SelectSeq(q, LAMBDA e : e.who # t)

Ent(w) == IF w = 0 THEN <<"H", 0>> ELSE <<"T", w>>
WokenEntry(w) == IF w = N + 1 THEN <<>> ELSE <<Ent(w)>>
Ordered(P(_)) == SelectSeq([i \in 1..N |-> i], P)
CbEntries(t) == [i \in 1..Len(cbs[t]) |-> IF cbs[t][i] = "G" THEN <<"G", t>> ELSE <<"W", 0>>]

----------------------------------------------------------------------------
\* ---- environment ------------------------------------------------------------------------------
Start ==
  /\ hpc = "idle"
  /\ hpc' = "new"
  /\ rq' = Append(rq, <<"H", 0>>)
  /\ UNCHANGED <<mode, bound, value, sq, tpc, must, cbs, gout, gexc, nfin, wcount, hres, hexc, hval, fails, outcome>>

Complete(t) ==
  /\ tpc[t] = "run"
  /\ tpc' = [tpc EXCEPT ![t] = "res_ok"]
  /\ outcome' = [outcome EXCEPT ![t] = "ok"]
  /\ rq' = Append(rq, <<"T", t>>)
  /\ UNCHANGED <<mode, bound, value, sq, must, cbs, hpc, gout, gexc, nfin, wcount, hres, hexc, hval, fails>>

Fail(t) ==
  /\ tpc[t] = "run"
  /\ tpc' = [tpc EXCEPT ![t] = "res_fail"]
  /\ outcome' = [outcome EXCEPT ![t] = "fail"]
  /\ rq' = Append(rq, <<"T", t>>)
  /\ UNCHANGED <<mode, bound, value, sq, must, cbs, hpc, gout, gexc, nfin, wcount, hres, hexc, hval, fails>>

FailCancelled(t) ==
  /\ tpc[t] = "run"
  /\ tpc' = [tpc EXCEPT ![t] = "canc_run"]
  /\ outcome' = [outcome EXCEPT ![t] = "cancel"]
  /\ rq' = Append(rq, <<"T", t>>)
  /\ UNCHANGED <<mode, bound, value, sq, must, cbs, hpc, gout, gexc, nfin, wcount, hres, hexc, hval, fails>>

----------------------------------------------------------------------------
\* ---- a step of task t --------------------------------------------------------------------------
\* the task ends in state st after the semaphore operation w (a record of Wake/Release/NoWake): the woken
\* waiter's wake-up is scheduled first, then the task's done-callbacks
Finish(t, st, w) ==
  /\ value' = w.v /\ sq' = w.q
  /\ tpc' = [u \in Tasks |-> IF u = t THEN st ELSE IF u = w.who THEN "grant" ELSE tpc[u]]
  /\ must' = [must EXCEPT ![t] = FALSE]
  /\ cbs' = [cbs EXCEPT ![t] = <<>>]
  /\ rq' = Tail(rq) \o WokenEntry(w.who) \o CbEntries(t)
  /\ fails' = IF st = "failed" THEN Append(fails, t)
             ELSE IF st = "cancelled" /\ outcome[t] = "cancel" THEN Append(fails, 0) ELSE fails

\* the task enters its body (awaits the future the environment resolves) after the semaphore operation w
Enter(t, w) ==
  /\ value' = w.v /\ sq' = w.q
  /\ tpc' = [u \in Tasks |-> IF u = t THEN "run" ELSE IF u = w.who THEN "grant" ELSE tpc[u]]
  /\ rq' = Tail(rq) \o WokenEntry(w.who)
  /\ UNCHANGED <<must, cbs, fails>>

TaskStep(t) ==
  /\ UNCHANGED <<mode, bound, hpc, gout, gexc, nfin, wcount, hres, hexc, hval, outcome>>
  /\ CASE tpc[t] = "new" ->
            IF must[t] THEN Finish(t, "cancelled", NoWake(value, sq))           \* cancelled before its first step
            ELSE IF ~Locked(value, sq) THEN Enter(t, NoWake(value - 1, sq))     \* acquire: fast path
            ELSE /\ sq' = Append(sq, [who |-> t, st |-> "p"])                   \* acquire: enqueue and wait
                 /\ tpc' = [tpc EXCEPT ![t] = "acq"]
                 /\ rq' = Tail(rq)
                 /\ UNCHANGED <<value, must, cbs, fails>>
       [] tpc[t] = "grant" ->
            \* resumes inside acquire(): `finally: self._waiters.remove(fut)`
            IF must[t] THEN Finish(t, "cancelled", Release(value, Dequeued(sq, t)))   \* hands the unit back
            ELSE Enter(t, IF value > 0 THEN Wake(value, Dequeued(sq, t)) ELSE NoWake(value, Dequeued(sq, t)))
       [] tpc[t] = "canc_acq" -> Finish(t, "cancelled", NoWake(value, Dequeued(sq, t)))
       [] tpc[t] = "res_ok"   -> Finish(t, IF must[t] THEN "cancelled" ELSE "done", Release(value, sq))
       [] tpc[t] = "res_fail" -> Finish(t, IF must[t] THEN "cancelled" ELSE "failed", Release(value, sq))
       [] tpc[t] = "canc_run" -> Finish(t, "cancelled", Release(value, sq))
       [] OTHER -> FALSE

----------------------------------------------------------------------------
\* ---- Task.cancel() applied to a set of tasks, in submission order -------------------------------------------
TpcC(S)  == [t \in Tasks |-> IF t \in S /\ tpc[t] = "acq" THEN "canc_acq" ELSE IF t \in S /\ tpc[t] = "run" THEN "canc_run" ELSE tpc[t]]
MustC(S) == [t \in Tasks |-> IF t \in S /\ tpc[t] \in {"new", "grant", "res_ok", "res_fail", "canc_acq", "canc_run"} THEN TRUE ELSE must[t]]
SqC(S)   == [i \in 1..Len(sq) |-> IF sq[i].who \in S /\ sq[i].st = "p" THEN [sq[i] EXCEPT !.st = "c"] ELSE sq[i]]
RqC(S)   == LET ts == Ordered(LAMBDA t : t \in S /\ tpc[t] \in {"acq", "run"}) IN [i \in 1..Len(ts) |-> <<"T", ts[i]>>]

----------------------------------------------------------------------------
\* ---- a step of the helper ----------------------------------------------------------------------
\* (in return mode the wrapper of a task whose body raised CancelledError returns (None, CancelledError): id 0)
Results == [i \in 1..N |-> [ok |-> tpc[i] = "done", id |-> IF tpc[i] = "cancelled" THEN 0 ELSE i]]

HelperStep ==
  /\ UNCHANGED <<mode, bound, nfin, fails, outcome>>
  /\ CASE hpc = "new" ->
            \* the caller holds a permit; the helper creates the tasks, WithoutSemaphore.__aenter__ releases the
            \* caller's permit, gather registers one callback per child, the helper awaits gather's future
            /\ tpc' = [t \in Tasks |-> "new"]
            /\ cbs' = [t \in Tasks |-> <<"G">>]
            /\ rq' = Tail(rq) \o [i \in 1..N |-> <<"T", i>>]
            /\ gout' = "pending"
            /\ hpc' = "gather"
            /\ value' = IF Wrapper THEN value + 1 ELSE value
            /\ UNCHANGED <<sq, must, gexc, wcount, hres, hexc, hval>>
       [] hpc = "gwoken" /\ gout = "ok" ->
            \* WithoutSemaphore.__aexit__ without exception: acquire again, return the results
            IF Locked(value, sq)
            THEN hpc' = "hacq" /\ rq' = Tail(rq) /\ UNCHANGED <<value, sq, tpc, must, cbs, gout, gexc, wcount, hres, hexc, hval>>
            ELSE /\ value' = value - 1
                 /\ hres' = "returned" /\ hval' = Results /\ hpc' = "end"
                 /\ rq' = Tail(rq)
                 /\ UNCHANGED <<sq, tpc, must, cbs, gout, gexc, wcount, hexc>>
       [] hpc = "gwoken" /\ gout = "exc" /\ (mode = "raise" \/ mode = "return") ->
            \* WithoutSemaphore.__aexit__ with an exception: no acquire; the exception propagates
            /\ hres' = "raised" /\ hexc' = gexc /\ hpc' = "end"
            /\ rq' = Tail(rq)
            /\ UNCHANGED <<value, sq, tpc, must, cbs, gout, gexc, wcount, hval>>
       [] hpc = "gwoken" /\ gout = "exc" /\ mode = "raise_cancel" /\ ~Fixed /\ (\E t \in Tasks : tpc[t] = "failed") ->
            \* finally: for task in tasks: finished with an exception -> `raise exc`; unfinished -> cancel
            LET ff == CHOOSE t \in Tasks : tpc[t] = "failed" /\ \A u \in 1..(t - 1) : tpc[u] # "failed"
                S  == {t \in 1..(ff - 1) : tpc[t] \notin Terminal}
            IN
            /\ tpc' = TpcC(S) /\ must' = MustC(S) /\ sq' = SqC(S)
            /\ rq' = Tail(rq) \o RqC(S)
            /\ hres' = "raised" /\ hexc' = ff /\ hpc' = "end"
            /\ UNCHANGED <<value, cbs, gout, gexc, wcount, hval>>
       [] hpc = "gwoken" /\ gout = "exc" /\ mode = "raise_cancel" /\ (Fixed \/ ~\E t \in Tasks : tpc[t] = "failed") ->
            \* finally: cancel every unfinished task; WithoutSemaphore.__aenter__ (release); asyncio.wait(tasks)
            LET S == {t \in Tasks : tpc[t] \notin Terminal}
                w == Release(value, SqC(S))
            IN
            /\ tpc' = [t \in Tasks |-> IF t = w.who THEN "grant" ELSE TpcC(S)[t]]
            /\ must' = MustC(S)
            /\ value' = w.v /\ sq' = w.q
            /\ cbs' = [t \in Tasks |-> IF tpc[t] \in Terminal THEN cbs[t] ELSE Append(cbs[t], "W")]
            /\ wcount' = N
            /\ rq' = Tail(rq) \o RqC(S) \o WokenEntry(w.who)
                     \o [i \in 1..Cardinality({t \in Tasks : tpc[t] \in Terminal}) |-> <<"W", 0>>]
            /\ hpc' = "wait"
            /\ UNCHANGED <<gout, gexc, hres, hexc, hval>>
       [] hpc = "wwoken" ->
            \* _wait: `finally: remove_done_callback`; WithoutSemaphore.__aexit__ (acquire); the exception propagates
            IF Locked(value, sq)
            THEN hpc' = "hacq" /\ rq' = Tail(rq) /\ UNCHANGED <<value, sq, tpc, must, cbs, gout, gexc, wcount, hres, hexc, hval>>
            ELSE /\ value' = value - 1
                 /\ cbs' = [t \in Tasks |-> SelectSeq(cbs[t], LAMBDA c : c # "W")]
                 /\ hres' = "raised" /\ hexc' = gexc /\ hpc' = "end"
                 /\ rq' = Tail(rq)
                 /\ UNCHANGED <<sq, tpc, must, gout, gexc, wcount, hval>>
       [] OTHER -> FALSE

----------------------------------------------------------------------------
\* ---- gather's and wait's callbacks ---------------------------------------------------------------------
WakeHelper(pc) == hpc' = pc /\ rq' = Append(Tail(rq), <<"H", 0>>)

GatherCb(t) ==
  /\ nfin' = nfin + 1
  /\ UNCHANGED <<mode, bound, value, sq, tpc, must, cbs, wcount, hres, hexc, hval, fails, outcome>>
  /\ IF gout # "pending"
     THEN rq' = Tail(rq) /\ UNCHANGED <<gout, gexc, hpc>>                     \* only marks the exception retrieved
     ELSE IF mode # "return" /\ tpc[t] = "cancelled"
     THEN gout' = "exc" /\ gexc' = 0 /\ WakeHelper("gwoken")
     ELSE IF mode # "return" /\ tpc[t] = "failed"
     THEN gout' = "exc" /\ gexc' = t /\ WakeHelper("gwoken")
     ELSE IF nfin + 1 = N
     THEN gout' = "ok" /\ UNCHANGED gexc /\ WakeHelper("gwoken")
     ELSE rq' = Tail(rq) /\ UNCHANGED <<gout, gexc, hpc>>

WaitCb ==
  /\ wcount' = wcount - 1
  /\ UNCHANGED <<mode, bound, value, sq, tpc, must, cbs, gout, gexc, nfin, hres, hexc, hval, fails, outcome>>
  /\ IF wcount - 1 <= 0 /\ hpc = "wait"
     THEN WakeHelper("wwoken")
     ELSE rq' = Tail(rq) /\ UNCHANGED hpc

Step ==
  /\ rq # <<>>
  /\ LET e == Head(rq) IN
     CASE e[1] = "H" -> HelperStep
       [] e[1] = "T" -> TaskStep(e[2])
       [] e[1] = "G" -> GatherCb(e[2])
       [] e[1] = "W" -> WaitCb

Next == Start \/ (\E t \in Tasks : Complete(t) \/ Fail(t) \/ FailCancelled(t)) \/ Step

Spec == Init /\ [][Next]_vars
FairSpec == Spec /\ WF_vars(Step) /\ WF_vars(Start) /\ \A t \in Tasks : WF_vars(Complete(t) \/ Fail(t) \/ FailCancelled(t))

----------------------------------------------------------------------------
\* ---- properties ---------------------------------------------------------------------------
TypeOK ==
  /\ value \in 0..(bound + 2)
  /\ \A t \in Tasks : tpc[t] \in {"idle", "new", "acq", "grant", "canc_acq", "run", "res_ok", "res_fail", "canc_run"} \cup Terminal
  /\ hpc \in {"idle", "new", "gather", "gwoken", "wait", "wwoken", "hacq", "end"}
  /\ hres \in {"none", "returned", "raised"}

\* never more tasks inside the semaphore than its initial value
C20_Bound == Cardinality({t \in Tasks : tpc[t] \in Holding}) <= bound

\* results in submission order, one per partial function
C20_Order == hres = "returned" => /\ Len(hval) = N
                                  /\ \A i \in 1..N : /\ (hval[i].id = i \/ (mode = "return" /\ outcome[i] = "cancel" /\ hval[i].id = 0))
                                                       /\ (mode # "return" => hval[i].ok)

\* return_exceptions: never raises; every result or exception (also a CancelledError raised by a body) is returned in place
C20_ReturnAll == mode = "return" => /\ hres # "raised"
                                    /\ hres = "returned" => \A i \in 1..N : hval[i] = [ok |-> outcome[i] = "ok", id |-> IF outcome[i] = "cancel" THEN 0 ELSE i]

\* raise variants: returns only if nothing failed; raises the first exception in completion order
\* (a CancelledError raised by a partial function is an exception raised by a partial function)
C20_RaiseFirst == mode # "return" =>
                    /\ hres = "returned" => fails = <<>> /\ \A t \in Tasks : outcome[t] = "ok"
                    /\ hres = "raised" => fails # <<>> /\ hexc = fails[1]

\* cancel_on_error: when the helper raises, every unfinished task has been cancelled and none is running
C20_CancelOnError == (mode = "raise_cancel" /\ hres = "raised") => \A t \in Tasks : tpc[t] \in Terminal

\* on normal return no task is running
C20_NoneRunningOnReturn == hres = "returned" => \A t \in Tasks : tpc[t] \in Terminal

\* the helper's own acquire in WithoutSemaphore.__aexit__ never has to wait
C20_HelperNeverBlocks == hpc # "hacq"

\* a task that was cancelled never ran to completion afterwards, and only cancel_on_error cancels
C20_CancelOnlyWhenAsked == (\E t \in Tasks : outcome[t] # "cancel" /\ (tpc[t] \in {"cancelled", "canc_acq", "canc_run"} \/ must[t])) => mode = "raise_cancel" /\ gout = "exc"

\* ---- extra invariants (reported in the evidence, not part of C20's verdict): permit conservation
X_PermitsOnReturn == hres = "returned" => value = bound - 1                  \* the caller holds its permit again
X_PermitsOnRaise  == (hres = "raised" /\ \A t \in Tasks : tpc[t] \in Terminal) => value = bound - 1

\* reachability companions (expected to be violated)
Reach_Returned == hres # "returned"
Reach_Raised   == hres # "raised"
Reach_RaisedWithRunning == ~(hres = "raised" /\ \E t \in Tasks : tpc[t] \in Holding)
Reach_Queued   == ~(\E i \in 1..Len(sq) : sq[i].st = "p")
Reach_TwoFailures == Len(fails) < 2

\* liveness (under fairness): the helper terminates, and with it (except cancel_on_error=False after an error,
\* where the remaining tasks continue) every task
C20_Live == (hpc = "new") ~> (hres # "none")
C20_LiveTasks == (hpc = "new") ~> (\A t \in Tasks : tpc[t] \in Terminal)
=============================================================================
