------------------------- MODULE GatherOnlineTrace -------------------------
(* Trace validation (B2) for GatherOnline: each line of the ndjson file is one recorded execution of the real
   OnlineBoundedGather2 under the deterministic event loop:
     [script, bound, ev |-> << [a |-> "Start"|"Complete"|"Fail"|"Step", t, post |-> [...]], ... >>]           *)
EXTENDS GatherOnline, Json, IOUtils

Traces == ndJsonDeserialize(IOEnv.TRACE_FILE)
VARIABLES tid, l
tvars == <<vars, tid, l>>

TraceInit == Init /\ tid \in 1..Len(Traces) /\ l = 1 /\ script = Traces[tid].script /\ bound = Traces[tid].bound

Ev == Traces[tid].ev

AsSeq(f) == [i \in 1..N |-> f[i]]
PostOk(p) ==
  /\ value' = p.value
  /\ [i \in 1..Len(sq') |-> <<sq'[i].who, sq'[i].st>>] = p.sq
  /\ AsSeq(tpc') = p.tpc
  /\ AsSeq(must') = p.must
  /\ AsSeq(cbs') = p.cbs
  /\ pend' = p.pend /\ shutd' = p.shutd /\ ev' = p.ev /\ exc' = p.exc
  /\ dpc' = p.dpc /\ spc' = p.spc /\ souter' = p.souter /\ wcount' = p.wcount
  /\ rq' = p.rq
  /\ hres' = p.hres /\ hexc' = p.hexc
  /\ AsSeq(outcome') = p.outcome

TraceStep ==
  /\ l <= Len(Ev)
  /\ LET e == Ev[l] IN
     /\ \/ e.a = "Start"    /\ Start
        \/ e.a = "Complete" /\ Complete(e.t)
        \/ e.a = "Fail"     /\ Fail(e.t)
        \/ e.a = "FailCancelled" /\ FailCancelled(e.t)
        \/ e.a = "Step"     /\ Step
     /\ PostOk(e.post)
  /\ l' = l + 1 /\ UNCHANGED tid

TraceDone == l > Len(Ev) /\ UNCHANGED tvars

TraceNext == TraceStep \/ TraceDone
TraceSpec == TraceInit /\ [][TraceNext]_tvars
=============================================================================
