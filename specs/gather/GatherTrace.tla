---------------------------- MODULE GatherTrace ----------------------------
(* Trace validation (B2) for Gather: each line of the ndjson file is one recorded execution of the real
   bounded_gather2 under the deterministic event loop:
     [mode, bound, ev |-> << [a |-> "Start"|"Complete"|"Fail"|"FailCancelled"|"Step", t, post |-> [...]], ... >>]
   Every event must be a step of Gather with the logged arguments whose successor state projects to the logged
   post-state (every logged field is constrained); a trace that cannot be continued is a deadlock.           *)
EXTENDS Gather, Json, IOUtils

Traces == ndJsonDeserialize(IOEnv.TRACE_FILE)
VARIABLES tid, l
tvars == <<vars, tid, l>>

TraceInit == Init /\ tid \in 1..Len(Traces) /\ l = 1 /\ mode = Traces[tid].mode /\ bound = Traces[tid].bound

Ev == Traces[tid].ev

AsSeq(f) == [i \in 1..N |-> f[i]]
PostOk(p) ==
  /\ value' = p.value
  /\ [i \in 1..Len(sq') |-> <<sq'[i].who, sq'[i].st>>] = p.sq
  /\ AsSeq(tpc') = p.tpc
  /\ AsSeq(must') = p.must
  /\ AsSeq(cbs') = p.cbs
  /\ hpc' = p.hpc /\ gout' = p.gout /\ gexc' = p.gexc /\ nfin' = p.nfin /\ wcount' = p.wcount
  /\ rq' = p.rq
  /\ hres' = p.hres /\ hexc' = p.hexc
  /\ [i \in 1..Len(hval') |-> <<hval'[i].ok, hval'[i].id>>] = p.hval
  /\ AsSeq(outcome') = p.outcome

TraceStep ==
  /\ l <= Len(Ev)
  /\ LET e == Ev[l] IN
     /\ \/ e.a = "Start"    /\ Start
        \/ e.a = "Complete" /\ Complete(e.t)
        \/ e.a = "Fail"     /\ Fail(e.t)
        \/ e.a = "FailCancelled" /\ FailCancelled(e.t)
        \/ e.a = "Step"     /\ Step
     /\ PostOk(e.post)
  /\ l' = l + 1 /\ UNCHANGED tid

TraceDone == l > Len(Ev) /\ UNCHANGED tvars

TraceNext == TraceStep \/ TraceDone
TraceSpec == TraceInit /\ [][TraceNext]_tvars
=============================================================================
