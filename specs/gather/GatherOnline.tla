---------------------------- MODULE GatherOnline ----------------------------
(* C20: hail/python/hailtop/utils/utils.py  OnlineBoundedGather2 (call / wait / context-manager exit) and
   WithoutSemaphore, together with the parts of asyncio they are built from: asyncio.Semaphore, asyncio.Event,
   Task.cancel, asyncio.wait, asyncio.shield (around the task that runs _shutdown) and the FIFO ready queue.

   The driver D is the coroutine that uses the pool; like every user of these helpers it holds one permit:

       async with OnlineBoundedGather2(sema) as pool:
           ts = [pool.call(body, t) for t in FIRST]          FIRST = 1..N  ("waitcall": 1..N-1)
           script "wait", "waitcall", "waitraise":  await pool.wait([ts[0]])
           script "waitcall":                       pool.call(body, N)     (PoolShutdownError if the pool has shut down)
           script "raise", "waitraise":             raise DriverError

   Every body awaits a future that the environment resolves (Complete / Fail).
   Ready-queue entries: <<"D",0>> driver, <<"T",t>> background task t (run_and_cleanup), <<"S",0>> the task running
   _shutdown(), <<"I",0>> / <<"O",0>> shield's inner / outer done-callbacks, <<"W",0>> asyncio.wait's _on_completion.
*)
EXTENDS Naturals, Sequences, FiniteSets, TLC

CONSTANTS N, Bounds, Scripts

Tasks == 1..N
DriverExc == N + 1      \* the exception raised in the with-body
PoolShut  == N + 2      \* PoolShutdownError raised by call()
Nobody    == N + 3

VARIABLES
  script, bound,
  value, sq,   \* the semaphore (who = 0: the driver)
  tpc,         \* idle | new | acq | grant | canc_acq | run | res_ok | res_fail | canc_run | shut | shutwoken | done | failed | cancelled
  must,        \* Task._must_cancel
  cbs,         \* number of asyncio.wait callbacks registered on the task
  pend,        \* _pending as a sequence of task ids (dict order)
  shutd,       \* _pending is None
  ev,          \* _done_event.is_set()
  exc,         \* _exception: 0 none | task id | DriverExc | PoolShut
  dpc,         \* driver: idle | new | wait | wwoken | acq | grant | evwait | evwoken | end | assertfail
  dcont,       \* where the driver continues after re-acquiring the semaphore: afterwait | loop
  spc,         \* the task running _shutdown(): none | new | done
  sowner,      \* the background task that awaits shield(_shutdown())
  souter,      \* shield's outer future: none | pending | cancelled | done
  sreg,        \* _inner_done_callback still registered on the shutdown task
  wcount,      \* asyncio.wait's counter
  rq,
  hres, hexc,  \* what the context manager did: none | returned | raised, and which exception it raised
  \* ---- history variables used only by the properties
  fails, firstexc, outcome

vars == <<script, bound, value, sq, tpc, must, cbs, pend, shutd, ev, exc, dpc, dcont, spc, sowner, souter, sreg, wcount,
          rq, hres, hexc, fails, firstexc, outcome>>

Init ==
  /\ script \in Scripts /\ bound \in Bounds
  /\ value = bound /\ sq = <<>>
  /\ tpc = [t \in Tasks |-> "idle"]
  /\ must = [t \in Tasks |-> FALSE]
  /\ cbs = [t \in Tasks |-> 0]
  /\ pend = <<>> /\ shutd = FALSE /\ ev = TRUE /\ exc = 0
  /\ dpc = "idle" /\ dcont = "none"
  /\ spc = "none" /\ sowner = 0 /\ souter = "none" /\ sreg = FALSE
  /\ wcount = 0
  /\ rq = <<>>
  /\ hres = "none" /\ hexc = 0
  /\ fails = <<>> /\ firstexc = 0
  /\ outcome = [t \in Tasks |-> "none"]

----------------------------------------------------------------------------
Terminal == {"done", "failed", "cancelled"}
Holding  == {"run", "res_ok", "res_fail", "canc_run"}

\* ---- asyncio.Semaphore (as in module Gather)
Locked(v, q) == v = 0 \/ \E i \in 1..Len(q) : q[i].st # "c"
HasPending(q) == \E i \in 1..Len(q) : q[i].st = "p"
FirstPending(q) == CHOOSE i \in 1..Len(q) : q[i].st = "p" /\ \A j \in 1..(i - 1) : q[j].st # "p"
Dequeued(q, w) == SelectSeq(q, LAMBDA e : e.who # w)
Ent(w) == IF w = 0 THEN <<"D", 0>> ELSE <<"T", w>>
SeqToSet(s) == { s[i] : i \in 1..Len(s) }

(* The code of one atomic step is a composition of small effects on a record m of the mutable state:
     v q tp mu   semaphore value / waiters, task states, _must_cancel
     pe sh ev ex _pending, _pending is None, event, _exception
     dpc dcont   driver
     so          shield's outer future
     add         entries appended to the ready queue by this step, in order
     hres hexc fx   result of the context manager, first exception (history)                                *)
M0 == [v |-> value, q |-> sq, tp |-> tpc, mu |-> must, pe |-> pend, sh |-> shutd, ev |-> ev, ex |-> exc,
       dpc |-> dpc, dcont |-> dcont, so |-> souter, add |-> <<>>, hres |-> hres, hexc |-> hexc, fx |-> firstexc]

\* _wake_up_next / release / the tail of acquire() after a wake-up
MWake(m) == IF HasPending(m.q)
            THEN LET i == FirstPending(m.q) w == m.q[i].who IN
                 [m EXCEPT !.v = @ - 1, !.q = [m.q EXCEPT ![i].st = "g"], !.add = Append(@, Ent(w)),
                           !.tp = IF w = 0 THEN @ ELSE [@ EXCEPT ![w] = "grant"],
                           !.dpc = IF w = 0 THEN "grant" ELSE @]
            ELSE m
MRelease(m) == MWake([m EXCEPT !.v = @ + 1])
MResumeAcquire(m, w) == LET m1 == [m EXCEPT !.q = Dequeued(@, w)] IN IF m1.v > 0 THEN MWake(m1) ELSE m1

\* Event.set(): wakes the driver if it waits for the event
MSetEvent(m) == IF m.ev THEN m
                ELSE IF m.dpc = "evwait" THEN [m EXCEPT !.ev = TRUE, !.dpc = "evwoken", !.add = Append(@, <<"D", 0>>)]
                ELSE [m EXCEPT !.ev = TRUE]

\* Task.cancel() on every task of the sequence ts, in order
MCancel1(m, t) ==
  LET s == m.tp[t] IN
  IF s = "acq" THEN [m EXCEPT !.tp[t] = "canc_acq", !.add = Append(@, <<"T", t>>),
                              !.q = [i \in 1..Len(m.q) |-> IF m.q[i].who = t /\ m.q[i].st = "p" THEN [m.q[i] EXCEPT !.st = "c"] ELSE m.q[i]]]
  ELSE IF s = "run" THEN [m EXCEPT !.tp[t] = "canc_run", !.add = Append(@, <<"T", t>>)]
  ELSE IF s = "shut" THEN [m EXCEPT !.tp[t] = "shutwoken", !.so = "cancelled", !.add = @ \o << <<"O", 0>>, <<"T", t>> >>]
  ELSE IF s \in {"new", "grant", "res_ok", "res_fail", "canc_acq", "canc_run", "shutwoken"} THEN [m EXCEPT !.mu[t] = TRUE]
  ELSE m
RECURSIVE MCancelSeq(_, _)
MCancelSeq(m, ts) == IF ts = <<>> THEN m ELSE MCancelSeq(MCancel1(m, Head(ts)), Tail(ts))

\* _shutdown(): cancel all pending tasks, _pending = None, set the event
MShutdown(m) == IF m.sh THEN m ELSE MSetEvent([MCancelSeq(m, m.pe) EXCEPT !.sh = TRUE, !.pe = <<>>])

\* call(body, t)
MCall(m, t) == [m EXCEPT !.tp[t] = "new", !.pe = Append(@, t), !.ev = FALSE, !.add = Append(@, <<"T", t>>)]

\* the tail of run_and_cleanup: leave _pending, set the event when it became empty
MCleanup(m, t) == IF m.sh THEN m
                  ELSE LET m1 == [m EXCEPT !.pe = SelectSeq(@, LAMBDA u : u # t)] IN IF m1.pe = <<>> THEN MSetEvent(m1) ELSE m1

\* ---- the driver's control flow after the with-body ------------------------------------------------
\* `while self._pending: ...` and the final raise
MLoop(m) ==
  IF ~m.sh /\ m.pe # <<>>
  THEN IF m.ev THEN [m EXCEPT !.dpc = "assertfail"]
       ELSE [MRelease(m) EXCEPT !.dpc = "evwait"]                       \* WithoutSemaphore: release, wait for the event
  ELSE [m EXCEPT !.dpc = "end", !.hres = IF m.ex # 0 THEN "raised" ELSE "returned", !.hexc = m.ex]

\* WithoutSemaphore.__aexit__ (no exception inside): acquire again, then continue with the loop
MReacquireLoop(m) == IF ~Locked(m.v, m.q) THEN MLoop([m EXCEPT !.v = @ - 1])
                     ELSE [m EXCEPT !.q = Append(@, [who |-> 0, st |-> "p"]), !.dpc = "acq", !.dcont = "loop"]

\* __aexit__(e): record / shut down on an exception, then wait for the event without the semaphore
MExit(m, e) ==
  LET m1 == IF e = 0 THEN m
            ELSE IF m.ex = 0 THEN MShutdown([m EXCEPT !.ex = e, !.fx = IF @ = 0 THEN e ELSE @])
            ELSE m
      m2 == MRelease(m1)
  IN IF m2.ev THEN MReacquireLoop(m2) ELSE [m2 EXCEPT !.dpc = "evwait"]

\* the rest of the with-body after pool.wait()
MAfterWait(m) ==
  IF script = "waitcall"
  THEN IF m.sh THEN MExit(m, PoolShut) ELSE MExit(MCall(m, N), 0)
  ELSE MExit(m, IF script = "waitraise" THEN DriverExc ELSE 0)

MReacquireAfterWait(m) == IF ~Locked(m.v, m.q) THEN MAfterWait([m EXCEPT !.v = @ - 1])
                          ELSE [m EXCEPT !.q = Append(@, [who |-> 0, st |-> "p"]), !.dpc = "acq", !.dcont = "afterwait"]

\* install the record as the next state (the step consumed the head of the ready queue)
Install(m) ==
  /\ value' = m.v /\ sq' = m.q /\ tpc' = m.tp /\ must' = m.mu /\ pend' = m.pe /\ shutd' = m.sh /\ ev' = m.ev /\ exc' = m.ex
  /\ dpc' = m.dpc /\ dcont' = m.dcont /\ souter' = m.so /\ hres' = m.hres /\ hexc' = m.hexc /\ firstexc' = m.fx
  /\ rq' = Tail(rq) \o m.add

----------------------------------------------------------------------------
\* ---- environment ------------------------------------------------------------------------------
Start ==
  /\ dpc = "idle"
  /\ dpc' = "new"
  /\ rq' = Append(rq, <<"D", 0>>)
  /\ UNCHANGED <<script, bound, value, sq, tpc, must, cbs, pend, shutd, ev, exc, dcont, spc, sowner, souter, sreg, wcount,
                 hres, hexc, fails, firstexc, outcome>>

Resolve(t, how) ==
  /\ tpc[t] = "run"
  /\ tpc' = [tpc EXCEPT ![t] = CASE how = "ok" -> "res_ok" [] how = "fail" -> "res_fail" [] OTHER -> "canc_run"]
  /\ outcome' = [outcome EXCEPT ![t] = how]
  /\ rq' = Append(rq, <<"T", t>>)
  /\ UNCHANGED <<script, bound, value, sq, must, cbs, pend, shutd, ev, exc, dpc, dcont, spc, sowner, souter, sreg, wcount,
                 hres, hexc, fails, firstexc>>
Complete(t) == Resolve(t, "ok")
Fail(t) == Resolve(t, "fail")
\* the body raises CancelledError on its own (the future it awaits is cancelled): "the task is considered complete
\* and the pool and other background tasks continue running"
FailCancelled(t) == Resolve(t, "cancel")

----------------------------------------------------------------------------
\* ---- the driver ---------------------------------------------------------------------------------
DriverStep ==
  /\ UNCHANGED <<script, bound, spc, sowner, sreg, fails, outcome>>
  /\ CASE dpc = "new" ->
            \* acquire the driver's own permit, enter the pool, submit the first batch
            LET first == IF script = "waitcall" THEN N - 1 ELSE N
                RECURSIVE Calls(_, _)
                Calls(m, t) == IF t > first THEN m ELSE Calls(MCall(m, t), t + 1)
                m1 == Calls([M0 EXCEPT !.v = @ - 1], 1)
            IN IF script \in {"wait", "waitcall", "waitraise"}
               THEN \* pool.wait([task 1]): WithoutSemaphore.__aenter__ (release), asyncio.wait registers its callback
                    /\ Install([MRelease(m1) EXCEPT !.dpc = "wait"])
                    /\ cbs' = [cbs EXCEPT ![1] = @ + 1]
                    /\ wcount' = 1
               ELSE /\ Install(MExit(m1, IF script = "raise" THEN DriverExc ELSE 0))
                    /\ UNCHANGED <<cbs, wcount>>
       [] dpc = "wwoken" ->
            \* asyncio.wait returns (`finally: remove_done_callback`); WithoutSemaphore.__aexit__: acquire again
            /\ Install(MReacquireAfterWait(M0))
            /\ cbs' = [t \in Tasks |-> 0]
            /\ UNCHANGED wcount
       [] dpc = "grant" ->
            \* resumes inside acquire(): leaves the waiters, wakes the next one if units are left, then continues
            /\ Install(LET m1 == MResumeAcquire(M0, 0) IN IF dcont = "afterwait" THEN MAfterWait(m1) ELSE MLoop(m1))
            /\ UNCHANGED <<cbs, wcount>>
       [] dpc = "evwoken" ->
            \* Event.wait returned; WithoutSemaphore.__aexit__: acquire again, then `while self._pending`
            /\ Install(MReacquireLoop(M0))
            /\ UNCHANGED <<cbs, wcount>>
       [] OTHER -> FALSE

----------------------------------------------------------------------------
\* ---- a background task (run_and_cleanup) ----------------------------------------------------------
\* the task ends in state st; its asyncio.wait callbacks are scheduled
Ended(m, t, st) == [m EXCEPT !.tp[t] = st, !.mu[t] = FALSE, !.add = @ \o [i \in 1..cbs[t] |-> <<"W", 0>>]]

TaskStep(t) ==
  /\ UNCHANGED <<script, bound, wcount, outcome>>
  /\ LET s == tpc[t] IN
     CASE s = "new" /\ must[t] ->          \* cancelled before its first step: the coroutine never runs
            /\ Install(Ended(M0, t, "cancelled"))
            /\ cbs' = [cbs EXCEPT ![t] = 0]
            /\ UNCHANGED <<spc, sowner, sreg, fails>>
       [] s = "new" /\ ~must[t] ->         \* `async with self._sema`: acquire
            /\ Install(IF ~Locked(value, sq) THEN [M0 EXCEPT !.v = @ - 1, !.tp[t] = "run"]
                       ELSE [M0 EXCEPT !.q = Append(@, [who |-> t, st |-> "p"]), !.tp[t] = "acq"])
            /\ UNCHANGED <<cbs, spc, sowner, sreg, fails>>
       [] s = "grant" /\ ~must[t] ->
            /\ Install([MResumeAcquire(M0, t) EXCEPT !.tp[t] = "run"])
            /\ UNCHANGED <<cbs, spc, sowner, sreg, fails>>
       [] s = "grant" /\ must[t] ->        \* CancelledError inside acquire(): the unit is handed back; `except CancelledError: pass`
            /\ Install(Ended(MCleanup(MRelease([M0 EXCEPT !.q = Dequeued(@, t)]), t), t, "cancelled"))
            /\ cbs' = [cbs EXCEPT ![t] = 0]
            /\ UNCHANGED <<spc, sowner, sreg, fails>>
       [] s = "canc_acq" ->
            /\ Install(Ended(MCleanup([M0 EXCEPT !.q = Dequeued(@, t)], t), t, "cancelled"))
            /\ cbs' = [cbs EXCEPT ![t] = 0]
            /\ UNCHANGED <<spc, sowner, sreg, fails>>
       [] s = "res_ok" \/ s = "canc_run" \/ (s = "res_fail" /\ must[t]) ->
            \* the body returns or is cancelled: release, leave _pending
            /\ Install(Ended(MCleanup(MRelease(M0), t), t, IF s = "res_ok" /\ ~must[t] THEN "done" ELSE "cancelled"))
            /\ cbs' = [cbs EXCEPT ![t] = 0]
            /\ UNCHANGED <<spc, sowner, sreg, fails>>
       [] s = "res_fail" /\ ~must[t] ->
            \* the body raises: release; the first exception starts `await asyncio.shield(self._shutdown())`
            /\ fails' = Append(fails, t)
            /\ IF exc = 0
               THEN /\ Install([MRelease(M0) EXCEPT !.ex = t, !.fx = IF @ = 0 THEN t ELSE @, !.tp[t] = "shut", !.so = "pending",
                                                    !.add = Append(@, <<"S", 0>>)])
                    /\ spc' = "new" /\ sowner' = t /\ sreg' = TRUE
                    /\ UNCHANGED cbs
               ELSE /\ Install(Ended(MCleanup(MRelease(M0), t), t, "failed"))       \* 'discarding exception'
                    /\ cbs' = [cbs EXCEPT ![t] = 0]
                    /\ UNCHANGED <<spc, sowner, sreg>>
       [] s = "shutwoken" ->
            \* resumes from shield: cancelled -> CancelledError leaves run_and_cleanup through the except block
            /\ Install(Ended(IF souter = "cancelled" \/ must[t] THEN M0 ELSE MCleanup(M0, t), t, "failed"))
            /\ cbs' = [cbs EXCEPT ![t] = 0]
            /\ UNCHANGED <<spc, sowner, sreg, fails>>
       [] OTHER -> FALSE

\* the task that runs _shutdown()
ShutdownStep ==
  /\ spc = "new"
  /\ Install([MShutdown(M0) EXCEPT !.add = IF sreg THEN Append(@, <<"I", 0>>) ELSE @])
  /\ spc' = "done"
  /\ UNCHANGED <<script, bound, cbs, sowner, sreg, wcount, fails, outcome>>

InnerCb ==
  /\ Install(IF souter = "pending" THEN [M0 EXCEPT !.so = "done", !.tp[sowner] = "shutwoken", !.add = << <<"O", 0>>, <<"T", sowner>> >>] ELSE M0)
  /\ UNCHANGED <<script, bound, cbs, spc, sowner, sreg, wcount, fails, outcome>>

OuterCb ==
  /\ Install(M0)
  /\ sreg' = IF spc # "done" THEN FALSE ELSE sreg
  /\ UNCHANGED <<script, bound, cbs, spc, sowner, wcount, fails, outcome>>

WaitCb ==
  /\ wcount' = wcount - 1
  /\ Install(IF wcount - 1 <= 0 /\ dpc = "wait" THEN [M0 EXCEPT !.dpc = "wwoken", !.add = << <<"D", 0>> >>] ELSE M0)
  /\ UNCHANGED <<script, bound, cbs, spc, sowner, sreg, fails, outcome>>

Step ==
  /\ rq # <<>>
  /\ LET e == Head(rq) IN
     CASE e[1] = "D" -> DriverStep
       [] e[1] = "T" -> TaskStep(e[2])
       [] e[1] = "S" -> ShutdownStep
       [] e[1] = "I" -> InnerCb
       [] e[1] = "O" -> OuterCb
       [] e[1] = "W" -> WaitCb

Next == Start \/ (\E t \in Tasks : Complete(t) \/ Fail(t) \/ FailCancelled(t)) \/ Step

Spec == Init /\ [][Next]_vars
FairSpec == Spec /\ WF_vars(Step) /\ WF_vars(Start) /\ \A t \in Tasks : WF_vars(Complete(t) \/ Fail(t) \/ FailCancelled(t))

----------------------------------------------------------------------------
\* ---- properties ---------------------------------------------------------------------------
TypeOK ==
  /\ value \in 0..(bound + 2)
  /\ \A t \in Tasks : tpc[t] \in {"idle", "new", "acq", "grant", "canc_acq", "run", "res_ok", "res_fail", "canc_run", "shut", "shutwoken"} \cup Terminal
  /\ dpc \in {"idle", "new", "wait", "wwoken", "acq", "grant", "evwait", "evwoken", "end", "assertfail"}

\* never more bodies inside the semaphore than its initial value
C20_Bound == Cardinality({t \in Tasks : tpc[t] \in Holding}) <= bound

\* when the context manager returns normally every submitted task has finished; when it raises, every
\* unfinished task has been cancelled (the cancellation is delivered at the task's next step, before any further
\* code of its body runs) and nothing can start any more
CancelPending(t) == tpc[t] \in {"canc_acq", "canc_run", "shutwoken"} \/ must[t]
C20_ExitQuiescent ==
  /\ hres = "returned" => \A t \in Tasks : tpc[t] = "done" \/ (tpc[t] = "cancelled" /\ outcome[t] = "cancel")
  /\ hres = "raised" => \A t \in Tasks : tpc[t] \in Terminal \cup {"idle"} \/ CancelPending(t)

\* it raises the first exception (of a background task or of the with-body), and returns only if there was none
C20_FirstException ==
  /\ hres = "raised" => firstexc # 0 /\ hexc = firstexc
  /\ hres = "returned" => firstexc = 0 /\ fails = <<>> /\ \A t \in Tasks : outcome[t] \in {"ok", "cancel"}

\* after the first failure every unfinished task is cancelled: nothing can enter the semaphore any more
C20_ShutdownCancels == shutd => \A t \in Tasks : tpc[t] # "acq" /\ (tpc[t] \in {"new", "grant"} => must[t])

\* the `assert not self._done_event.is_set()` in __aexit__ holds; _pending non-empty implies the event is clear
C20_EventConsistent == dpc # "assertfail" /\ (~shutd /\ pend # <<>> => ~ev)

\* extra invariant (reported, not part of the verdict): the driver holds exactly its permit again on normal return
X_PermitsOnReturn == hres = "returned" => value = bound - 1
X_PermitsOnRaise  == (hres = "raised" /\ \A t \in Tasks : tpc[t] \in Terminal \cup {"idle"}) => value = bound - 1
\* stricter reading of "leave no task running" on the error path (the docstring of _shutdown says "wait for them to
\* complete"): reported in the evidence only
X_ExitWaitsForCancelled == hres = "raised" => \A t \in Tasks : tpc[t] \in Terminal \cup {"idle"}

\* reachability companions (expected to be violated)
Reach_Returned == hres # "returned"
Reach_Raised   == hres # "raised"
Reach_DriverQueued == dpc # "acq"
Reach_Discarded == ~(\E t \in Tasks : tpc[t] = "failed" /\ exc # t /\ exc # 0)
Reach_PoolShut == ~(hres = "raised" /\ script = "waitcall" /\ tpc[N] = "idle")

\* liveness (under fairness): the context manager exit terminates
C20_Live == (dpc = "new") ~> (hres # "none")
=============================================================================
