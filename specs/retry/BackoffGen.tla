---- MODULE BackoffGen ----
EXTENDS BackoffCheck
ASSUME Gen
====
