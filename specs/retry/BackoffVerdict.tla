---- MODULE BackoffVerdict ----
EXTENDS BackoffCheck
ASSUME Verdict
====
