---------------------------- MODULE BackoffCheck ----------------------------
(* B3 for the delay functions themselves (delay_ms_for_try, sleep_before_try, sync_sleep_before_try are the
   "wait between tries" of every retry loop in the repository, with caller-supplied base and maximum).
   Gen writes the input universe, the harness calls the real functions with the jitter forced to its
   extremes and to seeded interior values, Verdict judges every recorded (tries, base, max, delay).       *)
EXTENDS Backoff, Sequences, SequencesExt, FiniteSets, Json, IOUtils, TLC

Cap == 30
TriesU == (0..12) \cup {29, 30, 31, 32, 40, 64, 100, 1000}
BaseMax == { <<1000, 60000>>, <<1, 1>>, <<1, 7>>, <<3, 100>>, <<7, 1000>>, <<100, 60000>>, <<1000, 5000>>, <<250, 250>>,
             <<5000, 1000>>, <<1, 1000000000>>, <<999, 999999937>>, <<2, 1000000000>>, <<1000, 30000>>, <<1000, 64000>> }
Inputs == { [tries |-> t, base |-> bm[1], max |-> bm[2]] : t \in TriesU, bm \in BaseMax }

Gen == ndJsonSerialize(IOEnv.BK_INPUTS, SetToSeq(Inputs))

Cases == ndJsonDeserialize(IOEnv.BK_CASES)
Bad == { i \in 1..Len(Cases) : ~DelayOk(Cases[i].tries, Cases[i].base, Cases[i].max, Cap, Cases[i].d) }
AtLo == Cardinality({ i \in 1..Len(Cases) : Cases[i].d = DelayLo(Cases[i].tries, Cases[i].base, Cases[i].max, Cap) })
AtHi == Cardinality({ i \in 1..Len(Cases) : Cases[i].d = DelayHi(Cases[i].tries, Cases[i].base, Cases[i].max, Cap) })
Inside == Cardinality({ i \in 1..Len(Cases) : /\ Cases[i].d > DelayLo(Cases[i].tries, Cases[i].base, Cases[i].max, Cap)
                                               /\ Cases[i].d < DelayHi(Cases[i].tries, Cases[i].base, Cases[i].max, Cap) })
Verdict == JsonSerialize(IOEnv.BK_VERDICT, [n |-> Len(Cases), bad |-> SetToSeq(Bad), at_lo |-> AtLo, at_hi |-> AtHi, inside |-> Inside])
=============================================================================
