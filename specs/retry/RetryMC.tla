------------------------------ MODULE RetryMC ------------------------------
(* Model-checking root: Retry, plus (as a start-up side effect of the same TLC run) the input universe of the
   delay-function check written to IOEnv.BK_INPUTS.                                                          *)
EXTENDS Retry, BackoffCheck
ASSUME Gen
=============================================================================
