----------------------------- MODULE RetryTrace -----------------------------
(* Trace validation (B2) for Retry.  Each line of the ndjson file is one recorded execution of the real
   retry helper under the virtual event loop, driven by a fault plan that is a path of Retry's state graph:

     [ev |-> << [a |-> "Call"|"Succeed"|"Fail"|"Sleep"|"Raise"|"Return"|"CancelSleep",
                 c   |-> class of the injected exception (sequence of flags; Fail only),
                 obs |-> what the three real classifier functions answered for that exception object,
                 d   |-> virtual milliseconds the helper slept (Sleep only; whole: it is a whole number of ms),
                 n   |-> number of invocations of f so far,
                 same|-> the object that left the helper is the one f raised / returned ] , ... >>]

   Every event must be a step of Retry with the logged arguments; an event that is not (a retry that should
   have been a raise, a delay outside the band, a second call without a sleep ...) leaves the trace without
   successor: a deadlock with the offending prefix as counter-example.                                      *)
EXTENDS Retry, BackoffCheck

Traces == ndJsonDeserialize(IOEnv.TRACE_FILE)
VARIABLES tid, l
tvars == <<vars, tid, l>>

SeqSet(s) == { s[i] : i \in 1..Len(s) }
Ev == Traces[tid].ev

\* the verdict on the delay-function cases (BackoffCheck) is computed and written when this module is loaded
ASSUME Verdict

TraceInit == Init /\ tid \in 1..Len(Traces) /\ l = 1

TraceStep ==
  /\ l <= Len(Ev)
  /\ LET e == Ev[l] IN
     /\ \/ e.a = "Call"    /\ Call
        \/ e.a = "Succeed" /\ Succeed
        \/ e.a = "Fail"    /\ Fail(SeqSet(e.c))
                           \* the classifiers of the code agree with the class the table gives the exception
                           /\ (SeqSet(e.c) \notin Abrupt => SeqSet(e.obs) = SeqSet(e.c))
        \/ e.a = "Sleep"   /\ Sleep(e.d) /\ e.whole
        \/ e.a = "Raise"   /\ Raise /\ e.same
        \/ e.a = "Return"  /\ Return /\ e.same
        \/ e.a = "CancelSleep" /\ CancelSleep
     /\ calls' = e.n
  /\ l' = l + 1 /\ UNCHANGED tid

TraceDone == l > Len(Ev) /\ UNCHANGED tvars

TraceNext == TraceStep \/ TraceDone
TraceSpec == TraceInit /\ [][TraceNext]_tvars

\* a recorded execution must be complete: it ends with the helper having returned or raised
TraceComplete == (l > Len(Ev)) => (pc \in {"returned", "raised"})
=============================================================================
