------------------------------- MODULE Retry -------------------------------
(* C21: the retry policy of hailtop.utils.retry_transient_errors[_with_debug_string | _with_delayed_warnings].

   One call of the helper against an operation f whose successive invocations fail with a finite sequence of
   exceptions and then (perhaps) succeed.  An exception is abstracted to its *class*: the subset of
       {"limited", "rate", "transient"}
   for which is_limited_retries_error / is_rate_limit_error / is_transient_error answer TRUE ({} = a permanent
   error), or one of the two non-`Exception` interruptions {"cancel"} (asyncio.CancelledError) and {"keyboard"}
   (KeyboardInterrupt / SystemExit).

   One action per atomic region of the loop (code between two awaits):

     Call          the helper invokes f (first try, or after the sleep has elapsed)            [await f(...)]
     Succeed       environment: f returns its value
     Fail(c)       environment: f raises an exception of class c; tries := tries + 1           [except ...]
     Sleep(d)      the helper decides to retry and goes to sleep for d milliseconds            [await asyncio.sleep(delay)]
     Raise         the helper lets the exception propagate
     Return        the helper returns f's value
     CancelSleep   environment: the caller cancels the helper while it sleeps

   The decision taken in state "failed" is what C21 is about:

     class has rate or transient                   -> must retry   (whatever `tries` is)
     class is permanent / cancel / keyboard        -> must raise at once
     class is limited only (not otherwise transient)
          tries <= 5                               -> must retry   (the code: `tries <= 5 and is_limited_retries_error(e)`)
          lim   >= 5  (five such retries granted)  -> must raise   ("give up after at most five retries")
          otherwise (tries > 5 but lim < 5: earlier failures were transient ones)
               Policy = "code"      -> raise   (what utils.py does: `tries` counts ALL failures)
               Policy = "statement" -> either  (the property does not say which counter is meant; both are
                                                within "at most five retries")
   `lim` is a history variable: the number of retries granted so far to limited-only errors.                *)
EXTENDS Naturals, FiniteSets, Backoff

CONSTANTS MaxFail,         \* model bound: at most this many failures are injected in one call
          BaseMs, MaxMs,   \* DEFAULT_BASE_DELAY_MS, DEFAULT_MAX_DELAY_MS
          Log2Max,         \* LOG_2_MAX_MULTIPLIER
          LimitedRetries,  \* 5
          Policy,          \* "code" | "statement"
          Delays           \* "extremes": Sleep picks one of the two ends of the band (graph generation);
                           \* "any": every delay of the band (trace validation)

VARIABLES pc, tries, lim, cur, delay, calls
vars == <<pc, tries, lim, cur, delay, calls>>

Flags  == {"limited", "rate", "transient"}
Abrupt == {{"cancel"}, {"keyboard"}}
Faults == (SUBSET Flags) \cup Abrupt

Retryable(c)   == c \notin Abrupt /\ c \cap {"rate", "transient"} # {}
LimitedOnly(c) == c = {"limited"}
Permanent(c)   == c \in Abrupt \/ c = {}

MustRetry(c, t, l) == Retryable(c) \/ (LimitedOnly(c) /\ t <= LimitedRetries)
MustRaise(c, t, l) == \/ Permanent(c)
                      \/ LimitedOnly(c) /\ (IF Policy = "code" THEN t > LimitedRetries ELSE l >= LimitedRetries)
MayRetry(c, t, l) == ~MustRaise(c, t, l)
MayRaise(c, t, l) == ~MustRetry(c, t, l)

Lo(t) == DelayLo(t, BaseMs, MaxMs, Log2Max)
Hi(t) == DelayHi(t, BaseMs, MaxMs, Log2Max)
DelayChoices(t) == IF Delays = "extremes" THEN {Lo(t), Hi(t)} ELSE Lo(t)..Hi(t)
\* state-independent superset, so that TLC labels every Sleep edge with its delay
AllDelays == IF Delays = "extremes" THEN UNION { {Lo(t), Hi(t)} : t \in 1..MaxFail } ELSE 0..MaxMs

TypeOK ==
  /\ pc \in {"start", "calling", "succeeded", "failed", "sleeping", "cancelled", "returned", "raised"}
  /\ tries \in Nat /\ lim \in Nat /\ calls \in Nat /\ delay \in Nat
  /\ cur \in Faults

Init == pc = "start" /\ tries = 0 /\ lim = 0 /\ cur = {} /\ delay = 0 /\ calls = 0

Call ==
  /\ pc \in {"start", "sleeping"}
  /\ pc' = "calling" /\ calls' = calls + 1 /\ delay' = 0
  /\ UNCHANGED <<tries, lim, cur>>

Succeed ==
  /\ pc = "calling"
  /\ pc' = "succeeded"
  /\ UNCHANGED <<tries, lim, cur, delay, calls>>

Fail(c) ==
  /\ pc = "calling" /\ tries < MaxFail /\ c \in Faults
  /\ pc' = "failed" /\ cur' = c /\ tries' = tries + 1
  /\ UNCHANGED <<lim, delay, calls>>

Sleep(d) ==
  /\ pc = "failed" /\ MayRetry(cur, tries, lim)
  /\ d \in DelayChoices(tries)
  /\ pc' = "sleeping" /\ delay' = d
  /\ lim' = IF LimitedOnly(cur) THEN lim + 1 ELSE lim
  /\ UNCHANGED <<tries, cur, calls>>

Raise ==
  /\ \/ pc = "failed" /\ MayRaise(cur, tries, lim)
     \/ pc = "cancelled"
  /\ pc' = "raised"
  /\ UNCHANGED <<tries, lim, cur, delay, calls>>

Return ==
  /\ pc = "succeeded"
  /\ pc' = "returned"
  /\ UNCHANGED <<tries, lim, cur, delay, calls>>

CancelSleep ==
  /\ pc = "sleeping"
  /\ pc' = "cancelled" /\ cur' = {"cancel"}
  /\ UNCHANGED <<tries, lim, delay, calls>>

Next == Call \/ Succeed \/ (\E c \in Faults : Fail(c)) \/ (\E d \in AllDelays : Sleep(d))
        \/ Raise \/ Return \/ CancelSleep

Spec     == Init /\ [][Next]_vars
FairSpec == Spec /\ WF_vars(Call) /\ WF_vars(Succeed \/ \E c \in Faults : Fail(c))
                 /\ WF_vars(\E d \in AllDelays : Sleep(d)) /\ WF_vars(Raise) /\ WF_vars(Return)

(* ------------------------------- the property C21 ------------------------------------------------ *)
\* "re-run an operation after every transient or rate-limit failure"
C21_TransientRetried == [][(pc = "failed" /\ Retryable(cur)) => (pc' = "sleeping")]_vars
\* "... until it succeeds": a retried failure is followed by exactly one new invocation of f
C21_Rerun == /\ (pc \in {"calling", "succeeded", "returned"}) => (calls = tries + 1)
             /\ (pc \in {"failed", "sleeping", "cancelled", "raised"}) => (calls = tries)
\* "give up after at most five retries on limited-retry errors that are not otherwise transient"
C21_LimitedAtMostFive == lim <= LimitedRetries
C21_LimitedRetriedEarly == [][(pc = "failed" /\ LimitedOnly(cur) /\ tries <= LimitedRetries) => (pc' = "sleeping")]_vars
C21_LimitedGivenUp == [][(pc = "failed" /\ LimitedOnly(cur) /\ lim >= LimitedRetries) => (pc' = "raised")]_vars
\* "raise any other error immediately without retrying"
C21_OthersRaiseAtOnce == [][(pc = "failed" /\ Permanent(cur)) => (pc' = "raised" /\ calls' = calls)]_vars
\* "wait between tries for a delay within the documented jittered exponential bounds and never longer than the maximum"
C21_DelayBounds == (pc = "sleeping") => (DelayOk(tries, BaseMs, MaxMs, Log2Max, delay) /\ delay <= MaxMs)
C21_WaitBetweenTries == [][(pc' = "calling" /\ calls > 0) => (pc = "sleeping")]_vars
\* a value is returned only if f returned it; an exception leaves only after a failure or a cancellation
C21_ReturnOnlyOnSuccess == [][(pc' = "returned") => (pc = "succeeded")]_vars
\* with finitely many failures the helper terminates (it returns as soon as f succeeds)
C21_Terminates == <>(pc \in {"returned", "raised"})
=============================================================================
