------------------------------ MODULE Backoff ------------------------------
(* The documented back-off of hailtop.utils (delay_ms_for_try / sleep_before_try), "equal jitter" after
   https://aws.amazon.com/blogs/architecture/exponential-backoff-and-jitter/ :

       ceiling  c(t) = base * 2^min(t, cap)                 (cap = LOG_2_MAX_MULTIPLIER = 30)
       delay    d    in  [ c(t) div 2 .. c(t) ],  then clipped to max

   i.e. the admissible delays for try number t are   DelayLo(t) .. DelayHi(t)   with
       DelayLo = min(c div 2, max)      DelayHi = min(c, max)      (so never above max).
   This is a relation (any jitter inside the band is accepted), not a re-implementation.

   TLC's integers are 32 bit, c(t) is not: the ceiling is computed saturated at 2*max, which leaves both
   bounds unchanged (c > 2 max  =>  c div 2 >= max  =>  both bounds are max).  Needs 1 <= base, max <= 10^9. *)
EXTENDS Naturals

Min(a, b) == IF a < b THEN a ELSE b

RECURSIVE SatCeil(_, _, _, _)
SatCeil(t, base, max, cap) ==
  IF t = 0 \/ cap = 0 THEN Min(base, 2 * max)
  ELSE LET p == SatCeil(t - 1, base, max, cap - 1) IN
       IF p >= max THEN 2 * max ELSE 2 * p

DelayLo(t, base, max, cap) == Min(SatCeil(t, base, max, cap) \div 2, max)
DelayHi(t, base, max, cap) == Min(SatCeil(t, base, max, cap), max)

DelayOk(t, base, max, cap, d) == DelayLo(t, base, max, cap) <= d /\ d <= DelayHi(t, base, max, cap) /\ d <= max
=============================================================================
