---- MODULE GenomePartitionGen ----
EXTENDS GenomePartition
ASSUME Lemma
ASSUME Gen
====
