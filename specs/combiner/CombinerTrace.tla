--------------------------- MODULE CombinerTrace ---------------------------
(* Trace validation (B2) for Combiner.  Each line of the ndjson file is one recorded execution of the real
   VariantDatasetCombiner (under the fake hl of checks/_combiner.py):
     [par |-> [ng, vn, bf, batch, ext],
      ev  |-> << [a |-> "Step"|"Save"|"Crash"|"Load"|"LoadRefused",
                  post |-> [mem |-> [alive, gvcfs, names, bins (<< <<bin, datasets>>, ... >> ascending), job, epoch],
                            disk |-> [saved, gvcfs, names, vdses],
                            store |-> << [p, leaves], ... >>, nextepoch]], ... >>]
   Every event must be a step of Combiner whose successor state equals the logged post-state; all invariants
   of Combiner are evaluated on every state.  A trace that cannot be continued deadlocks this specification. *)
EXTENDS Combiner, Json, IOUtils

Traces == ndJsonDeserialize(IOEnv.TRACE_FILE)
VARIABLES tid, l
tvars == <<vars, tid, l>>

TraceInit == /\ tid \in 1..Len(Traces) /\ l = 1
             /\ par = Traces[tid].par
             /\ InitRest

Ev == Traces[tid].ev

RECURSIVE AscSeq(_)
AscSeq(b) == IF DOMAIN b = {} THEN <<>> ELSE LET m == MinOf(DOMAIN b) IN << <<m, b[m]>> >> \o AscSeq(Remove(b, m))

PostOk(p) ==
  /\ mem'.alive = p.mem.alive /\ mem'.gvcfs = p.mem.gvcfs /\ mem'.names = p.mem.names
  /\ mem'.job = p.mem.job /\ mem'.epoch = p.mem.epoch
  /\ AscSeq(mem'.bins) = p.mem.bins
  /\ disk'.saved = p.disk.saved /\ disk'.gvcfs = p.disk.gvcfs /\ disk'.names = p.disk.names
  /\ disk'.vdses = p.disk.vdses
  /\ { <<q, store'[q].leaves>> : q \in DOMAIN store' } = { <<p.store[i].p, p.store[i].leaves>> : i \in 1..Len(p.store) }
  /\ nextepoch' = p.nextepoch

TraceStep ==
  /\ l <= Len(Ev)
  /\ LET e == Ev[l] IN
     /\ \/ e.a = "Step"  /\ Step
        \/ e.a = "Save"  /\ Save
        \/ e.a = "Crash" /\ Crash
        \/ e.a = "Load"  /\ Load
        \/ e.a = "LoadRefused" /\ LoadRefused
     /\ PostOk(e.post)
  /\ l' = l + 1 /\ UNCHANGED tid

TraceDone == l > Len(Ev) /\ UNCHANGED tvars

TraceNext == TraceStep \/ TraceDone
TraceSpec == TraceInit /\ [][TraceNext]_tvars
=============================================================================
