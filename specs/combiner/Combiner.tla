------------------------------ MODULE Combiner ------------------------------
(* C38: the merge plan of hail.vds.combiner.VariantDatasetCombiner
   (hail/python/hail/vds/combiner/variant_dataset_combiner.py) with save / crash / load.

   One action per public call of the class:

     StepGvcfs / StepVdses   VariantDatasetCombiner.step():   _step_gvcfs if GVCFs remain, else _step_vdses
     Save   VariantDatasetCombiner.save():   the plan (to_dict) is written to save_path
     Crash  the process dies: everything in memory (including _job_id and _uuid) is lost
     Load   load_combiner(save_path):        a new combiner is built from the saved plan
            (fresh uuid, _job_id = 1, datasets re-binned from their sample counts);
            refused with FatalError when the output exists and the plan is unfinished

   The parameters (number of GVCFs, sample counts of the input datasets, branch factor, GVCF batch
   size, external-header mode) are chosen in Init, so one TLC run quantifies over a parameter space.

   Inputs are integers:  i > 0 is the i-th GVCF (one sample), -j is the j-th input dataset
   (par.vn[j] samples).  A dataset is known to the plan by [path, n]; what a path contains
   (the sequence of original inputs it was built from, in column order) is in `store`, the model
   of the file system.  Paths are <<epoch, kind, job, index>>:
       <<0,"in",0,j>>  input dataset j            <<0,"out",0,0>>  the output
       <<e,"g",job,c>> c-th dataset of GVCF job   <<e,"v",job,0>>  result of dataset-merge job
   where e identifies the uuid of the combiner object that wrote it.

   floor(log(n, branch_factor)) is floating point in the code; it is a parameter of the
   specification (FLT[bf][n]); no property below depends on its values.                        *)
EXTENDS Integers, Sequences, FiniteSets, TLC

CONSTANTS MaxG,        \* GVCF counts 0..MaxG
          VdsChoices,  \* set of sequences of sample counts of the input datasets
          BFs,         \* branch factors (>= 2)
          Batches,     \* gvcf batch sizes (>= 1)
          Exts,        \* subset of BOOLEAN: external header + explicit sample names?
          MaxEpoch,    \* bound on combiner objects ever constructed (1 + number of loads)
          MaxCrash,    \* bound on crashes
          FLT          \* FLT[bf][n] = floor(log(n, bf)) as computed by the platform

VARIABLES par, mem, disk, store, nextepoch, crashes
vars == <<par, mem, disk, store, nextepoch, crashes>>

-----------------------------------------------------------------------------
Min2(a, b) == IF a <= b THEN a ELSE b
Max2(a, b) == IF a >= b THEN a ELSE b
MinOf(S) == CHOOSE x \in S : \A y \in S : x <= y
MaxOf(S) == CHOOSE x \in S : \A y \in S : x >= y
Range(s) == { s[i] : i \in 1..Len(s) }

RECURSIVE SumN(_, _)
SumN(s, i) == IF i > Len(s) THEN 0 ELSE s[i].n + SumN(s, i + 1)

FL(n)   == FLT[par.bf][n]
Bin1(n) == Max2(1, FL(n))               \* max(1, floor(log(n_samples, branch_factor)))

InPath(j) == <<0, "in", 0, j>>
OutPath   == <<0, "out", 0, 0>>

\* ---- dict-of-lists helpers (self._vdses is a defaultdict(list)) ---------------------------
Put(f, k, v)    == [x \in DOMAIN f \cup {k} |-> IF x = k THEN v ELSE f[x]]
Remove(f, k)    == [x \in DOMAIN f \ {k} |-> f[x]]
AppendBin(b, k, ds) == Put(b, k, IF k \in DOMAIN b THEN Append(b[k], ds) ELSE <<ds>>)
NumVds(b)       == LET RECURSIVE Cnt(_)
                       Cnt(S) == IF S = {} THEN 0 ELSE LET k == MinOf(S) IN Len(b[k]) + Cnt(S \ {k})
                   IN Cnt(DOMAIN b)

RECURSIVE RebinFrom(_, _, _)
RebinFrom(s, i, acc) == IF i > Len(s) THEN acc ELSE RebinFrom(s, i + 1, AppendBin(acc, Bin1(s[i].n), s[i]))
Rebin(s) == RebinFrom(s, 1, <<>>)       \* the loop in __init__

RECURSIVE FlatDesc(_)                     \* to_dict: [md for i in sorted(bins, reverse=True) for md in bins[i]]
FlatDesc(b) == IF DOMAIN b = {} THEN <<>> ELSE LET m == MaxOf(DOMAIN b) IN b[m] \o FlatDesc(Remove(b, m))

TakeFirst(s, k) == SubSeq(s, 1, Min2(k, Len(s)))              \* s[:k]
DropFirst(s, k) == SubSeq(s, k + 1, Len(s))                   \* s[k:]
TakeLast(s, k)  == SubSeq(s, Max2(1, Len(s) - k + 1), Len(s)) \* s[-k:]   (k > 0)
DropLast(s, k)  == SubSeq(s, 1, Len(s) - k)                   \* s[:-k]   (k > 0)

RECURSIVE LeavesOf(_, _)                  \* what combining the datasets s[i..] (in this order) contains
LeavesOf(s, i) == IF i > Len(s) THEN <<>>
                  ELSE (IF s[i].path \in DOMAIN store THEN store[s[i].path].leaves ELSE <<>>) \o LeavesOf(s, i + 1)

-----------------------------------------------------------------------------
ParamSpace == { p \in [ng : 0..MaxG, vn : VdsChoices, bf : BFs, batch : Batches, ext : Exts] :
                  /\ p.ng + Len(p.vn) >= 1
                  /\ (p.ext => p.ng >= 1) }

Dead   == [alive |-> FALSE, gvcfs |-> <<>>, names |-> <<>>, bins |-> <<>>, job |-> 0, epoch |-> 0]
NoPlan == [saved |-> FALSE, gvcfs |-> <<>>, names |-> <<>>, vdses |-> <<>>]

InitRest ==
  /\ mem = [alive |-> TRUE,
            gvcfs |-> [i \in 1..par.ng |-> i],
            names |-> IF par.ext THEN [i \in 1..par.ng |-> i] ELSE <<>>,
            bins  |-> Rebin([j \in 1..Len(par.vn) |-> [path |-> InPath(j), n |-> par.vn[j]]]),
            job   |-> 1,
            epoch |-> 1]
  /\ disk = NoPlan
  /\ store = [p \in { InPath(j) : j \in 1..Len(par.vn) } |-> [leaves |-> <<-(p[4])>>]]
  /\ nextepoch = 2
  /\ crashes = 0

Init == par \in ParamSpace /\ InitRest

Finished(m) == m.gvcfs = <<>> /\ DOMAIN m.bins = {}

-----------------------------------------------------------------------------
(* _step_gvcfs: the first batch*bf GVCFs are merged, bf at a time, into ceil(k/bf) datasets.    *)
StepGvcfs ==
  LET bf     == par.bf
      k      == Min2(par.batch * bf, Len(mem.gvcfs))
      files  == SubSeq(mem.gvcfs, 1, k)
      rest   == DropFirst(mem.gvcfs, par.batch * bf)
      nrest  == IF par.ext THEN DropFirst(mem.names, par.batch * bf) ELSE mem.names
      nch    == (k + bf - 1) \div bf
      chunk(c) == SubSeq(files, (c - 1) * bf + 1, Min2(c * bf, k))
      md(c)  == [path |-> <<mem.epoch, "g", mem.job, c - 1>>, n |-> Len(chunk(c))]
      RECURSIVE AddAll(_, _)
      AddAll(b, c) == IF c > nch THEN b ELSE AddAll(AppendBin(b, Bin1(md(c).n), md(c)), c + 1)
  IN
  /\ mem.alive /\ mem.gvcfs # <<>>
  /\ IF rest = <<>> /\ DOMAIN mem.bins = {} /\ nch = 1
     THEN \* finished and a single dataset: it is the output
          /\ store' = Put(store, OutPath, [leaves |-> chunk(1)])
          /\ mem' = [mem EXCEPT !.gvcfs = rest, !.names = nrest]
     ELSE /\ store' = [p \in DOMAIN store \cup { md(c).path : c \in 1..nch } |->
                         IF \E c \in 1..nch : md(c).path = p
                         THEN [leaves |-> chunk(CHOOSE c \in 1..nch : md(c).path = p)]
                         ELSE store[p]]
          /\ mem' = [mem EXCEPT !.gvcfs = rest, !.names = nrest,
                                !.bins = AddAll(mem.bins, 1), !.job = mem.job + 1]
  /\ UNCHANGED <<par, disk, nextepoch, crashes>>

(* _step_vdses: up to bf datasets from the smallest bin (its head), topped up from the tails of
   the next bins; merged into one dataset which goes to a strictly larger bin.                 *)
RECURSIVE Fill(_, _)
Fill(files, bns) ==
  LET rem == par.bf - Len(files) IN
  IF DOMAIN bns = {} \/ rem <= 0 THEN [files |-> files, bins |-> bns]
  ELSE LET cb    == MinOf(DOMAIN bns)
           extra == TakeLast(bns[cb], rem)
           b2    == IF Len(extra) = Len(bns[cb]) THEN Remove(bns, cb)
                    ELSE [bns EXCEPT ![cb] = DropLast(@, rem)]
       IN Fill(extra \o files, b2)

StepVdses ==
  LET b0     == MinOf(DOMAIN mem.bins)
      first  == TakeFirst(mem.bins[b0], par.bf)
      bins1  == IF Len(first) = Len(mem.bins[b0]) THEN Remove(mem.bins, b0)
                ELSE [mem.bins EXCEPT ![b0] = DropFirst(@, par.bf)]
      r      == Fill(first, bins1)
      files  == r.files
      newn   == SumN(files, 1)
      merged == LeavesOf(files, 1)
      path   == <<mem.epoch, "v", mem.job, 0>>
      nb     == IF FL(newn) <= b0 THEN b0 + 1 ELSE FL(newn)
  IN
  /\ mem.alive /\ mem.gvcfs = <<>> /\ DOMAIN mem.bins # {}
  /\ IF DOMAIN r.bins = {}
     THEN /\ store' = Put(store, OutPath, [leaves |-> merged])
          /\ mem' = [mem EXCEPT !.bins = <<>>]
     ELSE /\ store' = Put(store, path, [leaves |-> merged])
          /\ mem' = [mem EXCEPT !.bins = AppendBin(r.bins, nb, [path |-> path, n |-> newn]),
                                !.job = mem.job + 1]
  /\ UNCHANGED <<par, disk, nextepoch, crashes>>

Step == StepGvcfs \/ StepVdses          \* step(): nothing to do (disabled) when finished

Save ==
  /\ mem.alive
  /\ disk' = [saved |-> TRUE, gvcfs |-> mem.gvcfs, names |-> mem.names, vdses |-> FlatDesc(mem.bins)]
  /\ UNCHANGED <<par, mem, store, nextepoch, crashes>>

Crash ==
  /\ mem.alive /\ disk.saved
  /\ crashes < MaxCrash /\ nextepoch <= MaxEpoch      \* a later Load stays possible
  /\ mem' = Dead
  /\ crashes' = crashes + 1
  /\ UNCHANGED <<par, disk, store, nextepoch>>

PlanFinished(d) == d.gvcfs = <<>> /\ d.vdses = <<>>
Refusing == OutPath \in DOMAIN store /\ ~PlanFinished(disk)    \* _raise_if_output_exists

Load ==
  /\ disk.saved /\ nextepoch <= MaxEpoch /\ ~Refusing
  /\ mem' = [alive |-> TRUE, gvcfs |-> disk.gvcfs, names |-> disk.names, bins |-> Rebin(disk.vdses),
             job |-> 1, epoch |-> nextepoch]
  /\ nextepoch' = nextepoch + 1
  /\ UNCHANGED <<par, disk, store, crashes>>

LoadRefused ==
  /\ disk.saved /\ Refusing
  /\ UNCHANGED vars

Next == StepGvcfs \/ StepVdses \/ Save \/ Crash \/ Load \/ LoadRefused
Spec == Init /\ [][Next]_vars
FairSpec == Spec /\ WF_vars(Step) /\ WF_vars(Load)

-----------------------------------------------------------------------------
(* Properties *)
AllInputs == (1..par.ng) \cup { -j : j \in 1..Len(par.vn) }
NSamples(leaf) == IF leaf > 0 THEN 1 ELSE par.vn[-leaf]
RECURSIVE SamplesOf(_, _)
SamplesOf(ls, i) == IF i > Len(ls) THEN 0 ELSE NSamples(ls[i]) + SamplesOf(ls, i + 1)

\* every input exactly once
IsPerm(ls) == Len(ls) = Cardinality(AllInputs) /\ Range(ls) = AllInputs

\* a plan (remaining gvcfs + datasets) is sound w.r.t. the file system
PlanOK(gv, ds) ==
  IF gv = <<>> /\ ds = <<>>
  THEN OutPath \in DOMAIN store
  ELSE /\ \A i \in 1..Len(ds) : /\ ds[i].path \in DOMAIN store
                                 /\ ds[i].n = SamplesOf(store[ds[i].path].leaves, 1)
                                 /\ ds[i].n >= 1
       /\ IsPerm(gv \o LeavesOf(ds, 1))

TypeOK ==
  /\ par.ng \in Nat /\ par.bf \in Nat /\ par.bf >= 2 /\ par.batch \in Nat /\ par.batch >= 1 /\ par.ext \in BOOLEAN
  /\ \A j \in 1..Len(par.vn) : par.vn[j] \in Nat /\ par.vn[j] >= 1
  /\ mem.alive \in BOOLEAN /\ disk.saved \in BOOLEAN
  /\ mem.job \in Nat /\ mem.epoch \in 0..MaxEpoch
  /\ nextepoch \in 2..(MaxEpoch + 1) /\ crashes \in 0..MaxCrash
  /\ \A b \in DOMAIN mem.bins : b \in Nat /\ b >= 1 /\ mem.bins[b] # <<>>
  /\ \A p \in DOMAIN store : Len(p) = 4

C38_MemPartition  == mem.alive => PlanOK(mem.gvcfs, FlatDesc(mem.bins))
C38_DiskPartition == disk.saved => PlanOK(disk.gvcfs, disk.vdses)
C38_Final         == OutPath \in DOMAIN store => IsPerm(store[OutPath].leaves)
C38_NoRedo        == (OutPath \in DOMAIN store /\ mem.alive) => Finished(mem)
C38_Names         == /\ mem.alive  => mem.names  = (IF par.ext THEN mem.gvcfs  ELSE <<>>)
                     /\ disk.saved => disk.names = (IF par.ext THEN disk.gvcfs ELSE <<>>)
\* at most branch_factor inputs per merge is not demanded by the property; the plan shape is pinned by B1/B2.

Variant(m) == 2 * Len(m.gvcfs) + NumVds(m.bins)
StepHappened == mem.alive /\ mem'.alive /\ mem'.epoch = mem.epoch /\ mem' # mem
C38_Variant   == [][StepHappened => Variant(mem') < Variant(mem)]_vars
C38_WriteOnce == [][\A p \in DOMAIN store : p \in DOMAIN store' /\ store'[p] = store[p]]_vars
C38_Terminates == <>(OutPath \in DOMAIN store)

\* Situations that must be reachable (the harness looks for them in the dumped graph: resumed run that wrote the
\* output; LoadRefused edges)
ResumedFinal == OutPath \in DOMAIN store /\ mem.alive /\ mem.epoch > 1
=============================================================================
