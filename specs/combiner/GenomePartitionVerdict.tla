---- MODULE GenomePartitionVerdict ----
EXTENDS GenomePartition
ASSUME Verdict
====
