-------------------------- MODULE GenomePartition --------------------------
(* C38, second half: calculate_even_genome_partitioning(reference_genome, interval_size)
   (hail/python/hail/vds/combiner/combine.py) as a call/return relation (B3).

   A call is  (contig length L, requested size)  ->  the sequence of locus intervals returned for that contig,
   each [start, end, incl_start, incl_end] exactly as constructed by the code (hl.Interval flags included, so
   open/closed conventions are interpreted HERE and not in the harness).

   The property demands:  the intervals cover every base 1..L exactly once   (IsPartition)
                          and none is longer than the requested size         (NoLonger).
   Any output satisfying this is accepted (order, number and balance of intervals are free).             *)
EXTENDS Integers, Sequences, FiniteSets, TLC, Json, IOUtils, SequencesExt

Lo(iv)   == IF iv.incl_start THEN iv.start ELSE iv.start + 1     \* first base contained
Hi(iv)   == IF iv.incl_end   THEN iv.end   ELSE iv.end - 1       \* last base contained
Size(iv) == Hi(iv) - Lo(iv) + 1

\* Definition: every base of 1..L lies in exactly one interval, and no interval reaches outside 1..L or is empty
DirectCover(ivs, L) ==
  /\ \A i \in 1..Len(ivs) : Lo(ivs[i]) >= 1 /\ Hi(ivs[i]) <= L /\ Size(ivs[i]) >= 1
  /\ \A b \in 1..L : Cardinality({ i \in 1..Len(ivs) : Lo(ivs[i]) <= b /\ b <= Hi(ivs[i]) }) = 1

\* The same, computable for L ~ 2.5e8 and thousands of intervals (no recursion, no quantification over bases):
\* non-empty intervals inside 1..L with pairwise different first bases and pairwise different last bases, one of
\* which starts at base 1, and each of which either ends at L or is followed by one that starts right after it.
\* (Follow the successors: they are unique because first bases differ, and no two intervals share a successor
\* because last bases differ, so all intervals form ONE chain; it starts at 1 and ends at L without gap or overlap.)
\* Equivalence with DirectCover is checked by TLC for small L (Lemma).
IsPartition(ivs, L) ==
  LET Starts == { Lo(ivs[i]) : i \in 1..Len(ivs) }
      Ends   == { Hi(ivs[i]) : i \in 1..Len(ivs) } IN
  /\ \A i \in 1..Len(ivs) : Lo(ivs[i]) >= 1 /\ Hi(ivs[i]) <= L /\ Size(ivs[i]) >= 1
  /\ Cardinality(Starts) = Len(ivs) /\ Cardinality(Ends) = Len(ivs)
  /\ 1 \in Starts
  /\ \A i \in 1..Len(ivs) : Hi(ivs[i]) = L \/ (Hi(ivs[i]) + 1) \in Starts

NoLonger(ivs, size) == \A i \in 1..Len(ivs) : Size(ivs[i]) <= size

Ok(L, size, ivs) == IsPartition(ivs, L) /\ NoLonger(ivs, size)

\* Partition(L, s): the set of all acceptable results, for small L (used by the lemma / vacuity check only)
IvSpace(L) == [start : 0..(L + 1), end : 0..(L + 1), incl_start : BOOLEAN, incl_end : BOOLEAN]
Partition(L, s, maxlen) == { ivs \in UNION { [1..n -> IvSpace(L)] : n \in 0..maxlen } : DirectCover(ivs, L) /\ NoLonger(ivs, s) }

LemmaL == atoi(IOEnv.GP_LEMMA_L)
Lemma ==
  /\ \A L \in 1..LemmaL : \A ivs \in UNION { [1..n -> IvSpace(L)] : n \in 0..2 } : IsPartition(ivs, L) <=> DirectCover(ivs, L)
  /\ \A L \in 1..3 : \A ivs \in [1..3 -> [start : 1..L, end : 1..L, incl_start : {TRUE}, incl_end : BOOLEAN]] :
        IsPartition(ivs, L) <=> DirectCover(ivs, L)
  /\ Cardinality(Partition(3, 2, 2)) > 0
  /\ JsonSerialize(IOEnv.GP_LEMMA_OUT, [checked |-> TRUE, partitions_of_3_by_2 |-> Cardinality(Partition(3, 2, 2))])

\* ---- input universe ----------------------------------------------------------------------------
Contigs  == ndJsonDeserialize(IOEnv.GP_CONTIGS)            \* [rg, contig, L, defaults : <<sizes>>, band_lo, band_hi]
KMax     == atoi(IOEnv.GP_KMAX)
Sizes(c) == { x \in UNION { { (c.L \div k) + d, ((c.L + k - 1) \div k) + d } : k \in 1..KMax, d \in (-2)..2 } : x >= 1 }
              \cup ToSet(c.defaults)
              \cup (c.band_lo..c.band_hi)                    \* every size in a band (used for the shortest contig)
Inputs   == UNION { { [rg |-> Contigs[i].rg, contig |-> Contigs[i].contig, L |-> Contigs[i].L, size |-> s] :
                        s \in Sizes(Contigs[i]) } : i \in 1..Len(Contigs) }
Gen == ndJsonSerialize(IOEnv.GP_INPUTS, SetToSeq(Inputs))

\* ---- verdict --------------------------------------------------------------------------------------
Cases == ndJsonDeserialize(IOEnv.GP_CASES)                 \* [rg, contig, L, size, ivs]
Cats(c) ==
  (IF IsPartition(c.ivs, c.L) THEN {}
   ELSE IF c.L > 1 /\ IsPartition(c.ivs, c.L - 1) THEN {"last-base-not-covered"} ELSE {"not-a-partition"})
  \cup (IF NoLonger(c.ivs, c.size) THEN {} ELSE {"longer-than-requested"})
Bad == { i \in 1..Len(Cases) : Cats(Cases[i]) # {} }
Verdict == JsonSerialize(IOEnv.GP_VERDICT,
             [n |-> Len(Cases),
              ok |-> Cardinality({ i \in 1..Len(Cases) : Cats(Cases[i]) = {} }),
              bad |-> SetToSeq({ [i |-> i, cats |-> SetToSeq(Cats(Cases[i]))] : i \in Bad })])
=============================================================================
