---- MODULE NameLangVerdict ----
EXTENDS NameLang
ASSUME Verdict
====
