------------------------------ MODULE CallPack ------------------------------
(* C34: the engine's 32-bit representation of a genotype call, and the genotype-index <-> allele-pair
   bijection, transcribed by hand from

       hail/hail/src/is/hail/variant/Call.scala      (Call0/Call1/Call2/CallN.apply, Call.apply, Call.ploidy,
                                                      Call.isPhased, Call.alleleRepr, Call.allelePairUnchecked,
                                                      Call.alleles)
       hail/hail/src/is/hail/variant/Genotype.scala  (AllelePair, Genotype.diploidGtIndex, diploidGtIndexWithSwap,
                                                      allelePair / allelePairSqrt / smallAllelePair)

   The engine cannot be built here; this module is the trusted transcription (the Scala text is
   fingerprinted by checks/c34.py).

   Representation (Call.apply):     c = phased | ploidy << 1 | ar << 3          (a JVM Int, 32 bits)
      ploidy 0 : ar = 0
      ploidy 1 : ar = the allele index
      ploidy 2 : unphased  ar = diploidGtIndexWithSwap(aj, ak)
                 phased    ar = diploidGtIndex(aj, aj + ak)
      ar must satisfy 0 <= ar and (ar >>> 29) = 0, i.e. ar <= 2^29 - 1, otherwise the constructor is fatal.

   32-BIT ARITHMETIC.  TLC integers are 32-bit signed and overflow is an error, while the packed word,
   read as an unsigned number, goes up to 2^32 - 1.  The word is therefore kept as the record of its three
   bit fields  [ar, ploidy, phased]  (ar < 2^29), and its two concrete readings are computed without ever
   forming the unsigned value:
     * Bytes(w)  : the four little-endian bytes, by limbs of ar (5 + 8 + 8 + 8 bits);
     * Signed(w) : the two's-complement int32 the JVM holds,  (ar - 2^29) * 8 + low3  when bit 31 is set
                   (ar >= 2^28), which lies in [-2^31, -1], and  ar * 8 + low3 < 2^31  otherwise.
   k * (k + 1) stays below 2^31 for k <= 32767 = MaxK, and every pair whose index fits in 29 bits has
   k <= MaxK (T(32768) > 2^29 - 1), so T is only ever applied to k <= MaxK (guarded with IF).

   The module contains (1) the representation as operators, (2) a small state machine
   New -Pack-> Packed -Unpack-> Done | New -Reject-> Fatal  that TLC explores exhaustively over the call
   universe to check that the transcription is self-consistent (round trip, canonical words, rejection
   exactly when not representable), (3) the pair/index bijection and its agreement with the VCF
   ordering, (4) generation of inputs and the verdict over recorded calls of the Python front end (B3).  *)
EXTENDS Integers, Sequences, SequencesExt, FiniteSets, TLC, Json, IOUtils

MaxRepr == 536870911      \* 2^29 - 1 : largest allele representation (Call.apply: (ar >>> 29) != 0 is fatal)
SignBit == 268435456      \* 2^28     : ar >= 2^28  <=>  bit 31 of the word is set
MaxK    == 32767          \* largest k with T(k) <= MaxRepr;  T(32767) + 16383 = MaxRepr exactly
Max16   == 65535          \* AllelePair packs j and k in 16 bits each

N     == atoi(IOEnv.CP_N)       \* all alleles 0..N are in the universe
Dense == atoi(IOEnv.CP_DENSE)   \* width of the dense windows around the boundaries

Bit(b) == IF b THEN 1 ELSE 0
Max2(a, b) == IF a < b THEN b ELSE a
Min2(a, b) == IF a < b THEN a ELSE b

(* ------------------------------------------------------------------------------------------------ *)
(* Genotype.scala                                                                                   *)
T(k) == (k * (k + 1)) \div 2                       \* k <= MaxK

\* Genotype.diploidGtIndex(j, k): AssertionError unless 0 <= j <= k;  k * (k + 1) / 2 + j
Index(j, k) == T(k) + j
\* Genotype.diploidGtIndexWithSwap(i, j)
IndexWithSwap(i, j) == IF j < i THEN Index(j, i) ELSE Index(i, j)

\* Genotype.allelePair(i): table for i < 36, else allelePairSqrt:
\*     k = floor(sqrt(8 i + 1) / 2 - 0.5);  j = i - k (k + 1) / 2;  assert diploidGtIndex(j, k) = i
\* i.e. k is the largest k with T(k) <= i.  8 i + 1 overflows here, so k is found by bisection on T.
\* (Assumption recorded by the check: IEEE double sqrt is exact enough on 8 i + 1 < 2^32, so the engine's
\* floating-point k equals the mathematical one; the engine's own assert would fire otherwise.)
RECURSIVE KSearch(_, _, _)
KSearch(i, lo, hi) ==                               \* largest k in lo..hi with T(k) <= i   (T(lo) <= i)
  IF lo = hi THEN lo
  ELSE LET mid == (lo + hi + 1) \div 2
       IN  IF T(mid) <= i THEN KSearch(i, mid, hi) ELSE KSearch(i, lo, mid - 1)
KOf(i)  == KSearch(i, 0, MaxK)
Pair(i) == LET k == KOf(i) IN <<i - T(k), k>>       \* <<j, k>> with j <= k,  for 0 <= i <= MaxRepr

\* the defining relation (what any correct pair function must satisfy)
IsPairOf(j, k, i) == /\ 0 <= j /\ j <= k /\ k <= MaxK
                     /\ Index(j, k) = i

(* ------------------------------------------------------------------------------------------------ *)
(* Calls: [p |-> ploidy, ph |-> phased, a |-> sequence of alleles]                                   *)
MkCall(ph, a) == [p |-> Len(a), ph |-> ph, a |-> a]

\* the call as the front end and the engine hand it back: an unphased diploid has no order
Norm(c) == IF c.p = 2 /\ ~c.ph /\ c.a[2] < c.a[1] THEN [c EXCEPT !.a = <<c.a[2], c.a[1]>>] ELSE c

\* Call.scala: does CallN.apply(alleles, phased) succeed?  (all alleles are >= 0 in the universe)
Representable(c) ==
  CASE c.p = 0 -> TRUE
    [] c.p = 1 -> c.a[1] <= MaxRepr
    [] c.p = 2 -> LET k == IF c.ph THEN c.a[1] + c.a[2] ELSE Max2(c.a[1], c.a[2])
                      j == IF c.ph THEN c.a[1] ELSE Min2(c.a[1], c.a[2])
                  IN  IF k > MaxK THEN FALSE ELSE Index(j, k) <= MaxRepr

\* Call0 / Call1 / Call2.apply: the allele representation
Repr(c) ==
  CASE c.p = 0 -> 0
    [] c.p = 1 -> c.a[1]
    [] c.p = 2 -> IF c.ph THEN Index(c.a[1], c.a[1] + c.a[2])          \* Call2.apply, phased
                          ELSE IndexWithSwap(c.a[1], c.a[2])            \* fromUnphasedDiploidGtIndex

\* Call.apply(ar, phased, ploidy): the packed word as its bit fields
Word(c) == [ar |-> Repr(c), ploidy |-> c.p, phased |-> c.ph]

Low3(w) == w.ploidy * 2 + Bit(w.phased)
Bytes(w) == << (w.ar % 32) * 8 + Low3(w),           \* bits 0..7   (little-endian byte 0)
               (w.ar \div 32) % 256,                 \* bits 8..15
               (w.ar \div 8192) % 256,               \* bits 16..23
               w.ar \div 2097152 >>                  \* bits 24..31 (ar < 2^29)
Signed(w) == IF w.ar >= SignBit THEN (w.ar - 2 * SignBit) * 8 + Low3(w) ELSE w.ar * 8 + Low3(w)

\* reading a word back from bytes: Call.isPhased (c & 1), Call.ploidy ((c >>> 1) & 3), Call.alleleRepr (c >>> 3)
FromBytes(b) == [ar     |-> b[1] \div 8 + b[2] * 32 + b[3] * 8192 + b[4] * 2097152,
                 ploidy |-> (b[1] \div 2) % 4,
                 phased |-> b[1] % 2 = 1]

\* Call.alleles / Call.allelePairUnchecked + Call.isPhased: the call a word stands for (ploidy <= 2)
Alleles(w) ==
  CASE w.ploidy = 0 -> MkCall(w.phased, <<>>)
    [] w.ploidy = 1 -> MkCall(w.phased, <<w.ar>>)
    [] w.ploidy = 2 -> LET p == Pair(w.ar)
                       IN  IF w.phased THEN MkCall(TRUE, <<p[1], p[2] - p[1]>>)   \* AllelePair(j, k - j)
                                       ELSE MkCall(FALSE, <<p[1], p[2]>>)

(* ------------------------------------------------------------------------------------------------ *)
(* The universe                                                                                      *)
Small == 0 .. N
Win(x) == { y \in (x - Dense) .. (x + Dense) : y >= 0 }

\* haploid alleles: byte-limb borders of ar, the sign bit, the maximum; one step beyond the maximum
HapBoundary == UNION { Win(x) : x \in {32, 8192, 65536, 2097152, 16777216, SignBit, MaxRepr + 1} }
HapAlleles  == Small \cup HapBoundary

\* diploid: the larger allele k near the table border (7/8), the byte borders, the sign-bit crossing
\* (T(23169) + 22591 = 2^28), the 29-bit maximum (k = 32767, j <= 16383) and the 16-bit limit of AllelePair
KBoundary == {8, 255, 256, 4095, 23169, 23170, 32766, 32767, 32768, 65535}
JFor(k)   == { j \in {0, 1, k \div 2, k - 1, k} \cup Win(22591) \cup Win(16383) : j >= 0 /\ j <= k }

DipPairs == (Small \X Small)
            \cup UNION { { <<j, k>> : j \in JFor(k) } \cup { <<k, j>> : j \in JFor(k) } : k \in KBoundary }
\* phased pairs <<aj, ak>> are chosen so that aj + ak hits the same boundary values of k
PhasedPairs == (Small \X Small)
               \cup UNION { { <<j, k - j>> : j \in JFor(k) } : k \in KBoundary }

Calls == { MkCall(ph, <<>>) : ph \in BOOLEAN }
         \cup { MkCall(ph, <<a>>) : ph \in BOOLEAN, a \in HapAlleles }
         \cup { MkCall(FALSE, <<p[1], p[2]>>) : p \in DipPairs }
         \cup { MkCall(TRUE, <<p[1], p[2]>>) : p \in PhasedPairs }

\* a seeded random sample of further calls drawn by the harness (file of [ph, a] records); they are judged
\* like every other call, the specification only admits those that are well formed
Extra      == ndJsonDeserialize(IOEnv.CP_EXTRA)
ExtraCalls == { MkCall(Extra[i].ph, Extra[i].a) : i \in 1 .. Len(Extra) }
InRange    == { c \in Calls : Representable(c) }

\* genotype indices: everything up to T(N + 1) + Dense, a window around every triangular number of a
\* sample of k (floor(sqrt) flips exactly between T(k) - 1 and T(k)), the sign bit and the maximum
KSample == { k \in 1 .. MaxK : k % atoi(IOEnv.CP_KSTEP) = 0 \/ k >= MaxK - Dense \/ k <= 64 }
Indices == (0 .. (T(N + 1) + Dense))
           \cup UNION { { i \in (T(k) - 2) .. (T(k) + 2) : i >= 0 } : k \in KSample }
           \cup Win(SignBit)
           \cup { i \in Win(MaxRepr) : i <= MaxRepr }

(* ------------------------------------------------------------------------------------------------ *)
(* (2) State machine over the universe: the transcription is self-consistent                          *)
VARIABLES pc, call, word, out
vars == <<pc, call, word, out>>
None == [none |-> TRUE]

Init == /\ pc = "new" /\ call \in Calls /\ word = None /\ out = None

\* CallN.apply(alleles, phased) succeeds
Pack == /\ pc = "new" /\ Representable(call)
        /\ word' = Word(call) /\ pc' = "packed" /\ UNCHANGED <<call, out>>
\* CallN.apply is fatal ("invalid allele representation" / AllelePair require)
Reject == /\ pc = "new" /\ ~Representable(call)
          /\ pc' = "fatal" /\ UNCHANGED <<call, word, out>>
\* the word travels as four bytes and is read back: Call.alleles, Call.isPhased
Unpack == /\ pc = "packed"
          /\ out' = Alleles(FromBytes(Bytes(word))) /\ pc' = "done" /\ UNCHANGED <<call, word>>
Next == Pack \/ Reject \/ Unpack
Spec == Init /\ [][Next]_vars

TypeOK == /\ pc \in {"new", "packed", "done", "fatal"}
          /\ pc \in {"packed", "done"} => /\ word.ar \in 0 .. MaxRepr
                                         /\ word.ploidy \in 0 .. 2
                                         /\ word.phased \in BOOLEAN
\* the bytes are bytes, the limbs reassemble to the same fields, and both readings agree on the sign
WordFits == pc \in {"packed", "done"} =>
              /\ \A i \in 1 .. 4 : Bytes(word)[i] \in 0 .. 255
              /\ FromBytes(Bytes(word)) = word
              /\ (Signed(word) < 0) = (Bytes(word)[4] >= 128)
              /\ Signed(word) % 8 = Low3(word)
\* unpacking gives back the call (an unphased diploid up to order): the representation is injective
RoundTrip == pc = "done" => out = Norm(call)
\* the word of a call is canonical: packing what was unpacked gives the same word
Canonical == pc = "done" => Word(out) = word
\* rejected exactly the calls whose representation does not fit in 29 bits
FatalIff  == pc = "fatal" => ~Representable(call)
\* vacuity companions (expected to be VIOLATED when listed as invariants)
NeverDone  == pc # "done"
NeverFatal == pc # "fatal"
NeverSign  == ~(pc = "done" /\ Signed(word) < 0)

(* ------------------------------------------------------------------------------------------------ *)
(* (3) pair / index bijection in VCF order (VCF 4.x: "for k in 0..n: for j in 0..k: emit j/k", the     *)
(*     genotype j/k has index F(j/k) = k (k + 1) / 2 + j)                                            *)
VcfRow(k) == [jj \in 1 .. (k + 1) |-> <<jj - 1, k>>]                        \* inner loop: for j in 0..k
RECURSIVE VcfOrder(_, _)
VcfOrder(n, k) == IF k > n THEN <<>> ELSE VcfRow(k) \o VcfOrder(n, k + 1)    \* outer loop: for k in 0..n
VcfN == Min2(N, 60)
BijectionOK ==
  LET ord == VcfOrder(VcfN, 0) IN
  /\ Len(ord) = T(VcfN + 1)
  /\ \A i \in 1 .. Len(ord) : /\ Pair(i - 1) = ord[i]                                \* Pair enumerates in VCF order
                              /\ Index(ord[i][1], ord[i][2]) = i - 1                  \* Index is its inverse
  /\ \A i \in Indices : LET p == Pair(i) IN IsPairOf(p[1], p[2], i)                   \* ... also far from the origin
  /\ \A i \in { x \in Indices : x < MaxRepr } :                                       \* successor in VCF order
        LET p == Pair(i) q == Pair(i + 1)
        IN  q = IF p[1] < p[2] THEN <<p[1] + 1, p[2]>> ELSE <<0, p[2] + 1>>
  /\ Pair(MaxRepr) = <<16383, MaxK>>
  /\ Pair(SignBit) = <<22591, 23169>>

(* ------------------------------------------------------------------------------------------------ *)
(* (4) B3: inputs for the harness and the verdict on what the front end returned                      *)
GenCalls == ndJsonSerialize(IOEnv.CP_CALLS,
              SetToSeq({ [p |-> c.p, ph |-> c.ph, a |-> c.a, bytes |-> Bytes(Word(c))] : c \in InRange \cup { e \in ExtraCalls : Representable(e) } }))
GenIdx   == ndJsonSerialize(IOEnv.CP_IDX,
              SetToSeq({ [i |-> i, bytes |-> Bytes([ar |-> i, ploidy |-> 2, phased |-> FALSE])] : i \in Indices }))
Gen == BijectionOK /\ GenCalls /\ GenIdx
\* the Gen / Verdict modules are ASSUME-only; since this module declares variables TLC still wants a
\* behaviour specification: a single idle state
IdleInit == pc = "idle" /\ call = None /\ word = None /\ out = None
IdleNext == UNCHANGED vars

(* a call case:  p, ph, a            the call given to the front end
                 err                 "" or the exception text of encode / decode
                 enc, i32            bytes written by _convert_to_encoding, and their '<i' reading
                 dec_a, dec_ph       _convert_from_encoding of those bytes
                 dec2_a, dec2_ph     _convert_from_encoding of the ENGINE's bytes for the call               *)
CallCases == ndJsonDeserialize(IOEnv.CP_CALLCASES)
IsCall(c) == /\ c.p \in 0 .. 2 /\ c.p = Len(c.a) /\ c.ph \in BOOLEAN
             /\ \A i \in 1 .. Len(c.a) : c.a[i] \in 0 .. MaxRepr
CallWhy(x) ==
  LET c == MkCall(x.ph, x.a) w == Word(c) n == Norm(c) IN
  IF ~(IsCall(x) /\ IF IsCall(x) THEN Representable(c) ELSE FALSE) THEN "not-in-universe"
  ELSE IF x.err # "" THEN "raised"
  ELSE IF x.enc # Bytes(w) \/ x.i32 # Signed(w) THEN "encode"
  ELSE IF x.dec2_a # n.a \/ x.dec2_ph # n.ph THEN "decode"
  ELSE IF x.dec_a # n.a \/ x.dec_ph # n.ph THEN "roundtrip"
  ELSE ""

(* an index case:  i                  genotype index
                   sj, sk             allele_pair_sqrt(i)          (-1, -1 when it raised)
                   tj, tk             small_allele_pair[i]          (-1, -1 when i is beyond the table)
                   dj, dk             alleles decoded from the engine's bytes of the unphased diploid word ar = i
                   gi                 Call([dj, dk]).unphased_diploid_gt_index()
                   ei                 allele representation in the bytes the front end writes for Call([dj, dk]) *)
IdxCases == ndJsonDeserialize(IOEnv.CP_IDXCASES)
IdxWhy(x) ==
  IF ~(x.i \in 0 .. MaxRepr) THEN "not-in-universe"
  ELSE IF ~IsPairOf(x.sj, x.sk, x.i) THEN "allele_pair_sqrt"
  ELSE IF x.tj # -1 /\ ~IsPairOf(x.tj, x.tk, x.i) THEN "small_allele_pair"
  ELSE IF (x.tj = -1) # (x.i >= 36) THEN "small_allele_pair-length"
  ELSE IF ~IsPairOf(x.dj, x.dk, x.i) THEN "decode-pair"
  ELSE IF x.gi # x.i THEN "unphased_diploid_gt_index"
  ELSE IF x.ei # x.i THEN "encode-index"
  ELSE ""

BadCalls == { i \in 1 .. Len(CallCases) : CallWhy(CallCases[i]) # "" }
BadIdx   == { i \in 1 .. Len(IdxCases) : IdxWhy(IdxCases[i]) # "" }
Verdict == JsonSerialize(IOEnv.CP_VERDICT,
             [ncalls   |-> Len(CallCases),
              nidx     |-> Len(IdxCases),
              negative |-> Cardinality({ i \in 1 .. Len(CallCases) :       \* vacuity: words with bit 31 set were judged
                                          IF CallWhy(CallCases[i]) # "not-in-universe"
                                          THEN Signed(Word(MkCall(CallCases[i].ph, CallCases[i].a))) < 0 ELSE FALSE }),
              badcalls |-> SetToSeq({ [i |-> i, why |-> CallWhy(CallCases[i])] : i \in BadCalls }),
              badidx   |-> SetToSeq({ [i |-> i, why |-> IdxWhy(IdxCases[i])] : i \in BadIdx })])
=============================================================================
