----------------------------- MODULE FairShareAlg -----------------------------
(* C11: PoolScheduler._compute_fair_share as a step machine, one action per loop iteration.
   `mark` is the water level in total (running + allocated) cores.  Users wait in `pending` until the level
   reaches their running cores, then fill in `allocating` until the level reaches their total demand.
   Ties (users with equal keys in the sorted sets) are resolved nondeterministically: TLC explores all.   *)
EXTENDS FairShare
CONSTANTS MaxUsers, MaxVal, NegFree, MaxFree      \* free ranges over -NegFree..MaxFree
Frees == (-NegFree)..MaxFree
VARIABLES in, pc, mark, free, pending, allocating, alloc
vars == <<in, pc, mark, free, pending, allocating, alloc>>

Users   == 1..NU(in)
Run(u)  == in.users[u].running
Tot(u)  == in.users[u].running + in.users[u].ready
MinOver(S, F(_)) == CHOOSE m \in { F(u) : u \in S } : \A u \in S : m <= F(u)

Init == /\ in \in Universe(MaxUsers, MaxVal, 1, Frees, 0)
        /\ pc = "loop" /\ mark = 0 /\ free = in.free
        /\ pending = 1..NU(in) /\ allocating = {}
        /\ alloc = [u \in 1..NU(in) |-> 0]

LoopOn == pc = "loop" /\ free > 0 /\ (pending # {} \/ allocating # {})
CanPromote  == pending # {} /\ MinOver(pending, Run) = mark
CanSaturate == allocating # {} /\ MinOver(allocating, Tot) = mark

\* lowest_running == mark: the user starts to fill
Promote == /\ LoopOn /\ CanPromote
           /\ \E u \in pending : Run(u) = mark /\ pending' = pending \ {u} /\ allocating' = allocating \cup {u}
           /\ UNCHANGED <<in, pc, mark, free, alloc>>
\* lowest_total == mark: the user is fully served
Saturate == /\ LoopOn /\ ~CanPromote /\ CanSaturate
            /\ \E u \in allocating : /\ Tot(u) = mark
                                     /\ allocating' = allocating \ {u}
                                     /\ alloc' = [alloc EXCEPT ![u] = mark - Run(u)]
            /\ UNCHANGED <<in, pc, mark, free, pending>>
NextStop == LET a == IF pending # {} THEN {MinOver(pending, Run)} ELSE {}
                b == IF allocating # {} THEN {MinOver(allocating, Tot)} ELSE {}
            IN CHOOSE m \in a \cup b : \A x \in a \cup b : m <= x
Cost == Cardinality(allocating) * (NextStop - mark)
\* raise the level to the next event; everybody filling pays
Raise == /\ LoopOn /\ ~CanPromote /\ ~CanSaturate /\ Cost <= free
         /\ mark' = NextStop /\ free' = free - Cost
         /\ UNCHANGED <<in, pc, pending, allocating, alloc>>
\* not enough left: spread the rest evenly, rounded to the nearest mcpu   int(free / n + 0.5)
Exhaust == /\ LoopOn /\ ~CanPromote /\ ~CanSaturate /\ Cost > free
           /\ LET n == Cardinality(allocating) IN mark' = mark + (2 * free + n) \div (2 * n)
           /\ free' = 0 /\ pc' = "final"
           /\ UNCHANGED <<in, pending, allocating, alloc>>
ExitLoop == /\ pc = "loop" /\ ~LoopOn /\ pc' = "final"
            /\ UNCHANGED <<in, mark, free, pending, allocating, alloc>>
\* for user in allocating_users_by_total_cores: allocate_cores(user, mark)
Final == /\ pc = "final"
         /\ alloc' = [u \in 1..NU(in) |-> IF u \in allocating THEN mark - Run(u) ELSE alloc[u]]
         /\ pc' = "done"
         /\ UNCHANGED <<in, mark, free, pending, allocating>>
Stop == pc = "done" /\ UNCHANGED vars
Next == Promote \/ Saturate \/ Raise \/ Exhaust \/ ExitLoop \/ Final \/ Stop

Out == [o |-> "alloc", alloc |-> alloc]
\* the property on the final state (the declarative level clause, not the solved one)
C11_Relation == pc = "done" => Ok(in, Out)
C11_Range    == pc = "done" => RangeOk(in, alloc)
C11_NotOver  == pc = "done" => NotOver(in, alloc)
C11_NotUnder == pc = "done" => NotUnder(in, alloc)
C11_Level    == pc = "done" => LevelOk(in, alloc)
C11_LevelIsMark == pc = "done" /\ in.free > 0 => LevelOkAt(in, alloc, mark)
\* loop invariants
Partition    == /\ pending \cap allocating = {}
                /\ \A u \in 1..NU(in) \ (pending \cup allocating) : pc # "done" => alloc[u] = Tot(u) - Run(u)
Levels       == pc = "loop" => /\ \A u \in pending : Run(u) >= mark
                               /\ \A u \in allocating : Run(u) <= mark /\ mark <= Tot(u)
Conservation == pc = "loop" =>
                  free + SumTo([u \in 1..NU(in) |-> IF u \in allocating THEN mark - Run(u) ELSE alloc[u]], NU(in)) = in.free
                  \/ in.free <= 0
\* reachability companions (each must be VIOLATED)
NeverExhaust == ~(pc = "final" /\ free = 0 /\ allocating # {})
NeverShort   == ~(pc = "done" /\ \E u \in 1..NU(in) : alloc[u] > 0 /\ alloc[u] < in.users[u].ready)
NeverAbove   == ~(pc = "done" /\ in.free > 0 /\ \E u \in 1..NU(in) : alloc[u] = 0 /\ in.users[u].ready > 0 /\ Run(u) > mark)
=============================================================================
