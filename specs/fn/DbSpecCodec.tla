----------------------------- MODULE DbSpecCodec -----------------------------
(* C15: what the database keeps of a job specification, and of its region selection.

   Job spec (abstract; the harness builds the real dict):
     ver      batch format version 1..MaxVer
     mic      one entry per secret (0..MaxSecrets secrets): "absent" | "true" | "false"  = the secret's mount_in_copy key
     seckey   with no secrets: is the 'secrets' key present (empty list) or absent
     sa       service account present
     inf/outf 0 = key absent, 1 = empty list, 2 = one file, 3 = two files
     machine  0 = no machine type, 1 = machine type on a preemptible worker, 2 = on a non-preemptible worker
   Secret i is (namespace "ns<i>", name "sec<i>", mount path "/mnt/<i>"); the service account is ("sans", "saname");
   the machine is ("n1-standard-4", storage 375 GiB when preemptible else 10 GiB).

   Meaning(s) is what the stored form must give back: absent = empty list of secrets, missing mount_in_copy = false,
   has-input/output = at least one file.  Enc/Dec below model the positional layout the code uses
   (DbSpecCodecAlg.tla lets TLC check Dec(Enc(s)) = Meaning(s) for the whole lattice); the verdict on the real
   code only demands decoded = Meaning(input) - any layout that round-trips is accepted.

   Regions: a mapping region -> index (1..63, not necessarily dense), a selected subset, the stored bitset and the
   regions recovered from it.  63-bit masks do not fit TLC's integers: for the real code TLC compares SETS of
   indices (the harness turns the stored Python int into the set of its bit positions); the arithmetic itself is
   model-checked for small universes in DbSpecCodecAlg.tla.                                               *)
EXTENDS Naturals, Sequences, SequencesExt, FiniteSets, TLC, Json, IOUtils

\* optional values: TLC cannot compare a string marker with a record or a sequence, so "None" is a record too
Null    == [isnull |-> TRUE]
Some(v) == [isnull |-> FALSE, v |-> v]
B2I(b) == IF b THEN 1 ELSE 0

SecretOf(i, m) == [namespace |-> "ns" \o ToString(i), name |-> "sec" \o ToString(i), mount_path |-> "/mnt/" \o ToString(i),
                   mount_in_copy |-> (m = "true")]
SaOf      == [namespace |-> "sans", name |-> "saname"]
MachineOf(m) == [machine_type |-> "n1-standard-4", preemptible |-> (m = 1), storage_gib |-> IF m = 1 THEN 375 ELSE 10]

Meaning(s) ==
  [secrets   |-> [i \in 1..Len(s.mic) |-> SecretOf(i, s.mic[i])],
   sa        |-> IF s.sa THEN Some(SaOf) ELSE Null,
   has_in    |-> s.inf >= 2,
   has_out   |-> s.outf >= 2,
   machine   |-> IF s.machine = 0 THEN Null ELSE Some(MachineOf(s.machine))]

MicSet == {"absent", "true", "false"}
SpecUniverse(maxver, maxsec) ==
  { [ver |-> v, mic |-> m, seckey |-> k, sa |-> a, inf |-> i, outf |-> o, machine |-> mt] :
      v \in 1..maxver, m \in UNION { [1..n -> MicSet] : n \in 0..maxsec }, k \in BOOLEAN, a \in BOOLEAN,
      i \in 0..3, o \in 0..3, mt \in 0..2 }
\* a machine type can only occur from format version 5 on (job-private instances); with secrets the key exists
WellFormed(s) == /\ (s.machine # 0 => s.ver >= 5)
                 /\ (Len(s.mic) > 0 => s.seckey)

\* ---- the layout the code uses (model) ------------------------------------------------------------
EncSecrets(s) == IF Len(s.mic) = 0 THEN (IF s.seckey THEN Some(<<>>) ELSE Null)
                 ELSE Some([i \in 1..Len(s.mic) |-> <<"ns" \o ToString(i), "sec" \o ToString(i), "/mnt/" \o ToString(i), B2I(s.mic[i] = "true")>>])
EncSa(s)      == IF s.sa THEN Some(<<"sans", "saname">>) ELSE Null
EncMachine(s) == IF s.machine = 0 THEN Null ELSE Some(<<"n1-standard-4", B2I(s.machine = 1), IF s.machine = 1 THEN 375 ELSE 10>>)
Enc(s) == IF s.ver = 1 THEN <<"full", s>>
          ELSE <<EncSecrets(s), EncSa(s), B2I(s.inf >= 2), B2I(s.outf >= 2)>> \o (IF s.ver >= 5 THEN <<EncMachine(s)>> ELSE <<>>)
DecSecrets(ver, e) ==
  IF ver = 1 THEN [i \in 1..Len(e[2].mic) |-> SecretOf(i, e[2].mic[i])]
  ELSE IF e[1].isnull THEN <<>>               \* "if secrets:" - None and the empty list both decode to nothing
  ELSE [i \in 1..Len(e[1].v) |-> [namespace |-> e[1].v[i][1], name |-> e[1].v[i][2], mount_path |-> e[1].v[i][3], mount_in_copy |-> e[1].v[i][4] = 1]]
DecSa(ver, e) == IF ver = 1 THEN (IF e[2].sa THEN Some(SaOf) ELSE Null)
                 ELSE IF e[2].isnull THEN Null ELSE Some([namespace |-> e[2].v[1], name |-> e[2].v[2]])
DecIn(ver, e)  == IF ver = 1 THEN e[2].inf >= 2 ELSE e[3] = 1
DecOut(ver, e) == IF ver = 1 THEN e[2].outf >= 2 ELSE e[4] = 1
DecMachine(ver, e) == IF ver < 5 THEN Null
                      ELSE IF e[5].isnull THEN Null
                      ELSE Some([machine_type |-> e[5].v[1], preemptible |-> e[5].v[2] = 1, storage_gib |-> e[5].v[3]])
Dec(ver, e) == [secrets |-> DecSecrets(ver, e), sa |-> DecSa(ver, e), has_in |-> DecIn(ver, e), has_out |-> DecOut(ver, e),
                machine |-> DecMachine(ver, e)]

\* ---- verdict on a recorded round trip through the real code --------------------------------------------
\* out = [o |-> "decoded" | "raise",
\*        secrets |-> [isnull, items |-> seq of [namespace, name, mount_path, mic |-> "absent"|"true"|"false"]],
\*        sa |-> [isnull, namespace, name], has_in, has_out, machine |-> [isnull, machine_type, preemptible, storage_gib]]
NormSecrets(x) == IF x.isnull THEN <<>>
                  ELSE [i \in 1..Len(x.items) |-> [namespace |-> x.items[i].namespace, name |-> x.items[i].name,
                                                   mount_path |-> x.items[i].mount_path, mount_in_copy |-> (x.items[i].mic = "true")]]
NormSa(x)      == IF x.isnull THEN Null ELSE Some([namespace |-> x.namespace, name |-> x.name])
NormMachine(x) == IF x.isnull THEN Null ELSE Some([machine_type |-> x.machine_type, preemptible |-> x.preemptible, storage_gib |-> x.storage_gib])
SpecWhy(s, out) ==
  LET m == Meaning(s) IN
  IF out.o # "decoded" THEN "no-result"
  ELSE IF NormSecrets(out.secrets) # m.secrets THEN "secrets"
  ELSE IF NormSa(out.sa) # m.sa THEN "service-account"
  ELSE IF out.has_in # m.has_in THEN "input-files"
  ELSE IF out.has_out # m.has_out THEN "output-files"
  ELSE IF NormMachine(out.machine) # m.machine THEN "machine-spec"
  ELSE "ok"

\* ---- regions -----------------------------------------------------------------------------------------------------
\* in  = [idx |-> sequence of distinct indices in 1..63 (the mapping, in dict order), sel |-> sequence of selected indices
\*        (possibly with repeats), nosel |-> BOOLEAN (the job selected no regions: nothing stored)]
\* out = [o |-> "ok" | "raise", isnull, stored |-> bit positions + 1 of the stored integer, fits63, rec |-> recovered indices]
RegionWhy(in, out) ==
  IF out.o # "ok" THEN "no-result"
  ELSE IF in.nosel THEN (IF out.isnull THEN "ok" ELSE "null-not-kept")
  ELSE IF out.isnull THEN "lost"
  ELSE IF ~out.fits63 THEN "overflow"
  ELSE IF ToSet(out.rec) # ToSet(in.sel) THEN "regions"
  ELSE IF Len(out.rec) # Cardinality(ToSet(out.rec)) THEN "duplicates"
  ELSE "ok"
=============================================================================
