------------------------------- MODULE NextUrl -------------------------------
(* C29: whenever the auth service accepts a post-login `next` URL, a browser following it lands on one of
   the deployment's own batch / auth / ci / monitoring hosts.

   Two parties read the same string:
     * the BROWSER, which follows the redirect.  It parses with the WHATWG URL "basic URL parser"
       (https://url.spec.whatwg.org/#concept-basic-url-parser) against the base URL of the page that
       issued the redirect, https://auth.<domain>/...  This module writes that parser as a state machine
       (one TLA+ step per parser-state transition) restricted to the token alphabet below.  Lands(w) is
       where the browser ends up:  "good"  one of the four deployment hosts,
                                   "self"  the auth service's own origin (relative reference),
                                   "other" any other host,
                                   "none"  no navigation to a host (javascript: and other non-special
                                           schemes, fragment-only reference, URL parse failure).
     * the VALIDATOR  auth.auth.validate_next_page_url, which uses urllib.parse.urlparse(...).netloc.  The
       module models what that code does (PyAccepts) so that TLC can prove the property for the model over
       all words up to a bound; the binding (checks/c29.py) then calls the REAL function on several
       concretisations of every word and TLC judges each recorded answer:   accepted => Lands is not "other".

   Strings are abstracted to words over tokens.  A token stands for a character class or a word of
   scheme/host characters; the concretisation table lives in checks/c29.py.                        *)
EXTENDS Naturals, Sequences, SequencesExt, FiniteSets, TLC, Json, IOUtils

Tokens == {"https", "http", "js",      \* "https:"  "http:"  "javascript:" (a non-special scheme), colon included
           "ss", "s", "bs",            \* "//"  "/"  "\"
           "at", "colon", "q", "hash", "dot",
           "good",                     \* one of the deployment's hosts, e.g. batch.hail.test
           "evil",                     \* a host name that is not one of them, e.g. evil.com, batch.hail.test.evil.com
           "digit",                    \* one decimal digit (1 or 2)
           "pct",                      \* a percent-encoded delimiter (%2F %23 %3F %40 %3A %5C): an ordinary character for both parsers
                                       \* wherever it stands, except that the browser's host parser percent-decodes the host and
                                       \* then finds a forbidden host code point (failure)
           "tab",                      \* ASCII tab or newline: removed everywhere by both parsers
           "sp"}                       \* space or another C0 control: stripped at the ends only
Core   == {"https", "ss", "s", "bs", "at", "dot", "good", "evil"}

Words(A, n) == UNION { [1 .. k -> A] : k \in 0 .. n }

(* ---- characters --------------------------------------------------------------------------------------- *)
(* The parsers see characters.  A token expands to "atoms", each atom a run of characters of one class:
   word atoms (https http js good evil: letters, digits, dots, hyphens; first character a letter), digit,
   dot, colon, s (one slash), bs, at, q, hash, sp.                                                        *)
Expand(t) == CASE t \in {"https", "http", "js"} -> <<t, "colon">>
               [] t = "ss"  -> <<"s", "s">>
               [] t = "tab" -> <<>>                     \* "remove all ASCII tab or newline from input"
               [] OTHER     -> <<t>>
Raw(w) == FlattenSeq([i \in 1 .. Len(w) |-> Expand(w[i])])

WordAtoms  == {"https", "http", "js", "good", "evil"}
SchemeChar == WordAtoms \cup {"digit", "dot"}        \* ASCII alphanumeric, "+", "-", "."
AuthEnd    == {"EOF", "s", "bs", "q", "hash"}        \* end of authority / host / port for a special scheme

FirstNonSp(a) == IF \E i \in 1 .. Len(a) : a[i] # "sp" THEN CHOOSE i \in 1 .. Len(a) : a[i] # "sp" /\ \A j \in 1 .. (i - 1) : a[j] = "sp"
                 ELSE Len(a) + 1
LastNonSp(a)  == IF \E i \in 1 .. Len(a) : a[i] # "sp" THEN CHOOSE i \in 1 .. Len(a) : a[i] # "sp" /\ \A j \in (i + 1) .. Len(a) : a[j] = "sp"
                 ELSE 0
\* browser: "remove any leading and trailing C0 control or space", then tabs/newlines (already gone in Raw)
BrowserInput(w) == LET a == Raw(w) IN SubSeq(a, FirstNonSp(a), LastNonSp(a))
\* urllib (3.12): url.lstrip(C0 control or space), then tabs/newlines removed; trailing space is kept
PyInput(w)      == LET a == Raw(w) IN SubSeq(a, FirstNonSp(a), Len(a))

At(a, p) == IF p >= 1 /\ p <= Len(a) THEN a[p] ELSE "EOF"

(* ---- host parser (special scheme) ------------------------------------------------------------------------ *)
(* h: atoms between the authority start (after the last "@") and the port colon / end of authority; it can
   contain word atoms, digit, dot, sp only.  Results: "good", "other", "fail" (URL parse failure).            *)
DropDot(h) == IF Len(h) > 1 /\ h[Len(h)] = "dot" THEN SubSeq(h, 1, Len(h) - 1) ELSE h
\* "ends in a number": the last label (after one trailing dot) consists of digits
LastLabelStart(h) == IF \E i \in 1 .. Len(h) : h[i] # "digit"
                     THEN 1 + CHOOSE i \in 1 .. Len(h) : h[i] # "digit" /\ \A j \in (i + 1) .. Len(h) : h[j] = "digit"
                     ELSE 1
EndsInNumber(h) == /\ Len(h) > 0 /\ h[Len(h)] = "digit"
                   /\ LET s == LastLabelStart(h) IN s = 1 \/ h[s - 1] = "dot"
\* IPv4 parser on digits 1/2 (no octal/hex): labels non-empty, at most 4, every label but the last <= 255
Dots(h) == { i \in 1 .. Len(h) : h[i] = "dot" }
IPv4Ok(h) == /\ \A i \in 1 .. Len(h) : h[i] \in {"digit", "dot"}
             /\ h[1] # "dot"
             /\ \A i \in Dots(h) : At(h, i + 1) = "digit"
             /\ Cardinality(Dots(h)) <= 3
             /\ \A j \in 1 .. (Len(h) - 4) :                  \* no label before a dot has 4 or more digits (> 255)
                   ~((\A m \in j .. (j + 3) : h[m] = "digit") /\ h[j + 4] = "dot")
HostClass(h) ==
  IF h = <<>> THEN "fail"                                      \* host-missing
  ELSE IF \E i \in 1 .. Len(h) : h[i] \in {"sp", "pct"} THEN "fail"   \* forbidden host code point (for pct: after percent-decoding)
  ELSE IF h = <<"good">> \/ h = <<"good", "dot">> THEN "good"  \* the FQDN with a trailing dot is the same machine
  ELSE IF EndsInNumber(DropDot(h)) THEN (IF IPv4Ok(DropDot(h)) THEN "other" ELSE "fail")
  ELSE "other"                                                 \* some other domain

(* ---- the basic URL parser as a step function ------------------------------------------------------------ *)
(* cfg = [st, p, b, atseen, host, res]:  st parser state, p pointer (index of c; Len+1 is EOF), b start of the
   buffer (authority/host/port), atseen the at-sign-seen flag, host the class of the parsed host, res result.
   "decrease pointer by 1 and switch state" is written as: same p, new state.
   Base URL: https://auth.<domain>/<path> (special, with a host); url's scheme after "no scheme" is https.   *)
InitCfg == [st |-> "schemeStart", p |-> 1, b |-> 1, atseen |-> FALSE, host |-> "", res |-> ""]
Done(cfg, r) == [cfg EXCEPT !.st = "done", !.res = r]
Goto(cfg, s, q) == [cfg EXCEPT !.st = s, !.p = q]

Step(a, cfg) ==
  LET c == At(a, cfg.p) p == cfg.p IN
  CASE cfg.st = "schemeStart" ->
         IF c \in WordAtoms THEN Goto(cfg, "scheme", p + 1)          \* ASCII alpha
         ELSE Goto(cfg, "noScheme", p)
    [] cfg.st = "scheme" ->
         IF c \in SchemeChar THEN Goto(cfg, "scheme", p + 1)
         ELSE IF c = "colon" THEN
              (LET scheme == SubSeq(a, 1, p - 1) IN
               IF scheme = <<"https">> THEN Goto(cfg, "specialRelativeOrAuthority", p + 1)   \* base has the same scheme
               ELSE IF scheme = <<"http">> THEN Goto(cfg, "specialAuthoritySlashes", p + 1)
               ELSE Done(cfg, "none"))       \* javascript: / unknown scheme: nothing is fetched from a host
         ELSE Goto(cfg, "noScheme", 1)                                \* start over
    [] cfg.st = "noScheme" ->
         IF c = "hash" THEN Done(cfg, "none")                          \* fragment-only reference: same document
         ELSE Goto(cfg, "relative", p)
    [] cfg.st = "specialRelativeOrAuthority" ->
         IF c = "s" /\ At(a, p + 1) = "s" THEN Goto(cfg, "specialAuthorityIgnoreSlashes", p + 2)
         ELSE Goto(cfg, "relative", p)
    [] cfg.st = "specialAuthoritySlashes" ->
         IF c = "s" /\ At(a, p + 1) = "s" THEN Goto(cfg, "specialAuthorityIgnoreSlashes", p + 2)
         ELSE Goto(cfg, "specialAuthorityIgnoreSlashes", p)
    [] cfg.st = "specialAuthorityIgnoreSlashes" ->
         IF c \in {"s", "bs"} THEN Goto(cfg, "specialAuthorityIgnoreSlashes", p + 1)
         ELSE [cfg EXCEPT !.st = "authority", !.b = p, !.atseen = FALSE]
    [] cfg.st = "relative" ->
         IF c \in {"s", "bs"} THEN Goto(cfg, "relativeSlash", p + 1)   \* special: "\" counts as "/"
         ELSE Done(cfg, "self")                                        \* path / query / fragment on the base host
    [] cfg.st = "relativeSlash" ->
         IF c \in {"s", "bs"} THEN Goto(cfg, "specialAuthorityIgnoreSlashes", p + 1)
         ELSE Done(cfg, "self")
    [] cfg.st = "authority" ->
         IF c = "at" THEN [cfg EXCEPT !.atseen = TRUE, !.b = p + 1, !.p = p + 1]   \* everything so far was userinfo
         ELSE IF c \in AuthEnd THEN
              (IF cfg.atseen /\ cfg.b = p THEN Done(cfg, "none")       \* host-missing: failure
               ELSE Goto(cfg, "host", cfg.b))                          \* pointer back to the start of the buffer
         ELSE Goto(cfg, "authority", p + 1)
    [] cfg.st = "host" ->
         IF c = "colon" \/ c \in AuthEnd THEN
              (LET h == HostClass(SubSeq(a, cfg.b, p - 1)) IN
               IF h = "fail" THEN Done(cfg, "none")
               ELSE IF c = "colon" THEN [cfg EXCEPT !.st = "port", !.host = h, !.b = p + 1, !.p = p + 1]
               ELSE Done(cfg, h))
         ELSE Goto(cfg, "host", p + 1)
    [] cfg.st = "port" ->
         IF c = "digit" THEN Goto(cfg, "port", p + 1)
         ELSE IF c \in AuthEnd THEN (IF p - cfg.b > 5 THEN Done(cfg, "none") ELSE Done(cfg, cfg.host))
         ELSE Done(cfg, "none")                                        \* port-invalid: failure
    [] OTHER -> cfg

RECURSIVE RunFrom(_, _)
RunFrom(a, cfg) == IF cfg.st = "done" THEN cfg.res ELSE RunFrom(a, Step(a, cfg))
Lands(w) == RunFrom(BrowserInput(w), InitCfg)

(* ---- what the validator does ---------------------------------------------------------------------------- *)
(* urllib.parse.urlsplit (CPython 3.12): scheme = text before the first ":" if it is letter (scheme char)*;
   if the rest starts with "//" the netloc runs to the first of "/", "?", "#"; validate_next_page_url accepts
   iff the netloc is, character for character, one of the four host names (empty input refused first).      *)
FirstIn(a, S, from) == IF \E i \in from .. Len(a) : a[i] \in S
                       THEN CHOOSE i \in from .. Len(a) : a[i] \in S /\ \A j \in from .. (i - 1) : a[j] \notin S
                       ELSE Len(a) + 1
PyRest(a) == LET i == FirstIn(a, {"colon"}, 1) IN
             IF i <= Len(a) /\ i > 1 /\ a[1] \in WordAtoms /\ \A j \in 1 .. (i - 1) : a[j] \in SchemeChar
             THEN SubSeq(a, i + 1, Len(a)) ELSE a
PyNetloc(w) == LET r == PyRest(PyInput(w)) IN
               IF At(r, 1) = "s" /\ At(r, 2) = "s" THEN SubSeq(r, 3, FirstIn(r, {"s", "q", "hash"}, 3) - 1) ELSE <<>>
PyAccepts(w) == w # <<>> /\ PyNetloc(w) = <<"good">>

Allowed == {"good", "self", "none"}
Ok(w, accepted) == accepted => Lands(w) \in Allowed

(* ---- behaviour specification: every word is parsed step by step ----------------------------------------- *)
MCLen  == atoi(IOEnv.NU_MC)         \* all words over Tokens up to this length
MCCore == atoi(IOEnv.NU_MCCORE)     \* and all words over Core up to this length
VARIABLES w, cfg, n
vars == <<w, cfg, n>>
Init == /\ w \in Words(Tokens, MCLen) \cup Words(Core, MCCore) /\ cfg = InitCfg /\ n = 0
Next == /\ cfg.st # "done"
        /\ cfg' = Step(BrowserInput(w), cfg) /\ n' = n + 1 /\ UNCHANGED w
Spec == Init /\ [][Next]_vars

States == {"schemeStart", "scheme", "noScheme", "specialRelativeOrAuthority", "specialAuthoritySlashes",
           "specialAuthorityIgnoreSlashes", "relative", "relativeSlash", "authority", "host", "port", "done"}
TypeOK == /\ cfg.st \in States
          /\ cfg.p \in 1 .. (Len(BrowserInput(w)) + 2) /\ cfg.b \in 1 .. (Len(BrowserInput(w)) + 2)
          /\ cfg.res \in {"", "good", "self", "other", "none"}
          /\ (cfg.st = "done") = (cfg.res # "")
\* the parser terminates: each atom is visited at most three times (scheme, authority, host/port)
Terminates == n <= 3 * Len(BrowserInput(w)) + 6
\* THE PROPERTY on the model of the validator
Safe == (cfg.st = "done" /\ PyAccepts(w)) => cfg.res \in Allowed
\* sanity of the browser model: a host other than the base's is reached only through an authority, and an
\* authority needs two consecutive slashes/backslashes or the scheme that differs from the base's (http:)
HostNeedsSlashesOrHttp ==
  (cfg.st = "done" /\ cfg.res \in {"good", "other"}) =>
     LET a == BrowserInput(w) IN
     \/ At(a, 1) = "http"
     \/ \E i \in 1 .. (Len(a) - 1) : a[i] \in {"s", "bs"} /\ a[i + 1] \in {"s", "bs"}
StepIsRun == cfg.st = "done" => cfg.res = Lands(w)
\* vacuity companions (expected to be violated)
NeverAcceptedGood == ~(cfg.st = "done" /\ PyAccepts(w) /\ cfg.res = "good")
NeverAcceptedNone == ~(cfg.st = "done" /\ PyAccepts(w) /\ cfg.res = "none")
NeverOther        == ~(cfg.st = "done" /\ cfg.res = "other")
\* a weaker validator (host name taken after the last "@", i.e. urlparse().hostname) would NOT be safe: TLC must find
\* the parser differential  //evil\@good  - this shows the model can tell validators apart
WeakAccepts(x) == LET nl == PyNetloc(x) IN nl # <<>> /\ nl[Len(nl)] = "good" /\ (Len(nl) = 1 \/ nl[Len(nl) - 1] = "at")
WeakSafe == (cfg.st = "done" /\ WeakAccepts(w)) => cfg.res \in Allowed

IdleInit == w = <<>> /\ cfg = InitCfg /\ n = 0
IdleNext == UNCHANGED vars

(* ---- B3: generation and verdict ------------------------------------------------------------------------- *)
FullLen == atoi(IOEnv.NU_FULL)
CoreLen == atoi(IOEnv.NU_CORE)
\* TLC refuses sets of more than 1,000,000 elements, so the universe is written in two parts, and at length 5
\* (16^5 > 10^6) the tokens "q" and "pct" are left out of the full alphabet: "?" and "#" end the authority for both parsers
\* alike and "q" stays in every shorter word.
FullWords == Words(Tokens, IF FullLen < 4 THEN FullLen ELSE 4)
             \cup UNION { [1 .. k -> Tokens \ {"q", "pct"}] : k \in 5 .. FullLen }
CoreWords == Words(Core, CoreLen)
Inputs    == IF IOEnv.NU_PART = "full" THEN FullWords ELSE CoreWords \ FullWords
Gen == ndJsonSerialize(IOEnv.NU_INPUTS, SetToSeq({ [w |-> x] : x \in Inputs }))

\* a case: [w |-> word, acc |-> <<accepted? per concretisation>>, canon |-> accepted? for the canonical spelling]
Cases == ndJsonDeserialize(IOEnv.NU_CASES)
IsWord(x) == \A i \in 1 .. Len(x) : x[i] \in Tokens
AnyAcc(c) == \E i \in 1 .. Len(c.acc) : c.acc[i]
\* One judgement per case, each evaluated exactly once and written as one ndjson line:
\*   lands  where the browser goes,  ok  the property on the real answers (accepted => not another host),
\*   model  what the model of the validator says for the canonical spelling (drift = it differs from the real answer),
\*   weak   whether the weaker hostname-based validator would accept (vacuity: it must be caught somewhere)
Judge(c) == IF ~IsWord(c.w) THEN [lands |-> "not-a-word", ok |-> FALSE, model |-> FALSE, weak |-> FALSE]
            ELSE LET l == Lands(c.w) IN
                 [lands |-> l, ok |-> (AnyAcc(c) => l \in Allowed), model |-> PyAccepts(c.w), weak |-> WeakAccepts(c.w)]
Verdict == ndJsonSerialize(IOEnv.NU_VERDICT, [i \in 1 .. Len(Cases) |-> Judge(Cases[i])])
=============================================================================
