----------------------------- MODULE BunchingGen -----------------------------
(* C19: TLC writes the bounded input universe for the real Batch._create_bunches. *)
EXTENDS Bunching
ASSUME ndJsonSerialize(IOEnv.BU_INPUTS,
         SetToSeq(Universe(atoi(IOEnv.BU_MAXLEN), 1..atoi(IOEnv.BU_MAXSIZE), 2..atoi(IOEnv.BU_MAXBYTES), 1..atoi(IOEnv.BU_MAXCOUNT))))
=============================================================================
