----------------------------- MODULE BunchingGen -----------------------------
(* C19: TLC writes the bounded input universe for the real Batch._create_bunches.
   The harness lists the universes, one JSON record [maxlen, maxsize, maxbytes, maxcount] per line.   *)
EXTENDS Bunching
Params == ndJsonDeserialize(IOEnv.BU_PARAMS)
U(p) == Universe(p.maxlen, 1..p.maxsize, 2..p.maxbytes, 1..p.maxcount)
\* concatenation, not UNION: merging large sets of nested records is slow in TLC; the harness drops repeated lines
RECURSIVE Cat(_)
Cat(i) == IF i = 0 THEN <<>> ELSE Cat(i - 1) \o SetToSeq(U(Params[i]))
ASSUME ndJsonSerialize(IOEnv.BU_INPUTS, Cat(Len(Params)))
=============================================================================
