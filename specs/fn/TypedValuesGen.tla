---- MODULE TypedValuesGen ----
EXTENDS TypedValues
ASSUME Gen(0)
====
