---- MODULE ResourceFitGen ----
(* constant evaluation: check the tables, then write the universe (one suite per line) *)
EXTENDS ResourceFit
ASSUME TablesSane
ASSUME ndJsonSerialize(IOEnv.RF_INPUTS, Suites)
====
