----------------------------- MODULE PyEncoding -----------------------------
(* C33: the byte layout of Python-encoded values, as the ENGINE expects it.

   The front end (hail/python/hail/expr/types.py, HailType._to_encoding, shipped in ir.EncodedLiteral as base64)
   and the engine must agree on one layout.  The engine side is

       hail/hail/src/is/hail/types/encoded/EType.scala     EType.fromPythonTypeEncoding  (which E-type reads a type)
       .../encoded/EInt32 EInt64 EFloat32 EFloat64 EBoolean  fixed-width little-endian (StreamInputBuffer, Memory.loadInt etc.)
       .../encoded/EBinary.scala                            int32 byte length, then the bytes (strings: UTF-8)
       .../encoded/EBaseStruct.scala  _buildInplaceDecoder  ceil(#nullable fields / 8) missing bytes, bit (i mod 8) of
                                                            byte (i div 8) set = field i missing, then the present fields
       .../encoded/EArray.scala       _buildDecoder         int32 length, [nullable elements: ceil(len / 8) missing bytes,
                                                            LSB first], then the present elements
       .../encoded/EUnsortedSet.scala                       an EArray of nullable elements (sorted after decoding)
       .../encoded/EDictAsUnsortedArrayOfPairs.scala        an EArray of REQUIRED structs {key, value} (no missing
                                                            bytes for the array; one missing byte per entry)
       .../encoded/ENDArrayColumnMajor.scala                ndim int64 extents, then prod(shape) REQUIRED elements,
                                                            first index fastest (column major)
       hail/hail/src/is/hail/variant/Call.scala             the 32-bit call word (specs/fn/CallPack.tla, C34)

   transcribed by hand (the engine cannot be built offline: trusted base; the Scala sources are fingerprinted by
   checks/c33.py).  fromPythonTypeEncoding makes EVERY nested position nullable except dict entries and n-d array
   elements; the top-level value is never missing and carries no presence byte.  TInterval is read as the struct
   {start, end, includesStart, includesEnd} (4 nullable fields), tuples and structs as EBaseStruct.

   Second build (line numbers of the tree the transcription was read from):
     TLocus     EType.scala:378-385   EBaseStruct{contig: EBinary(false), position: EInt32(false)}, required = false:
                                      two NULLABLE fields = one missing byte (EBaseStruct.scala:46-49 nMissingBytes =
                                      packBitsToBytes(#non-required fields)), then contig as EBinary (EBinary.scala:23-24 /
                                      54-57: int32 byte length + bytes), then position as EInt32.  The decoder writes into
                                      PCanonicalLocus.representation {contig, position} (EBaseStruct.scala:160,
                                      PCanonicalLocus.scala:15-19), matching fields BY NAME (EBaseStruct.scala:176) - the bytes
                                      are positional.  Front end: types.py tlocus.struct_repr = tstruct(contig=tstr, pos=tint32)
                                      (types.py:1844, _convert_to_encoding 1907-1908) - the field is called `pos` there, which
                                      the bytes do not show.  The front end never writes a missing contig / position; the
                                      engine's target fields are required, so Dec rejects a set missing bit.
     TInterval  EType.scala:387-396   EBaseStruct{start, end, includesStart: EBoolean(false), includesEnd: EBoolean(false)},
                                      point type through fromPythonTypeEncoding; decoded into PCanonicalInterval.representation
                                      (EBaseStruct.scala:161, PCanonicalInterval.scala:33-39).  Front end: types.py:1942
                                      _struct_repr = tstruct(start, end, includes_start, includes_end), 2017-2024.
     TNDArray   EType.scala:411-412   ENDArrayColumnMajor(required element, nDims): ENDArrayColumnMajor.scala:21 nDims x
                                      writeLong(extent); :41-58 the decoder reads the extents, makeColumnMajorStrides, then
                                      prod(extents) elements consecutively = first index fastest.  Front end: types.py:801-810.

   This module defines, over the universe of TypedValues.tla,
       Enc(t, v)        the byte sequence the engine expects for value v of type t   (the layout, as an encoder)
       Dec(t, b, p)     the engine's decoders as a byte-grammar reader               (the layout, as a decoder)
   TLC checks  Dec(t, Enc(t, v), 1) = <<v, end of input>>  on the universe (EncodingSelf) - the transcription is
   uniquely decodable and self-consistent - and judges every byte string the real front end produced:
   python bytes = Enc(t, v)  (Verdict).  Bytes are computed inside TLC's 32-bit integers: int32 from its value
   (two's complement by limbs), int64 by sign extension when it fits 32 bits and from a table of constants
   otherwise, floats and strings from tables of IEEE-754 / UTF-8 constants, calls from CallPack's bit fields.   *)
EXTENDS TypedValues

(* ------------------------------------------------------------------------------------------------ *)
(* Calls: the engine's packed word, re-used from the C34 transcription (CallPack.tla)                 *)
CP == INSTANCE CallPack WITH pc <- "idle", call <- 0, word <- 0, out <- 0
CallOf(x) ==
  CASE x = "c_"    -> CP!MkCall(FALSE, <<>>)
    [] x = "c_p"   -> CP!MkCall(TRUE, <<>>)
    [] x = "c0"    -> CP!MkCall(FALSE, <<0>>)
    [] x = "c2p"   -> CP!MkCall(TRUE, <<2>>)
    [] x = "c00"   -> CP!MkCall(FALSE, <<0, 0>>)
    [] x = "c01"   -> CP!MkCall(FALSE, <<0, 1>>)
    [] x = "c12"   -> CP!MkCall(FALSE, <<1, 2>>)
    [] x = "c01p"  -> CP!MkCall(TRUE, <<0, 1>>)
    [] x = "c10p"  -> CP!MkCall(TRUE, <<1, 0>>)
    [] x = "c11p"  -> CP!MkCall(TRUE, <<1, 1>>)
    [] x = "cbig"  -> CP!MkCall(FALSE, <<100, 300>>)
    [] x = "cbigp" -> CP!MkCall(TRUE, <<300, 100>>)
CallBytes(x) == CP!Bytes(CP!Word(CallOf(x)))

(* ------------------------------------------------------------------------------------------------ *)
(* Primitive layouts                                                                                 *)
IntVal(x) ==
  CASE x = "i32min" -> -2147483647 - 1
    [] x = "negtwo" -> -2   [] x = "neg1" -> -1     [] x = "zero" -> 0      [] x = "one" -> 1    [] x = "two" -> 2
    [] x = "i127"   -> 127  [] x = "i128" -> 128    [] x = "i255" -> 255    [] x = "i256" -> 256
    [] x = "i65536" -> 65536                        [] x = "i32max" -> 2147483647

\* little-endian two's complement of an int32 (EInt32: out.writeInt / in.readInt -> Memory.loadInt)
I32Bytes(n) == LET u == IF n >= 0 THEN n ELSE (n + 2147483647) + 1          \* n + 2^31 for negative n
               IN  <<u % 256, (u \div 256) % 256, (u \div 65536) % 256,
                     (u \div 16777216) + (IF n < 0 THEN 128 ELSE 0)>>
I32At(b, p) == LET lo == b[p] + b[p + 1] * 256 + b[p + 2] * 65536 + (b[p + 3] % 128) * 16777216
               IN  IF b[p + 3] >= 128 THEN (lo - 2147483647) - 1 ELSE lo
\* an int64 that fits 32 bits: sign extension (EInt64: writeLong / readLong)
I64Small(n) == I32Bytes(n) \o (IF n < 0 THEN <<255, 255, 255, 255>> ELSE <<0, 0, 0, 0>>)
I64Bytes(x) ==
  CASE x = "i32maxp1" -> <<0, 0, 0, 128, 0, 0, 0, 0>>                       \* 2^31
    [] x = "i32minm1" -> <<255, 255, 255, 127, 255, 255, 255, 255>>         \* -2^31 - 1
    [] x = "p53p1"    -> <<1, 0, 0, 0, 0, 0, 32, 0>>                        \* 2^53 + 1
    [] x = "i64min"   -> <<0, 0, 0, 0, 0, 0, 0, 128>>
    [] x = "i64max"   -> <<255, 255, 255, 255, 255, 255, 255, 127>>
    [] OTHER          -> I64Small(IntVal(x))

\* IEEE-754 binary64 / binary32, little-endian (EFloat64 / EFloat32); the Python int 1 is the float 1.0
F64Bytes(x) ==
  CASE x = "nan"     -> <<0, 0, 0, 0, 0, 0, 248, 127>>                      \* 7FF8 0000 0000 0000 (quiet NaN)
    [] x = "pinf"    -> <<0, 0, 0, 0, 0, 0, 240, 127>>
    [] x = "ninf"    -> <<0, 0, 0, 0, 0, 0, 240, 255>>
    [] x = "zero"    -> <<0, 0, 0, 0, 0, 0, 0, 0>>
    [] x = "negzero" -> <<0, 0, 0, 0, 0, 0, 0, 128>>
    [] x \in {"one", "int1"} -> <<0, 0, 0, 0, 0, 0, 240, 63>>              \* 3FF0 ...
    [] x = "f1.5"    -> <<0, 0, 0, 0, 0, 0, 248, 63>>
    [] x = "neg2.5"  -> <<0, 0, 0, 0, 0, 0, 4, 192>>                        \* C004 ...
    [] x = "d0.1"    -> <<154, 153, 153, 153, 153, 153, 185, 63>>           \* 3FB9 9999 9999 999A
    [] x = "s0.1"    -> <<0, 0, 0, 160, 153, 153, 185, 63>>                 \* 3FB9 9999 A000 0000 = float32(0.1)
    [] x = "f32max"  -> <<0, 0, 0, 224, 255, 255, 239, 71>>                 \* 47EF FFFF E000 0000
    [] x = "f32tiny" -> <<0, 0, 0, 0, 0, 0, 160, 54>>                       \* 36A0 ... = 2^-149
    [] x = "f64max"  -> <<255, 255, 255, 255, 255, 255, 239, 127>>
    [] x = "f64tiny" -> <<1, 0, 0, 0, 0, 0, 0, 0>>
    [] x = "p53p1f"  -> <<1, 0, 0, 0, 0, 0, 64, 67>>                        \* 4340 0000 0000 0001 = 2^53 + 2
    [] x = "d3rd"    -> <<85, 85, 85, 85, 85, 85, 213, 63>>                 \* 3FD5 5555 5555 5555 = 1/3
    [] x = "s3rd"    -> <<0, 0, 0, 96, 85, 85, 213, 63>>                    \* 3FD5 5555 6000 0000 = float32(1/3)
    [] x = "f16m1"   -> <<0, 0, 0, 16, 0, 0, 112, 65>>                      \* 4170 0000 1000 0000 = 2^24 + 1
    [] x = "f16m"    -> <<0, 0, 0, 0, 0, 0, 112, 65>>                       \* 4170 0000 0000 0000 = 2^24
F32Bytes(x) ==
  CASE x = "nan"     -> <<0, 0, 192, 127>>                                  \* 7FC0 0000
    [] x = "pinf"    -> <<0, 0, 128, 127>>
    [] x = "ninf"    -> <<0, 0, 128, 255>>
    [] x = "zero"    -> <<0, 0, 0, 0>>
    [] x = "negzero" -> <<0, 0, 0, 128>>
    [] x \in {"one", "int1"} -> <<0, 0, 128, 63>>
    [] x = "f1.5"    -> <<0, 0, 192, 63>>
    [] x = "neg2.5"  -> <<0, 0, 32, 192>>
    [] x \in {"d0.1", "s0.1"} -> <<205, 204, 204, 61>>                      \* 3DCC CCCD: 0.1 rounded to nearest
    [] x = "f32max"  -> <<255, 255, 127, 127>>
    [] x = "f32tiny" -> <<1, 0, 0, 0>>
    [] x \in {"d3rd", "s3rd"}   -> <<171, 170, 170, 62>>                    \* 3EAA AAAB: 1/3 rounded to nearest (up)
    [] x \in {"f16m1", "f16m"}  -> <<0, 0, 128, 75>>                        \* 4B80 0000: 2^24 + 1 rounds to even = 2^24
\* UTF-8 of the symbolic strings (the length prefix counts BYTES)
Utf8(x) ==
  CASE x = "empty"    -> <<>>
    [] x = "ascii"    -> <<97, 98, 99>>                                      \* abc
    [] x = "digits"   -> <<48, 49, 50, 51>>                                  \* 0123
    [] x = "calllike" -> <<48, 124, 49>>                                     \* 0|1
    [] x = "nonascii" -> <<195, 169, 228, 184, 173, 240, 159, 152, 128>>     \* U+00E9 U+4E2D U+1F600
    [] x = "escapes"  -> <<34, 92, 47, 10, 9, 0, 127, 226, 128, 168>>        \* " \ / LF TAB NUL DEL U+2028
    [] x = "astralnul" -> <<240, 144, 128, 128, 0, 244, 143, 191, 191>>      \* U+10000 NUL U+10FFFF
\* UTF-8 of the contig names of the genome "vrg"
ContigUtf8(cn) ==
  CASE cn = "c1" -> <<49>>                                                   \* 1
    [] cn = "cx" -> <<99, 34, 92, 32, 195, 169, 240, 159, 152, 128>>         \* c " \ SPACE U+00E9 U+1F600  (6 code points, 10 bytes)
    [] cn = "cm" -> <<77, 84>>                                               \* MT

LeafBytes(k, x) ==
  CASE k = "int32"   -> I32Bytes(IntVal(x))
    [] k = "int64"   -> I64Bytes(x)
    [] k = "float32" -> F32Bytes(x)
    [] k = "float64" -> F64Bytes(x)
    [] k = "bool"    -> IF x = "true" THEN <<1>> ELSE <<0>>                 \* EBoolean: writeByte(b.toByte)
    [] k = "str"     -> I32Bytes(Len(Utf8(x))) \o Utf8(x)                   \* EBinary
    [] k = "call"    -> CallBytes(x)                                        \* EInt32 holding the canonical call

(* ------------------------------------------------------------------------------------------------ *)
(* Enc: the layout as an encoder                                                                     *)
Bit(b) == IF b THEN 1 ELSE 0
RECURSIVE BitsToByte(_, _, _)
\* bits ms[lo + 1 .. lo + 8] (as far as they exist), bit k of the byte = ms[lo + k + 1]   (LSB first)
BitsToByte(ms, lo, k) == IF k = 8 \/ lo + k + 1 > Len(ms) THEN 0
                         ELSE Bit(ms[lo + k + 1]) + 2 * BitsToByte(ms, lo, k + 1)
\* UnsafeUtils.packBitsToBytes(n) = (n + 7) >>> 3 bytes
MissingBytes(ms) == [j \in 1 .. (Len(ms) + 7) \div 8 |-> BitsToByte(ms, 8 * (j - 1), 0)]

RECURSIVE Flat(_)
Flat(ss) == IF ss = <<>> THEN <<>> ELSE Head(ss) \o Flat(Tail(ss))
IsNA(v) == v.c = "na"
\* row-major offset (0-based) of the q-th element (0-based) in column-major order: first index fastest
RECURSIVE RowOff(_, _)
RowOff(sh, q) == IF sh = <<>> THEN 0
                 ELSE (q % Head(sh)) * SeqProduct(Tail(sh)) + RowOff(Tail(sh), q \div Head(sh))

RECURSIVE Enc(_, _)
Enc(t, v) ==
  IF IsNA(v) THEN <<>>                                                      \* a missing value has no bytes, only its bit
  ELSE
  CASE t.k \in Prims -> LeafBytes(t.k, v.x)
    [] t.k = "locus" ->                                                     \* EBaseStruct{contig: EBinary, position: EInt32}, both nullable
         MissingBytes(<<FALSE, FALSE>>)
         \o I32Bytes(Len(ContigUtf8(v.contig))) \o ContigUtf8(v.contig) \o I32Bytes(v.pos)
    [] t.k \in {"array", "set"} ->                                          \* EArray(nullable element)
         I32Bytes(Len(v.xs)) \o MissingBytes([i \in 1 .. Len(v.xs) |-> IsNA(v.xs[i])])
         \o Flat([i \in 1 .. Len(v.xs) |-> Enc(t.e, v.xs[i])])
    [] t.k = "dict" ->                                                      \* EArray(required EBaseStruct{key, value})
         I32Bytes(Len(v.kv))
         \o Flat([i \in 1 .. Len(v.kv) |-> MissingBytes(<<IsNA(v.kv[i].k), IsNA(v.kv[i].v)>>)
                                            \o Enc(t.key, v.kv[i].k) \o Enc(t.val, v.kv[i].v)])
    [] t.k \in {"tuple", "struct"} ->                                       \* EBaseStruct, every field nullable
         MissingBytes([i \in 1 .. Len(v.xs) |-> IsNA(v.xs[i])])
         \o Flat([i \in 1 .. Len(v.xs) |-> Enc(t.ts[i], v.xs[i])])
    [] t.k = "interval" ->                                                  \* EBaseStruct{start, end, includesStart, includesEnd}
         MissingBytes(<<IsNA(v.s), IsNA(v.e), FALSE, FALSE>>)
         \o Enc(t.p, v.s) \o Enc(t.p, v.e) \o <<Bit(v.is)>> \o <<Bit(v.ie)>>
    [] t.k = "ndarray" ->                                                   \* ENDArrayColumnMajor(required element)
         Flat([i \in 1 .. Len(v.shape) |-> I64Small(v.shape[i])])
         \o Flat([q \in 1 .. Len(v.xs) |-> LeafBytes(t.e.k, v.xs[RowOff(v.shape, q - 1) + 1].x)])

(* ------------------------------------------------------------------------------------------------ *)
(* Dec: the engine's decoders as a reader of the byte grammar.  Dec(t, b, p) reads one present value of *)
(* type t from b at position p (1-based) and returns [v |-> tree, p |-> position after it]; trees are   *)
(* in the report format of TypedValues.Match (leaves [c, py, x, x32]).  Reading beyond the end or an    *)
(* unknown leaf gives v = Bad.                                                                          *)
Bad == [c |-> "bad"]
Slice(b, p, n) == [i \in 1 .. n |-> b[p + i - 1]]
DecLeafName(k, bs) ==
  LET S == {x \in Full(k) : LeafBytes(k, x) = bs /\ x = (IF k = "float32" THEN R32(x) ELSE Canon(x))}
  IN  IF S = {} THEN Bad
      ELSE LET n == CHOOSE x \in S : TRUE IN [c |-> "p", py |-> Pick(PyClasses(k)), x |-> n, x32 |-> n]
Width(k) == CASE k \in {"int32", "float32", "call"} -> 4 [] k \in {"int64", "float64"} -> 8 [] k = "bool" -> 1
DecLeaf(k, b, p) ==
  IF k = "str"
  THEN IF p + 3 > Len(b) THEN [v |-> Bad, p |-> p]
       ELSE LET n == I32At(b, p) IN
            IF n < 0 \/ p + 3 + n > Len(b) THEN [v |-> Bad, p |-> p]
            ELSE [v |-> DecLeafName(k, Slice(b, p, 4 + n)), p |-> p + 4 + n]
  ELSE IF p + Width(k) - 1 > Len(b) THEN [v |-> Bad, p |-> p]
       ELSE [v |-> DecLeafName(k, Slice(b, p, Width(k))), p |-> p + Width(k)]

\* is bit i (0-based) set in the missing bytes that start at position p   (Region.loadBit / (1 << midx) & m)
MBit(b, p, i) == (b[p + i \div 8] \div (2 ^ (i % 8))) % 2 = 1

RECURSIVE Dec(_, _, _)
RECURSIVE DecSeq(_, _, _, _, _, _)
\* read the present ones of n positions; types ts[i] (a function on 1 .. n), missing bits at mp (0 = all required)
\* acc: the values read so far;  returns [vs |-> sequence of trees (NA where the bit is set), p |-> next position]
DecSeq(ts, n, b, mp, p, acc) ==
  LET i == Len(acc) + 1 IN
  IF i > n THEN [vs |-> acc, p |-> p]
  ELSE IF mp # 0 /\ MBit(b, mp, i - 1) THEN DecSeq(ts, n, b, mp, p, Append(acc, NA))
  ELSE LET r == Dec(ts[i], b, p) IN
       IF r.v = Bad THEN [vs |-> Append(acc, Bad), p |-> p]
       ELSE DecSeq(ts, n, b, mp, r.p, Append(acc, r.v))
HasBad(vs) == \E i \in 1 .. Len(vs) : vs[i] = Bad

Dec(t, b, p) ==
  CASE t.k \in Prims -> DecLeaf(t.k, b, p)
    [] t.k = "locus" ->
         \* one missing byte; PCanonicalLocus.representation has REQUIRED contig and position: a set bit is not a locus
         IF p + 4 > Len(b) THEN [v |-> Bad, p |-> p]
         ELSE IF MBit(b, p, 0) \/ MBit(b, p, 1) THEN [v |-> Bad, p |-> p]
         ELSE LET n == I32At(b, p + 1) IN
              IF n < 0 \/ p + 4 + n + 4 > Len(b) THEN [v |-> Bad, p |-> p]
              ELSE LET S   == {cn \in Contigs : ContigUtf8(cn) = Slice(b, p + 5, n)}
                       pos == I32At(b, p + 5 + n)
                   IN  IF S = {} THEN [v |-> Bad, p |-> p]
                       ELSE [v |-> [c |-> "loc", rg |-> t.rg, contig |-> CHOOSE cn \in S : TRUE, pos |-> pos], p |-> p + 9 + n]
    [] t.k \in {"array", "set"} ->
         IF p + 3 > Len(b) THEN [v |-> Bad, p |-> p]
         ELSE LET n  == I32At(b, p)
                  nm == (n + 7) \div 8
              IN  IF n < 0 \/ p + 3 + nm > Len(b) THEN [v |-> Bad, p |-> p]
                  ELSE LET r == DecSeq([i \in 1 .. n |-> t.e], n, b, p + 4, p + 4 + nm, <<>>) IN
                       IF HasBad(r.vs) THEN [v |-> Bad, p |-> p]
                       ELSE [v |-> IF t.k = "array" THEN VArr(r.vs) ELSE VSet(r.vs), p |-> r.p]
    [] t.k = "dict" ->
         IF p + 3 > Len(b) THEN [v |-> Bad, p |-> p]
         ELSE LET n  == I32At(b, p)
                  et == TStruct(<<"key", "value">>, <<t.key, t.val>>)
                  r  == DecSeq([i \in 1 .. n |-> et], n, b, 0, p + 4, <<>>)       \* required entries: no missing bytes
              IN  IF n < 0 \/ HasBad(r.vs) THEN [v |-> Bad, p |-> p]
                  ELSE [v |-> VDict([i \in 1 .. n |-> [k |-> r.vs[i].xs[1], v |-> r.vs[i].xs[2]]]), p |-> r.p]
    [] t.k \in {"tuple", "struct"} ->
         LET n == Len(t.ts)  nm == (n + 7) \div 8 IN
         IF p + nm - 1 > Len(b) THEN [v |-> Bad, p |-> p]
         ELSE LET r == DecSeq(t.ts, n, b, IF n = 0 THEN 0 ELSE p, p + nm, <<>>) IN
              IF HasBad(r.vs) THEN [v |-> Bad, p |-> p]
              ELSE [v |-> IF t.k = "tuple" THEN VTup(r.vs) ELSE VStruct(t.ns, r.vs), p |-> r.p]
    [] t.k = "interval" ->
         IF p > Len(b) THEN [v |-> Bad, p |-> p]
         ELSE LET r == DecSeq(<<t.p, t.p, P("bool"), P("bool")>>, 4, b, p, p + 1, <<>>) IN
              IF HasBad(r.vs) THEN [v |-> Bad, p |-> p]
              ELSE IF IsNA(r.vs[3]) \/ IsNA(r.vs[4]) THEN [v |-> Bad, p |-> p]      \* never written by the front end
              ELSE [v |-> VIv(r.vs[1], r.vs[2], r.vs[3].x = "true", r.vs[4].x = "true"), p |-> r.p]
    [] t.k = "ndarray" ->
         IF p + 8 * t.n - 1 > Len(b) THEN [v |-> Bad, p |-> p]
         ELSE LET sh == [i \in 1 .. t.n |-> I32At(b, p + 8 * (i - 1))]              \* extents fit 32 bits here
                  n  == SeqProduct(sh)
                  r  == DecSeq([i \in 1 .. n |-> t.e], n, b, 0, p + 8 * t.n, <<>>)  \* required elements, column major
              IN  IF (\E i \in 1 .. t.n : sh[i] < 0 \/ Slice(b, p + 8 * (i - 1) + 4, 4) # <<0, 0, 0, 0>>) \/ HasBad(r.vs)
                  THEN [v |-> Bad, p |-> p]
                  ELSE [v |-> [c |-> "nd", dt |-> t.e.k, shape |-> sh,
                               \* back to row-major (logical) order: xs[RowOff(q) + 1] = q-th element read
                               xs |-> [j \in 1 .. n |-> r.vs[(CHOOSE q \in 1 .. n : RowOff(sh, q - 1) + 1 = j)]]],
                        p |-> r.p]

\* the engine reads the whole literal: one value, all bytes consumed
DecAll(t, b) == LET r == Dec(t, b, 1) IN IF r.v # Bad /\ r.p = Len(b) + 1 THEN r.v ELSE Bad

(* ------------------------------------------------------------------------------------------------ *)
(* EncodingSelf: Enc and Dec are one layout (thorough: exhaustive over the depth <= 1 universe and the quick *)
(* depth-2 selection; quick: a selection with every kind, all n-d array types, the 9-field types): every   *)
(* byte is a byte, decoding the encoding gives back the value, nothing is left over.                        *)
EncTypes == IF Level = 0
            THEN D0 \cup T1Tiny \cup NdTypes \cup Special \cup Over2({TArr(P("float64")), TDict(P("str"), P("float64"))}) \cup Named2
            ELSE D0 \cup T1 \cup Over2(T1Tiny) \cup Named2 \cup Deep3
EncodingSelf(dummy) ==
  /\ \A t \in EncTypes : \A v \in Vals(t, 2) :
        LET b == Enc(t, v) IN
        /\ \A i \in 1 .. Len(b) : b[i] \in 0 .. 255
        /\ LET w == DecAll(t, b) IN w # Bad /\ Match(t, v, w)
  \* and the reader rejects a truncated input (no value of the universe is a proper prefix problem)
  /\ \A t \in D0 \cup {TArr(P("int32")), TTup(<<P("str"), P("bool")>>)} : \A v \in Vals(t, 2) :
        LET b == Enc(t, v) IN Len(b) > 0 => DecAll(t, SubSeq(b, 1, Len(b) - 1)) = Bad
  /\ PrintT(<<"encodingself", Cardinality(EncTypes)>>)

(* ------------------------------------------------------------------------------------------------ *)
(* Verdict.  A case:  t, v      the pair given to the real code                                        *)
(*                   vin       the Python input object as a report tree (sets / dicts in THEIR iteration  *)
(*                             order, which is the order the front end writes them in)                   *)
(*                   err       "" or "<stage>: <exception>"                                             *)
(*                   bytes     what _convert_to_encoding wrote                                          *)
(*                   haslit    hl.literal(v, t) is an EncodedLiteral (everything but top-level int / float /  *)
(*                             bool / str);  lit: the base64 payload of its RENDERED IR text, decoded         *)
(*                   w         _convert_from_encoding of the payload (of `bytes` when there is no literal),    *)
(*                             as a report tree                                                              *)
WhyEnc(x) ==
  IF ~(IsType(x.t) /\ IF IsType(x.t) THEN Depth(x.t) <= MaxDepth /\ WellTyped(x.t, x.v) /\ x.v # NA ELSE FALSE) THEN "not-in-universe"
  ELSE IF ~Match(x.t, x.v, x.vin) THEN "harness"             \* the harness built another value than TLC asked for
  ELSE IF x.err # "" THEN "raised"
  ELSE IF x.bytes # Enc(x.t, x.vin) THEN "layout"
  ELSE IF x.haslit /\ x.lit # x.bytes THEN "literal"        \* payload of the rendered hl.literal(v, t) # _to_encoding(v)
  ELSE IF ~Ok(x.t, x.v, x.w) THEN "differs"
  ELSE ""
EncVerdict(u) ==
  LET cases == ndJsonDeserialize(IOEnv.TV_CASES)
      why   == [i \in 1 .. Len(cases) |-> WhyEnc(cases[i])]
      bad   == {i \in 1 .. Len(cases) : why[i] # ""}
  IN  JsonSerialize(IOEnv.TV_VERDICT,
             [n      |-> Len(cases),
              ok     |-> Len(cases) - Cardinality(bad),
              nested |-> Cardinality({i \in 1 .. Len(cases) : IF IsType(cases[i].t) THEN Depth(cases[i].t) = 2 ELSE FALSE}),
              deep   |-> Cardinality({i \in 1 .. Len(cases) : IF IsType(cases[i].t) THEN Depth(cases[i].t) = 3 ELSE FALSE}),
              bad    |-> SetToSeq({[i |-> i, why |-> why[i],
                                    want |-> IF why[i] = "layout" THEN Enc(cases[i].t, cases[i].vin) ELSE <<>>] : i \in bad})])
=============================================================================
