---- MODULE ResourceFitVerdict ----
(* constant evaluation: judge every recorded call of the real front end against Ok.
   RF_INPUTS: the suites as written by ResourceFitGen; RF_CASES: one line per (suite, configuration, rendering)
   [s, c, v, outs] with outs[r] the outcome of request r of that suite.                                     *)
EXTENDS ResourceFit
In    == ndJsonDeserialize(IOEnv.RF_INPUTS)
Cases == ndJsonDeserialize(IOEnv.RF_CASES)
BadOf(i) == LET cs == Cases[i]
                su == In[cs.s]
            IN  { r \in 1..Len(su.reqs) : ~Ok(su.cfgs[cs.c], su.reqs[r], cs.outs[r]) }
Bad == UNION { { [i |-> i, r |-> r, why |-> Why(In[Cases[i].s].cfgs[Cases[i].c], In[Cases[i].s].reqs[r], Cases[i].outs[r])] :
                   r \in BadOf(i) } : i \in 1..Len(Cases) }
ASSUME TablesSane
ASSUME \A i \in 1..Len(Cases) : Len(Cases[i].outs) = Len(In[Cases[i].s].reqs)
ASSUME JsonSerialize(IOEnv.RF_VERDICT,
         [n |-> FoldSeq(LAMBDA c, acc : acc + Len(c.outs), 0, Cases), bad |-> SetToSeq(Bad)])
====
