--------------------------- MODULE ResourceFitAlg ---------------------------
(* C12, the selection pipeline as a state machine (what the service does with one request), in exact integer
   arithmetic.  One action per step of the code:

     Submit (Init)     a request arrives at the front end              (_create_jobs, one job spec)
     RejectMalformed   unknown machine type / cpu not a packable size   (valid_machine_types, is_valid_cores_mcpu)
     Accept            sizes parsed, worker type derived from a tier    (parse.py, memory_to_worker_type)
     ExaminePool(i)    next pool: cloud / preemptible / label / type    (select_cheapest_price_pool, select_pool_from_worker_type)
     StorageStep       storage above the cloud's limit -> pool says no  (requested_storage_bytes_to_actual_storage_gib)
     AdjustForMemory   cores := max(cores, memory / memory-per-core)    (gcp_ and azure_adjust_cores_for_memory_request)
     AdjustForPacking  cores := next quarter-core power of two          (adjust_cores_for_packability)
     CheckWorker       cores <= worker cores ? candidate : pool says no (PoolConfig.convert_requests_to_resources)
     Decide            no candidate -> unsatisfiable, else any candidate (price is not modelled: any is allowed)
     PrivateSelect     machine type named: the job-private collection   (select_job_private, JobPrivate...convert_requests_to_resources)

   Checked by TLC over the whole universe of ResourceFit (every configuration x request): every run ends
   (Termination) in an outcome the relation accepts (DoneOk); candidates are the LEAST covering size
   (CandidateIsLeast), so the pipeline never over-grants either.  The same relation then judges the real code. *)
EXTENDS ResourceFit

VARIABLES pc, cfg, q, need, todo, cur, cands, out
vars == << pc, cfg, q, need, todo, cur, cands, out >>

None   == [i |-> 0, stage |-> "none", cores |-> 0]
NoOut  == << -1, -1, 0, 0, 0, 0 >>
TooBig == 1000000000                       \* "more cores than any machine has" (keeps arithmetic inside 32 bits)

\* Submit: any configuration and request of the universe (one behaviour per pair)
Submit(s, c, r) ==
  /\ pc = "validate" /\ cfg = Suites[s].cfgs[c] /\ q = Suites[s].reqs[r]
  /\ need = << 0, 0 >> /\ todo = {} /\ cur = None /\ cands = {} /\ out = NoOut
Init == \E s \in DOMAIN Suites : \E c \in DOMAIN Suites[s].cfgs : \E r \in DOMAIN Suites[s].reqs : Submit(s, c, r)

RejectMalformed ==
  /\ pc = "validate" /\ ~WellFormed(q)
  /\ out' = << MALFORMED, -1, 0, 0, 0, 0 >> /\ pc' = "done"
  /\ UNCHANGED << cfg, q, need, todo, cur, cands >>

Accept ==
  /\ pc = "validate" /\ WellFormed(q)
  /\ IF q.kind = "pool"
     THEN /\ pc' = "pools" /\ todo' = DOMAIN cfg.pools
          \* a tier asks for the memory that the requested cores have on that family (the front end computes
          \* exactly that), which the memory adjustment then leaves alone
          /\ need' = IF q.tier = "" THEN Bytes(q.mem)
                     ELSE << (q.cpu * PerCoreMiB(q.cloud, TierType(q.cloud, q.tier))) \div 1000, 0 >>
     ELSE pc' = "private" /\ UNCHANGED << todo, need >>
  /\ UNCHANGED << cfg, q, cur, cands, out >>

ExaminePool(i) ==
  /\ pc = "pools" /\ cur = None /\ i \in todo
  /\ todo' = todo \ {i}
  /\ cur' = IF Matches(cfg.pools[i], q) THEN [i |-> i, stage |-> "storage", cores |-> q.cpu] ELSE None
  /\ UNCHANGED << pc, cfg, q, need, cands, out >>

StorageStep ==
  /\ pc = "pools" /\ cur.stage = "storage"
  /\ cur' = IF StorageWithinLimit(q) THEN [cur EXCEPT !.stage = "memory"] ELSE None
  /\ UNCHANGED << pc, cfg, q, need, todo, cands, out >>

\* least number of mcpu whose memory share is at least n bytes
MinCoresFor(n, percore) ==
  IF n[1] > 2000000 THEN TooBig
  ELSE LET milli == 1000 * n[1] + ((1000 * n[2] + B - 1) \div B)          \* thousandths of MiB, rounded up
       IN  (milli + percore - 1) \div percore

AdjustForMemory ==
  /\ pc = "pools" /\ cur.stage = "memory"
  /\ LET p == cfg.pools[cur.i]
         m == MinCoresFor(need, PerCoreMiB(p.cloud, p.type))
     IN  cur' = [cur EXCEPT !.stage = "packing", !.cores = IF m > cur.cores THEN m ELSE cur.cores]
  /\ UNCHANGED << pc, cfg, q, need, todo, cands, out >>

AdjustForPacking ==
  /\ pc = "pools" /\ cur.stage = "packing"
  /\ LET fits == { c \in Pow2Mcpu : c >= cur.cores }
         least == IF fits = {} THEN TooBig ELSE CHOOSE c \in fits : \A d \in fits : c <= d
     IN  cur' = [cur EXCEPT !.stage = "worker", !.cores = least]
  /\ UNCHANGED << pc, cfg, q, need, todo, cands, out >>

CheckWorker ==
  /\ pc = "pools" /\ cur.stage = "worker"
  /\ cands' = IF cur.cores <= 1000 * cfg.pools[cur.i].cores THEN cands \cup {[i |-> cur.i, cores |-> cur.cores]} ELSE cands
  /\ cur' = None
  /\ UNCHANGED << pc, cfg, q, need, todo, out >>

CeilGiB(x) == (CeilMiB(x) + 1023) \div 1024
StorageGrant(zero_ok) ==
  LET b == Bytes(q.sto)
      g == CeilGiB(b)
  IN  IF zero_ok /\ b = << 0, 0 >> THEN 0 ELSE IF g < 10 THEN 10 ELSE g

Decide ==
  /\ pc = "pools" /\ cur = None /\ todo = {}
  /\ pc' = "done"
  /\ IF cands = {}
     THEN out' = << UNSAT, -1, 0, 0, 0, 0 >>
     ELSE \E k \in cands :
            LET p == cfg.pools[k.i]
                milli == k.cores * PerCoreMiB(p.cloud, p.type)
            IN  out' = << PLACED, k.i, k.cores, milli \div 1000, ((milli % 1000) * B) \div 1000, StorageGrant(TRUE) >>
  /\ UNCHANGED << cfg, q, need, todo, cur, cands >>

PrivateSelect ==
  /\ pc = "private"
  /\ pc' = "done"
  /\ IF cfg.jp # q.cloud \/ ~StorageWithinLimit(q)
     THEN out' = << UNSAT, -1, 0, 0, 0, 0 >>
     ELSE LET m == MachineRow(q.cloud, q.machine)
          IN  out' = << PLACED, 0, 1000 * m.cores, m.mem_mib, 0, StorageGrant(FALSE) >>
  /\ UNCHANGED << cfg, q, need, todo, cur, cands >>

Next == \/ RejectMalformed \/ Accept
        \/ \E i \in todo : ExaminePool(i)
        \/ StorageStep \/ AdjustForMemory \/ AdjustForPacking \/ CheckWorker \/ Decide \/ PrivateSelect

Spec == Init /\ [][Next]_vars /\ WF_vars(Next)

(* ---- properties ---- *)
TypeOK == /\ pc \in {"validate", "pools", "private", "done"}
          /\ cur.stage \in {"none", "storage", "memory", "packing", "worker"}
          /\ todo \subseteq DOMAIN cfg.pools
          /\ \A k \in cands : k.i \in DOMAIN cfg.pools

\* C12 on the model: whatever the pipeline answers is accepted by the relation
DoneOk == pc = "done" => Ok(cfg, q, out)

\* a candidate is a matching pool with the least packable size that covers the request (never more than needed)
CandidateIsLeast ==
  \A k \in cands :
    LET p == cfg.pools[k.i]
        cover == Covering(p, q, MemNeed(q))
    IN  Matches(p, q) /\ k.cores \in cover /\ \A c \in cover : k.cores <= c

\* a pool that was examined and could serve the request is a candidate (nothing satisfiable is dropped)
NothingDropped ==
  (pc = "pools" /\ cur = None) =>
    \A i \in (DOMAIN cfg.pools) \ todo :
      (PoolCanServe(cfg.pools[i], q, MemNeed(q)) /\ StorageWithinLimit(q)) => \E k \in cands : k.i = i

Termination == <>(pc = "done")
=============================================================================
