----------------------------- MODULE SizeParse -----------------------------
(* C25: resource-size strings ("1.5", "250m", "3.75Gi", "+.5GB") and what they denote.

   A string is a word over tokens (one token = one character, except the named tokens "SP", "NL" and the
   three memory tier names).  The module states, independently of any regular expression or float:

     * the documented grammar      {number}{suffix}      (declaratively: InGrammar, and operationally: the
       scanner Step/Scan, one transition per character, shaped like the regex of parse.py); SizeScan.tla
       lets TLC check that the two formulations agree on all words up to a bound;
     * the value a word denotes as an exact decimal  N / 10^f  (N = all digits, f = number of fraction
       digits) and a unit;
     * the integer the parser must return:  cpu  -> floor(v * 1000) millicores ("m": floor(v)),
                                            memory/storage -> ceil(v * factor) bytes.

   TLC integers are 32 bit; 999999 * 1024^5 is not.  Numbers are therefore sequences of decimal digits
   (little endian inside this module, big endian = as written on the wire).  Multiplying by 1000 or 1024
   is a carry loop whose intermediate values stay below 2^31 (9*1024 + carry), and dividing by 10^f is
   dropping f digits - exact floor and ceiling need nothing else.                                        *)
EXTENDS Naturals, Sequences, SequencesExt, FiniteSets, TLC, Json, IOUtils

DigitTok == {"0", "1", "2", "3", "4", "5", "6", "7", "8", "9"}
DV == "0" :> 0 @@ "1" :> 1 @@ "2" :> 2 @@ "3" :> 3 @@ "4" :> 4 @@ "5" :> 5 @@ "6" :> 6 @@ "7" :> 7 @@ "8" :> 8 @@ "9" :> 9
UnitPrefixes == {"K", "M", "G", "T", "P"}
Exp      == "K" :> 1 @@ "M" :> 2 @@ "G" :> 3 @@ "T" :> 4 @@ "P" :> 5
Kinds    == {"cpu", "memory", "storage"}
Tiers    == {"lowmem", "standard", "highmem"}

\* =========================================================================================
\* 1. The documented grammar, declaratively
\* =========================================================================================
IsDigits(s) == \A k \in 1..Len(s) : s[k] \in DigitTok
Number(s) ==
  \/ Len(s) >= 1 /\ IsDigits(s)
  \/ \E k \in 1..Len(s) : /\ s[k] = "."
                          /\ IsDigits(SubSeq(s, 1, k - 1))
                          /\ k < Len(s)
                          /\ IsDigits(SubSeq(s, k + 1, Len(s)))
UnitSuffixes(kind) ==
  IF kind = "cpu" THEN {<<>>, <<"m">>}
  ELSE {<<>>, <<"B">>} \cup { <<p>> : p \in UnitPrefixes } \cup { <<p, "i">> : p \in UnitPrefixes }
       \cup { <<p, "B">> : p \in UnitPrefixes } \cup { <<p, "i", "B">> : p \in UnitPrefixes }
InGrammar(kind, w) ==
  \E i \in 0..1, j \in 0..Len(w) :
     /\ i <= j
     /\ (i = 1 => w[1] = "+")
     /\ Number(SubSeq(w, i + 1, j))
     /\ SubSeq(w, j + 1, Len(w)) \in UnitSuffixes(kind)

\* =========================================================================================
\* 2. The scanner (one transition per character)
\* =========================================================================================
\* phases: start, sign, int, dot, frac, unit (cpu "m"), prefix, bin, end (after B), dead
Scan0 == [ph |-> "start", ip |-> <<>>, fp |-> <<>>, pre |-> "", bin |-> FALSE]
Step(kind, s, c) ==
  CASE s.ph = "dead" -> s
    [] c \in DigitTok /\ s.ph \in {"start", "sign", "int"}  -> [s EXCEPT !.ph = "int",  !.ip = Append(@, DV[c])]
    [] c \in DigitTok /\ s.ph \in {"dot", "frac"}           -> [s EXCEPT !.ph = "frac", !.fp = Append(@, DV[c])]
    [] c = "+" /\ s.ph = "start"                            -> [s EXCEPT !.ph = "sign"]
    [] c = "." /\ s.ph \in {"start", "sign", "int"}         -> [s EXCEPT !.ph = "dot"]
    [] c = "m" /\ kind = "cpu" /\ s.ph \in {"int", "frac"}  -> [s EXCEPT !.ph = "unit", !.pre = "m"]
    [] c \in UnitPrefixes /\ kind # "cpu" /\ s.ph \in {"int", "frac"} -> [s EXCEPT !.ph = "prefix", !.pre = c]
    [] c = "i" /\ s.ph = "prefix"                           -> [s EXCEPT !.ph = "bin", !.bin = TRUE]
    [] c = "B" /\ kind # "cpu" /\ s.ph \in {"int", "frac", "prefix", "bin"} -> [s EXCEPT !.ph = "end"]
    [] OTHER -> [s EXCEPT !.ph = "dead"]
Accepting == {"int", "frac", "unit", "prefix", "bin", "end"}

RECURSIVE ScanFrom(_, _, _, _)
ScanFrom(kind, s, w, i) == IF i > Len(w) THEN s ELSE ScanFrom(kind, Step(kind, s, w[i]), w, i + 1)
Scan(kind, w) == ScanFrom(kind, Scan0, w, 1)
Accepts(kind, w) == Scan(kind, w).ph \in Accepting

\* =========================================================================================
\* 3. Exact arithmetic on decimal digit sequences (little endian: d[1] is the units digit)
\* =========================================================================================
RECURSIVE MulLE(_, _, _)
MulLE(d, m, c) ==          \* d * m + c      (m <= 1024, c < 1024: every intermediate < 2^31)
  IF d = <<>> THEN (IF c = 0 THEN <<>> ELSE <<c % 10>> \o MulLE(<<>>, m, c \div 10))
  ELSE LET t == d[1] * m + c IN <<t % 10>> \o MulLE(Tail(d), m, t \div 10)
RECURSIVE MulPow(_, _, _)
MulPow(d, m, k) == IF k = 0 THEN d ELSE MulPow(MulLE(d, m, 0), m, k - 1)
RECURSIVE IncLE(_)
IncLE(d) == IF d = <<>> THEN <<1>> ELSE IF d[1] < 9 THEN <<d[1] + 1>> \o Tail(d) ELSE <<0>> \o IncLE(Tail(d))
RECURSIVE TrimLE(_)
TrimLE(d) == IF d = <<>> THEN <<>> ELSE IF d[Len(d)] = 0 THEN TrimLE(SubSeq(d, 1, Len(d) - 1)) ELSE d
DropLE(d, f)      == IF f >= Len(d) THEN <<>> ELSE SubSeq(d, f + 1, Len(d))
LowNonZero(d, f)  == \E k \in 1..(IF f < Len(d) THEN f ELSE Len(d)) : d[k] # 0
FloorDiv10(d, f)  == TrimLE(DropLE(d, f))                                   \* floor(d / 10^f)
CeilDiv10(d, f)   == IF LowNonZero(d, f) THEN IncLE(TrimLE(DropLE(d, f))) ELSE TrimLE(DropLE(d, f))
ToWire(d)         == IF d = <<>> THEN <<0>> ELSE Reverse(d)                 \* big endian, zero = <<0>>

\* small numbers <-> digit sequences (used by the self test only)
RECURSIVE NatToLE(_)
NatToLE(n) == IF n = 0 THEN <<>> ELSE <<n % 10>> \o NatToLE(n \div 10)
RECURSIVE LEToNat(_)
LEToNat(d) == IF d = <<>> THEN 0 ELSE d[1] + 10 * LEToNat(Tail(d))

\* =========================================================================================
\* 4. What an accepted word denotes, and what the parser must return
\* =========================================================================================
Mantissa(p)  == Reverse(p.ip \o p.fp)          \* N, little endian
Scale(p)     == Len(p.fp)                      \* f:  value = N / 10^f
Factor(p)    == IF p.pre \in UnitPrefixes THEN <<IF p.bin THEN 1024 ELSE 1000, Exp[p.pre]>> ELSE <<1, 0>>
ExpectedCpu(p)   == ToWire(IF p.pre = "m" THEN FloorDiv10(Mantissa(p), Scale(p))
                           ELSE FloorDiv10(MulLE(Mantissa(p), 1000, 0), Scale(p)))
ExpectedBytes(p) == ToWire(CeilDiv10(MulPow(Mantissa(p), Factor(p)[1], Factor(p)[2]), Scale(p)))
Expected(kind, p) == IF kind = "cpu" THEN ExpectedCpu(p) ELSE ExpectedBytes(p)

(* A call:  parse_<kind>(string) -> client  ;  job validator on {resources: {<kind>: string}} -> server.
   client = [o |-> "int" | "none" | "raise" | "other", neg |-> BOOLEAN, d |-> big-endian digits of |result|]
   server = TRUE iff the validator accepted.

   The relation the property demands:
     word in the grammar       : client returns exactly the denoted integer, server accepts;
     a memory tier name        : not a size (client returns None), the server accepts it for memory;
     anything else             : client and server agree (accept / reject).  Nothing more is demanded of
                                 strings outside the documented grammar.                                  *)
ClientAccepts(c) == c.o \in {"int", "other"}
Why(kind, w, client, server) ==
  LET p == Scan(kind, w) IN
  IF p.ph \in Accepting THEN
       IF client.o = "none" THEN "client-rejects"
       ELSE IF client.o # "int" THEN "client-" \o client.o
       ELSE IF client.neg \/ client.d # Expected(kind, p) THEN "value"
       ELSE IF ~server THEN "server-rejects"
       ELSE "ok"
  ELSE IF kind = "memory" /\ Len(w) = 1 /\ w[1] \in Tiers THEN
       IF ~server THEN "tier-server-rejects" ELSE IF client.o # "none" THEN "tier-parsed" ELSE "ok"
  ELSE IF ClientAccepts(client) # server THEN "client-server-disagree"
  ELSE "ok"
Ok(kind, w, client, server) == Why(kind, w, client, server) = "ok"

Words(A, n) == UNION { [1..k -> A] : k \in 0..n }     \* all words over A up to length n
Rep(tok, n) == [k \in 1..n |-> tok]

(* The input universe, the self test of this module and the generator are in SizeParseGen.tla, the verdict over
   recorded calls in SizeParseVerdict.tla (TLC evaluates constant definitions eagerly; keeping them apart
   keeps each evaluation cheap). *)
=============================================================================
