---- MODULE AclGen ----
EXTENDS Acl
ASSUME Gen
====
