----------------------------- MODULE AclPipeline -----------------------------
(* The request pipeline of the batch front end as a state machine: one action per stage of the decorator chain
   (gear.auth.Authenticator.authenticated_users_only, then billing_project_users_only / developers-only /
   developers-or-auth, then the handler's own owner / membership filter, then the handler body), for one request
   chosen in Init.  TLC checks, for every request of Acl!Requests, that the chain answers exactly as the property
   demands:  PolicyHolds (the finished request satisfies Acl!Policy), ExactGate (the body is reached iff Allowed),
   RefusalIsPure (no write before or at a refusal), ListingShowsOnlyReadable.                                     *)
EXTENDS Acl

VARIABLES req,      \* the request being served
          pc,       \* "auth" -> "gate" -> "handler" -> "body" -> "done"
          answer,   \* "none" while running; the refusal, or "handled"
          changed,  \* the handler body wrote to the database
          seen      \* items a listing shows
vars == <<req, pc, answer, changed, seen>>

(* the rows the listings' queries range over, and what the code's filters let through:
   batches : INNER JOIN billing_project_users ... WHERE billing_project_users.user = caller  (whatever q says)
   billing : user = caller unless developer / auth (JSON_CONTAINS(users, caller) for projects, `user` = caller for usage) *)
AllItems == { [proj |-> "proj", user |-> "u1"], [proj |-> "other", user |-> "u3"] }
Narrow(v, S) == IF v = "foreign" THEN { i \in S : i.user = "u3" } ELSE S       \* search terms only narrow
Shown(r) == CASE r.cls = "list_batches" -> Narrow(r.variant, { i \in AllItems : r.caller \in Members(r.world, i.proj) })
              [] r.cls = "list_billing" -> Narrow(r.variant, { i \in AllItems : Privileged(r.caller) \/ r.caller \in Members(r.world, i.proj) \/ i.user = r.caller })
              [] OTHER -> {}
Writes(cls) == cls \in {"create", "batch_member", "batch_owner", "bp_admin"}     \* classes that contain mutating routes

Init == /\ req \in Requests
        /\ pc = "auth" /\ answer = "none" /\ changed = FALSE /\ seen = <<>>

Refuse(a) == pc' = "done" /\ answer' = a /\ UNCHANGED <<req, changed, seen>>
Proceed(to) == pc' = to /\ UNCHANGED <<req, answer, changed, seen>>

AuthStage    == pc = "auth"    /\ LET a == StageAuth(req.cls, req.caller) IN IF a = "next" THEN Proceed("gate") ELSE Refuse(a)
GateStage    == pc = "gate"    /\ LET a == StageGate(req.cls, req.caller, req.world, req.target) IN IF a = "next" THEN Proceed("handler") ELSE Refuse(a)
HandlerStage == pc = "handler" /\ LET a == StageHandler(req.cls, req.caller, req.world, req.target) IN IF a = "handled" THEN Proceed("body") ELSE Refuse(a)
Body         == /\ pc = "body"
                /\ pc' = "done" /\ answer' = "handled"
                /\ changed' \in (IF Writes(req.cls) THEN BOOLEAN ELSE {FALSE})
                /\ seen' = SetToSeq(Shown(req))
                /\ UNCHANGED req
Done == pc = "done" /\ UNCHANGED vars
Next == AuthStage \/ GateStage \/ HandlerStage \/ Body \/ Done
Spec == Init /\ [][Next]_vars

TypeOK == /\ req \in Requests /\ pc \in {"auth", "gate", "handler", "body", "done"}
          /\ answer \in {"none", "handled", "unauthenticated", "unauthorized", "forbidden", "notfound"}
          /\ changed \in BOOLEAN

AsCase == [cls |-> req.cls, caller |-> req.caller, world |-> req.world, target |-> req.target, variant |-> req.variant,
           outcome |-> IF answer = "handled" THEN "passed" ELSE "refused", status |-> 0,
           changed |-> changed, seen |-> seen, mode |-> IF req.cls \in Listing /\ answer = "handled" THEN "rows" ELSE "none", fuser |-> ""]

PolicyHolds   == pc = "done" => Policy(AsCase)
ExactGate     == pc = "done" => ((answer = "handled") <=> Allowed(req.cls, req.caller, req.world, req.target))
RefusalIsPure == answer \notin {"none", "handled"} => (~changed /\ seen = <<>>)
AgreesWithPredicted == pc = "done" => answer = Predicted(req.cls, req.caller, req.world, req.target)
ListingShowsOnlyReadable == \A i \in 1 .. Len(seen) : Visible(req.cls, req.caller, req.world, seen[i])
(* reachability companions (expected to be VIOLATED; the harness checks that they are): something is refused at every
   stage, something is shown by a listing, something is changed *)
NeverRefusedAtAuth    == answer \notin {"unauthenticated", "forbidden"} \/ pc # "done"
NeverRefusedAtGate    == ~(pc = "done" /\ answer \in {"notfound", "unauthorized"} /\ req.cls \in {"batch_member", "bp_admin"})
NeverRefusedAtHandler == ~(pc = "done" /\ answer \in {"notfound", "forbidden"} /\ req.cls \in {"batch_owner", "bp_read"} /\ Active(req.caller))
NeverShows            == seen = <<>>
NeverChanges          == ~changed
=============================================================================
