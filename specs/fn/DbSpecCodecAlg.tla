---------------------------- MODULE DbSpecCodecAlg ----------------------------
(* C15: store / load as a (tiny) state machine, for TLC.
     kind "spec":    spec --Store--> stored compact form --Load--> decoded     invariant: decoded = Meaning(spec)
     kind "regions": selection --Store--> bitset (a natural number) --Load--> recovered set
                     bitset arithmetic as in batch/utils.py: bit (idx - 1) per selected region; small universes only
                     (TLC integers), dense and sparse index mappings.                                        *)
EXTENDS DbSpecCodec
CONSTANTS MaxVer, MaxSecrets, Indices        \* Indices: set of region indices used by the small region universes (e.g. {1, 2, 4, 7})
VARIABLES kind, in, pc, stored, out
vars == <<kind, in, pc, stored, out>>

RECURSIVE Pow2(_)
Pow2(n) == IF n = 0 THEN 1 ELSE 2 * Pow2(n - 1)
RECURSIVE SumOf(_)
SumOf(S) == IF S = {} THEN 0 ELSE LET x == CHOOSE x \in S : TRUE IN x + SumOf(S \ {x})
Bits(S)      == SumOf({ Pow2(i - 1) : i \in S })                       \* result |= 1 << (idx - 1)
Bit(b, i)    == (b \div Pow2(i - 1)) % 2 = 1                            \* (bits >> idx - 1) & 1

Init == /\ pc = "new" /\ stored = <<>> /\ out = <<>>
        /\ \/ kind = "spec" /\ in \in { s \in SpecUniverse(MaxVer, MaxSecrets) : WellFormed(s) }
           \/ kind = "regions" /\ in \in { [all |-> a, sel |-> s] : a \in SUBSET Indices, s \in SUBSET Indices } /\ in.sel \subseteq in.all

StoreSpec    == pc = "new" /\ kind = "spec" /\ stored' = Enc(in) /\ pc' = "stored" /\ UNCHANGED <<kind, in, out>>
LoadSpec     == pc = "stored" /\ kind = "spec" /\ out' = Dec(in.ver, stored) /\ pc' = "loaded" /\ UNCHANGED <<kind, in, stored>>
StoreRegions == pc = "new" /\ kind = "regions" /\ stored' = Bits(in.sel) /\ pc' = "stored" /\ UNCHANGED <<kind, in, out>>
LoadRegions  == pc = "stored" /\ kind = "regions" /\ out' = { i \in in.all : Bit(stored, i) } /\ pc' = "loaded" /\ UNCHANGED <<kind, in, stored>>
Stop == pc = "loaded" /\ UNCHANGED vars
Next == StoreSpec \/ LoadSpec \/ StoreRegions \/ LoadRegions \/ Stop

C15_SpecRoundTrip   == pc = "loaded" /\ kind = "spec" => out = Meaning(in)
C15_RegionRoundTrip == pc = "loaded" /\ kind = "regions" => out = in.sel
\* the stored form has the version's arity; bitsets of distinct selections are distinct and below 2^max
StoredShape == pc = "stored" /\ kind = "spec" /\ in.ver > 1 => Len(stored) = IF in.ver >= 5 THEN 5 ELSE 4
BitsBound   == pc = "stored" /\ kind = "regions" => stored < Pow2(CHOOSE m \in Indices : \A i \in Indices : i <= m)
\* reachability companions (must be VIOLATED)
NeverMachine == ~(pc = "loaded" /\ kind = "spec" /\ ~out.machine.isnull)
NeverMic     == ~(pc = "loaded" /\ kind = "spec" /\ \E i \in 1..Len(out.secrets) : out.secrets[i].mount_in_copy)
NeverRegion  == ~(pc = "loaded" /\ kind = "regions" /\ Cardinality(out) >= 2)
=============================================================================
