----------------------------- MODULE FairShareGen -----------------------------
(* C11: self test of the specification (the solved level clause equals the declarative one on every small
   input and EVERY allocation, acceptable or not) and generator of the bounded input universe.        *)
EXTENDS FairShare
Small == Universe(2, 3, 1, {0}, 0) \cup Universe(3, 2, 1, {0}, 0)
SelfTest ==
  /\ \A in \in Small : \A al \in [1..NU(in) -> 0..3] :
        RangeOk(in, al) => (LevelOk(in, al) = LevelOkFast(in, al))
  /\ Ok([users |-> <<[running |-> 0, ready |-> 4], [running |-> 0, ready |-> 4]>>, free |-> 4], [o |-> "alloc", alloc |-> <<2, 2>>])
  /\ ~Ok([users |-> <<[running |-> 0, ready |-> 4], [running |-> 0, ready |-> 4]>>, free |-> 4], [o |-> "alloc", alloc |-> <<4, 0>>])
  /\ Ok([users |-> <<[running |-> 3, ready |-> 4], [running |-> 0, ready |-> 4]>>, free |-> 3], [o |-> "alloc", alloc |-> <<0, 3>>])
  /\ ~Ok([users |-> <<[running |-> 3, ready |-> 4], [running |-> 0, ready |-> 4]>>, free |-> 4], [o |-> "alloc", alloc |-> <<2, 2>>])
  /\ Ok([users |-> <<[running |-> 0, ready |-> 1], [running |-> 0, ready |-> 9]>>, free |-> 6], [o |-> "alloc", alloc |-> <<1, 5>>])
  /\ ~Ok([users |-> <<[running |-> 0, ready |-> 1], [running |-> 0, ready |-> 9]>>, free |-> 6], [o |-> "alloc", alloc |-> <<1, 2>>])
  /\ Ok([users |-> <<[running |-> 0, ready |-> 5]>>, free |-> -3], [o |-> "alloc", alloc |-> <<0>>])
  /\ ~Ok([users |-> <<[running |-> 0, ready |-> 5]>>, free |-> 0], [o |-> "alloc", alloc |-> <<3>>])
\* the harness lists the universes, one JSON record [maxusers, maxval, unit, freelo, freehi, off] per line
Params == ndJsonDeserialize(IOEnv.FS_PARAMS)
U(p) == Universe(p.maxusers, p.maxval, p.unit, p.freelo..p.freehi, p.off)
\* concatenation, not UNION: merging large sets of nested records is slow in TLC; the harness drops repeated lines
RECURSIVE Cat(_)
Cat(i) == IF i = 0 THEN <<>> ELSE Cat(i - 1) \o SetToSeq(U(Params[i]))
ASSUME /\ SelfTest
       /\ ndJsonSerialize(IOEnv.FS_INPUTS, Cat(Len(Params)))
=============================================================================
