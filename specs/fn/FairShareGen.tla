----------------------------- MODULE FairShareGen -----------------------------
(* C11: self test of the specification (the solved level clause equals the declarative one on every small
   input and EVERY allocation, acceptable or not) and generator of the bounded input universe.        *)
EXTENDS FairShare
Small == Universe(2, 3, 1, {0}, 0) \cup Universe(3, 2, 1, {0}, 0)
SelfTest ==
  /\ \A in \in Small : \A al \in [1..NU(in) -> 0..3] :
        RangeOk(in, al) => (LevelOk(in, al) = LevelOkFast(in, al))
  /\ Ok([users |-> <<[running |-> 0, ready |-> 4], [running |-> 0, ready |-> 4]>>, free |-> 4], [o |-> "alloc", alloc |-> <<2, 2>>])
  /\ ~Ok([users |-> <<[running |-> 0, ready |-> 4], [running |-> 0, ready |-> 4]>>, free |-> 4], [o |-> "alloc", alloc |-> <<4, 0>>])
  /\ Ok([users |-> <<[running |-> 3, ready |-> 4], [running |-> 0, ready |-> 4]>>, free |-> 3], [o |-> "alloc", alloc |-> <<0, 3>>])
  /\ ~Ok([users |-> <<[running |-> 3, ready |-> 4], [running |-> 0, ready |-> 4]>>, free |-> 4], [o |-> "alloc", alloc |-> <<2, 2>>])
  /\ Ok([users |-> <<[running |-> 0, ready |-> 1], [running |-> 0, ready |-> 9]>>, free |-> 6], [o |-> "alloc", alloc |-> <<1, 5>>])
  /\ ~Ok([users |-> <<[running |-> 0, ready |-> 1], [running |-> 0, ready |-> 9]>>, free |-> 6], [o |-> "alloc", alloc |-> <<1, 2>>])
  /\ Ok([users |-> <<[running |-> 0, ready |-> 5]>>, free |-> -3], [o |-> "alloc", alloc |-> <<0>>])
  /\ ~Ok([users |-> <<[running |-> 0, ready |-> 5]>>, free |-> 0], [o |-> "alloc", alloc |-> <<3>>])
FreeSet == atoi(IOEnv.FS_FREELO)..atoi(IOEnv.FS_FREEHI)
ASSUME /\ SelfTest
       /\ ndJsonSerialize(IOEnv.FS_INPUTS,
            SetToSeq(Universe(atoi(IOEnv.FS_MAXUSERS), atoi(IOEnv.FS_MAXVAL), atoi(IOEnv.FS_UNIT), FreeSet, atoi(IOEnv.FS_OFF))))
=============================================================================
