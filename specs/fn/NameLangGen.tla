---- MODULE NameLangGen ----
EXTENDS NameLang
ASSUME Gen
====
