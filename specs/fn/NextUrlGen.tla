---- MODULE NextUrlGen ----
EXTENDS NextUrl
ASSUME Gen
====
