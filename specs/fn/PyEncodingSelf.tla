---- MODULE PyEncodingSelf ----
EXTENDS PyEncoding
ASSUME EncodingSelf(0)
====
