---- MODULE TypedValuesSelf ----
EXTENDS TypedValues
ASSUME SelfCheck(0)
====
