---- MODULE Billing1024Verdict ----
(* constant evaluation: judge the billing table of every configuration against Ok.
   BL_INPUTS: configurations as written by Billing1024Gen; BL_CASES: one line per configuration
   [c, names, whole, whole_rt, jobs] (c = line number in BL_INPUTS).                                        *)
EXTENDS Billing1024
In    == ndJsonDeserialize(IOEnv.BL_INPUTS)
Cases == ndJsonDeserialize(IOEnv.BL_CASES)
Bad   == { i \in 1..Len(Cases) : ~Ok(In[Cases[i].c], Cases[i]) }
ASSUME JsonSerialize(IOEnv.BL_VERDICT,
         [n |-> Len(Cases),
          packings |-> FoldSeq(LAMBDA c, acc : acc + Cardinality(Packings(In[c.c])), 0, Cases),
          bad |-> SetToSeq({ [i |-> i, why |-> Why(In[Cases[i].c], Cases[i]), witness |-> Witness(In[Cases[i].c], Cases[i])] : i \in Bad })])
====
