----------------------------- MODULE Billing1024 -----------------------------
(* C13: job billing never exceeds the instance and survives serialisation.

   A call is   bill(instance configuration) -> table   where the table holds, for every resource name the
   configuration bills,
      whole      the quantity billed for the whole worker (what the driver records when it creates the VM),
      q[job]     the quantity billed to one job of a given size (mcpu, its share of memory, extra storage),
      rt[...]    the same quantities computed by the configuration after it was stored and reloaded
                 (to_dict -> JSON -> base64 -> from_dict, the path of driver/instance.py).
   Quantities are integers (mcpu, MiB, 1024ths of a worker x GiB ...).  This module is constant level: the
   bounded universe of configurations (machine shape x disk option x region x preemptible x pricing-table
   generation), the packings of a worker, and the relation `Ok` the property demands:

      C13a  for every packing P of the worker (a multiset of power-of-two core requests that fits the worker) and
            every resource name:   SUM over jobs of q <= whole
      C13b  the job that uses the whole worker is billed exactly `whole`
      C13c  the reloaded configuration bills identical quantities, for every job and for the whole worker

   Billing1024Alg.tla models the billing rule (worker fraction in 1024ths, per-resource quantity kinds) as a
   state machine of jobs coming and going on one worker and TLC checks C13a/C13b as invariants of it.

   Machine shapes come from the repository at run time (`Tables`), nothing of them is written here.
   All transported quantities are < 2^30 (the harness refuses anything else); sums saturate at Cap.          *)
EXTENDS Integers, Sequences, SequencesExt, FiniteSets, FiniteSetsExt, TLC, Json, IOUtils

Tables   == JsonDeserialize(IOEnv.BL_TABLES)
Machines == Tables.machines    \* <<[cloud, name, cores, mem_mib, mem_rem, gpus]>>
Workers  == Tables.workers     \* <<[cloud, type, cores, ssd, machine, known]>>   pool shape -> VM type
Level    == IOEnv.BL_LEVEL     \* "quick" | "thorough"
Thorough == Level = "thorough"

Clouds   == {"gcp", "azure"}
Pow2     == {1, 2, 4, 8, 16, 32, 64, 128, 256}
Pow2Mcpu == {250, 500} \cup { 1000 * k : k \in Pow2 }     \* the sizes a job can have (adjust_cores_for_packability)
Cap      == 1073741824                                     \* 2^30: saturation bound of the arithmetic below

MachineSet  == Range(Machines)
PoolWorkers == { w \in Range(Workers) : w.cores \in Pow2 /\ w.known }

(* ---------------------------------------------------------------------------------------------------- *)
(* Configurations                                                                                         *)
(*   [cloud, pool (TRUE: a pool worker, FALSE: a job-private VM), type ("" for job-private), machine,     *)
(*    cores, pre, ssd, data_gb (external data disk; the job's disk for job-private), boot_gb, loc, pv,    *)
(*    sizes (job sizes to bill, descending), stos (extra storage values to bill)]                         *)
Locations == [gcp |-> IF Thorough THEN {"us-central1-a", "europe-west2-b", "australia-southeast1-c"} ELSE {"us-central1-a", "australia-southeast1-c"},
              azure |-> IF Thorough THEN {"eastus", "westeurope"} ELSE {"eastus"}]
BootSizes  == IF Thorough THEN {10, 100, 2000} ELSE {10, 100}
DataSizes  == IF Thorough THEN {100, 375, 1000, 5000} ELSE {100, 1000}      \* external data disk of a pool worker, GiB
PrivSizes  == IF Thorough THEN {10, 11, 375, 1000, 32768} ELSE {10, 375, 5000}  \* a job-private job's own disk, GiB
ExtraStos  == IF Thorough THEN << 0, 10, 11, 100, 375, 1000 >> ELSE << 0, 10, 375 >>
\* pricing table generation: "regional" knows per-region products, "legacy" only the region-less ones (GCP fallback)
PvModes(cl, gpus) == IF cl = "gcp" /\ gpus = 0 THEN {"regional", "legacy"} ELSE {"regional"}

Desc(S) == SortSeq(SetToSeq(S), LAMBDA a, b : a > b)
PoolSizes(cores) == Desc({ m \in Pow2Mcpu : m <= 1000 * cores })

MachineOf(w) == CHOOSE m \in MachineSet : m.cloud = w.cloud /\ m.name = w.machine
PoolCfgs ==
  { [cloud |-> w.cloud, pool |-> TRUE, type |-> w.type, machine |-> w.machine, cores |-> w.cores, pre |-> pre,
     ssd |-> w.ssd, data_gb |-> d, boot_gb |-> b, loc |-> loc, pv |-> pv, sizes |-> PoolSizes(w.cores), stos |-> ExtraStos] :
      w \in PoolWorkers, pre \in BOOLEAN, d \in DataSizes, b \in BootSizes, loc \in UNION { Locations[c] : c \in Clouds },
      pv \in {"regional", "legacy"} }
PoolUniverse == { c \in PoolCfgs : /\ c.loc \in Locations[c.cloud] /\ c.pv \in PvModes(c.cloud, 0)
                                    /\ (c.ssd => c.data_gb = CHOOSE d \in DataSizes : TRUE) }   \* data_gb is unused with a local SSD
PrivCfgs ==
  { [cloud |-> m.cloud, pool |-> FALSE, type |-> "", machine |-> m.name, cores |-> m.cores, pre |-> pre,
     ssd |-> FALSE, data_gb |-> d, boot_gb |-> b, loc |-> loc, pv |-> pv, sizes |-> << 1000 * m.cores >>, stos |-> << 0 >>] :
      m \in MachineSet, pre \in BOOLEAN, d \in PrivSizes, b \in {10}, loc \in UNION { Locations[c] : c \in Clouds },
      pv \in {"regional", "legacy"} }
PrivUniverse == { c \in PrivCfgs : c.loc \in Locations[c.cloud] /\ c.pv \in PvModes(c.cloud, MachineOf([cloud |-> c.cloud, machine |-> c.machine]).gpus) }

Inputs == SetToSeq(PoolUniverse) \o SetToSeq(PrivUniverse)

(* ---------------------------------------------------------------------------------------------------- *)
(* Packings of a worker: count vectors over the job sizes (descending) whose sizes add up to the worker     *)
RECURSIVE Parts(_, _, _)
Parts(sizes, k, rem) ==          \* all ways to fill exactly `rem` mcpu with sizes[k..]
  IF k = Len(sizes)
  THEN IF rem % sizes[k] = 0 THEN { << rem \div sizes[k] >> } ELSE {}
  ELSE UNION { { << c >> \o t : t \in Parts(sizes, k + 1, rem - c * sizes[k]) } : c \in 0..(rem \div sizes[k]) }

Unit(n, k, c) == [ i \in 1..n |-> IF i = k THEN c ELSE 0 ]
\* structured packings of a big worker: all of one size; k of one size and the rest filled with a smaller one;
\* the ladder (one of every size below the worker, plus one more of the smallest)
Structured(sizes, total) ==
  LET n == Len(sizes) IN
    { Unit(n, k, total \div sizes[k]) : k \in 1..n }
    \cup { [ i \in 1..n |-> IF i = a THEN c ELSE IF i = b THEN (total - c * sizes[a]) \div sizes[b] ELSE 0 ] :
             a \in 1..n, b \in 1..n, c \in (IF Thorough THEN {1, 2, 3, 5, 7, 13} ELSE {1, 3}) }
    \cup { [ i \in 1..n |-> IF i = 1 THEN 0 ELSE IF i = n THEN 2 ELSE 1 ] }
WellFormedPacking(sizes, total, P) ==
  /\ \A i \in 1..Len(sizes) : P[i] >= 0
  /\ FoldFunction(LAMBDA x, acc : x + acc, 0, [ i \in 1..Len(sizes) |-> P[i] * sizes[i] ]) = total

ExhaustiveUpTo == IF Thorough THEN 16 ELSE 4       \* workers up to this many cores: every packing (1,828 for 16 cores)
Packings(cfg) ==
  LET total == 1000 * cfg.cores IN
  IF ~cfg.pool THEN { << 1 >> }
  ELSE IF cfg.cores <= ExhaustiveUpTo THEN Parts(cfg.sizes, 1, total)
  ELSE { P \in Structured(cfg.sizes, total) : WellFormedPacking(cfg.sizes, total, P) }

(* ---------------------------------------------------------------------------------------------------- *)
(* The relation.  case = [names, whole, whole_rt, jobs |-> <<[m, s, q, rt]>>]; whole, q, rt are vectors     *)
(* aligned with names (quantity per resource name, 0 when the name is not billed)                          *)
SatAdd(a, b)  == IF a >= Cap - b THEN Cap ELSE a + b
SatMul(n, q)  == IF n = 0 \/ q = 0 THEN 0 ELSE IF q >= Cap \div n THEN Cap ELSE n * q
\* the harness lists the jobs in the order of cfg.sizes x cfg.stos (checked by Complete), so the job of size
\* sizes[i] with extra storage stos[t] is found by position
Job(cfg, case, i, t) == case.jobs[(i - 1) * Len(cfg.stos) + t]

\* quantity of resource k billed to all jobs of packing P (no extra storage: extra disks are not part of the worker)
PackedQty(cfg, case, P, k) ==
  FoldFunction(LAMBDA x, acc : SatAdd(x, acc), 0,
               [ i \in 1..Len(cfg.sizes) |-> SatMul(P[i], Job(cfg, case, i, 1).q[k]) ])

Complete(cfg, case) ==      \* the harness billed every job the universe asks for, in order
  /\ Len(case.whole) = Len(case.names) /\ Len(case.whole_rt) = Len(case.names)
  /\ Len(case.jobs) = Len(cfg.sizes) * Len(cfg.stos) /\ cfg.stos[1] = 0 /\ cfg.sizes[1] = 1000 * cfg.cores
  /\ \A i \in 1..Len(cfg.sizes) : \A t \in 1..Len(cfg.stos) :
       LET j == Job(cfg, case, i, t)
       IN  j.m = cfg.sizes[i] /\ j.s = cfg.stos[t] /\ Len(j.q) = Len(case.names) /\ Len(j.rt) = Len(case.names)
  /\ \A k \in 1..Len(case.names) : case.whole[k] < Cap

C13a(cfg, case) == \A P \in Packings(cfg) : \A k \in 1..Len(case.names) : PackedQty(cfg, case, P, k) <= case.whole[k]
C13b(cfg, case) == Job(cfg, case, 1, 1).q = case.whole
C13c(cfg, case) == case.whole_rt = case.whole /\ \A j \in Range(case.jobs) : j.rt = j.q

Ok(cfg, case) == Complete(cfg, case) /\ C13a(cfg, case) /\ C13b(cfg, case) /\ C13c(cfg, case)

Why(cfg, case) ==
  IF ~Complete(cfg, case) THEN "incomplete"
  ELSE IF ~C13b(cfg, case) THEN "whole-worker-job-not-billed-the-whole"
  ELSE IF ~C13a(cfg, case) THEN "packing-billed-more-than-the-whole"
  ELSE IF ~C13c(cfg, case) THEN "reloaded-configuration-bills-differently"
  ELSE "ok"
\* a witness for C13a: the packing and resource index
Witness(cfg, case) ==
  IF Complete(cfg, case) /\ ~C13a(cfg, case)
  THEN LET P == CHOOSE P \in Packings(cfg) : \E k \in 1..Len(case.names) : PackedQty(cfg, case, P, k) > case.whole[k]
       IN  [packing |-> P, k |-> CHOOSE k \in 1..Len(case.names) : PackedQty(cfg, case, P, k) > case.whole[k]]
  ELSE [packing |-> << >>, k |-> 0]
=============================================================================
