---- MODULE SizeParseGen ----
EXTENDS SizeParse
ASSUME Gen
====
