------------------------------ MODULE SizeScan ------------------------------
(* C25, stateful view of SizeParse: the scanner reads a word one character at a time.  TLC explores every
   word over Alphabet up to MaxLen for the three kinds and checks that
     - the scanner accepts exactly the documented grammar (InGrammar, the declarative definition),
     - the step machine and the function Scan used in the verdict are the same thing,
     - what the scanner accumulated is what the word says (digits in order, fraction length, unit),
     - the digit-sequence arithmetic gives the native-integer result whenever that fits in 32 bits.   *)
EXTENDS SizeParse
CONSTANTS Alphabet, MaxLen
VARIABLES kind, w, i, s
vars == <<kind, w, i, s>>

Init == /\ kind \in Kinds
        /\ w \in Words(Alphabet, MaxLen)
        /\ i = 1
        /\ s = Scan0

Read == /\ i <= Len(w)
        /\ s' = Step(kind, s, w[i])
        /\ i' = i + 1
        /\ UNCHANGED <<kind, w>>
ReadSign   == i <= Len(w) /\ w[i] = "+" /\ Read
ReadDigit  == i <= Len(w) /\ w[i] \in DigitTok /\ Read
ReadDot    == i <= Len(w) /\ w[i] = "." /\ Read
ReadUnit   == i <= Len(w) /\ w[i] \in UnitPrefixes \cup {"m", "i", "B"} /\ Read
ReadOther  == i <= Len(w) /\ w[i] \notin DigitTok \cup UnitPrefixes \cup {"+", ".", "m", "i", "B"} /\ Read
Finish     == i > Len(w) /\ UNCHANGED vars
Next == ReadSign \/ ReadDigit \/ ReadDot \/ ReadUnit \/ ReadOther \/ Finish

Done     == i > Len(w)
Accepted == Done /\ s.ph \in Accepting

GrammarAgrees  == Done => ((s.ph \in Accepting) = InGrammar(kind, w))
FunctionAgrees == Done => s = Scan(kind, w)
DeadIsFinal    == s.ph = "dead" => ~InGrammar(kind, w)

DigitsOf(x) == LET ds == SelectSeq(x, LAMBDA c : c \in DigitTok) IN [k \in 1..Len(ds) |-> DV[ds[k]]]
DotAt       == IF \E k \in 1..Len(w) : w[k] = "." THEN CHOOSE k \in 1..Len(w) : w[k] = "." ELSE 0
Denotes ==
  Accepted =>
    /\ s.ip \o s.fp = DigitsOf(w)
    /\ Len(s.fp) = (IF DotAt = 0 THEN 0 ELSE Len(DigitsOf(SubSeq(w, DotAt + 1, Len(w)))))
    /\ s.bin = (\E k \in 1..Len(w) : w[k] = "i")
    /\ s.pre = (IF \E k \in 1..Len(w) : w[k] \in UnitPrefixes \cup {"m"}
                THEN w[CHOOSE k \in 1..Len(w) : w[k] \in UnitPrefixes \cup {"m"}] ELSE "")

Pow10(f) == CASE f = 0 -> 1 [] f = 1 -> 10 [] f = 2 -> 100 [] f = 3 -> 1000 [] f = 4 -> 10000 [] f = 5 -> 100000
RECURSIVE PowN(_, _)
PowN(b, k) == IF k = 0 THEN 1 ELSE b * PowN(b, k - 1)
\* largest N for which N * factor stays below 2^31, per exponent (1024^k resp. 1000^k); 0 = never
Fits(n, base, k) == CASE k = 0 -> TRUE [] k = 1 -> n <= 2000000 [] k = 2 -> n <= 2000 [] k = 3 -> n <= 1 [] OTHER -> FALSE
NativeAgrees ==
  Accepted /\ Len(s.fp) <= 5 =>
    LET n == LEToNat(Mantissa(s))
        f == Len(s.fp)
    IN IF kind = "cpu"
       THEN LEToNat(Reverse(ExpectedCpu(s))) = (IF s.pre = "m" THEN n \div Pow10(f) ELSE (n * 1000) \div Pow10(f))
       ELSE Fits(n, Factor(s)[1], Factor(s)[2]) =>
              LET prod == n * PowN(Factor(s)[1], Factor(s)[2])
              IN LEToNat(Reverse(ExpectedBytes(s))) = (prod + Pow10(f) - 1) \div Pow10(f)
=============================================================================
