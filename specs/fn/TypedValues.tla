---------------------------- MODULE TypedValues ----------------------------
(* C32 / C33 (round-trip half): the universe of typed values of the Hail query front end and the
   type-directed equality a serialisation round trip has to preserve.

       hail/python/hail/expr/types.py      HailType._to_json / _from_json
                                           (_convert_to_json[_na] / _convert_from_json[_na] of every type class)
                                           HailType._to_encoding / _from_encoding   (C33, same universe)

   A CALL is    convert(t, v) -> wire form -> convert back -> v'     and the property demands  v' = v
   "as a value of type t".  This module fixes

     (1) the TYPES: the grammar of Hail types to nesting depth 2 (records [k |-> kind, ...]; thorough tier, Level = 1:
         depth 3 for the named combinations Deep3All and the harness's seeded draws),
     (2) the VALUES of every type: abstract trees; leaves are SYMBOLIC names ("i64max", "nan", "negzero",
         "nonascii", "c10p", ...) because TLC has neither 64-bit integers, floats nor Unicode strings - the
         harness owns the table  name <-> concrete Python object  (checks/_typedvalues.py), TLC owns which
         names are values of which type, where a value may be missing, and what "equal" means,
     (3) WellTyped(t, v): the typing relation (the enumerated pools Vals(t, b) are a bounded subset of it),
     (4) Match(t, v, w): v' = v under the equality of type t:
            - missing matches only missing,
            - nan = nan; -0.0 and 0.0 are DIFFERENT (IEEE identity up to the NaN payload),
            - float32 values are compared after rounding to float32 (R32),
            - a Python int given as a float value equals the float of the same number (Canon),
            - arrays / tuples / structs position-wise (structs also by field names, in order),
            - sets and dicts as unordered collections (a bijection between the elements),
            - n-d arrays by shape, element type and logical (index-wise) content - the memory order of
              the numpy object (C / Fortran / strided view) is not part of the value,
            - the container kind must be the right one (a set is not a list, a Struct is not a dict).

   LOCI (second build: the whole `hail` package imports offline, a ReferenceGenome can be built with _builtin=True
   and registered through the real Backend.add_reference, see checks/_typedvalues.py): the type  locus<rg>  is a
   LEAF type of its own kind (not a primitive: its values have structure).  A locus value is
   [c |-> "loc", contig |-> symbolic contig name, pos |-> the position, a TLA+ integer]; the genome of the universe
   (Contigs / ContigLen below) has a contig whose name needs no escaping, one whose name has a quote, a backslash,
   a space, a latin-1 and an astral character (Python length # UTF-8 length), and one of length 1 (first = last
   position).  Equality: same genome (the one of the TYPE - hail.genetics.Locus carries its genome), same contig,
   same position.

   Not in the universe (stated in the evidence): numpy scalars / pandas NA as leaf values, lone surrogates in
   strings, calls of ploidy > 2, struct fields that hail.utils.Struct cannot hold (a field called "self"), loci
   outside their contig (hail.genetics.Locus does not validate positions).

   The module is evaluated by TLC in three ways:
     TypedValuesSelf     ASSUME SelfCheck   the equality is reflexive on the universe and separates distinct
                                            values (exhaustive over the core universe, before any binding)
     TypedValuesGen      ASSUME Gen         TLC enumerates the <<type, value>> pairs for the harness
     TypedValuesGenChunks ASSUME GenChunks  the same enumeration, one file per type (what the checks run)
     TypedValuesVerdict  ASSUME Verdict     TLC judges every recorded call of the real code              *)
EXTENDS Integers, Sequences, SequencesExt, FiniteSets, TLC, Json, IOUtils

(* ------------------------------------------------------------------------------------------------ *)
(* (1) Types                                                                                         *)
Prims   == {"int32", "int64", "float32", "float64", "bool", "str", "call"}
Numeric == {"int32", "int64", "float32", "float64", "bool"}      \* _numeric_types in types.py: ndarray elements

P(k)            == [k |-> k]
TArr(e)         == [k |-> "array", e |-> e]
TSet(e)         == [k |-> "set", e |-> e]
TDict(a, b)     == [k |-> "dict", key |-> a, val |-> b]
TTup(ts)        == [k |-> "tuple", ts |-> ts]
TStruct(ns, ts) == [k |-> "struct", ns |-> ns, ts |-> ts]        \* ns: field-name symbols, ts: field types
TIv(p)          == [k |-> "interval", p |-> p]
TNd(e, n)       == [k |-> "ndarray", e |-> e, n |-> n]            \* e: a numeric primitive type, n: ndim

\* field-name symbols (concretised by the harness: plain, with a space, non-ASCII, starting with a digit,
\* empty, and the names the JSON wire form itself uses for dict entries / intervals)
FieldNames == {"a", "b", "sp", "uni", "num", "empty", "key", "value", "start"}

TLoc(g)         == [k |-> "locus", rg |-> g]                      \* g: reference-genome symbol
Genomes == {"vrg"}                                                \* the genome the harness registers for the universe
Leafs   == Prims \cup {"locus"}                                   \* types without component types

Kids(t) == CASE t.k \in Leafs               -> <<>>
             [] t.k \in {"array", "set"}    -> <<t.e>>
             [] t.k = "dict"                -> <<t.key, t.val>>
             [] t.k \in {"tuple", "struct"} -> t.ts
             [] t.k = "interval"            -> <<t.p>>
             [] t.k = "ndarray"             -> <<t.e>>

MaxOf(S) == CHOOSE x \in S : \A y \in S : y <= x
RECURSIVE Depth(_)
Depth(t) == IF t.k \in Leafs THEN 0
            ELSE 1 + MaxOf({0} \cup {Depth(Kids(t)[i]) : i \in 1 .. Len(Kids(t))})
RECURSIVE HasNd(_)
HasNd(t) == t.k = "ndarray" \/ \E i \in 1 .. Len(Kids(t)) : HasNd(Kids(t)[i])
\* Python: set elements and dict keys are decoded frozen (frozenlist / frozenset / frozendict / Struct / tuple /
\* Interval / Call are hashable); a numpy array is not hashable, so it cannot occur below a set or a dict key
Hashable(t) == ~HasNd(t)

Distinct(s) == \A i, j \in 1 .. Len(s) : i # j => s[i] # s[j]

RECURSIVE IsType(_)
IsType(t) ==
  /\ "k" \in DOMAIN t
  /\ CASE t.k \in Prims    -> DOMAIN t = {"k"}
       [] t.k = "locus"    -> DOMAIN t = {"k", "rg"} /\ t.rg \in Genomes
       [] t.k = "array"    -> DOMAIN t = {"k", "e"} /\ IsType(t.e)
       [] t.k = "set"      -> DOMAIN t = {"k", "e"} /\ IsType(t.e) /\ Hashable(t.e)
       [] t.k = "dict"     -> DOMAIN t = {"k", "key", "val"} /\ IsType(t.key) /\ IsType(t.val) /\ Hashable(t.key)
       [] t.k = "tuple"    -> DOMAIN t = {"k", "ts"} /\ \A i \in 1 .. Len(t.ts) : IsType(t.ts[i])
       [] t.k = "struct"   -> /\ DOMAIN t = {"k", "ns", "ts"} /\ Len(t.ns) = Len(t.ts)
                              /\ \A i \in 1 .. Len(t.ns) : t.ns[i] \in FieldNames
                              /\ Distinct(t.ns)
                              /\ \A i \in 1 .. Len(t.ts) : IsType(t.ts[i])
       [] t.k = "interval" -> DOMAIN t = {"k", "p"} /\ IsType(t.p) /\ ~HasNd(t.p)
       [] t.k = "ndarray"  -> DOMAIN t = {"k", "e", "n"} /\ t.e \in {P(k) : k \in Numeric} /\ t.n \in 0 .. 3
       [] OTHER            -> FALSE

(* ------------------------------------------------------------------------------------------------ *)
(* (2) Values                                                                                        *)
NA               == [c |-> "na"]                                   \* missing (Python None)
Leaf(x)          == [c |-> "p", x |-> x]
VArr(xs)         == [c |-> "arr", xs |-> xs]
VSet(xs)         == [c |-> "set", xs |-> xs]                       \* xs: the elements in the set's iteration order
VDict(kv)        == [c |-> "dict", kv |-> kv]                      \* kv: <<[k |-> key, v |-> value], ...>> in insertion order
VTup(xs)         == [c |-> "tup", xs |-> xs]
VStruct(ns, xs)  == [c |-> "struct", ns |-> ns, xs |-> xs]
VIv(s, e, i, j)  == [c |-> "iv", s |-> s, e |-> e, is |-> i, ie |-> j]
VNd(sh, ord, xs) == [c |-> "nd", shape |-> sh, ord |-> ord, xs |-> xs]   \* xs: leaves in row-major (logical) order
VLoc(cn, p)      == [c |-> "loc", contig |-> cn, pos |-> p]        \* hail.genetics.Locus(contig, position, genome of the type)

\* the reference genome "vrg" of the universe: contig symbols (the harness owns symbol <-> name: "1",
\* c"\ <e-acute><U+1F600>, "MT") and their lengths; positions are 1-based, 1 .. length
Contigs == {"c1", "cx", "cm"}
ContigLen(cn) == CASE cn = "c1" -> 249250621 [] cn = "cx" -> 300 [] cn = "cm" -> 1
\* first and last position of every contig, two interior positions whose int32 needs a second byte
LocFull == {VLoc(cn, 1) : cn \in Contigs} \cup {VLoc(cn, ContigLen(cn)) : cn \in Contigs} \cup {VLoc("c1", 256), VLoc("cx", 128)}
LocRep  == {VLoc("cx", 300), VLoc("c1", 1)}

\* leaves: every name of Full(k) is a Python value that hail's own _typecheck accepts for the type
I32 == {"i32min", "negtwo", "neg1", "zero", "one", "two", "i127", "i128", "i255", "i256", "i65536", "i32max"}
Full(k) ==
  CASE k = "int32"   -> I32
    [] k = "int64"   -> I32 \cup {"i32maxp1", "i32minm1", "p53p1", "i64min", "i64max"}
    \* d0.1 = 0.1, d3rd = 1/3 (doubles that are NOT float32 values), s0.1 / s3rd = the float32 nearest to them (their
    \* shortest float64 text, 0.10000000149011612 / 0.3333333432674408, is not the float32 text), f16m1 = 2^24 + 1
    \* (an integer-valued double that float32 rounds to f16m = 2^24)
    [] k = "float32" -> {"nan", "pinf", "ninf", "zero", "negzero", "one", "int1", "f1.5", "neg2.5", "d0.1", "s0.1",
                         "f32max", "f32tiny", "d3rd", "s3rd", "f16m1", "f16m"}
    [] k = "float64" -> {"nan", "pinf", "ninf", "zero", "negzero", "one", "int1", "f1.5", "neg2.5", "d0.1", "s0.1",
                         "f32max", "f32tiny", "f64max", "f64tiny", "p53p1f", "d3rd", "s3rd", "f16m1", "f16m"}
    [] k = "bool"    -> {"true", "false"}
    \* astralnul = U+10000 NUL U+10FFFF: only non-BMP characters around an embedded NUL (3 code points, 9 UTF-8 bytes)
    [] k = "str"     -> {"empty", "ascii", "nonascii", "escapes", "digits", "calllike", "astralnul"}
    [] k = "call"    -> {"c_", "c_p", "c0", "c2p", "c00", "c01", "c12", "c01p", "c10p", "c11p", "cbig", "cbigp"}
\* two representatives used where a value is nested below the position under scrutiny; no two of them are
\* equal in Python (sets, dict keys)
Rep(k) ==
  CASE k = "int32"   -> {"one", "i32min"}
    [] k = "int64"   -> {"neg1", "i64max"}
    [] k = "float32" -> {"f1.5", "nan"}
    [] k = "float64" -> {"neg2.5", "nan"}
    [] k = "bool"    -> {"true", "false"}
    [] k = "str"     -> {"nonascii", "empty"}
    [] k = "call"    -> {"c01", "c10p"}

\* the number a float leaf stands for: a Python int 1 given as a float value is the float 1.0
Canon(x) == IF x = "int1" THEN "one" ELSE x
\* ... after rounding to float32 (0.1, 1/3 and 2^24 + 1 are not float32 values)
R32(x)   == CASE x = "d0.1" -> "s0.1" [] x = "d3rd" -> "s3rd" [] x = "f16m1" -> "f16m" [] OTHER -> Canon(x)
\* the identity of a leaf as a value of primitive type k (what a Python set / dict key / == sees, and, for
\* float32, what survives the 4-byte representation); "negzero" and "zero" are one key for Python
KeyOf(k, x) == LET y == IF k = "float32" THEN R32(x) ELSE Canon(x) IN IF y = "negzero" THEN "zero" ELSE y

\* Python classes a decoded leaf of primitive type k may have
PyClasses(k) == CASE k \in {"int32", "int64"}     -> {"int"}
                  [] k \in {"float32", "float64"} -> {"float"}
                  [] k = "bool"                   -> {"bool"}
                  [] k = "str"                    -> {"str"}
                  [] k = "call"                   -> {"call"}

Opt(S)  == S \cup {NA}
Pick(S) == CHOOSE x \in S : TRUE
\* all sequences r with r[j] \in pools[j]   (recursive on purpose: TLC evaluates every pool exactly once)
RECURSIVE Prod(_)
Prod(pools) == IF pools = <<>> THEN {<<>>}
               ELSE LET hd == Head(pools)  rest == Prod(Tail(pools)) IN {<<x>> \o r : x \in hd, r \in rest}
\* exactly one position i ranges over full[i] while all others range over rep[j]  ("one position under scrutiny")
RECURSIVE OneFull1(_, _)
OneFull1(full, rep) ==
  IF full = <<>> THEN {}
  ELSE LET fh == Head(full)  rh == Head(rep)  rest == Prod(Tail(rep))  more == OneFull1(Tail(full), Tail(rep))
       IN  {<<x>> \o r : x \in fh, r \in rest} \cup {<<y>> \o q : y \in rh, q \in more}
OneFull(full, rep) == IF full = <<>> THEN {<<>>} ELSE OneFull1(full, rep)

\* n-d arrays: shapes per ndim (empty axes, singleton axes, non-square) and a non-periodic fill
Shapes(n) == CASE n = 0 -> {<<>>}
               [] n = 1 -> {<<0>>, <<1>>, <<3>>}
               [] n = 2 -> {<<2, 3>>, <<3, 1>>, <<0, 2>>, <<2, 0>>}
               [] n = 3 -> {<<2, 1, 2>>, <<2, 3, 2>>, <<1, 0, 2>>}
RECURSIVE SeqProduct(_)
SeqProduct(s) == IF s = <<>> THEN 1 ELSE Head(s) * SeqProduct(Tail(s))
Fill(k) == CASE k = "int32"   -> <<"one", "two", "i255", "i256", "neg1", "i32min", "i32max">>
             [] k = "int64"   -> <<"one", "two", "i255", "i64max", "neg1", "i64min", "i32maxp1">>
             [] k = "float32" -> <<"f1.5", "nan", "negzero", "s0.1", "ninf", "f32max", "one">>
             [] k = "float64" -> <<"f1.5", "nan", "negzero", "d0.1", "ninf", "f64tiny", "one">>
             [] k = "bool"    -> <<"true", "false", "false", "true", "true", "true", "false">>
NdData(k, sh) == [i \in 1 .. SeqProduct(sh) |-> Leaf(Fill(k)[((i - 1) % 7) + 1])]
Orders == {"C", "F", "V"}        \* numpy memory layouts: C-contiguous, Fortran-contiguous, strided view

(* The bounded pools.  b is the budget: 2 at the top, decreasing towards the leaves; primitive leaves range
   over Full for b >= 1 and over Rep for b = 0; every nullable position also takes NA.  Vals(t, 0) has at most
   four elements for every t (it is used quadratically).                                                     *)
RECURSIVE Vals(_, _)
Vals(t, b) ==
  LET sub(u)   == Opt(Vals(u, IF b >= 1 THEN b - 1 ELSE 0))       \* the position under scrutiny
      small(u) == Opt(Vals(u, 0))
  IN
  CASE t.k \in Prims -> {Leaf(x) : x \in IF b >= 1 THEN Full(t.k) ELSE Rep(t.k)}
    [] t.k = "locus" -> IF b >= 1 THEN LocFull ELSE LocRep
    [] t.k = "array" ->
         IF b = 0 THEN {VArr(<<>>)} \cup {VArr(<<x, NA>>) : x \in Vals(t.e, 0)}
         ELSE {VArr(<<>>)} \cup {VArr(<<x>>) : x \in sub(t.e)}
              \cup {VArr(<<x, y>>) : x \in small(t.e), y \in small(t.e)}
              \* nine elements: the missing bits of an array need a second byte
              \cup {VArr([i \in 1 .. 9 |-> IF i \in {2, 9} THEN NA ELSE Pick(Vals(t.e, 0))])}
    [] t.k = "set" ->
         IF b = 0 THEN {VSet(<<>>)} \cup {VSet(<<x, NA>>) : x \in Vals(t.e, 0)}
         ELSE {VSet(<<>>)} \cup {VSet(<<x>>) : x \in sub(t.e)}
              \cup {VSet(SetToSeq(S)) : S \in {S \in SUBSET small(t.e) : Cardinality(S) \in {2, 3}}}
    [] t.k = "dict" ->
         IF b = 0 THEN {VDict(<<>>), VDict(<<[k |-> Pick(Vals(t.key, 0)), v |-> NA]>>),
                        VDict(<<[k |-> NA, v |-> Pick(Vals(t.val, 0))]>>)}
         ELSE {VDict(<<>>)}
              \cup {VDict(<<[k |-> x, v |-> y]>>) : x \in sub(t.key), y \in small(t.val)}
              \cup {VDict(<<[k |-> x, v |-> y]>>) : x \in small(t.key), y \in sub(t.val)}
              \cup {VDict(<<[k |-> kk[1], v |-> y1], [k |-> kk[2], v |-> y2]>>) :
                      kk \in {q \in small(t.key) \X small(t.key) : q[1] # q[2]}, y1 \in small(t.val), y2 \in small(t.val)}
    [] t.k \in {"tuple", "struct"} ->
         LET n  == Len(t.ts)
             xs == IF n > 3 \/ b = 0
                   THEN \* wide (the missing bits need a second byte): nothing / everything / alternately missing
                        {[i \in 1 .. n |-> NA], [i \in 1 .. n |-> Pick(Vals(t.ts[i], 0))],
                         [i \in 1 .. n |-> IF i % 2 = 0 THEN NA ELSE Pick(Vals(t.ts[i], 0))],
                         [i \in 1 .. n |-> IF i % 2 = 1 THEN NA ELSE Pick(Vals(t.ts[i], 0))],
                         \* only the last / only the first missing: fields i and i + 8 differ (an encoder that indexes the value
                         \* with the position inside the byte instead of the field number repeats the first byte)
                         [i \in 1 .. n |-> IF i = n THEN NA ELSE Pick(Vals(t.ts[i], 0))],
                         [i \in 1 .. n |-> IF i = 1 THEN NA ELSE Pick(Vals(t.ts[i], 0))]}
                   ELSE OneFull([i \in 1 .. n |-> sub(t.ts[i])], [i \in 1 .. n |-> small(t.ts[i])])
         IN  IF t.k = "tuple" THEN {VTup(x) : x \in xs} ELSE {VStruct(t.ns, x) : x \in xs}
    [] t.k = "interval" ->
         IF b = 0 THEN {VIv(Pick(Vals(t.p, 0)), NA, TRUE, FALSE), VIv(NA, Pick(Vals(t.p, 0)), FALSE, TRUE),
                        VIv(Pick(Vals(t.p, 0)), Pick(Vals(t.p, 0)), TRUE, TRUE)}
         ELSE {VIv(x, y, TRUE, FALSE) : x \in sub(t.p), y \in small(t.p)}
              \cup {VIv(x, y, FALSE, TRUE) : x \in small(t.p), y \in sub(t.p)}
              \cup {VIv(x, y, i, j) : x \in small(t.p), y \in small(t.p), i \in BOOLEAN, j \in BOOLEAN}
    [] t.k = "ndarray" ->
         IF b = 0 THEN {VNd(sh, "C", NdData(t.e.k, sh)) : sh \in {Pick(Shapes(t.n))}}
         ELSE {VNd(sh, o, NdData(t.e.k, sh)) : sh \in Shapes(t.n), o \in Orders}

(* ------------------------------------------------------------------------------------------------ *)
(* (3) The typing relation (independent of the pools: any abstract tree of the right shape)           *)
\* the identity of a whole value below a set / dict key: leaves by KeyOf, collections position-wise; used to
\* say "no two elements of a set are the same Python object"
RECURSIVE Key(_, _)
Key(t, v) ==
  IF v.c = "na" THEN v
  ELSE CASE t.k \in Prims            -> Leaf(KeyOf(t.k, v.x))
         [] t.k = "locus"            -> v
         [] t.k = "array"            -> VArr([i \in 1 .. Len(v.xs) |-> Key(t.e, v.xs[i])])
         [] t.k = "set"              -> [c |-> "set", S |-> {Key(t.e, v.xs[i]) : i \in 1 .. Len(v.xs)}]
         [] t.k = "dict"             -> [c |-> "dict", S |-> {<<Key(t.key, v.kv[i].k), Key(t.val, v.kv[i].v)>> : i \in 1 .. Len(v.kv)}]
         [] t.k = "tuple"            -> VTup([i \in 1 .. Len(v.xs) |-> Key(t.ts[i], v.xs[i])])
         [] t.k = "struct"           -> VTup([i \in 1 .. Len(v.xs) |-> Key(t.ts[i], v.xs[i])])
         [] t.k = "interval"         -> VIv(Key(t.p, v.s), Key(t.p, v.e), v.is, v.ie)

RECURSIVE WellTyped(_, _)
WellTyped(t, v) ==
  \/ v = NA
  \/ CASE t.k \in Prims -> v.c = "p" /\ v.x \in Full(t.k)
       [] t.k = "locus" -> /\ v.c = "loc" /\ DOMAIN v = {"c", "contig", "pos"} /\ v.contig \in Contigs
                           /\ v.pos \in 1 .. ContigLen(IF v.contig \in Contigs THEN v.contig ELSE "cm")
       [] t.k = "array" -> v.c = "arr" /\ \A i \in 1 .. Len(v.xs) : WellTyped(t.e, v.xs[i])
       [] t.k = "set"   -> /\ v.c = "set" /\ \A i \in 1 .. Len(v.xs) : WellTyped(t.e, v.xs[i])
                           /\ Distinct([i \in 1 .. Len(v.xs) |-> Key(t.e, v.xs[i])])
       [] t.k = "dict"  -> /\ v.c = "dict"
                           /\ \A i \in 1 .. Len(v.kv) : WellTyped(t.key, v.kv[i].k) /\ WellTyped(t.val, v.kv[i].v)
                           /\ Distinct([i \in 1 .. Len(v.kv) |-> Key(t.key, v.kv[i].k)])
       [] t.k = "tuple" -> v.c = "tup" /\ Len(v.xs) = Len(t.ts) /\ \A i \in 1 .. Len(v.xs) : WellTyped(t.ts[i], v.xs[i])
       [] t.k = "struct" -> /\ v.c = "struct" /\ v.ns = t.ns /\ Len(v.xs) = Len(t.ts)
                            /\ \A i \in 1 .. Len(v.xs) : WellTyped(t.ts[i], v.xs[i])
       [] t.k = "interval" -> /\ v.c = "iv" /\ WellTyped(t.p, v.s) /\ WellTyped(t.p, v.e)
                              /\ v.is \in BOOLEAN /\ v.ie \in BOOLEAN
       [] t.k = "ndarray" -> /\ v.c = "nd" /\ Len(v.shape) = t.n /\ v.ord \in Orders
                             /\ \A i \in 1 .. Len(v.shape) : v.shape[i] \in Nat
                             /\ Len(v.xs) = SeqProduct(v.shape)
                             /\ \A i \in 1 .. Len(v.xs) : v.xs[i].c = "p" /\ v.xs[i].x \in Full(t.e.k)

(* ------------------------------------------------------------------------------------------------ *)
(* (4) The equality.  v is an input tree; w is what the harness reports for the decoded Python object:  *)
(*     the same tree shapes, with leaves  [c |-> "p", py |-> Python class, x |-> name of the exact       *)
(*     object, x32 |-> name of the object rounded to float32]  and, for n-d arrays, dt |-> numpy dtype.   *)
LeafEq(k, x, w) ==
  /\ w.c = "p"
  /\ w.py \in PyClasses(k) \/ (x = "int1" /\ w.py = "int")      \* the Python int 1 given as a float may stay the int 1
  /\ CASE k = "float32" -> w.x32 = R32(x)
       [] k = "float64" -> w.x = Canon(x)
       [] OTHER         -> w.x = x

RECURSIVE Match(_, _, _)
Match(t, v, w) ==
  IF v.c = "na" THEN w.c = "na"
  ELSE IF w.c = "na" THEN FALSE
  ELSE
  CASE t.k \in Prims -> LeafEq(t.k, v.x, w)
    \* a decoded locus is reported as [c |-> "loc", rg |-> genome of the OBJECT, contig, pos]
    [] t.k = "locus" -> w.c = "loc" /\ w.rg = t.rg /\ w.contig = v.contig /\ w.pos = v.pos
    [] t.k = "array" -> /\ w.c = "arr" /\ Len(w.xs) = Len(v.xs)
                        /\ \A i \in 1 .. Len(v.xs) : Match(t.e, v.xs[i], w.xs[i])
    [] t.k = "set"   -> /\ w.c = "set" /\ Len(w.xs) = Len(v.xs)
                        /\ \A i \in 1 .. Len(v.xs) : \E j \in 1 .. Len(w.xs) : Match(t.e, v.xs[i], w.xs[j])
                        /\ \A j \in 1 .. Len(w.xs) : \E i \in 1 .. Len(v.xs) : Match(t.e, v.xs[i], w.xs[j])
    [] t.k = "dict"  -> /\ w.c = "dict" /\ Len(w.kv) = Len(v.kv)
                        /\ \A i \in 1 .. Len(v.kv) : \E j \in 1 .. Len(w.kv) :
                              Match(t.key, v.kv[i].k, w.kv[j].k) /\ Match(t.val, v.kv[i].v, w.kv[j].v)
                        /\ \A j \in 1 .. Len(w.kv) : \E i \in 1 .. Len(v.kv) :
                              Match(t.key, v.kv[i].k, w.kv[j].k) /\ Match(t.val, v.kv[i].v, w.kv[j].v)
    [] t.k = "tuple" -> /\ w.c = "tup" /\ Len(w.xs) = Len(v.xs)
                        /\ \A i \in 1 .. Len(v.xs) : Match(t.ts[i], v.xs[i], w.xs[i])
    [] t.k = "struct" -> /\ w.c = "struct" /\ w.ns = t.ns /\ Len(w.xs) = Len(v.xs)
                         /\ \A i \in 1 .. Len(v.xs) : Match(t.ts[i], v.xs[i], w.xs[i])
    [] t.k = "interval" -> /\ w.c = "iv" /\ Match(t.p, v.s, w.s) /\ Match(t.p, v.e, w.e)
                           /\ w.is = v.is /\ w.ie = v.ie
    [] t.k = "ndarray" -> /\ w.c = "nd" /\ w.dt = t.e.k /\ w.shape = v.shape /\ Len(w.xs) = Len(v.xs)
                          /\ \A i \in 1 .. Len(v.xs) : LeafEq(t.e.k, v.xs[i].x, w.xs[i])

Ok(t, v, w) == Match(t, v, w)

\* what a perfect decoder hands back for v (the harness's report format), used by SelfCheck
Echo1(k, x) == [c |-> "p", py |-> Pick(PyClasses(k)), x |-> Canon(x), x32 |-> R32(x)]
RECURSIVE Echo(_, _)
Echo(t, v) ==
  IF v.c = "na" THEN v
  ELSE CASE t.k \in Prims  -> Echo1(t.k, v.x)
         [] t.k = "locus"  -> [c |-> "loc", rg |-> t.rg, contig |-> v.contig, pos |-> v.pos]
         [] t.k = "array"  -> VArr([i \in 1 .. Len(v.xs) |-> Echo(t.e, v.xs[i])])
         [] t.k = "set"    -> VSet(Reverse([i \in 1 .. Len(v.xs) |-> Echo(t.e, v.xs[i])]))     \* any order
         [] t.k = "dict"   -> VDict(Reverse([i \in 1 .. Len(v.kv) |-> [k |-> Echo(t.key, v.kv[i].k), v |-> Echo(t.val, v.kv[i].v)]]))
         [] t.k = "tuple"  -> VTup([i \in 1 .. Len(v.xs) |-> Echo(t.ts[i], v.xs[i])])
         [] t.k = "struct" -> VStruct(t.ns, [i \in 1 .. Len(v.xs) |-> Echo(t.ts[i], v.xs[i])])
         [] t.k = "interval" -> VIv(Echo(t.p, v.s), Echo(t.p, v.e), v.is, v.ie)
         [] t.k = "ndarray" -> [c |-> "nd", dt |-> t.e.k, shape |-> v.shape,
                                xs |-> [i \in 1 .. Len(v.xs) |-> Echo1(t.e.k, v.xs[i].x)]]

(* ------------------------------------------------------------------------------------------------ *)
(* The universe of types                                                                             *)
LocT == TLoc("vrg")
D0 == {P(k) : k \in Prims} \cup {LocT}
Wide9 == <<P("int32"), P("str"), P("bool"), P("float64"), P("call"), P("int64"), P("float32"), P("int32"), P("str")>>
Names9 == <<"a", "b", "sp", "uni", "num", "empty", "key", "value", "start">>

\* every one-level construction whose components come from S; K: the (smaller) set for the second position
Over(S, K) ==
  LET HS == {x \in S : Hashable(x)}  HK == {x \in K : Hashable(x)}  NS == {x \in S : ~HasNd(x)} IN
       {TArr(e) : e \in S}
  \cup {TSet(e) : e \in HS}
  \cup {TDict(a, b) : a \in HK, b \in S} \cup {TDict(a, b) : a \in HS, b \in K}
  \cup {TTup(<<>>), TStruct(<<>>, <<>>)}
  \cup {TTup(<<a>>) : a \in S}
  \cup {TTup(<<a, b>>) : a \in S, b \in K} \cup {TTup(<<b, a>>) : a \in S, b \in K}
  \cup {TStruct(<<n>>, <<a>>) : a \in S, n \in {"a", "uni"}}
  \cup {TStruct(<<"sp", "num">>, <<a, b>>) : a \in S, b \in K}
  \cup {TStruct(<<"value", "key">>, <<b, a>>) : a \in S, b \in K}
  \cup {TStruct(<<"empty", "start", "b">>, <<b, a, b>>) : a \in S, b \in K}
  \cup {TIv(p) : p \in NS}

WithNd  == IOEnv.TV_ND = "1"                 \* n-d arrays in the universe (C33; C32 has them too)
Level   == atoi(IOEnv.TV_LEVEL)              \* 0: quick tier, 1: thorough tier
NdTypes == IF WithNd THEN {TNd(P(k), n) : k \in Numeric, n \in 0 .. 3} ELSE {}
Special == {TTup(Wide9), TStruct(Names9, Wide9)}
K2 == {P("int32"), P("str")}
\* depth 2: one construction of every kind around each selected depth-1 type
Over2(S) ==
  LET HS == {x \in S : Hashable(x)} IN
       {TArr(e) : e \in S} \cup {TSet(e) : e \in HS}
  \cup {TDict(P("str"), e) : e \in S} \cup {TDict(e, P("int32")) : e \in HS}
  \cup {TTup(<<P("int32"), e>>) : e \in S}
  \cup {TStruct(<<"uni", "a">>, <<e, P("str")>>) : e \in S}
  \cup {TIv(e) : e \in HS}
T1Full == Over(D0, D0) \cup NdTypes \cup Special
T1Mid  == Over(D0, K2) \cup NdTypes \cup Special
\* quick tier: one depth-1 type of every kind is wrapped once more
T1Tiny == {TArr(P("float64")), TArr(P("call")), TSet(P("str")), TDict(P("str"), P("float64")), TDict(P("int32"), P("str")),
           TTup(<<>>), TTup(<<P("float64"), P("str")>>), TStruct(<<>>, <<>>), TStruct(<<"a">>, <<P("float64")>>),
           TStruct(<<"sp", "uni">>, <<P("bool"), P("int64")>>), TIv(P("float64")), TIv(P("int32")), TIv(LocT)}
          \cup {t \in NdTypes : t.e.k = "float64" /\ t.n = 2}
T1 == IF Level = 0 THEN T1Mid ELSE T1Full
T2 == IF Level = 0 THEN Over2(T1Tiny) ELSE Over2(T1Mid)
\* named combinations of the second build (both tiers): loci below containers, struct / tuple dict keys, sets of arrays
Named2 == {TDict(LocT, TArr(P("call"))), TArr(TStruct(<<"a", "b">>, <<LocT, P("str")>>)), TSet(TIv(LocT)),
           TDict(TStruct(<<"a", "uni">>, <<LocT, P("str")>>), P("int64")), TDict(TTup(<<P("str"), LocT>>), P("float32")),
           TSet(TArr(LocT)), TSet(TArr(P("int64"))), TTup(<<LocT, TIv(P("int32")), TNd(P("int32"), 2)>>)}
\* thorough tier: one level deeper than the depth-2 grammar (budget 0 at the innermost level)
Deep3 == {TArr(TStruct(<<"a", "b">>, <<LocT, TIv(LocT)>>)),
          TDict(TStruct(<<"a", "uni">>, <<LocT, P("str")>>), TSet(TArr(P("int64")))),
          TDict(TTup(<<P("int32"), TIv(P("int32"))>>), TArr(TDict(P("str"), P("float32")))),
          TSet(TArr(TIv(LocT))),
          TTup(<<TArr(TNd(P("float64"), 2)), TDict(P("str"), TArr(LocT))>>),
          TIv(TStruct(<<"start", "key">>, <<TArr(LocT), TSet(P("str"))>>)),
          TArr(TDict(LocT, TArr(P("call")))),
          TStruct(<<"value", "sp">>, <<TDict(TIv(P("int32")), TSet(P("call"))), TArr(TArr(P("float32")))>>),
          TSet(TDict(P("str"), TArr(P("bool"))))}
MaxDepth  == IF Level = 0 THEN 2 ELSE 3
\* ... and one construction of every kind around each named depth-2 combination
Deep3All  == Deep3 \cup Over2(Named2)
CoreTypes == D0 \cup T1 \cup T2 \cup Named2 \cup (IF Level = 0 THEN {} ELSE Deep3All)

\* NOTE for TLC: zero-arity constant definitions are evaluated when the module is loaded, by every module that
\* extends this one; everything expensive or with side effects therefore takes a dummy argument.

\* further types drawn by the harness with its seed from the whole depth-2 grammar; the specification only
\* admits the well-formed ones (anything else is a machinery failure, see Gen and Verdict)
ExtraTypes(u) == LET extra == ndJsonDeserialize(IOEnv.TV_EXTRA) IN {extra[i].t : i \in 1 .. Len(extra)}
Types(u)      == CoreTypes \cup ExtraTypes(u)
Pairs(u)      == UNION {{[t |-> t, v |-> v] : v \in Opt(Vals(t, 2))} : t \in Types(u)}
Gen(u) == /\ \A t \in ExtraTypes(u) : IsType(t) /\ Depth(t) <= MaxDepth
          /\ ndJsonSerialize(IOEnv.TV_INPUTS, SetToSeq(Pairs(u)))
\* the same enumeration written type by type (file <TV_INPUTS>.<i> for the i-th type, <TV_INPUTS>.n = number of files):
\* TLC never has to build (and normalise) the set of ALL pairs, which dominates the cost of Gen for the thorough universe
GenChunks(u) ==
  LET ts == SetToSeq(Types(u)) IN
  /\ \A t \in ExtraTypes(u) : IsType(t) /\ Depth(t) <= MaxDepth
  /\ \A i \in 1 .. Len(ts) :
        ndJsonSerialize(IOEnv.TV_INPUTS \o "." \o ToString(i), SetToSeq({[t |-> ts[i], v |-> v] : v \in Opt(Vals(ts[i], 2))}))
  /\ ndJsonSerialize(IOEnv.TV_INPUTS \o ".n", <<[n |-> Len(ts)]>>)

(* ------------------------------------------------------------------------------------------------ *)
(* SelfCheck (before any binding): on the core universe of depth <= 1                                 *)
(*   - every enumerated value is well typed,                                                          *)
(*   - the equality accepts a perfect round trip (also when a set / dict comes back in another order), *)
(*   - and separates: the echo of one value is not accepted for a different value of the same type,    *)
(*     unless both stand for the same value (Key).                                                    *)
SelfTypes == D0 \cup T1
SelfCheck(dummy) ==
  /\ \A t \in CoreTypes : IsType(t) /\ Depth(t) <= MaxDepth
  /\ \A t \in Named2 : Depth(t) = 2
  /\ Level = 0 \/ \A t \in Deep3All : Depth(t) = 3
  /\ \A t \in SelfTypes \cup Named2 \cup (IF Level = 0 THEN {} ELSE Deep3All) :
        \A v \in Opt(Vals(t, 2)) : WellTyped(t, v) /\ Match(t, v, Echo(t, v))
  /\ \A t \in {u \in SelfTypes : ~HasNd(u)} : \A v \in Opt(Vals(t, 1)) : \A u \in Opt(Vals(t, 1)) :
        Match(t, v, Echo(t, u)) => Key(t, u) = Key(t, v)
  /\ PrintT(<<"selfcheck", Cardinality(CoreTypes), Cardinality(SelfTypes)>>)

(* ------------------------------------------------------------------------------------------------ *)
(* Verdict.  A case:  t, v     the pair given to the real code                                         *)
(*                   err      "" or "<stage>: <exception>"  (stage: to / from)                        *)
(*                   w        the decoded value as a tree (NA when err # "")                            *)
Why(x) ==
  IF ~(IsType(x.t) /\ IF IsType(x.t) THEN Depth(x.t) <= MaxDepth /\ WellTyped(x.t, x.v) ELSE FALSE) THEN "not-in-universe"
  ELSE IF x.err # "" THEN "raised"
  ELSE IF ~Ok(x.t, x.v, x.w) THEN "differs"
  ELSE ""
Verdict(u) ==
  LET cases == ndJsonDeserialize(IOEnv.TV_CASES)
      why   == [i \in 1 .. Len(cases) |-> Why(cases[i])]
      bad   == {i \in 1 .. Len(cases) : why[i] # ""}
  IN  JsonSerialize(IOEnv.TV_VERDICT,
             [n      |-> Len(cases),
              ok     |-> Len(cases) - Cardinality(bad),
              nested |-> Cardinality({i \in 1 .. Len(cases) : IF IsType(cases[i].t) THEN Depth(cases[i].t) = 2 ELSE FALSE}),
              deep   |-> Cardinality({i \in 1 .. Len(cases) : IF IsType(cases[i].t) THEN Depth(cases[i].t) = 3 ELSE FALSE}),
              bad    |-> SetToSeq({[i |-> i, why |-> why[i]] : i \in bad})])
=============================================================================
