---- MODULE PyEncodingVerdict ----
EXTENDS PyEncoding
ASSUME EncVerdict(0)
====
