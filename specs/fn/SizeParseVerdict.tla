-------------------------- MODULE SizeParseVerdict --------------------------
(* C25: TLC judges the recorded call/return pairs of the real parsers and validator with SizeParse!Why. *)
EXTENDS SizeParse

\* cases: [w, cpu, memory, storage (client records), vcpu, vmemory, vstorage (server booleans)]
Cases == ndJsonDeserialize(IOEnv.SZ_CASES)
WhyCase(c) == [cpu     |-> Why("cpu", c.w, c.cpu, c.vcpu),
               memory  |-> Why("memory", c.w, c.memory, c.vmemory),
               storage |-> Why("storage", c.w, c.storage, c.vstorage)]
AllOk == [cpu |-> "ok", memory |-> "ok", storage |-> "ok"]
Verdict ==
  LET N    == Len(Cases)
      Bad  == { i \in 1..N : WhyCase(Cases[i]) # AllOk }
  IN JsonSerialize(IOEnv.SZ_VERDICT,
       [n |-> N,
        in_grammar |-> [k \in Kinds |-> Cardinality({ i \in 1..N : Accepts(k, Cases[i].w) })],
        bad |-> SetToSeq({ [i |-> i, why |-> WhyCase(Cases[i])] : i \in Bad })])
ASSUME Verdict
=============================================================================
