---- MODULE SizeParseVerdict ----
EXTENDS SizeParse
ASSUME Verdict
====
