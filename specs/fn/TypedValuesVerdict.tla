---- MODULE TypedValuesVerdict ----
EXTENDS TypedValues
ASSUME Verdict(0)
====
