---- MODULE CallPackGen ----
EXTENDS CallPack
ASSUME Gen
====
