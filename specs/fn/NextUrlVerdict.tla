---- MODULE NextUrlVerdict ----
EXTENDS NextUrl
ASSUME Verdict
====
