------------------------------ MODULE FairShare ------------------------------
(* C11: the scheduler's fair share of the free cores of a pool.

   Input  : users - a sequence (row order of the SQL result) of [running, ready] core demands in mcpu,
            free  - free cores in mcpu (may be zero or negative).
   Output : alloc - sequence of allocated mcpu, one per user.

   Ok is the relation the property demands - water filling (max-min fairness) up to rounding, where the
   rounding slack is 1 mcpu per user (the implementation rounds the water level once, to the nearest mcpu):

     Range     0 <= alloc_u <= ready_u
     NotOver   sum alloc <= max(free, 0) + n
     NotUnder  sum alloc >= min(max(free, 0), sum ready) - n          (all free cores handed out when demand allows)
     Level     there is a water level L with  | alloc_u - clamp(L - running_u, 0, ready_u) | <= 1  for every user:
               a user left short with a positive allocation sits at L, a user left short with nothing already
               runs at or above L, a fully served user ends at or below L.

   FairShareAlg.tla models the scheduler's loop and lets TLC check that it satisfies Ok for every small input
   and every tie-break.                                                                                  *)
EXTENDS Integers, Sequences, SequencesExt, FiniteSets, TLC, Json, IOUtils

Max2(a, b) == IF a >= b THEN a ELSE b
Min2(a, b) == IF a <= b THEN a ELSE b
Clamp(x, lo, hi) == Max2(lo, Min2(x, hi))
Abs(x) == IF x < 0 THEN -x ELSE x
RECURSIVE SumTo(_, _)
SumTo(f, n) == IF n = 0 THEN 0 ELSE f[n] + SumTo(f, n - 1)
RECURSIVE MaxTo(_, _)
MaxTo(f, n) == IF n = 0 THEN 0 ELSE Max2(f[n], MaxTo(f, n - 1))

NU(in)       == Len(in.users)
Free0(in)    == Max2(in.free, 0)
SumReady(in) == SumTo([u \in 1..NU(in) |-> in.users[u].ready], NU(in))
MaxTotal(in) == MaxTo([u \in 1..NU(in) |-> in.users[u].running + in.users[u].ready], NU(in))

RangeOk(in, al)  == \A u \in 1..NU(in) : 0 <= al[u] /\ al[u] <= in.users[u].ready
NotOver(in, al)  == SumTo(al, NU(in)) <= Free0(in) + NU(in)
NotUnder(in, al) == SumTo(al, NU(in)) >= Min2(Free0(in), SumReady(in)) - NU(in)
LevelOkAt(in, al, L) ==
  \A u \in 1..NU(in) : Abs(al[u] - Clamp(L - in.users[u].running, 0, in.users[u].ready)) <= 1
\* declarative form: levels above the highest total change nothing, so a finite range suffices
LevelOk(in, al) == \E L \in 0..MaxTotal(in) : LevelOkAt(in, al, L)
(* The same, solved for L (needs RangeOk): for each user the admissible levels form an interval
     lo_u = 0 if alloc_u <= 1, else running_u + alloc_u - 1
     hi_u = unbounded if ready_u <= alloc_u + 1, else running_u + alloc_u + 1
   and a common level exists iff max lo <= min hi.  The verdict uses this form (mcpu levels run to thousands);
   FairShareGen.tla lets TLC check that both forms agree on every small input and every allocation.        *)
Lo(in, al, u) == IF al[u] <= 1 THEN 0 ELSE in.users[u].running + al[u] - 1
Hi(in, al, u) == IF in.users[u].ready <= al[u] + 1 THEN MaxTotal(in) + 2 ELSE in.users[u].running + al[u] + 1
LevelOkFast(in, al) ==
  \A u \in 1..NU(in), v \in 1..NU(in) : Lo(in, al, u) <= Hi(in, al, v)

Why(in, out) ==
  IF out.o # "alloc" THEN "no-result"
  ELSE IF Len(out.alloc) # NU(in) THEN "users"
  ELSE IF ~RangeOk(in, out.alloc) THEN "range"
  ELSE IF ~NotOver(in, out.alloc) THEN "over-allocated"
  ELSE IF ~NotUnder(in, out.alloc) THEN "under-allocated"
  ELSE IF ~LevelOkFast(in, out.alloc) THEN "level"
  ELSE "ok"
Ok(in, out) == Why(in, out) = "ok"

SeqsUpTo(S, n) == UNION { [1..k -> S] : k \in 0..n }
\* users <= maxusers, running/ready in 0..maxval units of `unit` mcpu, free in frees (units) plus off mcpu
Universe(maxusers, maxval, unit, frees, off) ==
  { [users |-> [u \in 1..Len(s) |-> [running |-> unit * s[u][1], ready |-> unit * s[u][2]]], free |-> unit * f + off] :
      s \in SeqsUpTo((0..maxval) \X (0..maxval), maxusers), f \in frees }
=============================================================================
