--------------------------- MODULE FairShareVerdict ---------------------------
(* C11: TLC judges every recorded call of the real _compute_fair_share with FairShare!Why.
   case = [in |-> input, out |-> [o |-> "alloc" | "raise", alloc |-> <<...>>]] *)
EXTENDS FairShare
Cases == ndJsonDeserialize(IOEnv.FS_CASES)
ASSUME LET N   == Len(Cases)
           Bad == { i \in 1..N : ~Ok(Cases[i].in, Cases[i].out) }
       IN JsonSerialize(IOEnv.FS_VERDICT,
            [n |-> N,
             short |-> Cardinality({ i \in 1..N : Cases[i].out.o = "alloc" /\
                          \E u \in 1..Len(Cases[i].out.alloc) : Cases[i].out.alloc[u] > 0 /\ Cases[i].out.alloc[u] < Cases[i].in.users[u].ready }),
             bad |-> SetToSeq({ [i |-> i, why |-> Why(Cases[i].in, Cases[i].out)] : i \in Bad })])
=============================================================================
