--------------------------- MODULE Billing1024Alg ---------------------------
(* C13, the billing rule as a state machine: one worker of Cores cores; jobs of power-of-two quarter-core sizes
   are scheduled on it while they fit and finish in any order.  A job is billed, per resource kind,

      fraction kinds (VM, IP fee, static disks of G GiB, accelerators):   g * F     with
                      F = 1024 * mcpu \div (Cores * 1000)     "worker_fraction_in_1024ths"   (InstanceConfig.quantified_resources)
      cpu kinds (compute, service fee, support fee):                      mcpu      (ComputeResourceMixin, ServiceFeeResourceMixin)
      memory:                                                             MiB of the job's memory share
                                                                          (MemoryResourceMixin; share = mcpu * PerCoreMiB / 1000)

   and the whole worker is billed the same way with mcpu = Cores * 1000 and the machine's memory.
   Actions: Schedule(m) (driver: schedule_job on an instance with free cores), Finish(m) (mark_job_complete).
   Invariants (C13a, C13b on the model):
      WithinWhole   for every kind, the bills of the running jobs add up to at most the whole worker's bill
      FullIsExact   when the worker is full they add up to exactly the whole (needs Cores a power of two <= 256,
                    which is what the code asserts for pools; with Cores = 3 TLC finds the counter-example)
      FractionPositive  no job is billed a zero fraction (a worker has at most 256 cores)                    *)
EXTENDS Integers, Sequences, FiniteSets, TLC

CONSTANTS Cores,        \* cores of the worker
          PerCoreMiB,   \* memory per core of the worker family
          DiskGiB,      \* size of a static disk
          Gpus          \* accelerators on the worker

Sizes == { m \in {250, 500, 1000, 2000, 4000, 8000, 16000, 32000, 64000, 128000, 256000} : m <= Cores * 1000 }
Kinds == {"vm", "disk", "gpu", "cpu", "mem"}

VARIABLES running,   \* bag of running jobs: size -> how many
          free       \* free mcpu

vars == << running, free >>

Fraction(m) == (1024 * m) \div (Cores * 1000)
Bill(m, memMiB) ==
  [vm |-> Fraction(m), disk |-> DiskGiB * Fraction(m), gpu |-> Gpus * Fraction(m), cpu |-> m, mem |-> memMiB]
JobBill(m) == Bill(m, (m * PerCoreMiB) \div 1000)
Whole      == Bill(Cores * 1000, Cores * PerCoreMiB)

RECURSIVE SumOver(_, _)
SumOver(S, k) == IF S = {} THEN 0 ELSE LET m == CHOOSE x \in S : TRUE IN running[m] * JobBill(m)[k] + SumOver(S \ {m}, k)
Billed(k) == SumOver(Sizes, k)

Init == running = [ m \in Sizes |-> 0 ] /\ free = Cores * 1000

Schedule(m) == /\ m <= free
               /\ running' = [running EXCEPT ![m] = @ + 1]
               /\ free' = free - m

Finish(m) == /\ running[m] > 0
             /\ running' = [running EXCEPT ![m] = @ - 1]
             /\ free' = free + m

Next == \E m \in Sizes : Schedule(m) \/ Finish(m)
Spec == Init /\ [][Next]_vars

TypeOK == /\ running \in [Sizes -> 0..(4 * Cores)] /\ free \in 0..(Cores * 1000)
Conservation == free + SumOver(Sizes, "cpu") = Cores * 1000
WithinWhole == \A k \in Kinds : Billed(k) <= Whole[k]
FullIsExact == free = 0 => \A k \in Kinds : Billed(k) = Whole[k]
FractionPositive == \A m \in Sizes : Fraction(m) >= 1
=============================================================================
