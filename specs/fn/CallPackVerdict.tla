---- MODULE CallPackVerdict ----
EXTENDS CallPack
ASSUME Verdict
====
