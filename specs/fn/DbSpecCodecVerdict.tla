-------------------------- MODULE DbSpecCodecVerdict --------------------------
(* C15: TLC judges the recorded round trips through the real db_spec / get_spec_* and
   regions_to_bits_rep / regions_bits_rep_to_regions.   case = [k |-> "spec" | "regions", in, out]          *)
EXTENDS DbSpecCodec
Cases == ndJsonDeserialize(IOEnv.DC_CASES)
WhyOf(c) == IF c.k = "spec" THEN SpecWhy(c.in, c.out) ELSE RegionWhy(c.in, c.out)
ASSUME LET N   == Len(Cases)
           Bad == { i \in 1..N : WhyOf(Cases[i]) # "ok" }
       IN JsonSerialize(IOEnv.DC_VERDICT,
            [n |-> N,
             with_machine |-> Cardinality({ i \in 1..N : Cases[i].k = "spec" /\ Cases[i].in.machine # 0 }),
             with_secrets |-> Cardinality({ i \in 1..N : Cases[i].k = "spec" /\ Len(Cases[i].in.mic) > 0 }),
             regions63    |-> Cardinality({ i \in 1..N : Cases[i].k = "regions" /\ 63 \in ToSet(Cases[i].in.sel) }),
             bad |-> SetToSeq({ [i |-> i, why |-> WhyOf(Cases[i])] : i \in Bad })])
=============================================================================
