---- MODULE TypedValuesGenChunks ----
EXTENDS TypedValues
ASSUME GenChunks(0)
====
