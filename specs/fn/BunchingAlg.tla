----------------------------- MODULE BunchingAlg -----------------------------
(* C19: the client's packing loop (Batch._create_bunches) as a step machine - one action per loop iteration.
   TLC explores it for every input of the bounded universe and checks the clauses of Bunching!Ok as
   invariants of the final state, plus loop invariants that hold all along.                            *)
EXTENDS Bunching
CONSTANTS MaxLen, Sizes, ByteLims, CountLims
VARIABLES in, i, done, cur, curBytes, result
vars == <<in, i, done, cur, curBytes, result>>

All == Items(in, 1)

Init == /\ in \in Universe(MaxLen, Sizes, ByteLims, CountLims)
        /\ i = 1 /\ done = "no" /\ cur = <<>> /\ curBytes = 0 /\ result = <<>>

\* assert n_bytes < max_bunch_bytesize
Refuse == /\ done = "no" /\ i <= Len(All) /\ All[i].nb >= in.maxbytes
          /\ done' = "raise"
          /\ UNCHANGED <<in, i, cur, curBytes, result>>
\* if bunch_n_bytes + n_bytes < max_bunch_bytesize and len(bunch) < max_bunch_size: bunch.append(spec)
Extend == /\ done = "no" /\ i <= Len(All) /\ All[i].nb < in.maxbytes
          /\ curBytes + All[i].nb < in.maxbytes /\ Len(cur) < in.maxcount
          /\ cur' = Append(cur, All[i]) /\ curBytes' = curBytes + All[i].nb
          /\ i' = i + 1
          /\ UNCHANGED <<in, done, result>>
\* else: byte_specs_bunches.append(bunch); bunch = [spec]
Close  == /\ done = "no" /\ i <= Len(All) /\ All[i].nb < in.maxbytes
          /\ ~(curBytes + All[i].nb < in.maxbytes /\ Len(cur) < in.maxcount)
          /\ result' = Append(result, cur)
          /\ cur' = <<All[i]>> /\ curBytes' = All[i].nb
          /\ i' = i + 1
          /\ UNCHANGED <<in, done>>
\* if bunch: byte_specs_bunches.append(bunch); return
Flush  == /\ done = "no" /\ i > Len(All)
          /\ result' = (IF cur # <<>> THEN Append(result, cur) ELSE result)
          /\ done' = "bunches"
          /\ UNCHANGED <<in, i, cur, curBytes>>
Stop   == done # "no" /\ UNCHANGED vars
Next == Refuse \/ Extend \/ Close \/ Flush \/ Stop

Out == [o |-> done, bunches |-> result]

\* the property, on the final state
C19_Relation == done # "no" => Ok(in, 1, Out)
C19_Order    == done = "bunches" => OrderOk(in, 1, result)
C19_NonEmpty == NonEmptyOk(result)
C19_Bytes    == BytesOk(in, 1, result)
C19_Count    == CountOk(in, result)
C19_Refusal  == done = "raise" => Oversize(in)
\* loop invariants
PrefixPacked == done = "no" => Flatten(result) \o cur = SubSeq(All, 1, i - 1)
CurWithin    == /\ curBytes = Bytes(cur)
                /\ (cur # <<>> => curBytes < in.maxbytes /\ Len(cur) <= in.maxcount)
                /\ (cur = <<>> => i = 1 \/ done # "no")
\* reachability companions (each must be VIOLATED: the antecedents above are reachable)
NeverRaises   == done # "raise"
NeverTwoBunch == Len(result) < 2
NeverFullCnt  == ~(\E b \in 1..Len(result) : Len(result[b]) = in.maxcount /\ in.maxcount > 1)
=============================================================================
