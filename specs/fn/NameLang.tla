----------------------------- MODULE NameLang -----------------------------
(* C28: the two name languages of the auth service as DFAs over character classes.

   username    : non-empty; ASCII lowercase letters and digits; single interior hyphens
   secret name : lowercase RFC-1123 style: alphanumeric labels joined by single '.' or '-'

   A "call" is  validate(fn, string) -> accepted?   The specification fixes which strings must be
   accepted (exactly those whose class word the DFA accepts).  Strings are abstracted to words over
   character classes; the harness concretises every class by several characters.                *)
EXTENDS Naturals, Sequences, SequencesExt, FiniteSets, TLC, Json, IOUtils

Alnum   == {"lower", "digit"}
Classes == {"lower", "digit", "hyphen", "dot", "upper", "underscore", "newline", "ctrl",
            "ascii_other", "na_lower", "na_digit", "other"}
Core    == {"lower", "digit", "hyphen", "dot", "newline"}

\* DFA states: "start" (nothing read), "label" (inside a label, accepting), "sep" (just read a separator), "dead"
Step(seps, q, c) ==
  CASE q = "dead"  -> "dead"
    [] c \in Alnum -> "label"
    [] c \in seps  -> IF q = "label" THEN "sep" ELSE "dead"
    [] OTHER       -> "dead"

RECURSIVE RunFrom(_, _, _, _)
RunFrom(seps, q, w, i) == IF i > Len(w) THEN q ELSE RunFrom(seps, Step(seps, q, w[i]), w, i + 1)

Accepts(seps, w) == RunFrom(seps, "start", w, 1) = "label"
UserOk(w)   == Accepts({"hyphen"}, w)
SecretOk(w) == Accepts({"hyphen", "dot"}, w)

Words(A, n) == UNION { [1..k -> A] : k \in 0..n }

\* ---- generation (constant evaluation) ----------------------------------------------------
FullLen == atoi(IOEnv.NL_FULL)      \* all words over Classes up to this length
CoreLen == atoi(IOEnv.NL_CORE)      \* all words over Core up to this length
Inputs  == Words(Classes, FullLen) \cup Words(Core, CoreLen)
Gen == ndJsonSerialize(IOEnv.NL_INPUTS, SetToSeq({ [w |-> w] : w \in Inputs }))

\* ---- verdict: cases = [w, s (concrete, informational), user, secret] ----------------------------
Cases == ndJsonDeserialize(IOEnv.NL_CASES)
\* ins: what the account-creation path (auth.insert_new_user -> check_valid_new_user + validate_credentials_secret_name_input) did with
\* the string: a record of booleans "a users row was inserted" for the string as username of a plain user, a developer and a service
\* account (valid login id / secret name), and as credentials secret name of an otherwise valid user; absent when not exercised
InsOk(c) == "ins" \notin DOMAIN c \/
            /\ c.ins.plain = UserOk(c.w) /\ c.ins.dev = UserOk(c.w) /\ c.ins.sa = UserOk(c.w)
            /\ c.ins.secret = SecretOk(c.w)
Bad   == { i \in 1..Len(Cases) :
             \/ Cases[i].user   # UserOk(Cases[i].w)
             \/ Cases[i].secret # SecretOk(Cases[i].w)
             \/ ~InsOk(Cases[i]) }
Verdict == JsonSerialize(IOEnv.NL_VERDICT,
             [n |-> Len(Cases),
              accepted_user |-> Cardinality({ i \in 1..Len(Cases) : UserOk(Cases[i].w) }),
              accepted_secret |-> Cardinality({ i \in 1..Len(Cases) : SecretOk(Cases[i].w) }),
              bad |-> SetToSeq(Bad)])
=============================================================================
