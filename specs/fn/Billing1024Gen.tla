---- MODULE Billing1024Gen ----
(* constant evaluation: write the universe of instance configurations (one per line) *)
EXTENDS Billing1024
ASSUME \A m \in MachineSet : m.mem_rem = 0 /\ m.cores > 0
ASSUME ndJsonSerialize(IOEnv.BL_INPUTS, Inputs)
====
