---- MODULE AclVerdict ----
EXTENDS Acl
ASSUME Verdict
====
