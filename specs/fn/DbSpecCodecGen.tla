---------------------------- MODULE DbSpecCodecGen ----------------------------
(* C15: the bounded input universes for the real codec functions. *)
EXTENDS DbSpecCodec
MaxVer == atoi(IOEnv.DC_MAXVER)
N == 63
Span(a, b) == [i \in 1..(b - a + 1) |-> a + i - 1]
SetSeq(S) == SetToSortSeq(S, <)
Dense == Span(1, N)
Rev   == [i \in 1..N |-> N + 1 - i]
Families ==
  { <<i>> : i \in 1..N } \cup { <<1, 2>>, <<1, N>>, <<N - 1, N>>, <<N, 1>>, <<5, 5, 9>>, <<>> }
  \cup { Span(1, k) : k \in 1..N } \cup { Span(k, N) : k \in 1..N }
  \cup { SetSeq({ i \in 1..N : i % k = r }) : k \in 2..7, r \in 0..1 }
  \cup { SetSeq((1..N) \ {i}) : i \in {1, 2, 31, 32, 33, 62, 63} }
AllPairs == IF IOEnv.DC_PAIRS = "1" THEN { <<i, j>> : i \in 1..N, j \in 1..N } ELSE {}
Big == { [idx |-> m, sel |-> s, nosel |-> FALSE] : m \in {Dense, Rev}, s \in Families }
       \cup { [idx |-> Dense, sel |-> s, nosel |-> FALSE] : s \in AllPairs }
       \cup { [idx |-> Dense, sel |-> <<>>, nosel |-> TRUE] }
\* small universes: every subset, dense / sparse / out-of-order mappings
Maps == { <<1, 2, 3, 4, 5>>, <<63, 7, 1, 32, 40>>, <<2, 4, 6, 8, 10, 62>>, <<1>>, <<63>> }
SubsetSeqs(m) == { SetSeq(S) : S \in SUBSET { m[i] : i \in 1..Len(m) } }
Small == { [idx |-> m, sel |-> s, nosel |-> FALSE] : m \in Maps, s \in UNION { SubsetSeqs(mm) : mm \in Maps } }
SmallOk == { c \in Small : \A i \in 1..Len(c.sel) : \E j \in 1..Len(c.idx) : c.idx[j] = c.sel[i] }
ASSUME /\ ndJsonSerialize(IOEnv.DC_SPECS, SetToSeq({ s \in SpecUniverse(MaxVer, atoi(IOEnv.DC_MAXSEC)) : WellFormed(s) }))
       /\ ndJsonSerialize(IOEnv.DC_REGIONS, SetToSeq(Big \cup SmallOk))
=============================================================================
