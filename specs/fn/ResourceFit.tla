----------------------------- MODULE ResourceFit -----------------------------
(* C12: resource requests are never under-provisioned.

   A call is   place(configuration, request) -> outcome   where the configuration is the set of instance
   collections the deployment knows (1..3 pools + the job-private collection), the request is what a user
   writes in a job's `resources` (cpu / memory / storage size strings, preemptible, pool label, or a machine
   type) and the outcome is "placed in collection k with these granted cores/memory/storage", "rejected as
   unsatisfiable" or "rejected as malformed".

   This module is constant level: it defines the bounded universe of configurations and requests
   (`Suites`) and the relation `Ok(cfg, q, o)` the property demands.  `Ok` is a relation - any placement in
   any matching pool with any sufficient grant is accepted; cheapest-pool choice is not part of it.
   ResourceFitAlg.tla models the selection pipeline as a state machine and TLC checks that every run of it
   ends in an outcome accepted by `Ok`; ResourceFitGen / ResourceFitVerdict bind the relation to the real
   code (B3): TLC writes the universe, the harness drives the real front end, TLC judges every outcome.

   Nothing about the clouds' machine shapes is written here: `Tables` is produced at run time by calling the
   repository's own functions (machine type -> cores, memory; pool worker type x cores -> machine type).

   Integers in TLC are 32 bit.  Byte quantities are pairs <<MiB, bytes>> ("limbs", base 2^20), cores are
   mcpu, storage grants are GiB.                                                                          *)
EXTENDS Integers, Sequences, SequencesExt, FiniteSets, FiniteSetsExt, TLC, Json, IOUtils

Tables   == JsonDeserialize(IOEnv.RF_TABLES)
Machines == Tables.machines    \* <<[cloud, name, cores, mem_mib, mem_rem]>>  every machine type the service knows
Workers  == Tables.workers     \* <<[cloud, type, cores, ssd, machine, known]>>  the VM a pool of that shape runs on
Level    == IOEnv.RF_LEVEL      \* "model" | "quick" | "thorough": size of the universe below

Clouds == {"gcp", "azure"}
\* Facts about the clouds (not about the code): the largest persistent SSD one VM can have attached, in GiB.
MaxDiskGiB == [gcp |-> 65536, azure |-> 32768]


(* ---------------------------------------------------------------------------------------------------- *)
(* Byte arithmetic on limbs                                                                               *)
B == 1048576
Norm(h, l)     == << h + (l \div B), l % B >>
MulSmall(x, k) == Norm(x[1] * k, x[2] * k)
Geq(x, y)      == x[1] > y[1] \/ (x[1] = y[1] /\ x[2] >= y[2])
CeilMiB(x)     == x[1] + (IF x[2] > 0 THEN 1 ELSE 0)

Kilo == << 0, 1000 >>
Units == {"", "K", "Ki", "M", "Mi", "G", "Gi", "T", "Ti"}
Factor(u) ==
  CASE u = ""   -> << 0, 1 >>
    [] u = "K"  -> Kilo
    [] u = "Ki" -> << 0, 1024 >>
    [] u = "M"  -> MulSmall(Kilo, 1000)
    [] u = "Mi" -> << 1, 0 >>
    [] u = "G"  -> MulSmall(MulSmall(Kilo, 1000), 1000)
    [] u = "Gi" -> << 1024, 0 >>
    [] u = "T"  -> MulSmall(MulSmall(MulSmall(Kilo, 1000), 1000), 1000)
    [] u = "Ti" -> << B, 0 >>

\* ceil(x / 100) for a limb pair
CeilDiv100(x) ==
  LET r    == x[1] % 100
      rest == r * B + x[2]
  IN  Norm(x[1] \div 100, (rest \div 100) + (IF rest % 100 = 0 THEN 0 ELSE 1))

\* An amount [n, f, u] denotes (n + f/100) units u.  Bytes(a) is the least whole number of bytes that is >= it
\* (a grant is a whole number of bytes, so "grant >= amount" and "grant >= Bytes(amount)" are the same).
Amt(n, f, u) == [n |-> n, f |-> f, u |-> u]
Bytes(a) ==
  LET F     == Factor(a.u)
      whole == MulSmall(F, a.n)
      frac  == CeilDiv100(MulSmall(F, a.f))
  IN  Norm(whole[1] + frac[1], whole[2] + frac[2])

(* ---------------------------------------------------------------------------------------------------- *)
(* What the tables say                                                                                    *)
\* TLC keeps [x \in S |-> e] as an unevaluated lambda and re-evaluates e at every application; Tabulate builds the
\* explicit table once (zero-arity constant definitions are evaluated once).
Tabulate(S, Op(_)) == FoldSet(LAMBDA k, acc : (k :> Op(k)) @@ acc, << >>, S)

Pow2       == {1, 2, 4, 8, 16, 32, 64, 128, 256}
Pow2Mcpu   == {250, 500} \cup { 1000 * k : k \in Pow2 }        \* packable sizes: a quarter core times a power of two
MachineSet == Range(Machines)
MachineByKey == Tabulate({ << m.cloud, m.name >> : m \in MachineSet },
                         LAMBDA k : CHOOSE m \in MachineSet : m.cloud = k[1] /\ m.name = k[2])
HasMachine(cl, name) == << cl, name >> \in DOMAIN MachineByKey
MachineRow(cl, name) == MachineByKey[<< cl, name >>]

\* regular pool shapes: power-of-two cores (what InstanceConfig.quantified_resources demands of a pool) whose VM
\* type is in the machine table.  The families and their memory per core are read off these.
PoolWorkers == { w \in Range(Workers) : w.cores \in Pow2 /\ w.known }
\* every other pool size the service's own pool-configuration form accepts (possible_cores_from_worker_type)
OddWorkers  == { w \in Range(Workers) : w.cores \notin Pow2 }
WorkerTypes(cl) == { w.type : w \in { x \in PoolWorkers : x.cloud = cl } }
\* memory per core (MiB) of a worker family, read off one of its machines
PerCore == Tabulate({ << w.cloud, w.type >> : w \in PoolWorkers },
                    LAMBDA k : LET w == CHOOSE x \in PoolWorkers : x.cloud = k[1] /\ x.type = k[2]
                               IN  MachineRow(k[1], w.machine).mem_mib \div w.cores)
PerCoreMiB(cl, ty) == PerCore[<< cl, ty >>]
\* memory (MiB) of one worker of pool p (TablesSane: for the regular shapes this is the machine table's figure)
WorkerMemMiB(p) == p.cores * PerCoreMiB(p.cloud, p.type)

\* The tables are as uniform as the arithmetic below assumes (checked by TLC before anything else).
TablesSane ==
  /\ \A m \in MachineSet : m.mem_rem = 0 /\ m.cores > 0 /\ m.mem_mib < 2000000
  /\ \A w \in PoolWorkers :
       LET m == MachineRow(w.cloud, w.machine)
       IN  m.cores = w.cores /\ m.mem_mib = w.cores * PerCoreMiB(w.cloud, w.type)
  /\ \A cl \in Clouds : Cardinality(WorkerTypes(cl)) = 3
  /\ \A cl \in Clouds : \A s, t \in WorkerTypes(cl) : s # t => PerCoreMiB(cl, s) # PerCoreMiB(cl, t)

\* The named memory tiers mean: the cloud's worker family with the least / middle / most memory per core.
Tiers == {"lowmem", "standard", "highmem"}
TierTypes == Tabulate(Clouds \X Tiers, LAMBDA k :
  LET cl == k[1]
      T  == WorkerTypes(cl)
      lo == CHOOSE t \in T : \A s \in T : PerCoreMiB(cl, t) <= PerCoreMiB(cl, s)
      hi == CHOOSE t \in T : \A s \in T : PerCoreMiB(cl, t) >= PerCoreMiB(cl, s)
  IN  CASE k[2] = "lowmem"   -> lo
        [] k[2] = "highmem"  -> hi
        [] k[2] = "standard" -> CHOOSE t \in T : t # lo /\ t # hi)
TierType(cl, tier) == TierTypes[<< cl, tier >>]

(* ---------------------------------------------------------------------------------------------------- *)
(* Records                                                                                                *)
(*  pool    [cloud, type, cores, pre, label, ssd]                                                         *)
(*  cfg     [jp |-> cloud of the job-private collection, pools |-> sequence of pools]                     *)
(*  request [kind "pool"/"private", cloud, cpu (mcpu), tier ("" = memory given as amount), mem, sto,      *)
(*           pre, label, machine]                                                                         *)
(*  outcome << kind, coll, cores, mem MiB, mem bytes, storage GiB >>   kind: 0 placed, 1 unsatisfiable,   *)
(*           2 malformed request, 3 anything else (crash); coll: 0 = job-private, k = k-th pool           *)
Pool(cl, ty, c, pre, lab, ssd) == [cloud |-> cl, type |-> ty, cores |-> c, pre |-> pre, label |-> lab, ssd |-> ssd]
Cfg(jp, pools) == [jp |-> jp, pools |-> pools]
NoAmt == Amt(0, 0, "")
PoolReq(cl, cpu, tier, mem, sto, pre, lab) ==
  [kind |-> "pool", cloud |-> cl, cpu |-> cpu, tier |-> tier, mem |-> mem, sto |-> sto, pre |-> pre,
   label |-> lab, machine |-> ""]
PrivReq(cl, machine, sto, pre) ==
  [kind |-> "private", cloud |-> cl, cpu |-> 0, tier |-> "", mem |-> NoAmt, sto |-> sto, pre |-> pre,
   label |-> "", machine |-> machine]

PLACED == 0  UNSAT == 1  MALFORMED == 2

(* ---------------------------------------------------------------------------------------------------- *)
(* The relation                                                                                           *)
WellFormed(q) ==
  IF q.kind = "pool" THEN q.cpu \in Pow2Mcpu ELSE HasMachine(q.cloud, q.machine)

Matches(p, q) ==
  /\ p.cloud = q.cloud /\ p.pre = q.pre /\ p.label = q.label
  /\ (q.tier # "" => p.type = TierType(q.cloud, q.tier))

\* a share of c mcpu of a worker of pool p holds `need` bytes of memory
MemCovered(c, p, need) ==
  LET g == c * PerCoreMiB(p.cloud, p.type)          \* thousandths of MiB
  IN  IF need[1] > 2000000 THEN FALSE
      ELSE LET d == g - 1000 * need[1]
           IN  IF d < 0 THEN FALSE ELSE IF d >= 1000 THEN TRUE ELSE need[2] * 1000 <= d * B

MemNeed(q) == IF q.tier # "" THEN << 0, 0 >> ELSE Bytes(q.mem)     \* a named tier asks for the family, not an amount
StorageWithinLimit(q) == Geq(<< MaxDiskGiB[q.cloud] * 1024, 0 >>, Bytes(q.sto))

\* the packable sizes of pool p that cover the request
Covering(p, q, need) == { c \in { x \in Pow2Mcpu : x <= 1000 * p.cores } : c >= q.cpu /\ MemCovered(c, p, need) }
PoolCanServe(p, q, need) ==
  Matches(p, q) /\ \E c \in Pow2Mcpu : c <= 1000 * p.cores /\ c >= q.cpu /\ MemCovered(c, p, need)     \* Covering # {}

Satisfiable(cfg, q) ==
  IF q.kind = "pool"
  THEN /\ StorageWithinLimit(q)
       /\ LET need == MemNeed(q) IN \E i \in DOMAIN cfg.pools : PoolCanServe(cfg.pools[i], q, need)
  ELSE cfg.jp = q.cloud /\ HasMachine(q.cloud, q.machine) /\ StorageWithinLimit(q)

PlacedOk(cfg, q, o) ==
  LET coll == o[2]  cores == o[3]  mem == << o[4], o[5] >>  sto == o[6]
  IN  /\ sto >= 0 /\ sto <= MaxDiskGiB[q.cloud]                      \* storage fits (one attachable disk)
      /\ sto * 1024 >= CeilMiB(Bytes(q.sto))                         \* storage granted >= requested
      /\ IF q.kind = "pool"
         THEN /\ coll \in DOMAIN cfg.pools
              /\ LET p == cfg.pools[coll]
                 IN  /\ Matches(p, q)                                \* cloud, preemptible, label, named worker type
                     /\ cores >= q.cpu                               \* cores granted >= requested
                     /\ (q.tier = "" => Geq(mem, Bytes(q.mem)))      \* memory granted >= requested
                     /\ cores <= 1000 * p.cores                      \* fits one worker of that pool
                     /\ Geq(<< WorkerMemMiB(p), 0 >>, mem)
         ELSE /\ coll = 0 /\ cfg.jp = q.cloud /\ HasMachine(q.cloud, q.machine)
              /\ LET m == MachineRow(q.cloud, q.machine)             \* the named machine, whole
                 IN  cores = 1000 * m.cores /\ mem = << m.mem_mib, 0 >>

Ok(cfg, q, o) ==
  CASE o[1] = PLACED    -> PlacedOk(cfg, q, o)
    [] o[1] = UNSAT     -> ~Satisfiable(cfg, q)       \* rejected only if no configured matching collection could serve it
    [] o[1] = MALFORMED -> ~WellFormed(q)             \* "cpu must be a power of two ...", "unknown machine type"
    [] OTHER            -> FALSE                      \* neither placed nor rejected (exception)

\* Which clause of Ok a rejected outcome breaks (only used to label violations; the verdict is ~Ok).
Why(cfg, q, o) ==
  CASE o[1] = UNSAT     -> "rejected-but-satisfiable"
    [] o[1] = MALFORMED -> "rejected-as-malformed-but-well-formed"
    [] o[1] = PLACED    ->
         LET coll == o[2]  cores == o[3]  mem == << o[4], o[5] >>  sto == o[6]
         IN  IF sto < 0 \/ sto > MaxDiskGiB[q.cloud] THEN "storage-exceeds-one-disk"
             ELSE IF sto * 1024 < CeilMiB(Bytes(q.sto)) THEN "storage-under-provisioned"
             ELSE IF q.kind = "private"
                  THEN IF coll # 0 \/ cfg.jp # q.cloud \/ ~HasMachine(q.cloud, q.machine) THEN "wrong-collection"
                       ELSE "not-the-named-machine"
             ELSE IF coll \notin DOMAIN cfg.pools THEN "wrong-collection"
             ELSE LET p == cfg.pools[coll]
                  IN  IF ~Matches(p, q) THEN "pool-does-not-match"
                      ELSE IF cores < q.cpu THEN "cores-under-provisioned"
                      ELSE IF q.tier = "" /\ ~Geq(mem, Bytes(q.mem)) THEN "memory-under-provisioned"
                      ELSE "does-not-fit-one-worker"
    [] OTHER -> "neither-placed-nor-rejected"

(* ---------------------------------------------------------------------------------------------------- *)
(* The bounded universe.  Level "model" is the small universe ResourceFitAlg is checked on in the quick tier,  *)
(* "quick" / "thorough" are the universes driven through the real code.                                     *)
Pick(model, quick, thorough) == CASE Level = "model" -> model [] Level = "quick" -> quick [] OTHER -> thorough

CpuValid    == Pick({250, 2000, 64000}, {250, 1000, 16000, 64000},
                    {250, 500, 1000, 2000, 4000, 8000, 16000, 32000, 64000, 128000})
CpuInvalid  == Pick({750}, {750}, {125, 750, 1500, 3000, 6000})       \* exact binary fractions that are not packable
BoundaryCpu == Pick({1000}, {250, 1000, 16000}, {250, 1000, 4000, 16000, 64000})

\* memory amounts: a fixed spread, plus - derived from the tables - the amount at which each packable size of each
\* worker family is exactly full, one MiB more, and one byte more
Boundaries(cl) == { (c * PerCoreMiB(cl, ty)) \div 1000 : c \in BoundaryCpu, ty \in WorkerTypes(cl) }
BaseMem == Pick({Amt(1, 0, "G"), Amt(26, 1, "Gi"), Amt(1, 0, "Ti")},
                {Amt(1, 0, "Mi"), Amt(1, 0, "G"), Amt(3, 75, "Gi"), Amt(26, 1, "Gi"), Amt(100, 0, "G"), Amt(1, 0, "Ti")},
                {Amt(1, 0, ""), Amt(1, 0, "Mi"), Amt(1, 0, "G"), Amt(1, 0, "Gi"), Amt(3, 75, "Gi"), Amt(6, 50, "Gi"),
                 Amt(7, 0, "Gi"), Amt(8, 0, "G"), Amt(26, 1, "Gi"), Amt(100, 0, "G"), Amt(417, 0, "Gi"),
                 Amt(512, 0, "Gi"), Amt(1, 0, "Ti"), Amt(0, 10, "Gi"), Amt(999, 99, "M"), Amt(2000000, 0, "K"),
                 Amt(2047, 0, "T")})
MemAmounts(cl) ==
  BaseMem \cup { Amt(b, 0, "Mi") : b \in Boundaries(cl) } \cup { Amt(b + 1, 0, "Mi") : b \in Boundaries(cl) }
          \cup { Amt(b * B + 1, 0, "") : b \in { x \in Boundaries(cl) : x < 2040 } }

StoAmounts == Pick({Amt(0, 0, ""), Amt(10, 1, "Gi"), Amt(32769, 0, "Gi"), Amt(65537, 0, "Gi")},
                   {Amt(0, 0, ""), Amt(10, 1, "Gi"), Amt(32769, 0, "Gi"), Amt(65537, 0, "Gi")},
                   {Amt(0, 0, ""), Amt(1, 0, ""), Amt(10, 0, "Gi"), Amt(10, 1, "Gi"), Amt(11, 0, "G"), Amt(1, 50, "Ti"),
                    Amt(32, 0, "Ti"), Amt(32769, 0, "Gi"), Amt(64, 0, "Ti"), Amt(65537, 0, "Gi")})

\* -- sizing: one cloud, pools all preemptible with the empty label, every size combination
SizeReqs(cl) ==
  { PoolReq(cl, cpu, "", mem, sto, TRUE, "") : cpu \in CpuValid \cup CpuInvalid, mem \in MemAmounts(cl), sto \in StoAmounts }
  \cup { PoolReq(cl, cpu, t, NoAmt, sto, TRUE, "") : cpu \in CpuValid \cup CpuInvalid, t \in Tiers, sto \in StoAmounts }
SizePool(w) == Pool(w.cloud, w.type, w.cores, TRUE, "", w.ssd)
SingleCores == Pick({2, 16}, {1, 2, 8, 64}, Pow2)
SizeSingles(cl) == { << SizePool(w) >> : w \in { x \in PoolWorkers : x.cloud = cl /\ x.cores \in SingleCores
                                                                  /\ (Level = "thorough" \/ x.ssd) } }
SizePalette(cl) == { SizePool(w) : w \in { x \in PoolWorkers : x.cloud = cl /\ x.ssd /\ x.cores \in {2, 16} } }
SizeMulti(cl) == { SetToSeq(S) : S \in { T \in SUBSET SizePalette(cl) :
                      /\ Cardinality(T) \in {2, 3}
                      /\ (Level = "model" => Cardinality(T) = 3 /\ Cardinality({ p.cores : p \in T }) = 1)
                      /\ (Level # "thorough" /\ Cardinality(T) = 3 => Cardinality({ p.type : p \in T }) = 3) } }
SizeSuite(cl) == [name |-> "size-" \o cl,
                  cfgs |-> SetToSeq({ Cfg(cl, ps) : ps \in SizeSingles(cl) \cup SizeMulti(cl) }),
                  reqs |-> SetToSeq(SizeReqs(cl))]

\* -- matching: pools of both clouds, both preemptibilities, two labels; few sizes
MatchPalette == { Pool(cl, TierType(cl, t), 4, pre, lab, TRUE) :
                    cl \in Clouds, t \in {"standard", "highmem"}, pre \in BOOLEAN, lab \in Pick({""}, {"", "a"}, {"", "a"}) }
MatchSets == { S \in SUBSET MatchPalette : Cardinality(S) \in Pick({2}, {1, 2}, {1, 2, 3}) }
MatchReqs == { PoolReq(cl, cpu, t, Amt(1, 0, "Gi"), Amt(0, 0, ""), pre, lab) :
                 cl \in Clouds, cpu \in {1000, 8000}, t \in Tiers \cup {""}, pre \in BOOLEAN, lab \in {"", "a"} }
MatchSuite == [name |-> "match",
               cfgs |-> SetToSeq({ Cfg("gcp", SetToSeq(S)) : S \in MatchSets }),
               reqs |-> SetToSeq(MatchReqs)]

\* -- job-private: every machine type of both clouds (the other cloud's names are unknown types)
PrivSto == Pick({Amt(0, 0, ""), Amt(32769, 0, "Gi")},
                {Amt(0, 0, ""), Amt(1, 0, "Gi"), Amt(10, 1, "Gi"), Amt(375, 0, "G"), Amt(32, 0, "Ti"), Amt(32769, 0, "Gi"),
                 Amt(65537, 0, "Gi")},
                {Amt(0, 0, ""), Amt(1, 0, "Gi"), Amt(10, 1, "Gi"), Amt(375, 0, "G"), Amt(32, 0, "Ti"), Amt(32769, 0, "Gi"),
                 Amt(64, 0, "Ti"), Amt(65537, 0, "Gi"), Amt(100, 0, "T")})
PrivReqs == { PrivReq(cl, m.name, sto, pre) : cl \in Clouds, m \in { x \in MachineSet : Level # "model" \/ x.cores <= 8 },
                                              sto \in PrivSto, pre \in BOOLEAN }
PrivSuite == [name |-> "private",
              cfgs |-> SetToSeq({ Cfg(jp, << Pool(jp, TierType(jp, "standard"), 16, TRUE, "", TRUE) >>) : jp \in Clouds }),
              reqs |-> SetToSeq(PrivReqs)]

\* -- pools of the remaining sizes the pool-configuration form accepts (96, 48, 20, 72 cores ...): one pool, a one-core
\*    request by amount and by tier.  Empty when the service only accepts power-of-two pool sizes.
OddSuite == [name |-> "odd-pools",
             cfgs |-> SetToSeq({ Cfg(w.cloud, << Pool(w.cloud, w.type, w.cores, TRUE, "", w.ssd) >>) : w \in { x \in OddWorkers : x.ssd } }),
             reqs |-> SetToSeq({ PoolReq(cl, 1000, t, Amt(1, 0, "Gi"), Amt(0, 0, ""), TRUE, "") : cl \in Clouds, t \in Tiers \cup {""} })]

Suites == << SizeSuite("gcp"), SizeSuite("azure"), MatchSuite, PrivSuite, OddSuite >>
=============================================================================
