------------------------------ MODULE Bunching ------------------------------
(* C19: the batch client cuts the job-group specs and the job specs of a submission into bunches.

   Input  : groups, jobs  - sequences of spec sizes (abstract units; the harness pads each real spec to
                            Unit * size bytes), maxbytes (in units), maxcount.
   Output : "raise"  (the client refuses: some spec alone does not fit under the byte limit), or
            a sequence of bunches, each a sequence of items [t |-> "g"|"j", k |-> index in its input list,
            nb |-> real byte length of the serialised spec].

   Ok is the relation the property demands - it does not say how to pack, only that
     (1) the bunches, concatenated, are exactly g1..gm, j1..jn (all groups, then all jobs, each once, in order,
         bytes intact),
     (2) no bunch is empty,
     (3) the specs of a bunch have together fewer than maxbytes bytes (the client's limit is strict),
     (4) a bunch holds at most maxcount specs,
   and that the client refuses only if no packing can exist.  BunchingAlg.tla models the client's greedy loop
   and lets TLC check that it satisfies this relation for every small input.                            *)
EXTENDS Naturals, Sequences, SequencesExt, FiniteSets, TLC, Json, IOUtils

RECURSIVE SumSeq(_)
SumSeq(s) == IF s = <<>> THEN 0 ELSE Head(s) + SumSeq(Tail(s))
RECURSIVE Flatten(_)
Flatten(ss) == IF ss = <<>> THEN <<>> ELSE Head(ss) \o Flatten(Tail(ss))

\* the items of an input, in submission order
Items(in, unit) == ([i \in 1..Len(in.groups) |-> [t |-> "g", k |-> i, nb |-> unit * in.groups[i]]])
                   \o ([j \in 1..Len(in.jobs) |-> [t |-> "j", k |-> j, nb |-> unit * in.jobs[j]]])
Oversize(in) == \/ (\E i \in 1..Len(in.groups) : in.groups[i] >= in.maxbytes)
                \/ (\E j \in 1..Len(in.jobs) : in.jobs[j] >= in.maxbytes)

Bytes(bunch) == SumSeq([i \in 1..Len(bunch) |-> bunch[i].nb])

OrderOk(in, unit, bs)  == Flatten(bs) = Items(in, unit)
NonEmptyOk(bs)         == \A b \in 1..Len(bs) : Len(bs[b]) >= 1
BytesOk(in, unit, bs)  == \A b \in 1..Len(bs) : Bytes(bs[b]) < unit * in.maxbytes
CountOk(in, bs)        == \A b \in 1..Len(bs) : Len(bs[b]) <= in.maxcount

\* what the client then SENDS (Batch._submit_job_group_bunches, then _submit_job_bunches, over the bunches): pg = the keys of the job
\* groups posted, in posting order (job groups are posted one request after the other); pj = the keys of the jobs posted (job bunches
\* are posted concurrently: any order).  Every job group once and in order, every job exactly once.
PostedOk(in, out) ==
  /\ out.pg = [i \in 1..Len(in.groups) |-> i]
  /\ Len(out.pj) = Len(in.jobs)
  /\ \A j \in 1..Len(in.jobs) : \E n \in 1..Len(out.pj) : out.pj[n] = j

Why(in, unit, out) ==
  IF out.o = "raise" THEN (IF Oversize(in) THEN "ok" ELSE "refused-packable-input")
  ELSE IF out.o # "bunches" THEN "bad-result"
  ELSE IF ~OrderOk(in, unit, out.bunches) THEN "order"
  ELSE IF ~NonEmptyOk(out.bunches) THEN "empty-bunch"
  ELSE IF ~BytesOk(in, unit, out.bunches) THEN "byte-limit"
  ELSE IF ~CountOk(in, out.bunches) THEN "count-limit"
  ELSE IF "pg" \in DOMAIN out /\ ~PostedOk(in, out) THEN "posted"
  ELSE "ok"
Ok(in, unit, out) == Why(in, unit, out) = "ok"

SeqsUpTo(S, n) == UNION { [1..k -> S] : k \in 0..n }
\* every way to cut a sequence into (groups, jobs)
Splits(s) == { [groups |-> SubSeq(s, 1, g), jobs |-> SubSeq(s, g + 1, Len(s))] : g \in 0..Len(s) }
Universe(maxlen, sizes, bytelims, countlims) ==
  { [groups |-> sp.groups, jobs |-> sp.jobs, maxbytes |-> b, maxcount |-> c] :
      sp \in UNION { Splits(s) : s \in SeqsUpTo(sizes, maxlen) }, b \in bytelims, c \in countlims }
=============================================================================
