--------------------------- MODULE BunchingVerdict ---------------------------
(* C19: TLC judges every recorded call of the real Batch._create_bunches with Bunching!Why.
   case = [in |-> input, unit |-> bytes per size unit, out |-> [o, bunches]] *)
EXTENDS Bunching
Cases == ndJsonDeserialize(IOEnv.BU_CASES)
ASSUME LET N   == Len(Cases)
           Bad == { i \in 1..N : ~Ok(Cases[i].in, Cases[i].unit, Cases[i].out) }
       IN JsonSerialize(IOEnv.BU_VERDICT,
            [n |-> N,
             raised |-> Cardinality({ i \in 1..N : Cases[i].out.o = "raise" }),
             multi  |-> Cardinality({ i \in 1..N : Cases[i].out.o = "bunches" /\ Len(Cases[i].out.bunches) >= 2 }),
             bad |-> SetToSeq({ [i |-> i, why |-> Why(Cases[i].in, Cases[i].unit, Cases[i].out)] : i \in Bad })])
=============================================================================
