--------------------------------- MODULE Acl ---------------------------------
(* C14: access control of the batch front end (batch/batch/front_end/front_end.py, gear/gear/auth.py).

   The world.  Batch b1, owned by u1, in billing project "proj"; a second project "other" with the single member u3,
   who owns batch b2 there.  Who belongs to "proj" depends on the world variant:
        base, open1     {u1, u2}                  (open1: the batch's first update is complete but not yet committed)
        owner_removed   {u2}                      the owner no longer belongs to the batch's billing project
        extra_members   {u1, u2, dev, inactive}   a developer and an inactive user are members
   Callers: u1 owner, u2 member, u3 outsider, dev developer, auth the auth service account, inactive an inactive
   user, idev an inactive developer, ci another service account (is_service_account, not a developer, member of no
   project: it must be refused by rule 4 like any plain user), anon no credentials.

   A request is (route class, caller, world, target batch/project, input variant).  Route classes (the harness maps EVERY registered route
   to one of them by method and path pattern; a non-public route that fits nothing is "authed"):
        public        health, version / cloud information, documentation, legal pages, static assets
        authed        any other route: an authenticated active user is required, nothing more is demanded
        create        create a batch in a billing project (only rule 1 is demanded by the statement)
        batch_member  read / cancel / delete the batch, its jobs, groups, logs, billing
        batch_owner   add jobs, job groups, updates; commit; close
        bp_admin      administer billing projects and limits
        bp_read       read one billing project
        list_batches  listings of batches        (observable: the batches shown)
        list_billing  listings of billing data   (observable: the (project, user) pairs shown)

   Policy is the property: the four rules of the statement as the predicate Allowed, and
        ~Allowed  =>  the caller gets an error and no table changes;
        every item shown by a listing is one the caller may read.
   It is a relation on observations, not a re-implementation: an allowed caller may still be refused.

   The decorator chain of the code is modelled by the stage functions below (StageAuth = authenticated_users_only,
   StageGate = billing_project_users_only / authenticated_developers_only / authenticated_developers_or_auth_only,
   StageHandler = the `user = %s` owner filter of the handlers' first query); module AclPipeline runs them as a
   state machine and TLC proves that the chain implements Policy.  The binding (checks/c14.py) drives the real
   handlers; TLC judges every recorded (request, outcome, tables-changed, items-shown) tuple with Policy and
   compares the real answer with the model's (Predicted).                                                       *)
EXTENDS Naturals, Sequences, SequencesExt, FiniteSets, TLC, Json, IOUtils

Callers  == {"u1", "u2", "u3", "dev", "auth", "ci", "inactive", "idev", "anon"}
Worlds   == {"base", "open1", "owner_removed", "extra_members"}
Projects == {"proj", "other"}

(* the batch (or billing project) a request names: b1 = u1's batch in "proj", b2 = u3's batch in "other" *)
OwnerOf(t) == IF t = "b2" THEN "u3" ELSE "u1"
ProjOf(t)  == IF t = "b2" THEN "other" ELSE "proj"

Members(w, p) == IF p = "proj"
                 THEN CASE w = "owner_removed" -> {"u2"}
                        [] w = "extra_members" -> {"u1", "u2", "dev", "inactive"}
                        [] OTHER               -> {"u1", "u2"}
                 ELSE IF p = "other" THEN {"u3"} ELSE {}

Authenticated(c) == c # "anon"
Active(c)        == Authenticated(c) /\ c \notin {"inactive", "idev"}
Developer(c)     == c \in {"dev", "idev"}
ServiceAccount(c) == c \in {"auth", "ci"}     \* is_service_account; "ci" stands for every service account other than auth
AuthService(c)   == c = "auth"                \* rule 4 names the auth service, not service accounts in general
Privileged(c)    == Developer(c) \/ AuthService(c)

Classes == {"public", "authed", "create", "batch_member", "batch_owner", "bp_admin", "bp_read", "list_batches", "list_billing"}
Listing == {"list_batches", "list_billing"}
Scoped  == {"batch_member", "batch_owner", "bp_admin", "bp_read"}      \* classes whose routes name a batch / project

(* input variants: an update token that is new / that equals the token of an existing open update of the batch;
   a listing query that is the default / unrestricted / names the foreign user *)
Variants(cls) == CASE cls = "batch_owner" -> {"fresh_token", "known_token"}
                   [] cls \in Listing     -> {"default", "all", "foreign"}
                   [] OTHER               -> {"default"}
Targets(cls)  == IF cls \in Scoped THEN {"b1", "b2"} ELSE {"none"}

Requests == UNION { { [cls |-> cls, caller |-> c, world |-> w, target |-> t, variant |-> v] :
                      c \in Callers, w \in Worlds, t \in Targets(cls), v \in Variants(cls) } : cls \in Classes }

(* ---- the property --------------------------------------------------------------------------------------------- *)
(* Rule 1: every endpoint except the public ones requires an authenticated, active user.
   Rule 2: read / cancel / delete a batch only as a member of its billing project.
   Rule 3: add jobs, groups, updates, commit only as the owner.
   Rule 4: administer billing projects only as a developer or the auth service.                                 *)
Allowed(cls, c, w, t) ==
    CASE cls = "public"       -> TRUE
      [] cls = "batch_member" -> Active(c) /\ c \in Members(w, ProjOf(t))
      [] cls = "batch_owner"  -> Active(c) /\ c = OwnerOf(t)
      [] cls = "bp_admin"     -> Active(c) /\ Privileged(c)
      [] cls = "bp_read"      -> Active(c) /\ (c \in Members(w, ProjOf(t)) \/ Privileged(c))
      [] OTHER                -> Active(c)

(* an item shown by a listing: [proj |-> billing project, user |-> the batch owner / the user whose usage it is, "" if none] *)
Visible(cls, c, w, item) ==
    IF cls = "list_batches" THEN c \in Members(w, item.proj)
    ELSE c \in Members(w, item.proj) \/ item.user = c \/ Privileged(c)

(* a recorded case k:
     cls caller world target variant      the request
     outcome   "refused"      401 / 403 / 404 / redirect to the login page
               "clienterror"  another 4xx answer
               "servererror"  5xx, or an exception escaping the handler that production turns into a 500
               "passed"       anything else: 2xx, a redirect elsewhere, or the handler body was reached and stopped at a
                              statement the SQL engine of the harness cannot execute
     status    the HTTP status (0 for a crash)
     changed   some table of the database differs after the call
     seen      items shown (sequence of [proj, user]); mode "rows" when read from the response, "filter" when the
               listing's SQL could not be executed by the engine and only the user bound to its membership filter was
               recorded (fuser), "none" otherwise                                                                *)
Outcomes == {"refused", "clienterror", "servererror", "passed"}
WellFormed(k) == /\ k.cls \in Classes /\ k.caller \in Callers /\ k.world \in Worlds
                 /\ k.target \in Targets(k.cls) /\ k.variant \in Variants(k.cls)
                 /\ k.outcome \in Outcomes /\ k.changed \in BOOLEAN /\ k.mode \in {"rows", "filter", "none"}
                 /\ \A i \in 1 .. Len(k.seen) : k.seen[i].proj \in Projects

IsError(k)  == k.outcome \in {"refused", "clienterror", "servererror"}
GateOk(k)   == Allowed(k.cls, k.caller, k.world, k.target) \/ (IsError(k) /\ ~k.changed)
SeenOk(k)   == \A i \in 1 .. Len(k.seen) : Visible(k.cls, k.caller, k.world, k.seen[i])
FilterOk(k) == k.mode = "filter" => (k.fuser = k.caller \/ (k.cls = "list_billing" /\ Privileged(k.caller)))
Policy(k)   == WellFormed(k) /\ GateOk(k) /\ SeenOk(k) /\ FilterOk(k)

(* ---- the decorator chain (what the code does) ---------------------------------------------------------------- *)
(* which decorator guards a route of the class *)
Decorator(cls) == CASE cls = "public"       -> "none"
                    [] cls = "batch_member" -> "billing_project_users_only"
                    [] cls = "bp_admin"     -> "developers_or_auth"      \* the UI twins use authenticated_developers_only
                    [] OTHER                -> "authenticated_users_only"

(* authenticated_users_only: no userdata -> 401 (API) or redirect to login (web); inactive -> 403 *)
StageAuth(cls, c) == IF Decorator(cls) = "none" THEN "next"
                     ELSE IF ~Authenticated(c) THEN "unauthenticated"
                     ELSE IF ~Active(c) THEN "forbidden"
                     ELSE "next"
(* the decorator's own test: _user_can_access -> 404; is_developer / username = auth -> 401 *)
StageGate(cls, c, w, t) ==
    CASE Decorator(cls) = "billing_project_users_only" -> IF c \in Members(w, ProjOf(t)) THEN "next" ELSE "notfound"
      [] Decorator(cls) = "developers_or_auth"         -> IF Privileged(c) THEN "next" ELSE "unauthorized"
      [] OTHER -> "next"
(* the handler's first query: `... AND user = %s` -> 404; billing project lookup restricted to the caller -> 403 *)
StageHandler(cls, c, w, t) ==
    CASE cls = "batch_owner" -> IF c = OwnerOf(t) THEN "handled" ELSE "notfound"
      [] cls = "bp_read"     -> IF c \in Members(w, ProjOf(t)) \/ Privileged(c) THEN "handled" ELSE "forbidden"
      [] OTHER -> "handled"
Predicted(cls, c, w, t) == IF StageAuth(cls, c) # "next" THEN StageAuth(cls, c)
                           ELSE IF StageGate(cls, c, w, t) # "next" THEN StageGate(cls, c, w, t)
                           ELSE StageHandler(cls, c, w, t)
(* the HTTP statuses each model answer stands for *)
StatusOf(a) == CASE a = "unauthenticated" -> {401, 302, 307}
                 [] a = "unauthorized"    -> {401}
                 [] a = "forbidden"       -> {403}
                 [] a = "notfound"        -> {404}
                 [] OTHER                 -> {}

(* the chain implements the rules, for every request (evaluated by TLC here, and again as an invariant of AclPipeline) *)
ChainImplementsPolicy ==
    \A r \in Requests : (Predicted(r.cls, r.caller, r.world, r.target) = "handled") <=> Allowed(r.cls, r.caller, r.world, r.target)

(* ---- B3 plumbing ------------------------------------------------------------------------------------------------ *)
Gen == /\ Assert(ChainImplementsPolicy, "the modelled decorator chain does not implement the policy")
       /\ ndJsonSerialize(IOEnv.ACL_INPUTS, SetToSeq(Requests))

Cases == ndJsonDeserialize(IOEnv.ACL_CASES)
(* one judgement per case: ok = Policy, its parts separately (for the signature), and whether the real answer is the
   model's (agree; informational: the property does not prescribe the status) *)
Judge(k) == IF ~WellFormed(k)
            THEN [ok |-> FALSE, wf |-> FALSE, allowed |-> FALSE, gate |-> FALSE, seen |-> FALSE, filter |-> FALSE, model |-> "?", agree |-> FALSE]
            ELSE LET p == Predicted(k.cls, k.caller, k.world, k.target) IN
                 [ok |-> Policy(k), wf |-> TRUE, allowed |-> Allowed(k.cls, k.caller, k.world, k.target), gate |-> GateOk(k),
                  seen |-> SeenOk(k), filter |-> FilterOk(k), model |-> p,
                  agree |-> IF p = "handled" THEN k.outcome # "refused" ELSE k.status \in StatusOf(p)]
Verdict == ndJsonSerialize(IOEnv.ACL_VERDICT, [i \in 1 .. Len(Cases) |-> Judge(Cases[i])])
=============================================================================
