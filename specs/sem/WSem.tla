-------------------------------- MODULE WSem --------------------------------
(* C40: hailtop/aiotools/weighted_semaphore.py WeightedSemaphore (+ _AcquireManager), the copy tool's
   transfer semaphore, together with the part of asyncio that decides the interleavings: the FIFO queue
   of ready task steps (rq) and the delivery of task.cancel().

   A task runs    async with sem.acquire_manager(w): <work>
   One action per atomic region (code between two awaits) or per external operation:

     Start(t,w)  a task is created (its first step is queued)
     Finish(t)   the work of holder t ends normally      (its __aexit__ is now due)
     Fail(t)     the work of holder t raises an exception (its __aexit__ is now due)
     Cancel(t)   somebody calls task.cancel() on t: while it has not started, while it waits in
                 acquire(), between release()'s grant and the waiter's resumption, or while it holds.
                 asyncio: a task blocked on a pending future has that future cancelled and its wake-up
                 queued; a task whose wake-up is already queued gets _must_cancel and CancelledError is
                 thrown into it at that step instead.  (cx[t] = "CancelledError is on its way to t".)
     Step        asyncio runs the task at the head of the ready queue up to its next await:
                   pc=start   : (cx: the coroutine is never entered) else acquire(w): fast path
                                (value >= w, whatever is queued: small requests may overtake) or
                                insert (w, event) into the weight-sorted list and wait
                   pc=waiting : only queued when cancelled: CancelledError out of `await event.wait()`
                   pc=granted : the waiter resumes after event.set(); release() already took its weight
                                out of `value`; (cx: CancelledError instead)
                   pc=exit    : __aexit__: release(w): value += w, then the whole wake-up loop

   CancelSafe selects what acquire() does when CancelledError comes out of `await event.wait()`:
     TRUE  (intended behaviour, the one the check binds the code to):  if the event is already set the
           weight is handed back with release(n), otherwise the (n, event) entry is removed;
     FALSE (as found in the repository): nothing - the entry of a cancelled waiter stays in `events`
           and a later release() grants weight to it; a waiter cancelled after the grant keeps the weight.
   With FALSE TLC refutes C40_Conservation / C40_NoLeak / C40_Quiescent / C40_NoDeadWaiter.
*)
EXTENDS Naturals, Sequences, FiniteSets, TLC

CONSTANTS Tasks, Weights, Capacity, CancelSafe
ASSUME CancelSafe \in BOOLEAN /\ Capacity \in Nat

VARIABLES
  value,    \* sem.value
  events,   \* sem.events as a sequence of [t, w]: sorted by w, equal weights in insertion order
  pc, wt,   \* per task: control state, requested weight
  cx,       \* per task: cancellation requested and not yet delivered
  how,      \* per task: how the work ended ("ok"/"err") and, once done, how the task ended ("ok"/"err"/"cancel")
  rq,       \* asyncio's ready queue (task names)
  took,     \* ghost: weight currently taken out of `value` on behalf of t and not yet given back by t
  cbg       \* ghost: tasks cancelled while waiting, i.e. before being granted

vars == <<value, events, pc, wt, cx, how, rq, took, cbg>>

Init ==
  /\ value = Capacity
  /\ events = <<>>
  /\ pc = [t \in Tasks |-> "idle"]
  /\ wt = [t \in Tasks |-> 0]
  /\ cx = [t \in Tasks |-> FALSE]
  /\ how = [t \in Tasks |-> "none"]
  /\ rq = <<>>
  /\ took = [t \in Tasks |-> 0]
  /\ cbg = {}

SeqToSet(s) == { s[i] : i \in 1..Len(s) }

\* ---- external operations ---------------------------------------------------------------------------
Start(t, w) ==
  /\ pc[t] = "idle" /\ w \in Weights /\ w <= Capacity        \* acquire asserts n <= max
  /\ pc' = [pc EXCEPT ![t] = "start"]
  /\ wt' = [wt EXCEPT ![t] = w]
  /\ rq' = Append(rq, t)
  /\ UNCHANGED <<value, events, cx, how, took, cbg>>

Finish(t) ==
  /\ pc[t] = "holding"
  /\ pc' = [pc EXCEPT ![t] = "exit"]
  /\ how' = [how EXCEPT ![t] = "ok"]
  /\ rq' = Append(rq, t)
  /\ UNCHANGED <<value, events, wt, cx, took, cbg>>

Fail(t) ==
  /\ pc[t] = "holding"
  /\ pc' = [pc EXCEPT ![t] = "exit"]
  /\ how' = [how EXCEPT ![t] = "err"]
  /\ rq' = Append(rq, t)
  /\ UNCHANGED <<value, events, wt, cx, took, cbg>>

Cancel(t) ==
  /\ pc[t] \in {"start", "waiting", "granted", "holding", "exit"} /\ ~cx[t]
  /\ cx' = [cx EXCEPT ![t] = TRUE]
  /\ CASE pc[t] = "waiting" ->          \* the future inside event.wait() is cancelled, wake-up queued;
            /\ rq' = Append(rq, t)      \* the (w, event) entry is still in `events`
            /\ cbg' = cbg \cup {t}
            /\ UNCHANGED pc
       [] pc[t] = "holding" ->          \* the work is interrupted; __aexit__ is now due
            /\ rq' = Append(rq, t)
            /\ pc' = [pc EXCEPT ![t] = "exit"]
            /\ UNCHANGED cbg
       [] OTHER ->                      \* a step of t is queued already: _must_cancel
            UNCHANGED <<rq, pc, cbg>>
  /\ UNCHANGED <<value, events, wt, how, took>>

\* ---- the semaphore ----------------------------------------------------------------------------------
\* SortedKeyList.add: bisect_right on the key, i.e. behind every entry of weight <= w
Insert(ev, e) ==
  LET k == Cardinality({ i \in 1..Len(ev) : ev[i].w <= e.w })
  IN  SubSeq(ev, 1, k) \o <<e>> \o SubSeq(ev, k + 1, Len(ev))

Without(ev, t) == SelectSeq(ev, LAMBDA e : e.t # t)

\* the loop of release(): pop the smallest entry while it fits.  <<value, events, granted tasks in order>>
RECURSIVE WakeLoop(_, _, _)
WakeLoop(v, ev, g) ==
  IF ev # <<>> /\ v >= Head(ev).w THEN WakeLoop(v - Head(ev).w, Tail(ev), Append(g, Head(ev).t))
  ELSE <<v, ev, g>>

\* release(wt[t]) called by t, which thereby ends as `outcome`.  event.set() on the event of a live waiter
\* that is not being cancelled queues its wake-up; the future of a cancelled waiter is done already, so
\* nothing more is queued for it (its wake-up is in rq since Cancel); the waiter of a dead entry is gone.
ReleaseBy(t, outcome) ==
  LET r == WakeLoop(value + wt[t], events, <<>>)
      G == SeqToSet(r[3])
  IN
  /\ value' = r[1]
  /\ events' = r[2]
  /\ pc' = [u \in Tasks |-> IF u = t THEN "done"
                            ELSE IF u \in G /\ pc[u] = "waiting" THEN "granted" ELSE pc[u]]
  /\ rq' = Tail(rq) \o SelectSeq(r[3], LAMBDA u : pc[u] = "waiting" /\ ~cx[u])
  /\ took' = [u \in Tasks |-> IF u = t THEN 0 ELSE IF u \in G THEN took[u] + wt[u] ELSE took[u]]
  /\ how' = [how EXCEPT ![t] = outcome]
  /\ cx' = [cx EXCEPT ![t] = FALSE]

\* t ends as cancelled without touching the semaphore
DieCancelled(t) ==
  /\ pc' = [pc EXCEPT ![t] = "done"]
  /\ how' = [how EXCEPT ![t] = "cancel"]
  /\ cx' = [cx EXCEPT ![t] = FALSE]
  /\ rq' = Tail(rq)

Step ==
  /\ rq # <<>>
  /\ LET t == Head(rq) IN
     CASE pc[t] = "start" /\ cx[t] ->
            /\ DieCancelled(t)
            /\ UNCHANGED <<value, events, wt, took, cbg>>
       [] pc[t] = "start" /\ ~cx[t] ->
            /\ IF value >= wt[t]
               THEN /\ value' = value - wt[t]
                    /\ took' = [took EXCEPT ![t] = wt[t]]
                    /\ pc' = [pc EXCEPT ![t] = "holding"]
                    /\ UNCHANGED events
               ELSE /\ events' = Insert(events, [t |-> t, w |-> wt[t]])
                    /\ pc' = [pc EXCEPT ![t] = "waiting"]
                    /\ UNCHANGED <<value, took>>
            /\ rq' = Tail(rq)
            /\ UNCHANGED <<wt, cx, how, cbg>>
       [] pc[t] = "waiting" ->                      \* cx[t]: CancelledError while still queued
            /\ DieCancelled(t)
            /\ events' = IF CancelSafe THEN Without(events, t) ELSE events
            /\ UNCHANGED <<value, wt, took, cbg>>
       [] pc[t] = "granted" /\ ~cx[t] ->
            /\ pc' = [pc EXCEPT ![t] = "holding"]
            /\ rq' = Tail(rq)
            /\ UNCHANGED <<value, events, wt, cx, how, took, cbg>>
       [] pc[t] = "granted" /\ cx[t] ->             \* CancelledError although the weight is ours already
            /\ IF CancelSafe
               THEN ReleaseBy(t, "cancel")
               ELSE DieCancelled(t) /\ UNCHANGED <<value, events, took>>
            /\ UNCHANGED <<wt, cbg>>
       [] pc[t] = "exit" ->                         \* _AcquireManager.__aexit__
            /\ ReleaseBy(t, IF cx[t] THEN "cancel" ELSE how[t])
            /\ UNCHANGED <<wt, cbg>>
       [] OTHER -> FALSE

Next == \/ \E t \in Tasks, w \in Weights : Start(t, w)
        \/ \E t \in Tasks : Finish(t) \/ Fail(t) \/ Cancel(t)
        \/ Step

Spec == Init /\ [][Next]_vars
FairSpec == Spec /\ WF_vars(Step) /\ \A t \in Tasks : WF_vars(Finish(t))

----------------------------------------------------------------------------
\* ---- properties ---------------------------------------------------------------------------
States == {"idle", "start", "waiting", "granted", "holding", "exit", "done"}
TypeOK ==
  /\ value \in 0..Capacity
  /\ \A t \in Tasks : pc[t] \in States /\ cx[t] \in BOOLEAN /\ how[t] \in {"none", "ok", "err", "cancel"}
  /\ \A i \in 1..Len(events) : events[i].t \in Tasks /\ events[i].w = wt[events[i].t]

\* a task owns its weight from the grant (fast path or release()) until its own release()
Owns(t) == pc[t] \in {"granted", "holding", "exit"}
RECURSIVE Sum(_, _)
Sum(f, S) == IF S = {} THEN 0 ELSE LET t == CHOOSE x \in S : TRUE IN f[t] + Sum(f, S \ {t})
Held == Sum([t \in Tasks |-> IF Owns(t) THEN wt[t] ELSE 0], Tasks)

\* (1) never more than the capacity granted
C40_Capacity == Held <= Capacity /\ value >= 0 /\ Sum(took, Tasks) <= Capacity

\* (2) every granted weight is returned when the holder exits, however it exits: what is missing from
\*     `value` is exactly what the live owners hold, and a finished task has nothing
C40_Conservation == value + Held = Capacity
C40_NoLeak == \A t \in Tasks : (pc[t] \in {"idle", "start", "waiting", "done"}) => took[t] = 0
C40_OwnerHasIt == \A t \in Tasks : Owns(t) => took[t] = wt[t]

\* (3) at quiescence everything is back
Quiescent == rq = <<>> /\ \A t \in Tasks : pc[t] \in {"idle", "done"}
C40_Quiescent == Quiescent => value = Capacity /\ events = <<>>

\* (4) a waiter cancelled before being granted does not consume capacity: it never gets into the critical
\*     section, no entry of a finished task stays behind to be granted later, and if release() picks it
\*     in the short time before the CancelledError reaches it, the step that hands the weight back is
\*     queued already (and the weight is back when the task is done: C40_NoLeak).
C40_CancelledNeverHolds == \A t \in cbg : pc[t] \in {"waiting", "granted", "done"} /\ (pc[t] # "done" => cx[t])
C40_NoDeadWaiter == \A i \in 1..Len(events) : pc[events[i].t] = "waiting"
C40_HandBackQueued == \A t \in cbg : took[t] > 0 => t \in SeqToSet(rq)

\* ---- more than C40 states: the shape of the data structure and the wake-up discipline --------------
WS_Sorted == \A i \in 1..Len(events) : \A j \in i..Len(events) : events[i].w <= events[j].w
WS_OneEntryPerWaiter ==
  /\ \A i, j \in 1..Len(events) : events[i].t = events[j].t => i = j
  /\ \A t \in Tasks : pc[t] = "waiting" => \E i \in 1..Len(events) : events[i].t = t
\* release() leaves no waiter blocked that fits
WS_NoBlockedSmallest == events # <<>> => value < Head(events).w
\* every queued step belongs to a task that has something to do; nobody is queued twice
WS_ReadyQueue ==
  /\ \A i, j \in 1..Len(rq) : rq[i] = rq[j] => i = j
  /\ \A t \in Tasks : (t \in SeqToSet(rq)) <=> (pc[t] \in {"start", "granted", "exit"} \/ (pc[t] = "waiting" /\ cx[t]))
WS_Outcome ==
  \A t \in Tasks :
    /\ pc[t] = "done" => how[t] \in {"ok", "err", "cancel"}
    /\ how[t] = "cancel" => pc[t] = "done"
    /\ pc[t] \in {"idle", "start", "waiting", "granted", "holding"} => how[t] = "none"

\* liveness (FairSpec, CancelSafe): every waiter is eventually granted or cancelled, provided holders finish
WS_Live == \A t \in Tasks : (pc[t] = "waiting") ~> (pc[t] # "waiting")
WS_EventuallyQuiescent == <>[](\A t \in Tasks : pc[t] \in {"idle", "done"})
=============================================================================
