----------------------------- MODULE WSemSite -----------------------------
(* C40 at the call sites of the transfer semaphore (hailtop/aiotools/fs/copier.py SourceCopier._copy_file / _copy_part):
   a holder is one run of such a function; whatever happens inside it (an error, a time-out or a cancellation at any
   await point of the file-system operations it performs), the weight it was granted is back when it has ended, and the
   weight in use never exceeds the capacity.  These are C40_Quiescent and C40_Capacity of WSem.tla stated on the
   observation of one faulted run:
     [fn, fault, at, capacity, final (semaphore value when the function has ended), maxinuse, ended]                  *)
EXTENDS Naturals, Sequences, SequencesExt, FiniteSets, TLC, Json, IOUtils

Cases == ndJsonDeserialize(IOEnv.WS_CASES)
Ok(c) == /\ c.ended
         /\ c.final = c.capacity          \* every granted weight is returned when the holder exits (normally, by error or by cancellation)
         /\ c.maxinuse <= c.capacity      \* never more than the capacity
Bad == { i \in 1 .. Len(Cases) : ~Ok(Cases[i]) }
Verdict == JsonSerialize(IOEnv.WS_VERDICT, [n |-> Len(Cases), bad |-> SetToSeq(Bad),
                                            faulted |-> Cardinality({ i \in 1 .. Len(Cases) : Cases[i].fault # "none" /\ Cases[i].hit })])
ASSUME Verdict
=============================================================================
