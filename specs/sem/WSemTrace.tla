----------------------------- MODULE WSemTrace -----------------------------
(* Trace validation (B2) for WSem: each line of the ndjson file is one recorded execution of the real
   WeightedSemaphore under the deterministic event loop:
     [ev |-> << [a |-> "Start"|"Finish"|"Fail"|"Cancel"|"Step", t, w,
                 post |-> [value, events |-> <<[t, w], ...>>, pc, cx, how, rq]], ... >>]
   Every event must be a step of WSem with the logged arguments whose successor state projects to the
   logged post-state (every logged field is constrained).  A trace that cannot be continued is a
   deadlock of this specification; all invariants of WSem are evaluated on every state.            *)
EXTENDS WSem, Json, IOUtils

Traces == ndJsonDeserialize(IOEnv.TRACE_FILE)
VARIABLES tid, l
tvars == <<vars, tid, l>>

TraceInit == Init /\ tid \in 1..Len(Traces) /\ l = 1

Ev == Traces[tid].ev

PostOk(p) ==
  /\ value' = p.value
  /\ Len(events') = Len(p.events)
  /\ \A i \in 1..Len(p.events) : events'[i].t = p.events[i].t /\ events'[i].w = p.events[i].w
  /\ \A t \in Tasks : pc'[t] = p.pc[t] /\ cx'[t] = p.cx[t] /\ how'[t] = p.how[t]
  /\ rq' = p.rq

TraceStep ==
  /\ l <= Len(Ev)
  /\ LET e == Ev[l] IN
     /\ \/ e.a = "Start"  /\ Start(e.t, e.w)
        \/ e.a = "Finish" /\ Finish(e.t)
        \/ e.a = "Fail"   /\ Fail(e.t)
        \/ e.a = "Cancel" /\ Cancel(e.t)
        \/ e.a = "Step"   /\ Step
     /\ PostOk(e.post)
  /\ l' = l + 1 /\ UNCHANGED tid

TraceDone == l > Len(Ev) /\ UNCHANGED tvars

TraceNext == TraceStep \/ TraceDone
TraceSpec == TraceInit /\ [][TraceNext]_tvars
=============================================================================
