------------------------------ MODULE FifoSem ------------------------------
(* C16: batch/batch/semaphore.py FIFOWeightedSemaphore, used by the worker as its CPU semaphore,
   together with the part of asyncio that decides the interleavings: the FIFO queue of ready task
   steps (rq).  One action per atomic region of the code (code between two awaits):

     Start(t,w)  the harness/worker creates a task that will run `async with sem(w): <work>`
     Finish(t)   the work of holder t ends (its __aexit__ is now due)
     Step        asyncio runs the task at the head of the ready queue up to its next await:
                   pc=start   : acquire(w): fast path (queue empty /\ value >= w) or enqueue + wait
                   pc=granted : the waiter resumes after event.set(); it already owns its weight
                   pc=exit    : release(w): value += w, then the whole wake-up loop, atomically
*)
EXTENDS Naturals, Sequences, FiniteSets, TLC

CONSTANTS Tasks, Weights, Capacity
VARIABLES value, queue, pc, wt, rq, arrivals, grants

vars == <<value, queue, pc, wt, rq, arrivals, grants>>

Init ==
  /\ value = Capacity
  /\ queue = <<>>
  /\ pc = [t \in Tasks |-> "idle"]
  /\ wt = [t \in Tasks |-> 0]
  /\ rq = <<>>
  /\ arrivals = <<>>
  /\ grants = <<>>

Start(t, w) ==
  /\ pc[t] = "idle" /\ w \in Weights /\ w <= Capacity
  /\ pc' = [pc EXCEPT ![t] = "start"]
  /\ wt' = [wt EXCEPT ![t] = w]
  /\ rq' = Append(rq, t)
  /\ UNCHANGED <<value, queue, arrivals, grants>>

Finish(t) ==
  /\ pc[t] = "holding"
  /\ pc' = [pc EXCEPT ![t] = "exit"]
  /\ rq' = Append(rq, t)
  /\ UNCHANGED <<value, queue, wt, arrivals, grants>>

\* the wake-up loop of release(): pop heads while they fit.  Returns <<value, queue, granted tasks in order>>
RECURSIVE WakeLoop(_, _, _)
WakeLoop(v, q, g) ==
  IF q # <<>> /\ v >= Head(q).w THEN WakeLoop(v - Head(q).w, Tail(q), Append(g, Head(q).t))
  ELSE <<v, q, g>>

SeqToSet(s) == { s[i] : i \in 1..Len(s) }

Step ==
  /\ rq # <<>>
  /\ LET t == Head(rq) IN
     CASE pc[t] = "start" ->
            /\ arrivals' = Append(arrivals, t)
            /\ IF queue = <<>> /\ value >= wt[t]
               THEN /\ value' = value - wt[t]
                    /\ pc' = [pc EXCEPT ![t] = "holding"]
                    /\ grants' = Append(grants, t)
                    /\ UNCHANGED queue
               ELSE /\ queue' = Append(queue, [t |-> t, w |-> wt[t]])
                    /\ pc' = [pc EXCEPT ![t] = "waiting"]
                    /\ UNCHANGED <<value, grants>>
            /\ rq' = Tail(rq)
            /\ UNCHANGED wt
       [] pc[t] = "granted" ->
            /\ pc' = [pc EXCEPT ![t] = "holding"]
            /\ rq' = Tail(rq)
            /\ UNCHANGED <<value, queue, wt, arrivals, grants>>
       [] pc[t] = "exit" ->
            LET r == WakeLoop(value + wt[t], queue, <<>>) IN
            /\ value' = r[1]
            /\ queue' = r[2]
            /\ pc' = [u \in Tasks |-> IF u = t THEN "done"
                                      ELSE IF u \in SeqToSet(r[3]) THEN "granted" ELSE pc[u]]
            /\ rq' = Tail(rq) \o r[3]
            /\ grants' = grants \o r[3]
            /\ UNCHANGED <<wt, arrivals>>
       [] OTHER -> FALSE

Next == (\E t \in Tasks, w \in Weights : Start(t, w)) \/ (\E t \in Tasks : Finish(t)) \/ Step

Spec == Init /\ [][Next]_vars
FairSpec == Spec /\ WF_vars(Step) /\ \A t \in Tasks : WF_vars(Finish(t))

----------------------------------------------------------------------------
\* ---- properties ---------------------------------------------------------------------------
Holds(t) == pc[t] \in {"granted", "holding", "exit"}
RECURSIVE SumHeld(_)
SumHeld(S) == IF S = {} THEN 0 ELSE LET t == CHOOSE x \in S : TRUE IN (IF Holds(t) THEN wt[t] ELSE 0) + SumHeld(S \ {t})

TypeOK == value \in 0..Capacity /\ \A t \in Tasks : pc[t] \in {"idle", "start", "waiting", "granted", "holding", "exit", "done"}

\* never more than the capacity granted at once; nothing lost (conservation)
C16_Capacity     == SumHeld(Tasks) <= Capacity /\ value >= 0
C16_Conservation == value + SumHeld(Tasks) = Capacity

\* strictly in arrival order: the sequence of grants is a prefix of the sequence of arrivals
IsPrefix(s, t) == Len(s) <= Len(t) /\ \A i \in 1..Len(s) : s[i] = t[i]
C16_Fifo == IsPrefix(grants, arrivals)

\* no waiter at the head of the queue is left blocked while its weight is free
C16_NoBlockedHead == queue # <<>> => value < Head(queue).w

\* the queue is exactly the arrived-but-not-granted tasks, in arrival order
C16_QueueShape == \A i \in 1..Len(queue) : queue[i].t = arrivals[Len(grants) + i] /\ pc[queue[i].t] = "waiting"

\* liveness (under fairness): every waiter is eventually granted provided holders finish
C16_Live == \A t \in Tasks : (pc[t] = "waiting") ~> (pc[t] \in {"granted", "holding", "exit", "done"})
=============================================================================
