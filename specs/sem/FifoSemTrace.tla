---------------------------- MODULE FifoSemTrace ----------------------------
(* Trace validation (B2) for FifoSem: each line of the ndjson file is one recorded execution of the
   real FIFOWeightedSemaphore under the deterministic event loop:
     [ev |-> << [a |-> "Start"|"Finish"|"Step", t, w, post |-> [value, qw, pc, rq]] , ... >>]
   Every event must be a step of FifoSem with the logged arguments whose successor state projects to
   the logged post-state.  A trace that cannot be continued is a deadlock of this specification.   *)
EXTENDS FifoSem, Json, IOUtils

Traces == ndJsonDeserialize(IOEnv.TRACE_FILE)
VARIABLES tid, l
tvars == <<vars, tid, l>>

TraceInit == Init /\ tid \in 1..Len(Traces) /\ l = 1

Ev == Traces[tid].ev

QW(q) == [i \in 1..Len(q) |-> q[i].w]
PostOk(p) ==
  /\ value' = p.value
  /\ QW(queue') = p.qw
  /\ \A t \in Tasks : pc'[t] = p.pc[t]
  /\ rq' = p.rq

TraceStep ==
  /\ l <= Len(Ev)
  /\ LET e == Ev[l] IN
     /\ \/ e.a = "Start"  /\ Start(e.t, e.w)
        \/ e.a = "Finish" /\ Finish(e.t)
        \/ e.a = "Step"   /\ Step
     /\ PostOk(e.post)
  /\ l' = l + 1 /\ UNCHANGED tid

TraceDone == l > Len(Ev) /\ UNCHANGED tvars

TraceNext == TraceStep \/ TraceDone
TraceSpec == TraceInit /\ [][TraceNext]_tvars
=============================================================================
