---------------------------- MODULE RateLimiter ----------------------------
(* C24: hailtop/utils/rate_limiter.py RateLimiter (sliding-window limiter: at most Count entries per
   Window seconds), together with what decides its interleavings: an integer clock, asyncio's FIFO queue
   of ready task steps (rq) and the timers of asyncio.sleep.

     async def __aenter__(self):
         while True:
             now = time.time()
             while len(self._items) > 0 and self._items[0] <= (now - self._window_seconds):
                 self._items.popleft()
             if len(self._items) < self._count:
                 self._items.append(now)
                 return self
             await asyncio.sleep(self._items[0] - (now - self._window_seconds))

   A task runs `async with limiter: pass`.  One action per atomic region or external event:

     Enter(t)  a task is created at the current time (its first step is queued)
     Step      asyncio runs the task at the head of the ready queue: one iteration of the loop above
               (read the clock, purge expired admissions, admit or go to sleep until the oldest expires)
     Fire(t)   the timer of sleeper t, which is due, fires: the sleep future is resolved and t's wake-up
               is queued.  Timers that are due at the same time may fire in any order (asyncio keeps
               them in a heap ordered by deadline only).
     Tick      the clock advances by one second.  Urgent = TRUE: only when nothing is runnable (empty
               ready queue, no due timer): maximal progress, the setting in which "admitted as soon as
               possible" is meaningful.  Urgent = FALSE: at any moment (tasks may be woken late, steps
               may be delayed); the window bound must hold all the same.
*)
EXTENDS Integers, Sequences, FiniteSets, TLC

CONSTANTS Tasks, Count, Window, MaxTime, Urgent
ASSUME Count \in Nat \ {0} /\ Window \in Nat \ {0} /\ MaxTime \in Nat /\ Urgent \in BOOLEAN

VARIABLES
  now,     \* the clock (integer seconds)
  items,   \* limiter._items: admission times, oldest first
  pc,      \* per task: "idle", "checking" (a loop iteration is queued), "sleeping", "in" (admitted)
  until,   \* per task: deadline of its sleep timer while sleeping, else 0
  rq,      \* asyncio's ready queue (task names)
  admAt    \* ghost: the time at which t was admitted, -1 if not (yet)

vars == <<now, items, pc, until, rq, admAt>>

Init ==
  /\ now = 0
  /\ items = <<>>
  /\ pc = [t \in Tasks |-> "idle"]
  /\ until = [t \in Tasks |-> 0]
  /\ rq = <<>>
  /\ admAt = [t \in Tasks |-> -1]

Enter(t) ==
  /\ pc[t] = "idle"
  /\ pc' = [pc EXCEPT ![t] = "checking"]
  /\ rq' = Append(rq, t)
  /\ UNCHANGED <<now, items, until, admAt>>

\* while len(items) > 0 and items[0] <= now - W: items.popleft()
RECURSIVE Purge(_, _)
Purge(s, n) == IF s # <<>> /\ Head(s) <= n - Window THEN Purge(Tail(s), n) ELSE s

Step ==
  /\ rq # <<>>
  /\ LET t == Head(rq)
         kept == Purge(items, now)
     IN
     /\ pc[t] = "checking"
     /\ IF Len(kept) < Count
        THEN /\ items' = Append(kept, now)
             /\ pc' = [pc EXCEPT ![t] = "in"]
             /\ admAt' = [admAt EXCEPT ![t] = now]
             /\ UNCHANGED until
        ELSE /\ items' = kept
             /\ pc' = [pc EXCEPT ![t] = "sleeping"]
             /\ until' = [until EXCEPT ![t] = now + (Head(kept) - (now - Window))]   \* call_later(delay)
             /\ UNCHANGED admAt
     /\ rq' = Tail(rq)
     /\ UNCHANGED now

Due(t) == pc[t] = "sleeping" /\ until[t] <= now

Fire(t) ==
  /\ Due(t)
  /\ pc' = [pc EXCEPT ![t] = "checking"]
  /\ until' = [until EXCEPT ![t] = 0]
  /\ rq' = Append(rq, t)
  /\ UNCHANGED <<now, items, admAt>>

Runnable == rq # <<>> \/ \E t \in Tasks : Due(t)

Tick ==
  /\ now < MaxTime
  /\ Urgent => ~Runnable
  /\ now' = now + 1
  /\ UNCHANGED <<items, pc, until, rq, admAt>>

Next == (\E t \in Tasks : Enter(t) \/ Fire(t)) \/ Step \/ Tick

Spec == Init /\ [][Next]_vars
FairSpec == Spec /\ WF_vars(Step) /\ WF_vars(Tick) /\ \A t \in Tasks : WF_vars(Fire(t))

----------------------------------------------------------------------------
TypeOK ==
  /\ now \in 0..MaxTime
  /\ \A t \in Tasks : pc[t] \in {"idle", "checking", "sleeping", "in"} /\ until[t] \in 0..(MaxTime + Window)
  /\ \A i \in 1..Len(items) : items[i] \in 0..MaxTime

Admitted == { t \in Tasks : admAt[t] >= 0 }
AdmittedIn(lo, hi) == { t \in Tasks : admAt[t] >= lo /\ admAt[t] <= hi }     \* closed integer interval

\* (1) in any half-open window [a, a+Window) at most Count admissions
C24_Window == \A a \in 0..MaxTime : Cardinality(AdmittedIn(a, a + Window - 1)) <= Count

\* (2) admitted as soon as possible: when the clock is about to advance (nothing runnable), nobody is
\*     waiting although fewer than Count admissions lie in (now - Window, now]
Waiting == { t \in Tasks : pc[t] \in {"checking", "sleeping"} }
C24_Asap == (Urgent /\ ~Runnable /\ Waiting # {}) => Cardinality(AdmittedIn(now - Window + 1, now)) >= Count

\*     ... and every sleeper has asked to be woken exactly when the oldest admission that blocks it leaves
\*     the window: not later than the first moment a slot can open, never in the past
C24_WakeTime == \A t \in Tasks : pc[t] = "sleeping" =>
                   /\ until[t] > 0 /\ until[t] <= MaxTime + Window
                   /\ \E u \in Admitted : until[t] = admAt[u] + Window
                   /\ Urgent => until[t] >= now

\* ---- more than C24 states: the bookkeeping -------------------------------------------------------------
\* _items holds admission times in order, never more than Count, and exactly the admissions that a purge at
\* the time of the last admission or later has not expired
RL_Items ==
  /\ Len(items) <= Count
  /\ \A i \in 1..Len(items) : \E t \in Admitted : admAt[t] = items[i]
  /\ \A i \in 1..(Len(items) - 1) : items[i] <= items[i + 1]
  /\ \A t \in Admitted : admAt[t] > now - Window => Cardinality({ i \in 1..Len(items) : items[i] = admAt[t] }) >= 1
RL_ReadyQueue ==
  /\ \A i, j \in 1..Len(rq) : rq[i] = rq[j] => i = j
  /\ \A t \in Tasks : (\E i \in 1..Len(rq) : rq[i] = t) <=> pc[t] = "checking"
RL_AdmittedIffIn == \A t \in Tasks : pc[t] = "in" <=> admAt[t] >= 0

\* liveness (FairSpec, unbounded horizon not needed: a waiting task is admitted or the horizon is reached)
RL_Live == \A t \in Tasks : (pc[t] = "checking") ~> (pc[t] = "in" \/ now = MaxTime)
=============================================================================
