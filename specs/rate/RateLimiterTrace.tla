------------------------- MODULE RateLimiterTrace -------------------------
(* Trace validation (B2) for RateLimiter: each line of the ndjson file is one recorded execution of the
   real hailtop.utils.rate_limiter.RateLimiter under the deterministic event loop with its own timer
   order (asyncio's heap), time.time patched to the virtual clock:
     [ev |-> << [a |-> "Enter"|"Step"|"Fire"|"Tick", t,
                 post |-> [now, items, pc, until, rq, admAt]], ... >>]
   Every event must be a step of RateLimiter with the logged argument whose successor state projects to
   the logged post-state (every logged field is constrained).  A trace that cannot be continued is a
   deadlock of this specification; all invariants are evaluated on every state.                        *)
EXTENDS RateLimiter, Json, IOUtils

Traces == ndJsonDeserialize(IOEnv.TRACE_FILE)
VARIABLES tid, l
tvars == <<vars, tid, l>>

TraceInit == Init /\ tid \in 1..Len(Traces) /\ l = 1

Ev == Traces[tid].ev

PostOk(p) ==
  /\ now' = p.now
  /\ items' = p.items
  /\ \A t \in Tasks : pc'[t] = p.pc[t] /\ until'[t] = p.until[t] /\ admAt'[t] = p.admAt[t]
  /\ rq' = p.rq

TraceStep ==
  /\ l <= Len(Ev)
  /\ LET e == Ev[l] IN
     /\ \/ e.a = "Enter" /\ Enter(e.t)
        \/ e.a = "Fire"  /\ Fire(e.t)
        \/ e.a = "Step"  /\ Step
        \/ e.a = "Tick"  /\ Tick
     /\ PostOk(e.post)
  /\ l' = l + 1 /\ UNCHANGED tid

TraceDone == l > Len(Ev) /\ UNCHANGED tvars

TraceNext == TraceStep \/ TraceDone
TraceSpec == TraceInit /\ [][TraceNext]_tvars
=============================================================================
