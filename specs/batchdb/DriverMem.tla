------------------------------ MODULE DriverMem ------------------------------
(* C10, second stage: the driver's IN-MEMORY copy of each instance's state and free cores
   (batch/batch/driver/instance.py Instance._state / _free_cores_mcpu, adjusted by the wrappers of
   batch/batch/driver/job.py and by PoolScheduler.schedule_loop_body) on top of BatchDB.

   Every action is a BatchDB action (the database effect is unchanged) plus what the Python wrapper does to the in-memory
   instance with the `delta_cores_mcpu` the procedure reports:
     MSelect     schedule_loop_body: pool.get_instance(cores) ; instance.adjust_free_cores_in_memory(-cores) ; dispatch
     MSchedule   job.schedule_job: asserts the in-memory state is active, CALL schedule_job, adjusts by the reported delta
     MStarted / MComplete / MUnschedule   job.mark_job_started / mark_job_complete / unschedule_job
     MActivate / MDeactivate              Instance.activate / Instance.deactivate
   Pool instances only (job-private instances are created per job and never shared).                                  *)
EXTENDS BatchDBLive

VARIABLES mfree,      \* mfree[i] : Instance._free_cores_mcpu
          mst,        \* mst[i]   : Instance._state
          pend        \* dispatches whose CALL schedule_job has not been issued yet

mvars == <<vars, mfree, mst, pend>>
Adj(i, d) == IF d # 0 /\ mst[i] = "active" THEN [mfree EXCEPT ![i] = @ + d] ELSE mfree
NewAtt(j, a) == IF att[j][a].ex THEN 0 ELSE -JCores[j]               \* add_attempt's delta_cores_mcpu
Release(j, a, i) == IF inst[i].st = "active" /\ (IF att[j][a].ex THEN att[j][a].en = NULLT ELSE TRUE) THEN JCores[j] ELSE 0

Keep == UNCHANGED <<mfree, mst, pend>>
MInit == Init /\ mfree = [i \in Insts |-> InstCores] /\ mst = [i \in Insts |-> "pending"] /\ pend = {}

MSelect(j, a, i) ==
  /\ SchedSelect(j, a, i) /\ mst[i] = "active" /\ mfree[i] >= JCores[j]
  /\ mfree' = [mfree EXCEPT ![i] = @ - JCores[j]] /\ pend' = pend \cup {<<j, a, i>>} /\ UNCHANGED mst

MSchedule(j, a, i) ==
  /\ <<j, a, i>> \in pend /\ pend' = pend \ {<<j, a, i>>} /\ UNCHANGED mst
  /\ IF mst[i] = "active"
     THEN /\ ScheduleProc(j, a, i)
          \* pool instance: the cores were taken in memory at selection; if the attempt already existed (a report
          \* overtook this call and took them a second time) the procedure reports +cores
          /\ mfree' = Adj(i, IF att[j][a].ex THEN JCores[j] ELSE 0)
     ELSE UNCHANGED <<vars, mfree>>           \* `assert instance.state == 'active'` fails before anything is written

MStarted(j, a, i, t) == Started(j, a, i, t) /\ mfree' = Adj(i, NewAtt(j, a)) /\ UNCHANGED <<mst, pend>>
MComplete(j, a, i, st, t0, t1) ==
  Complete(j, a, i, st, t0, t1) /\ mfree' = Adj(i, NewAtt(j, a) + Release(j, a, i)) /\ UNCHANGED <<mst, pend>>
MUnschedule(j, a, t) ==
  /\ UnscheduleCall(j, a, t)
  /\ LET i == att[j][a].inst IN mfree' = Adj(i, IF inst[i].st = "active" /\ att[j][a].en = NULLT THEN JCores[j] ELSE 0)
  /\ UNCHANGED <<mst, pend>>
MActivate(i) == Activate(i) /\ mst' = [mst EXCEPT ![i] = "active"] /\ UNCHANGED <<mfree, pend>>
\* Instance.deactivate: returns at once if the in-memory state is already inactive; otherwise CALL deactivate_instance -- which
\* answers rc = 1 and changes nothing when the row is already inactive (an earlier call whose reply was lost) -- and then resets
\* the in-memory copy in both cases.
MDeactivate(i, t) ==
  /\ "deactivate" \in Features /\ t \in Times /\ mst[i] \notin {"inactive", "deleted"}
  /\ IF inst[i].st \in {"pending", "active"} THEN Deactivate(i, t) ELSE UNCHANGED vars
  /\ mst' = [mst EXCEPT ![i] = "inactive"] /\ mfree' = [mfree EXCEPT ![i] = InstCores] /\ UNCHANGED pend
\* the procedure committed but the reply never reached the driver (connection lost): the caller will retry
MDeactivateLost(i, t) == mst[i] \notin {"inactive", "deleted"} /\ Deactivate(i, t) /\ Keep
MCreateUpdate(u) == CreateUpdate(u) /\ Keep
MCommit(u)       == Commit(u) /\ Keep
MInsertGroup(g)  == InsertGroup(g) /\ Keep
MCancelGroup(g)  == CancelGroup(g) /\ Keep
MInsertJob(j)    == InsertJob(j) /\ Keep
MCancelReadySelect(j) == CancelReadySelect(j) /\ Keep
MCancelReadyCall(j) == CancelReadyCall(j) /\ Keep
MCancelRunningSelect(j, a) == CancelRunningSelect(j, a) /\ Keep
MOrphanSelect(j, a) == OrphanSelect(j, a) /\ Keep

MNext ==
  \/ \E u \in Updates : MCreateUpdate(u) \/ MCommit(u)
  \/ \E g \in Groups : MInsertGroup(g) \/ MCancelGroup(g)
  \/ \E j \in Jobs : MInsertJob(j) \/ MCancelReadySelect(j) \/ MCancelReadyCall(j)
  \/ \E j \in Jobs, a \in AttIds : MCancelRunningSelect(j, a) \/ MOrphanSelect(j, a)
  \/ \E j \in Jobs, a \in AttIds, i \in Insts : MSelect(j, a, i) \/ MSchedule(j, a, i)
  \/ \E j \in Jobs, a \in AttIds, i \in Insts, t \in Times : MStarted(j, a, i, t)
  \/ \E j \in Jobs, a \in AttIds, i \in Insts, st \in {"Success", "Failed", "Error"}, t0 \in Times, t1 \in Times : MComplete(j, a, i, st, t0, t1)
  \/ \E j \in Jobs, a \in AttIds, t \in Times : MUnschedule(j, a, t)
  \/ \E i \in Insts : MActivate(i)
  \/ \E i \in Insts, t \in Times : MDeactivate(i, t) \/ MDeactivateLost(i, t)
MSpec == MInit /\ [][MNext]_mvars

\* the in-memory copy equals the table whenever no CALL schedule_job is outstanding for the instance
C10_Mem == \A i \in Insts :
  /\ (mst[i] = "active" /\ inst[i].st = "active" /\ ~(\E t \in pend : t[3] = i)) => mfree[i] = inst[i].free
  /\ mst[i] = "inactive" => mfree[i] = InstCores
\* the in-memory state lags the table only between a lost deactivation reply and its retry
C10_MemState == \A i \in Insts : mst[i] = inst[i].st \/ (mst[i] \in {"pending", "active"} /\ inst[i].st = "inactive")
=============================================================================
