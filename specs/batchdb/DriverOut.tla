------------------------------ MODULE DriverOut ------------------------------
(* DriverMem plus what the driver SENDS to the workers when it ends an attempt itself (batch/batch/driver/job.py
   unschedule_job, used by the canceller for running jobs of cancelled groups and for orphaned attempts): after
   CALL unschedule_job - whatever it answered: the attempt may be a stale one that is not the job's current attempt any more,
   rc = 1 - the driver sends DELETE /api/v1alpha/batches/{b}/jobs/{j}/delete to the instance the attempt ran on, unless the
   in-memory instance is inactive or deleted.  Without that request a superseded attempt keeps running next to the job's current
   attempt: the job runs twice (C39).

   told : the <<job, instance>> pairs for which a DELETE has been sent.                                                      *)
EXTENDS DriverMem

VARIABLE told
ovars == <<mvars, told>>

OInit == MInit /\ told = {}

OUnschedule(j, a, t) ==
  /\ MUnschedule(j, a, t)
  /\ LET i == att[j][a].inst IN
     told' = IF mst[i] \notin {"inactive", "deleted"} THEN told \cup {<<j, i>>} ELSE told

K == UNCHANGED told
OCreateUpdate(u) == MCreateUpdate(u) /\ K
OCommit(u)       == MCommit(u) /\ K
OInsertGroup(g)  == MInsertGroup(g) /\ K
OCancelGroup(g)  == MCancelGroup(g) /\ K
OInsertJob(j)    == MInsertJob(j) /\ K
OCancelReadySelect(j) == MCancelReadySelect(j) /\ K
OCancelReadyCall(j)   == MCancelReadyCall(j) /\ K
OCancelRunningSelect(j, a) == MCancelRunningSelect(j, a) /\ K
OOrphanSelect(j, a)        == MOrphanSelect(j, a) /\ K
OSelect(j, a, i)   == MSelect(j, a, i) /\ K
OSchedule(j, a, i) == MSchedule(j, a, i) /\ K
OStarted(j, a, i, t) == MStarted(j, a, i, t) /\ K
OComplete(j, a, i, st, t0, t1) == MComplete(j, a, i, st, t0, t1) /\ K
OActivate(i) == MActivate(i) /\ K
ODeactivate(i, t) == MDeactivate(i, t) /\ K
ODeactivateLost(i, t) == MDeactivateLost(i, t) /\ K

ONext ==
  \/ \E u \in Updates : OCreateUpdate(u) \/ OCommit(u)
  \/ \E g \in Groups : OInsertGroup(g) \/ OCancelGroup(g)
  \/ \E j \in Jobs : OInsertJob(j) \/ OCancelReadySelect(j) \/ OCancelReadyCall(j)
  \/ \E j \in Jobs, a \in AttIds : OCancelRunningSelect(j, a) \/ OOrphanSelect(j, a)
  \/ \E j \in Jobs, a \in AttIds, i \in Insts : OSelect(j, a, i) \/ OSchedule(j, a, i)
  \/ \E j \in Jobs, a \in AttIds, i \in Insts, t \in Times : OStarted(j, a, i, t)
  \/ \E j \in Jobs, a \in AttIds, i \in Insts, st \in {"Success", "Failed", "Error"}, t0 \in Times, t1 \in Times : OComplete(j, a, i, st, t0, t1)
  \/ \E j \in Jobs, a \in AttIds, t \in Times : OUnschedule(j, a, t)
  \/ \E i \in Insts : OActivate(i)
  \/ \E i \in Insts, t \in Times : ODeactivate(i, t) \/ ODeactivateLost(i, t)
OSpec == OInit /\ [][ONext]_ovars

\* every attempt that has been ended by the driver on an instance whose object was alive has been told to stop
C39_EndedAttemptsToldToStop ==
  \A j \in Jobs, a \in AttIds :
    (att[j][a].ex /\ att[j][a].rs = "cancelled" /\ att[j][a].inst # NULL /\ mst[att[j][a].inst] \in {"pending", "active"})
       => (<<j, att[j][a].inst>> \in told \/ \E b \in AttIds : b # a /\ att[j][b].ex /\ att[j][b].inst = att[j][a].inst)
=============================================================================
