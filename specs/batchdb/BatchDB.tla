------------------------------- MODULE BatchDB -------------------------------
(* The batch service's database as a transition system: ONE batch of one user in one instance collection,
   with its updates, nested job groups, jobs, parents, attempts, instances, incremental counters and billing
   aggregates.  Every action is one transaction of the code (one stored-procedure call or one @transaction block):

     front end : CreateUpdate InsertGroup InsertJob Commit CancelGroup MarkDeleted
                   (batch/batch/front_end/front_end.py, batch/batch/batch.py, commit_batch_update, cancel_job_group)
     driver    : SchedSelect ScheduleProc JpimSelect CreatingProc Started Complete Heartbeat AddResources
                 CancelReadySelect/Call CancelCreatingSelect/Call CancelRunningSelect OrphanSelect UnscheduleCall Activate Deactivate
                 FailFastSelect/Call
                 CleanStaging CleanCancellable NextDay
                   (driver/instance_collection/pool.py, job_private.py, canceller.py, main.py, job.py and the
                    procedures schedule_job, mark_job_creating, mark_job_started, mark_job_complete,
                    unschedule_job, add_attempt, activate/deactivate_instance, mark_instance_deleted)
   Triggers (jobs_before_insert, jobs_after_update, attempts_before_update, attempts_after_update,
   attempt_resources_after_insert) and functions (is_job_group_cancelled, is_job_cancelled) are operators used by
   the actions.  Shard tokens are summed out.  The "program" (which jobs/groups a client will submit) is a constant.

   Message discipline: a worker can only report about an attempt the driver once dispatched to it (set disp);
   such reports may arrive at any later time, any number of times, in any order.                              *)
EXTENDS Naturals, Integers, FiniteSets, FiniteSetsExt, Sequences, TLC

CONSTANTS Jobs, Groups, Updates,        \* Jobs = 1..N, Groups = 0..G (0 = root), Updates = 1..U
          JUpd, JGrp, JPar, JAlways, JCores,   \* the program: functions on Jobs (JPar[j] a set of job ids < j)
          GParent, GUpd,                 \* group tree: functions on Groups \ {0}
          GFail,                         \* cancel_after_n_failures of each group incl. the root (0 = NULL)
          AttIds, Insts, InstCores,      \* attempt ids, instance names, cores of an instance (mcpu)
          Times,                         \* timestamps a message may carry
          ResQ,                          \* quantity of the (single) billed resource of an attempt
          Days,                          \* billing days 0..D
          Features,                      \* subset of {"jpim","billing","cleaners","delete","deactivate","failfast"}
          Avoid                          \* scenarios of recorded findings that behaviours must not enter (see Props)

VARIABLES us, gex, gst, gnj, canc, bst, bnj, bdel,
          js, jc, npp, jatt, tally, stg, cr, ur,
          att, ares, inst, disp, jdisp, pcall,
          ujob, ugrp, ubp, udate, today

vars == <<us, gex, gst, gnj, canc, bst, bnj, bdel, js, jc, npp, jatt, tally, stg, cr, ur,
          att, ares, inst, disp, jdisp, pcall, ujob, ugrp, ubp, udate, today>>

NULL  == "NULL"
NULLT == -1
MaxGroupDepth == 2            \* hailtop.batch_client.globals.MAX_JOB_GROUPS_DEPTH
Terminal == {"Success", "Failed", "Error", "Cancelled"}
Live     == {"Ready", "Creating", "Running"}
B(x) == IF x THEN 1 ELSE 0
Max2(a, b) == IF a >= b THEN a ELSE b

RECURSIVE Anc(_)
Anc(g) == IF g = 0 THEN {0} ELSE {g} \cup Anc(GParent[g])         \* job_group_self_and_ancestors
CancAnc(g) == Anc(g) \cap canc
GrpCanc(g) == CancAnc(g) # {}                                      \* is_job_group_cancelled
\* is_job_cancelled (121: built on is_job_group_cancelled; the 119 version failed with error 1242 when two
\* ancestors were cancelled -- repaired, see known_findings.json)
JobCanc(j) == ~JAlways[j] /\ (jc[j] \/ GrpCanc(JGrp[j]))

UJobs(u) == { j \in Jobs : JUpd[j] = u }
SumS(S, f(_)) == FoldSet(LAMBDA x, acc : acc + f(x), 0, S)

ZeroUr == [r |-> 0, rcores |-> 0, x |-> 0, xcores |-> 0, c |-> 0, cr |-> 0, cx |-> 0, cc |-> 0]
ZeroCr == [r |-> 0, rcores |-> 0, c |-> 0, x |-> 0, xcores |-> 0]
ZeroStg == [nj |-> 0, nr |-> 0, rcores |-> 0]
ZeroTally == [c |-> 0, s |-> 0, f |-> 0, x |-> 0]
NoAtt == [ex |-> FALSE, inst |-> NULL, st |-> NULLT, ru |-> NULLT, en |-> NULLT, rs |-> NULL]

-----------------------------------------------------------------------------
\* ---- trigger jobs_after_update (119) as deltas for one row update (old state/cancelled -> new) ----
Delta(j, os, oc, ns, nc) ==
  LET gc   == GrpCanc(JGrp[j])
      wasC == ~JAlways[j] /\ (oc \/ gc)      nowC == ~JAlways[j] /\ (nc \/ gc)
      wasA == ~JAlways[j] /\ ~(oc \/ gc)     nowA == ~JAlways[j] /\ ~(nc \/ gc)
      d(st, w, n) == B(ns = st /\ n) - B(os = st /\ w)
  IN [ r  |-> d("Ready", ~wasC, ~nowC),   x  |-> d("Running", ~wasC, ~nowC),  c  |-> d("Creating", ~wasC, ~nowC),
       cr |-> d("Ready", wasC, nowC),     cx |-> d("Running", wasC, nowC),    cc |-> d("Creating", wasC, nowC),
       ar |-> d("Ready", wasA, nowA),     ax |-> d("Running", wasA, nowA),    ac |-> d("Creating", wasA, nowA) ]

AddUr(u0, j, d) == [ r |-> u0.r + d.r, rcores |-> u0.rcores + d.r * JCores[j],
                     x |-> u0.x + d.x, xcores |-> u0.xcores + d.x * JCores[j], c |-> u0.c + d.c,
                     cr |-> u0.cr + d.cr, cx |-> u0.cx + d.cx, cc |-> u0.cc + d.cc ]
AddCr(c0, j, d) == [u \in Updates |-> [g \in Groups |->
                      IF u = JUpd[j] /\ g \in Anc(JGrp[j])
                      THEN [ r |-> c0[u][g].r + d.ar, rcores |-> c0[u][g].rcores + d.ar * JCores[j],
                             c |-> c0[u][g].c + d.ac,
                             x |-> c0[u][g].x + d.ax, xcores |-> c0[u][g].xcores + d.ax * JCores[j] ]
                      ELSE c0[u][g] ]]

\* apply simultaneous job-row changes (new[j] = [s, c]) through the trigger, one row at a time
RECURSIVE ApplyRows(_, _, _, _)
ApplyRows(S, new, u0, c0) ==
  IF S = {} THEN <<u0, c0>>
  ELSE LET j == CHOOSE k \in S : TRUE
           d == Delta(j, js[j], jc[j], new[j].s, new[j].c)
       IN ApplyRows(S \ {j}, new, AddUr(u0, j, d), AddCr(c0, j, d))

\* ---- triggers on attempts --------------------------------------------------------------------------------------
Billed(a) == IF a.ru = NULLT \/ a.st = NULLT THEN 0 ELSE Max2(a.ru - a.st, 0)      \* GREATEST(COALESCE(ru - st, 0), 0)

AttClamp(o, n0) ==                                                               \* attempts_before_update (067)
  LET n1 == IF o.st # NULLT /\ (n0.st = NULLT \/ o.st < n0.st) THEN [n0 EXCEPT !.st = o.st] ELSE n0
      n2 == IF n1.rs = "activation_timeout" THEN [n1 EXCEPT !.st = NULLT] ELSE n1
      n3 == IF o.rs # NULL /\ (o.en = NULLT \/ n2.en = NULLT \/ n2.en >= o.en)
            THEN [n2 EXCEPT !.en = o.en, !.rs = o.rs] ELSE n2
      n4 == IF n3.ru # NULLT /\ o.ru # NULLT /\ n3.ru < o.ru THEN [n3 EXCEPT !.ru = o.ru] ELSE n3
      n5 == IF n4.ru # NULLT /\ n4.st # NULLT /\ n4.ru < n4.st THEN [n4 EXCEPT !.ru = o.ru] ELSE n4
      n6 == IF n5.ru # NULLT /\ n5.en # NULLT /\ n5.ru > n5.en THEN [n5 EXCEPT !.ru = n5.en] ELSE n5
  IN n6

\* a set of attempt-row updates: upd[<<j,a>>] = the row the UPDATE statement asks for (before the trigger).
\* Returns the new att function and the billing delta per job (attempts_after_update (117): only attempts whose
\* resources are registered are billed).
AttAfter(U, want) == [j \in Jobs |-> [a \in AttIds |->
                        IF <<j, a>> \in U THEN AttClamp(att[j][a], want[<<j, a>>]) ELSE att[j][a]]]
BillDeltaJob(newatt, j) ==
  SumS(AttIds, LAMBDA a : IF ares[j][a] THEN (Billed(newatt[j][a]) - Billed(att[j][a])) * ResQ ELSE 0)

\* bill per-job deltas dj[j] to job, ancestor groups, billing project/user and today's date
BillingAfter(dj) ==
  /\ ujob' = [j \in Jobs |-> ujob[j] + dj[j]]
  /\ ugrp' = [g \in Groups |-> ugrp[g] + SumS({ j \in Jobs : js[j] # "none" /\ g \in Anc(JGrp[j]) }, LAMBDA j : dj[j])]
  /\ ubp' = ubp + SumS(Jobs, LAMBDA j : dj[j])
  /\ udate' = [d \in Days |-> IF d = today THEN udate[d] + SumS(Jobs, LAMBDA j : dj[j]) ELSE udate[d]]

UpdateAttempts(U, want) ==
  LET na == AttAfter(U, want) IN
  /\ att' = na
  /\ BillingAfter([j \in Jobs |-> BillDeltaJob(na, j)])

NoBilling == UNCHANGED <<ujob, ugrp, ubp, udate>>

-----------------------------------------------------------------------------
Init ==
  /\ us = [u \in Updates |-> "none"]
  /\ gex = [g \in Groups |-> g = 0]
  /\ gst = [g \in Groups |-> "complete"]
  /\ gnj = [g \in Groups |-> 0]
  /\ canc = {}
  /\ bst = "complete" /\ bnj = 0 /\ bdel = FALSE
  /\ js = [j \in Jobs |-> "none"] /\ jc = [j \in Jobs |-> FALSE] /\ npp = [j \in Jobs |-> 0]
  /\ jatt = [j \in Jobs |-> NULL]
  /\ tally = [g \in Groups |-> ZeroTally]
  /\ stg = [u \in Updates |-> [g \in Groups |-> ZeroStg]]
  /\ cr  = [u \in Updates |-> [g \in Groups |-> ZeroCr]]
  /\ ur = ZeroUr
  /\ att = [j \in Jobs |-> [a \in AttIds |-> NoAtt]]
  /\ ares = [j \in Jobs |-> [a \in AttIds |-> FALSE]]
  /\ inst = [i \in Insts |-> [st |-> "pending", free |-> InstCores]]
  /\ disp = {} /\ jdisp = {} /\ pcall = {}
  /\ ujob = [j \in Jobs |-> 0] /\ ugrp = [g \in Groups |-> 0] /\ ubp = 0 /\ udate = [d \in Days |-> 0]
  /\ today = 0

\* ---- front end ---------------------------------------------------------------------------------------------------
CreateUpdate(u) ==            \* _create_batch_update: token lookup (idempotent), cancelled check, range reservation
  /\ us[u] = "none" /\ (IF u = 1 THEN TRUE ELSE us[u - 1] # "none")
  /\ 0 \notin canc /\ ~bdel
  /\ us' = [us EXCEPT ![u] = "open"]
  /\ UNCHANGED <<gex, gst, gnj, canc, bst, bnj, bdel, js, jc, npp, jatt, tally, stg, cr, ur, att, ares, inst, disp, jdisp, pcall,
                 ujob, ugrp, ubp, udate, today>>

InsertGroup(g) ==             \* _create_job_groups, one group per bunch
  /\ g # 0 /\ ~gex[g] /\ us[GUpd[g]] = "open" /\ ~bdel
  /\ \A h \in Groups : h < g => gex[h]            \* "job group specs were not submitted in order" otherwise
  /\ ~GrpCanc(GParent[g])                         \* "job group parent has already been cancelled" otherwise
  /\ Cardinality(Anc(GParent[g])) <= MaxGroupDepth \* "job group exceeded the maximum level of nesting" otherwise
  /\ gex' = [gex EXCEPT ![g] = TRUE]
  /\ UNCHANGED <<us, gst, gnj, canc, bst, bnj, bdel, js, jc, npp, jatt, tally, stg, cr, ur, att, ares, inst, disp, jdisp, pcall,
                 ujob, ugrp, ubp, udate, today>>

UStart(u) == 1 + Cardinality({ k \in Jobs : JUpd[k] < u })      \* batch_updates.start_job_id

InsertJob(j) ==               \* _create_jobs, one job per bunch; trigger jobs_before_insert
  /\ js[j] = "none" /\ us[JUpd[j]] = "open" /\ gex[JGrp[j]] /\ ~bdel
  /\ ~GrpCanc(JGrp[j])
  \* submission checks: every parent precedes the job; parents from earlier updates must exist already
  /\ \A p \in JPar[j] : 1 <= p /\ p < j /\ (p < UStart(JUpd[j]) => (p \in Jobs /\ js[p] # "none"))
  /\ LET ready == JUpd[j] = 1 /\ JPar[j] = {}
         u == JUpd[j]
     IN /\ js' = [js EXCEPT ![j] = IF ready THEN "Ready" ELSE "Pending"]
        /\ npp' = [npp EXCEPT ![j] = Cardinality(JPar[j])]
        /\ stg' = [stg EXCEPT ![u] = [g \in Groups |->
                     IF g \in Anc(JGrp[j])
                     THEN [nj |-> stg[u][g].nj + 1, nr |-> stg[u][g].nr + B(ready), rcores |-> stg[u][g].rcores + B(ready) * JCores[j]]
                     ELSE stg[u][g]]]
        /\ cr' = [cr EXCEPT ![u] = [g \in Groups |->
                     IF g \in Anc(JGrp[j]) /\ ready /\ ~JAlways[j]
                     THEN [cr[u][g] EXCEPT !.r = @ + 1, !.rcores = @ + JCores[j]] ELSE cr[u][g]]]
  /\ UNCHANGED <<us, gex, gst, gnj, canc, bst, bnj, bdel, jc, jatt, tally, ur, att, ares, inst, disp, jdisp, pcall,
                 ujob, ugrp, ubp, udate, today>>

\* CALL commit_batch_update.  The handler's "root not cancelled" pre-check is a separate, earlier transaction (and the
\* fast paths have none), so the procedure can run in any state in which the update is open.
Commit(u) ==
  /\ us[u] = "open"
  /\ ("ooc" \in Avoid => \A v \in Updates : v < u => us[v] = "committed")     \* scenario guard (finding "ooc")
  /\ ("toctou" \in Avoid => 0 \notin canc)                                    \* scenario guard (finding "toctou")
  /\ stg[u][0].nj = Cardinality(UJobs(u))               \* else rc = 1 'wrong number of jobs' and ROLLBACK
  /\ us' = [us EXCEPT ![u] = "committed"]
  /\ IF UJobs(u) = {} THEN UNCHANGED <<gst, gnj, bst, bnj, js, jc, npp, cr, ur>>
     ELSE
       /\ bst' = "running" /\ bnj' = bnj + Cardinality(UJobs(u))
       /\ gst' = [g \in Groups |-> IF gex[g] /\ stg[u][g].nj > 0 THEN "running" ELSE gst[g]]
       /\ gnj' = [g \in Groups |-> IF gex[g] THEN gnj[g] + stg[u][g].nj ELSE gnj[g]]
       /\ LET ur1 == [ur EXCEPT !.r = @ + stg[u][0].nr, !.rcores = @ + stg[u][0].rcores]
          IN IF u = 1 THEN /\ ur' = ur1 /\ UNCHANGED <<js, jc, npp, cr>>
             ELSE
               LET S == { j \in UJobs(u) : js[j] # "none" }
                   pend(j) == Cardinality({ p \in JPar[j] : p \in Jobs /\ js[p] \in {"Pending", "Ready", "Creating", "Running"} })
                   succ(j) == Cardinality({ p \in JPar[j] : p \in Jobs /\ js[p] = "Success" })
                   npar(j) == Cardinality(JPar[j])
                   new == [ j \in S |-> [ s |-> IF pend(j) = 0 THEN "Ready" ELSE "Pending",
                                           c |-> IF succ(j) = npar(j) - pend(j) THEN jc[j] ELSE TRUE ] ]
                   res == ApplyRows(S, new, ur1, cr)
               IN /\ js' = [j \in Jobs |-> IF j \in S THEN new[j].s ELSE js[j]]
                  /\ jc' = [j \in Jobs |-> IF j \in S THEN new[j].c ELSE jc[j]]
                  /\ npp' = [j \in Jobs |-> IF j \in S THEN pend(j) ELSE npp[j]]
                  /\ ur' = res[1] /\ cr' = res[2]
  /\ UNCHANGED <<gex, canc, bdel, jatt, tally, stg, att, ares, inst, disp, jdisp, pcall, ujob, ugrp, ubp, udate, today>>

CancelEffect(g) ==            \* CALL cancel_job_group (119)
  IF GrpCanc(g) THEN UNCHANGED <<canc, cr, ur>>
  ELSE
    LET CU == { u \in Updates : us[u] = "committed" }
        s(f) == SumS(CU, LAMBDA u : cr[u][g][f])
    IN /\ ur' = [ r |-> ur.r - s("r"), rcores |-> ur.rcores - s("rcores"), x |-> ur.x - s("x"), xcores |-> ur.xcores - s("xcores"),
                  c |-> ur.c - s("c"), cr |-> ur.cr + s("r"), cx |-> ur.cx + s("x"), cc |-> ur.cc + s("c") ]
       /\ cr' = [u \in Updates |-> [a \in Groups |->
                   IF a \in Anc(g) THEN [ r |-> cr[u][a].r - cr[u][g].r, rcores |-> cr[u][a].rcores - cr[u][g].rcores,
                                         c |-> cr[u][a].c - cr[u][g].c,
                                         x |-> cr[u][a].x - cr[u][g].x, xcores |-> cr[u][a].xcores - cr[u][g].xcores ]
                   ELSE cr[u][a]]]
       /\ canc' = canc \cup {g}

CancelGroup(g) ==             \* batch.cancel_job_group_in_db: existence / committed check + the procedure, one transaction
  /\ gex[g] /\ ~bdel /\ (IF g = 0 THEN TRUE ELSE us[GUpd[g]] = "committed")
  /\ CancelEffect(g)
  /\ UNCHANGED <<us, gex, gst, gnj, bst, bnj, bdel, js, jc, npp, jatt, tally, stg, att, ares, inst, disp, jdisp, pcall,
                 ujob, ugrp, ubp, udate, today>>

\* driver/main.py cancel_fast_failing_job_groups (every 10 s): the query selects running, not (transitively) cancelled groups whose
\* n_failed reached cancel_after_n_failures; for each, _cancel_job_group = the front end's cancel_job_group_in_db, with the
\* BatchUserError of a refused cancellation swallowed.  Query and calls are separate transactions, so a call may be stale.
FailFastSelect(g) ==
  /\ "failfast" \in Features /\ gex[g] /\ gst[g] = "running" /\ ~GrpCanc(g)
  /\ GFail[g] > 0 /\ tally[g].f >= GFail[g]
  /\ <<"ff", g, NULL>> \notin pcall
  /\ pcall' = pcall \cup {<<"ff", g, NULL>>}
  /\ UNCHANGED <<us, gex, gst, gnj, canc, bst, bnj, bdel, js, jc, npp, jatt, tally, stg, cr, ur, att, ares, inst, disp, jdisp,
                 ujob, ugrp, ubp, udate, today>>

FailFastCall(g) ==
  /\ <<"ff", g, NULL>> \in pcall /\ pcall' = pcall \ {<<"ff", g, NULL>>}
  /\ IF gex[g] /\ ~bdel /\ (IF g = 0 THEN TRUE ELSE us[GUpd[g]] = "committed")
     THEN CancelEffect(g) ELSE UNCHANGED <<canc, cr, ur>>
  /\ UNCHANGED <<us, gex, gst, gnj, bst, bnj, bdel, js, jc, npp, jatt, tally, stg, att, ares, inst, disp, jdisp,
                 ujob, ugrp, ubp, udate, today>>

\* _delete_batch = select; CALL cancel_job_group(root); UPDATE deleted = 1 (three transactions).  The middle one is a
\* CancelGroup(0) step; this is the last one.
MarkDeleted ==
  /\ "delete" \in Features /\ ~bdel /\ 0 \in canc
  /\ bdel' = TRUE
  /\ UNCHANGED <<us, gex, gst, gnj, canc, bst, bnj, js, jc, npp, jatt, tally, stg, cr, ur, att, ares, inst, disp, jdisp, pcall,
                 ujob, ugrp, ubp, udate, today>>

\* ---- driver: procedures ------------------------------------------------------------------------------------------------
\* add_attempt (053): inserts the attempt if new; takes the cores if the instance is pending/active
AddAttempt(j, a, i) ==
  IF att[j][a].ex THEN <<att, inst>>
  ELSE << [att EXCEPT ![j][a] = [NoAtt EXCEPT !.ex = TRUE, !.inst = i]],
          IF inst[i].st \in {"pending", "active"} THEN [inst EXCEPT ![i].free = @ - JCores[j]] ELSE inst >>

JobRow(j, ns, nc, na) ==      \* UPDATE jobs SET state, cancelled, attempt_id through the trigger
  LET d == Delta(j, js[j], jc[j], ns, nc)
  IN /\ js' = [js EXCEPT ![j] = ns] /\ jc' = [jc EXCEPT ![j] = nc] /\ jatt' = [jatt EXCEPT ![j] = na]
     /\ ur' = AddUr(ur, j, d) /\ cr' = AddCr(cr, j, d)

ScheduleProc(j, a, i) ==      \* CALL schedule_job (119)
  /\ <<j, a, i>> \in disp /\ js[j] # "none"
  /\ LET aa == AddAttempt(j, a, i) IN
     /\ att' = aa[1] /\ inst' = aa[2]
     /\ IF js[j] \in {"Ready", "Creating"} /\ ~JobCanc(j) /\ inst[i].st = "active"
        THEN JobRow(j, "Running", jc[j], a)
        ELSE UNCHANGED <<js, jc, jatt, ur, cr>>
  /\ UNCHANGED <<us, gex, gst, gnj, canc, bst, bnj, bdel, npp, tally, stg, ares, disp, jdisp, pcall, ujob, ugrp, ubp, udate, today>>

\* mark_job_creating / mark_job_started (119): add_attempt, attempts.start = rollup = t, then the guarded state change
StartLike(j, a, i, t, okState, instState, newState) ==
  /\ LET aa == AddAttempt(j, a, i)
         want == [aa[1][j][a] EXCEPT !.st = t, !.ru = t]
         na == [aa[1] EXCEPT ![j][a] = AttClamp(aa[1][j][a], want)]
     IN /\ att' = na /\ inst' = aa[2]
        /\ BillingAfter([k \in Jobs |-> IF k = j /\ ares[j][a] THEN (Billed(na[j][a]) - Billed(aa[1][j][a])) * ResQ ELSE 0])
        /\ IF js[j] = okState /\ ~JobCanc(j) /\ inst[i].st = instState
           THEN JobRow(j, newState, jc[j], a)
           ELSE UNCHANGED <<js, jc, jatt, ur, cr>>
  /\ UNCHANGED <<us, gex, gst, gnj, canc, bst, bnj, bdel, npp, tally, stg, ares, disp, jdisp, pcall, today>>

\* Worker reports are accepted from activated instances only (@active_instances_only); a report that passed that check may
\* still reach the database after the instance was deactivated.
Started(j, a, i, t) ==        \* worker report job_started (possibly late / duplicated)
  /\ <<j, a, i>> \in disp /\ js[j] # "none" /\ t \in Times /\ inst[i].st \in {"active", "inactive"}
  /\ StartLike(j, a, i, t, "Ready", "active", "Running")

CreatingProc(j, a, i, t) ==   \* job-private instance manager, after creating the instance
  /\ "jpim" \in Features /\ <<j, a, i>> \in jdisp /\ js[j] # "none" /\ t \in Times
  /\ StartLike(j, a, i, t, "Ready", "pending", "Creating")

\* mark_job_complete (116, 123).  a = NULL: the canceller's completion of a Ready job (no attempt, no instance).
MJC(j, a, i, st, t0, t1, reason) ==
  LET aa == IF a = NULL THEN <<att, inst>> ELSE AddAttempt(j, a, i)
      oldEnd == IF a = NULL THEN NULLT ELSE aa[1][j][a].en
      want == IF a = NULL THEN NoAtt ELSE [aa[1][j][a] EXCEPT !.st = t0, !.ru = t1, !.en = t1, !.rs = reason]
      na == IF a = NULL THEN att ELSE [aa[1] EXCEPT ![j][a] = AttClamp(aa[1][j][a], want)]
      release == a # NULL /\ inst[i].st = "active" /\ oldEnd = NULLT
      inst1 == IF release THEN [aa[2] EXCEPT ![i].free = @ + JCores[j]] ELSE aa[2]
      stale == jatt[j] # NULL /\ a # NULL /\ jatt[j] # a          \* NULL != x is not true
  IN
  /\ att' = na /\ inst' = inst1
  /\ BillingAfter([k \in Jobs |-> IF k = j /\ a # NULL /\ ares[j][a] THEN (Billed(na[j][a]) - Billed(aa[1][j][a])) * ResQ ELSE 0])
  /\ IF ~stale /\ js[j] \in Live
     THEN LET \* rows of job_parents whose child belongs to a committed update (123: children of an update that is not committed are
              \* left to commit_batch_update's recount; before 123 they were released too - repaired, see known_findings.json)
              Ch == { c \in Jobs : js[c] # "none" /\ j \in JPar[c] /\ us[JUpd[c]] = "committed" }
              S == {j} \cup Ch
              new == [ k \in S |->
                        IF k = j THEN [s |-> st, c |-> jc[j]]
                        ELSE [ s |-> IF npp[k] = 1 THEN "Ready" ELSE "Pending",
                               c |-> IF st = "Success" THEN jc[k] ELSE TRUE ] ]
              res == ApplyRows(S, new, ur, cr)
              tl  == [g \in Groups |-> IF g \in Anc(JGrp[j])
                        THEN [ c |-> tally[g].c + 1, x |-> tally[g].x + B(st = "Cancelled"),
                               f |-> tally[g].f + B(st \in {"Error", "Failed"}),
                               s |-> tally[g].s + B(st \notin {"Cancelled", "Error", "Failed"}) ]
                        ELSE tally[g]]
          IN /\ js' = [k \in Jobs |-> IF k \in S THEN new[k].s ELSE js[k]]
             /\ jc' = [k \in Jobs |-> IF k \in S THEN new[k].c ELSE jc[k]]
             /\ jatt' = [jatt EXCEPT ![j] = a]
             /\ npp' = [k \in Jobs |-> IF k \in Ch THEN npp[k] - 1 ELSE npp[k]]
             /\ ur' = res[1] /\ cr' = res[2]
             /\ tally' = tl
             /\ bst' = IF tl[0].c = bnj THEN "complete" ELSE bst
             /\ gst' = [g \in Groups |-> IF g \in Anc(JGrp[j]) /\ tl[g].c = gnj[g] THEN "complete" ELSE gst[g]]
     ELSE UNCHANGED <<js, jc, jatt, npp, ur, cr, tally, bst, gst>>
  /\ UNCHANGED <<us, gex, gnj, canc, bnj, bdel, stg, ares, disp, jdisp, today>>

Complete(j, a, i, st, t0, t1) ==      \* worker report job_complete (possibly late / duplicated / stale attempt)
  /\ <<j, a, i>> \in disp /\ js[j] # "none" /\ st \in {"Success", "Failed", "Error"} /\ t0 \in Times /\ t1 \in Times /\ t0 <= t1
  /\ inst[i].st \in {"active", "inactive"}
  /\ MJC(j, a, i, st, t0, t1, "completed") /\ UNCHANGED pcall

\* unschedule_job (067)
Unschedule(j, a, i, t) ==
  LET oldEnd == att[j][a].en
      want == [att[j][a] EXCEPT !.ru = t, !.en = t, !.rs = "cancelled"]
      na == IF att[j][a].ex THEN [att EXCEPT ![j][a] = AttClamp(att[j][a], want)] ELSE att
      release == inst[i].st = "active" /\ oldEnd = NULLT
  IN
  /\ att' = na
  /\ inst' = IF release THEN [inst EXCEPT ![i].free = @ + JCores[j]] ELSE inst
  /\ BillingAfter([k \in Jobs |-> IF k = j /\ ares[j][a] THEN (Billed(na[j][a]) - Billed(att[j][a])) * ResQ ELSE 0])
  /\ IF js[j] \in {"Creating", "Running"} /\ jatt[j] = a
     THEN JobRow(j, "Ready", jc[j], NULL)
     ELSE UNCHANGED <<js, jc, jatt, ur, cr>>
  /\ UNCHANGED <<us, gex, gst, gnj, canc, bst, bnj, bdel, npp, tally, stg, ares, disp, jdisp, today>>

\* ---- driver: loops (selection predicate of the loop body + the call it issues) ----------------------------------------------
\* PoolScheduler.schedule_loop_body: picks a Ready job of a 'running' job group and an active instance, sends the job to the
\* worker (from now on the worker may report) -- the CALL schedule_job follows as a separate step.
SchedSelect(j, a, i) ==
  /\ ur.r + ur.x > 0 /\ ur.rcores > 0          \* compute_fair_share: the user is listed and is allocated cores (counters!)
  /\ js[j] = "Ready" /\ gst[JGrp[j]] = "running"
  /\ (JAlways[j] \/ (~GrpCanc(JGrp[j]) /\ ~jc[j]))
  /\ inst[i].st = "active" /\ ~att[j][a].ex /\ \A ii \in Insts : <<j, a, ii>> \notin disp
  /\ disp' = disp \cup {<<j, a, i>>}
  /\ UNCHANGED <<us, gex, gst, gnj, canc, bst, bnj, bdel, js, jc, npp, jatt, tally, stg, cr, ur, att, ares, inst, jdisp, pcall,
                 ujob, ugrp, ubp, udate, today>>

\* JobPrivateInstanceManager.create_instances_loop_body: a Ready job gets a fresh pending instance and mark_job_creating
JpimSelect(j, a, i) ==
  /\ "jpim" \in Features
  /\ js[j] = "Ready" /\ gst[JGrp[j]] = "running"
  /\ (JAlways[j] \/ (~GrpCanc(JGrp[j]) /\ ~jc[j]))
  /\ inst[i].st = "pending" /\ inst[i].free = InstCores /\ ~att[j][a].ex
  /\ \A jj \in Jobs, aa \in AttIds : <<jj, aa, i>> \notin disp /\ (\A ii \in Insts : <<j, a, ii>> \notin disp)
  /\ disp' = disp \cup {<<j, a, i>>} /\ jdisp' = jdisp \cup {<<j, a, i>>} /\ UNCHANGED pcall
  /\ UNCHANGED <<us, gex, gst, gnj, canc, bst, bnj, bdel, js, jc, npp, jatt, tally, stg, cr, ur, att, ares, inst,
                 ujob, ugrp, ubp, udate, today>>

\* The canceller's loops select rows and hand each to a worker pool: the call happens later, when the state may have moved on
\* (pcall = calls selected but not yet issued).  <kind>Select is the loop body's query, <kind>Call the procedure call it queued.

\* Canceller.cancel_cancelled_ready_jobs_loop_body (gated on the n_cancelled_ready_jobs counter)
CancelReadySelect(j) ==
  /\ ur.cr > 0
  /\ js[j] = "Ready" /\ gst[JGrp[j]] = "running" /\ ~JAlways[j] /\ (GrpCanc(JGrp[j]) \/ jc[j])
  /\ <<"ready", j, NULL>> \notin pcall
  /\ pcall' = pcall \cup {<<"ready", j, NULL>>}
  /\ UNCHANGED <<us, gex, gst, gnj, canc, bst, bnj, bdel, js, jc, npp, jatt, tally, stg, cr, ur, att, ares, inst, disp, jdisp,
                 ujob, ugrp, ubp, udate, today>>
CancelReadyCall(j) ==         \* mark_job_complete(j, attempt NULL, instance NULL, 'Cancelled')
  /\ <<"ready", j, NULL>> \in pcall /\ pcall' = pcall \ {<<"ready", j, NULL>>}
  /\ MJC(j, NULL, NULL, "Cancelled", NULLT, NULLT, "cancelled")

\* cancel_cancelled_creating_jobs_loop_body: Creating jobs (cancelled = 0) of cancelled 'running' groups, joined with ANY attempt
CancelCreatingSelect(j, a) ==
  /\ ur.cc > 0
  /\ js[j] = "Creating" /\ gst[JGrp[j]] = "running" /\ GrpCanc(JGrp[j]) /\ ~JAlways[j] /\ ~jc[j]
  /\ att[j][a].ex /\ <<"creating", j, a>> \notin pcall
  /\ pcall' = pcall \cup {<<"creating", j, a>>}
  /\ UNCHANGED <<us, gex, gst, gnj, canc, bst, bnj, bdel, js, jc, npp, jatt, tally, stg, cr, ur, att, ares, inst, disp, jdisp,
                 ujob, ugrp, ubp, udate, today>>
CancelCreatingCall(j, a, t) ==
  /\ t \in Times /\ <<"creating", j, a>> \in pcall /\ pcall' = pcall \ {<<"creating", j, a>>}
  /\ ("pendrel" \in Avoid => inst[att[j][a].inst].st # "pending")        \* scenario guard (finding "pendrel")
  /\ MJC(j, a, att[j][a].inst, "Cancelled", NULLT, t, "cancelled")

\* cancel_cancelled_running_jobs_loop_body and cancel_orphaned_attempts_loop_body -> unschedule_job
CancelRunningSelect(j, a) ==
  /\ ur.cx > 0
  /\ js[j] = "Running" /\ gst[JGrp[j]] = "running" /\ GrpCanc(JGrp[j]) /\ ~JAlways[j] /\ ~jc[j]
  /\ att[j][a].ex /\ <<"unsched", j, a>> \notin pcall
  /\ pcall' = pcall \cup {<<"unsched", j, a>>}
  /\ UNCHANGED <<us, gex, gst, gnj, canc, bst, bnj, bdel, js, jc, npp, jatt, tally, stg, cr, ur, att, ares, inst, disp, jdisp,
                 ujob, ugrp, ubp, udate, today>>
OrphanSelect(j, a) ==
  /\ att[j][a].ex /\ att[j][a].st # NULLT /\ att[j][a].en = NULLT
  /\ (js[j] \notin {"Running", "Creating"} \/ (jatt[j] # NULL /\ jatt[j] # a))
  /\ inst[att[j][a].inst].st = "active" /\ <<"unsched", j, a>> \notin pcall
  /\ pcall' = pcall \cup {<<"unsched", j, a>>}
  /\ UNCHANGED <<us, gex, gst, gnj, canc, bst, bnj, bdel, js, jc, npp, jatt, tally, stg, cr, ur, att, ares, inst, disp, jdisp,
                 ujob, ugrp, ubp, udate, today>>
UnscheduleCall(j, a, t) ==
  /\ t \in Times /\ <<"unsched", j, a>> \in pcall /\ pcall' = pcall \ {<<"unsched", j, a>>}
  /\ Unschedule(j, a, att[j][a].inst, t)

\* ---- instances -------------------------------------------------------------------------------------------------------------------
Activate(i) ==                \* activate_instance
  /\ inst[i].st = "pending"
  /\ inst' = [inst EXCEPT ![i].st = "active"]
  /\ UNCHANGED <<us, gex, gst, gnj, canc, bst, bnj, bdel, js, jc, npp, jatt, tally, stg, cr, ur, att, ares, disp, jdisp, pcall,
                 ujob, ugrp, ubp, udate, today>>

Deactivate(i, t) ==           \* deactivate_instance (067): ends all its attempts, puts their current jobs back to Ready
  /\ "deactivate" \in Features /\ t \in Times
  /\ inst[i].st \in {"pending", "active"}
  /\ LET U == { <<j, a>> \in Jobs \X AttIds : att[j][a].ex /\ att[j][a].inst = i }
         want == [ p \in U |-> [att[p[1]][p[2]] EXCEPT !.ru = t, !.en = t, !.rs = "deactivated"] ]
         S == { j \in Jobs : js[j] \in {"Running", "Creating"} /\ jatt[j] # NULL /\ <<j, jatt[j]>> \in U }
         new == [ j \in S |-> [s |-> "Ready", c |-> jc[j]] ]
         res == ApplyRows(S, new, ur, cr)
     IN /\ UpdateAttempts(U, want)
        /\ js' = [j \in Jobs |-> IF j \in S THEN "Ready" ELSE js[j]]
        /\ jatt' = [j \in Jobs |-> IF j \in S THEN NULL ELSE jatt[j]]
        /\ ur' = res[1] /\ cr' = res[2]
        /\ inst' = [inst EXCEPT ![i] = [st |-> "inactive", free |-> InstCores]]
  /\ UNCHANGED <<us, gex, gst, gnj, canc, bst, bnj, bdel, jc, npp, tally, stg, ares, disp, jdisp, pcall, today>>

\* ---- billing -----------------------------------------------------------------------------------------------------------------------
Heartbeat(j, a, t) ==         \* driver.main.billing_update_1: UPDATE attempts SET rollup_time = t
  /\ "billing" \in Features /\ t \in Times
  /\ att[j][a].ex /\ \E i \in Insts : <<j, a, i>> \in disp /\ inst[i].st \in {"active", "inactive"}
  /\ UpdateAttempts({<<j, a>>}, [p \in {<<j, a>>} |-> [att[j][a] EXCEPT !.ru = t]])
  /\ UNCHANGED <<us, gex, gst, gnj, canc, bst, bnj, bdel, js, jc, npp, jatt, tally, stg, cr, ur, ares, inst, disp, jdisp, pcall, today>>

AddResources(j, a) ==         \* driver.job.add_attempt_resources + trigger attempt_resources_after_insert
  /\ "billing" \in Features
  /\ att[j][a].ex /\ ~ares[j][a]            \* re-registration is ON DUPLICATE KEY UPDATE quantity = quantity: no trigger
  /\ ares' = [ares EXCEPT ![j][a] = TRUE]
  /\ BillingAfter([k \in Jobs |-> IF k = j THEN Billed(att[j][a]) * ResQ ELSE 0])
  /\ UNCHANGED <<us, gex, gst, gnj, canc, bst, bnj, bdel, js, jc, npp, jatt, tally, stg, cr, ur, att, inst, disp, jdisp, pcall, today>>

NextDay ==
  /\ "billing" \in Features /\ today + 1 \in Days
  /\ today' = today + 1
  /\ UNCHANGED <<us, gex, gst, gnj, canc, bst, bnj, bdel, js, jc, npp, jatt, tally, stg, cr, ur, att, ares, inst, disp, jdisp, pcall,
                 ujob, ugrp, ubp, udate>>

\* ---- background cleaners ------------------------------------------------------------------------------------------------------------
CleanStaging ==               \* delete_committed_job_groups_inst_coll_staging_records
  /\ "cleaners" \in Features
  /\ \E u \in Updates, g \in Groups : us[u] = "committed" /\ stg[u][g] # ZeroStg
  /\ stg' = [u \in Updates |-> [g \in Groups |-> IF us[u] = "committed" THEN ZeroStg ELSE stg[u][g]]]
  /\ UNCHANGED <<us, gex, gst, gnj, canc, bst, bnj, bdel, js, jc, npp, jatt, tally, cr, ur, att, ares, inst, disp, jdisp, pcall,
                 ujob, ugrp, ubp, udate, today>>

CleanCancellable ==           \* delete_prev_cancelled_job_group_cancellable_resources_records
  /\ "cleaners" \in Features
  /\ \E u \in Updates, g \in Groups : GrpCanc(g) /\ cr[u][g] # ZeroCr
  /\ cr' = [u \in Updates |-> [g \in Groups |-> IF GrpCanc(g) THEN ZeroCr ELSE cr[u][g]]]
  /\ UNCHANGED <<us, gex, gst, gnj, canc, bst, bnj, bdel, js, jc, npp, jatt, tally, stg, ur, att, ares, inst, disp, jdisp, pcall,
                 ujob, ugrp, ubp, udate, today>>

-----------------------------------------------------------------------------
Next ==
  \/ \E u \in Updates : CreateUpdate(u) \/ Commit(u)
  \/ \E g \in Groups : InsertGroup(g) \/ CancelGroup(g) \/ FailFastSelect(g) \/ FailFastCall(g)
  \/ MarkDeleted
  \/ \E j \in Jobs : InsertJob(j) \/ CancelReadySelect(j) \/ CancelReadyCall(j)
  \/ \E j \in Jobs, a \in AttIds, i \in Insts : SchedSelect(j, a, i) \/ JpimSelect(j, a, i) \/ ScheduleProc(j, a, i)
  \/ \E j \in Jobs, a \in AttIds, i \in Insts, t \in Times : Started(j, a, i, t) \/ CreatingProc(j, a, i, t)
  \/ \E j \in Jobs, a \in AttIds, i \in Insts, st \in {"Success", "Failed", "Error"}, t0 \in Times, t1 \in Times : Complete(j, a, i, st, t0, t1)
  \/ \E j \in Jobs, a \in AttIds, t \in Times : CancelCreatingCall(j, a, t) \/ UnscheduleCall(j, a, t) \/ Heartbeat(j, a, t)
  \/ \E j \in Jobs, a \in AttIds : AddResources(j, a) \/ CancelCreatingSelect(j, a) \/ CancelRunningSelect(j, a) \/ OrphanSelect(j, a)
  \/ \E i \in Insts : Activate(i)
  \/ \E i \in Insts, t \in Times : Deactivate(i, t)
  \/ NextDay \/ CleanStaging \/ CleanCancellable

Spec == Init /\ [][Next]_vars
=============================================================================
