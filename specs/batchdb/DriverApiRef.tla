---------------------------- MODULE DriverApiRef ----------------------------
(* DriverApi implements BatchDB: with the driver's HTTP API in front of the procedures, every step of the system is a step
   BatchDB allows (or leaves BatchDB's variables unchanged).  BatchDB has no `deleted` instances: a deleted instance is read
   as an inactive one (nothing in BatchDB distinguishes them: neither takes or releases cores nor starts jobs).
   In particular the guards of BatchDB's Started / Complete / Heartbeat -- the attempt was dispatched to the reporting
   instance, the instance was activated -- hold whenever the API lets a report through (feature "rogue" off).           *)
EXTENDS DriverApi

instBar == [i \in Insts |-> [st |-> IF inst[i].st = "deleted" THEN "inactive" ELSE inst[i].st, free |-> inst[i].free]]
BDB == INSTANCE BatchDB WITH inst <- instBar
D_Refines == [][BDB!Next]_(BDB!vars)
=============================================================================
