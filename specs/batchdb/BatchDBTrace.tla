----------------------------- MODULE BatchDBTrace -----------------------------
(* B2: recorded executions of the real batch code (real SQL on MiniMySQL + real Python) validated as behaviours of BatchDB.
   One ndjson line per execution: [ev |-> << [a |-> action name, args |-> <<...>>, post |-> projected tables], ... >>].
   An event must be the named BatchDB action with the logged arguments (or, for a request the service refused, a step that
   the specification does not enable and that changes nothing), and the successor state must project to the logged tables.
   An event that cannot be explained is a deadlock of this specification; every invariant of BatchDBProps is evaluated in
   every state of every execution.                                                                                      *)
EXTENDS BatchDBLive, Json, IOUtils

Traces == ndJsonDeserialize(IOEnv.TRACE_FILE)
VARIABLES tid, l
tvars == <<vars, tid, l>>

TraceInit == Init /\ tid \in 1..Len(Traces) /\ l = 1
Ev == Traces[tid].ev
ToSetT(s) == { s[i] : i \in 1..Len(s) }

\* projection equality; int-indexed tables travel as arrays (groups are offset by one: g |-> arr[g + 1])
PostOk(p) ==
  /\ \A u \in Updates : us'[u] = p.us[u]
  /\ \A g \in Groups : gex'[g] = p.gex[g + 1] /\ gst'[g] = p.gst[g + 1] /\ gnj'[g] = p.gnj[g + 1] /\ tally'[g] = p.tally[g + 1]
                       /\ ugrp'[g] = p.ugrp[g + 1]
  /\ canc' = ToSetT(p.canc)
  /\ bst' = p.bst /\ bnj' = p.bnj /\ bdel' = p.bdel
  /\ \A j \in Jobs : js'[j] = p.js[j] /\ jc'[j] = p.jc[j] /\ npp'[j] = p.npp[j] /\ jatt'[j] = p.jatt[j] /\ ujob'[j] = p.ujob[j]
  /\ \A u \in Updates, g \in Groups : stg'[u][g] = p.stg[u][g + 1] /\ cr'[u][g] = p.cr[u][g + 1]
  /\ ur' = p.ur
  /\ \A j \in Jobs, a \in AttIds : att'[j][a] = p.att[j][a] /\ ares'[j][a] = p.ares[j][a]
  /\ \A i \in Insts : inst'[i] = p.inst[i]
  /\ ubp' = p.ubp /\ \A d \in Days : udate'[d] = p.udate[d + 1]
  /\ today' = p.today

Act(e) ==
  LET x == e.args IN
  CASE e.a = "CreateUpdate"     -> CreateUpdate(x[1])
    [] e.a = "InsertGroup"      -> InsertGroup(x[1])
    [] e.a = "InsertJob"        -> InsertJob(x[1])
    [] e.a = "Commit"           -> Commit(x[1])
    [] e.a = "CancelGroup"      -> CancelGroup(x[1])
    [] e.a = "MarkDeleted"      -> MarkDeleted
    [] e.a = "SchedSelect"      -> SchedSelect(x[1], x[2], x[3])
    [] e.a = "JpimSelect"       -> JpimSelect(x[1], x[2], x[3])
    [] e.a = "ScheduleProc"     -> ScheduleProc(x[1], x[2], x[3])
    [] e.a = "Started"          -> Started(x[1], x[2], x[3], x[4])
    [] e.a = "CreatingProc"     -> CreatingProc(x[1], x[2], x[3], x[4])
    [] e.a = "Complete"         -> Complete(x[1], x[2], x[3], x[4], x[5], x[6])
    [] e.a = "CancelReadySelect"    -> CancelReadySelect(x[1])
    [] e.a = "CancelReadyCall"      -> CancelReadyCall(x[1])
    [] e.a = "CancelCreatingSelect" -> CancelCreatingSelect(x[1], x[2])
    [] e.a = "CancelCreatingCall"   -> CancelCreatingCall(x[1], x[2], x[3])
    [] e.a = "CancelRunningSelect"  -> CancelRunningSelect(x[1], x[2])
    [] e.a = "OrphanSelect"         -> OrphanSelect(x[1], x[2])
    [] e.a = "UnscheduleCall"       -> UnscheduleCall(x[1], x[2], x[3])
    [] e.a = "FailFastSelect"   -> FailFastSelect(x[1])
    [] e.a = "FailFastCall"     -> FailFastCall(x[1])
    [] e.a = "Activate"         -> Activate(x[1])
    [] e.a = "Deactivate"       -> Deactivate(x[1], x[2])
    [] e.a = "Heartbeat"        -> Heartbeat(x[1], x[2], x[3])
    [] e.a = "AddResources"     -> AddResources(x[1], x[2])
    [] e.a = "NextDay"          -> NextDay
    [] e.a = "Compact"          -> "billing" \in Features /\ UNCHANGED vars      \* compaction of the sharded billing tables: no total changes
    [] e.a = "CleanStaging"     -> CleanStaging
    [] e.a = "CleanCancellable" -> CleanCancellable
    [] OTHER -> FALSE

TraceStep ==
  /\ l <= Len(Ev)
  /\ LET e == Ev[l] IN
     IF e.noop
     THEN \* the tables did not change: either the action's specified effect is "nothing" (duplicate cancel, refused
          \* schedule, dispatch decision), or the specification does not enable it (request refused / duplicate bunch)
          \/ Act(e) /\ PostOk(e.post)
          \/ ~ENABLED Act(e) /\ UNCHANGED vars
     ELSE Act(e) /\ PostOk(e.post)
  /\ l' = l + 1 /\ UNCHANGED tid

TraceDone == l > Len(Ev) /\ UNCHANGED tvars
TraceNext == TraceStep \/ TraceDone
TraceSpec == TraceInit /\ [][TraceNext]_tvars
=============================================================================
