------------------------------ MODULE DriverApi ------------------------------
(* The worker <-> driver protocol at the level of HTTP requests (batch/batch/driver/main.py), on top of DriverMem
   (the driver's in-memory Instance objects) and BatchDB (the tables).

   BatchDB ASSUMES a message discipline: reports (job_started, job_complete, billing heartbeats) come only from instances
   that were activated, about attempts the driver dispatched to them; late, duplicated, in any order.  This module models
   the code that is supposed to ENFORCE the instance part of that assumption and lets everybody send everything:

     a request = (route, X-Hail-Instance-Name n, token tk, body); n ranges over the instances and a name nobody has
     ("ghost"); tk over   "act"    the instance's own activation token (instances.activation_token, NULLed by activate_instance)
                          "bearer" the instance's own bearer token (instances.token, returned by the activate request)
                          "wrong"  anything else (another instance's tokens, garbage)
                          "none"   no token header at all
     decorators   activating_instances_only : Instance object in memory, its state 'pending', row with this activation token
                  active_instances_only     : Instance object in memory, its state 'active', token = name_token_cache.lookup(name);
                                              then Instance.mark_healthy()
     handlers     activate_instance_1 / deactivate_instance_1 / job_started_1 / job_complete_1 / billing_update_1

   One action per outcome: <Route>OK (200: the effect is the BatchDB / DriverMem action), <Route>Denied (401: nothing
   changes), <Route>Error (500: nothing changes but the health counter), NoNameHeader (no X-Hail-Instance-Name: 500).
   A request whose headers were accepted but whose body has not arrived yet is "in flight" (ReqCheck; the handler continues in
   <Route>Body...): in between the driver may deactivate, delete, remove the instance, serve other requests or restart.
   Driver steps: everything DriverMem has, plus mark_instance_deleted, InstanceCollection.remove_instance (removed = 1, object
   dropped), incr_failed_request_count, and a restart (memory rebuilt from `instances WHERE removed = 0`, as Pool.create does).
   A name cannot get a second life: instances.name is the primary key and rows are never deleted (removed = 1), so creating
   an instance under a used name fails; the worker of a removed instance is a worker whose name has no object: 401.

   What is checked (TLC, all behaviours for small constants):
     D_Refines (module DriverApiRef)  every step is a step of BatchDB (a `deleted` instance read as `inactive`) or leaves its
                                      variables unchanged: with the API in front, BatchDB's assumption about instances HOLDS.
     D_MemState, D_ActiveWasActivated, D_AttemptsOnActivated, D_ActivateOnce, D_NeverPendingAgain, D_TokenSpent, D_Mem,
     C10_Free, C39_CurrentAttempt, C39_OnlyCurrentCompletes, C39_NoDoubleRun (inherited formulas).
   A second activate with the same token: answered 401 (the object is no longer pending; the procedure NULLed the token); if it
   overlaps the first one (both bodies outstanding) the loser fails in Instance.activate (assert / rc = 1): 500, no change.
   What stays assumed: a worker holding a valid token reports only about attempts dispatched to it (Legit).  The API does
   not and cannot enforce that (a report may overtake the driver's own CALL schedule_job, so unknown attempt ids must be
   accepted: add_attempt inserts the attempt row, takes the cores of the REPORTING instance and mark_job_started starts the
   job).  Feature "rogue" drops the assumption so that TLC shows what then breaks (D_Refines, C01_User, C10_Free).

   The conformance harness (checks/_driverapi.py) replays the state graph of this module on the real aiohttp route table of
   batch.driver.main: response status, tables and in-memory instance state must agree after every step; DriverApiSim adds the
   action taken to the state so that random behaviours of larger programs (TLC -simulate) can be replayed as well.      *)
EXTENDS DriverMem

VARIABLES rmv,      \* rmv[i]  : instances.removed
          atk,      \* atk[i]  : instances.activation_token IS NOT NULL
          frc,      \* frc[i]  : failed_request_count (the column and Instance._failed_request_count move together)
          infl      \* requests whose headers passed the decorator and whose body has not arrived: {<<kind, instance>>}

avars == <<mvars, rmv, atk, frc, infl>>
KeepApi == UNCHANGED <<rmv, atk, frc, infl>>
Has(f) == f \in Features

Toks  == {"act", "bearer", "wrong", "none"}
Names == Insts \cup {"ghost"}             \* "ghost": a name no instance has, sent with somebody else's (valid) token
MaxFrc == 2
Kinds == {"activate", "deactivate", "started", "complete", "billing"}
Stati == {"Success", "Failed", "Error"}

\* the decorators
Accepts(k, n, tk) ==
  /\ n \in Insts
  /\ IF k = "activate" THEN mst[n] = "pending" /\ tk = "act" /\ atk[n]
                       ELSE mst[n] = "active" /\ tk = "bearer"
RightTok(k) == IF k = "activate" THEN "act" ELSE "bearer"

\* Instance.mark_healthy: resets the counter only when it is > 1 (and the object is active)
Heal(i) == [frc EXCEPT ![i] = IF @ > 1 THEN 0 ELSE @]
HealIfActiveAfter(i) == [frc EXCEPT ![i] = IF mst'[i] = "active" /\ @ > 1 THEN 0 ELSE @]

\* the workers' own discipline (ASSUMED unless feature "rogue"): reports only about attempts dispatched to this instance
Legit(i, j, a) == <<j, a, i>> \in disp \/ Has("rogue")

BVarsNoInst == <<us, gex, gst, gnj, canc, bst, bnj, bdel, js, jc, npp, jatt, tally, stg, cr, ur,
                 att, ares, disp, jdisp, pcall, ujob, ugrp, ubp, udate, today>>

DInit == /\ MInit
         /\ rmv = [i \in Insts |-> FALSE] /\ atk = [i \in Insts |-> TRUE] /\ frc = [i \in Insts |-> 0] /\ infl = {}

-----------------------------------------------------------------------------
\* ---- effects of the handlers (from the point where the body has been read) -------------------------------------------------
\* activate_instance_1: Instance.activate (assert pending; CALL activate_instance, rc # 0 raises) ; mark_healthy
ActEff(i) ==
  /\ mst[i] = "pending" /\ Activate(i)
  /\ mst' = [mst EXCEPT ![i] = "active"] /\ atk' = [atk EXCEPT ![i] = FALSE]
  /\ frc' = Heal(i) /\ UNCHANGED <<mfree, pend, rmv>>
ActFails(i) == mst[i] # "pending" \/ inst[i].st # "pending"      \* AssertionError / CallError: 500

\* deactivate_instance_1: Instance.deactivate('deactivated') with the driver's clock
DeactEff(i, t) ==
  /\ t \in Times
  /\ IF mst[i] \in {"inactive", "deleted", "none"} THEN UNCHANGED <<vars, mst, mfree>>
     ELSE /\ IF inst[i].st \in {"pending", "active"} THEN Deactivate(i, t) ELSE UNCHANGED vars
          /\ mst' = [mst EXCEPT ![i] = "inactive"] /\ mfree' = [mfree EXCEPT ![i] = InstCores]
  /\ UNCHANGED <<pend, rmv, atk>>

\* job_started_1 -> job.mark_job_started(instance object): CALL mark_job_started with instance.name
StartEff(i, j, a, t) ==
  /\ js[j] # "none" /\ t \in Times /\ Legit(i, j, a)
  /\ StartLike(j, a, i, t, "Ready", "active", "Running")
  /\ mfree' = Adj(i, NewAtt(j, a)) /\ UNCHANGED <<mst, pend, rmv, atk>>

\* job_complete_1 -> job.mark_job_complete(instance.name): the instance is looked up again by name for the memory adjustment
ComplEff(i, j, a, st, t0, t1) ==
  /\ js[j] # "none" /\ st \in Stati /\ t0 \in Times /\ t1 \in Times /\ t0 <= t1 /\ Legit(i, j, a)
  /\ MJC(j, a, i, st, t0, t1, "completed") /\ UNCHANGED pcall
  /\ mfree' = Adj(i, NewAtt(j, a) + Release(j, a, i)) /\ UNCHANGED <<mst, pend, rmv, atk>>

\* billing_update_1: UPDATE attempts SET rollup_time WHERE (batch, job, attempt) -- no row, no change
BillEff(i, j, a, t) ==
  /\ Has("billing") /\ t \in Times /\ Legit(i, j, a)
  /\ IF att[j][a].ex
     THEN /\ UpdateAttempts({<<j, a>>}, [p \in {<<j, a>>} |-> [att[j][a] EXCEPT !.ru = t]])
          /\ UNCHANGED <<us, gex, gst, gnj, canc, bst, bnj, bdel, js, jc, npp, jatt, tally, stg, cr, ur, ares, inst, disp, jdisp, pcall, today>>
     ELSE UNCHANGED vars
  /\ UNCHANGED <<mfree, mst, pend, rmv, atk>>

\* a report about a job that has no row: add_attempt violates the foreign key attempts -> jobs, the transaction is rolled back
NoJob(j) == js[j] = "none"

-----------------------------------------------------------------------------
\* ---- requests served in one piece ----------------------------------------------------------------------------------------------
ActivateOK(i, tk)     == Accepts("activate", i, tk) /\ ActEff(i) /\ UNCHANGED infl
ActivateError(i, tk)  == Accepts("activate", i, tk) /\ ActFails(i) /\ UNCHANGED avars
ActivateDenied(n, tk) == n \in Names /\ tk \in Toks /\ ~Accepts("activate", n, tk) /\ UNCHANGED avars

DeactivateOK(i, tk, t)  == Accepts("deactivate", i, tk) /\ DeactEff(i, t) /\ frc' = Heal(i) /\ UNCHANGED infl
DeactivateDenied(n, tk) == n \in Names /\ tk \in Toks /\ ~Accepts("deactivate", n, tk) /\ UNCHANGED avars

JobStartedOK(i, tk, j, a, t) == Accepts("started", i, tk) /\ StartEff(i, j, a, t) /\ frc' = Heal(i) /\ UNCHANGED infl
JobStartedError(i, tk, j)    == Accepts("started", i, tk) /\ NoJob(j) /\ frc' = Heal(i) /\ UNCHANGED <<mvars, rmv, atk, infl>>
JobStartedDenied(n, tk)      == n \in Names /\ tk \in Toks /\ ~Accepts("started", n, tk) /\ UNCHANGED avars

JobCompleteOK(i, tk, j, a, st, t0, t1) == Accepts("complete", i, tk) /\ ComplEff(i, j, a, st, t0, t1) /\ frc' = Heal(i) /\ UNCHANGED infl
JobCompleteError(i, tk, j)             == Accepts("complete", i, tk) /\ NoJob(j) /\ frc' = Heal(i) /\ UNCHANGED <<mvars, rmv, atk, infl>>
JobCompleteDenied(n, tk)               == n \in Names /\ tk \in Toks /\ ~Accepts("complete", n, tk) /\ UNCHANGED avars

BillingOK(i, tk, j, a, t) == Accepts("billing", i, tk) /\ BillEff(i, j, a, t) /\ frc' = Heal(i) /\ UNCHANGED infl
BillingDenied(n, tk)      == n \in Names /\ tk \in Toks /\ ~Accepts("billing", n, tk) /\ UNCHANGED avars
\* no X-Hail-Instance-Name header at all: instance_name_from_request raises ValueError (500), nothing is looked at
NoNameHeader(k)           == k \in Kinds /\ UNCHANGED avars

\* ---- requests in two pieces: headers (decorator) now, body (handler) later --------------------------------------------------------
ReqCheck(k, i) ==
  /\ Has("inflight") /\ infl = {} /\ k \in {"activate", "started", "complete", "billing"}
  /\ (k = "billing" => Has("billing"))
  /\ Accepts(k, i, RightTok(k))
  /\ infl' = {<<k, i>>}
  /\ frc' = IF k = "activate" THEN frc ELSE Heal(i)
  /\ UNCHANGED <<mvars, rmv, atk>>
Done(k, i) == <<k, i>> \in infl /\ infl' = infl \ {<<k, i>>}

ActivateBodyOK(i)    == Done("activate", i) /\ ActEff(i)
ActivateBodyError(i) == Done("activate", i) /\ ActFails(i) /\ UNCHANGED <<mvars, rmv, atk, frc>>
StartedBody(i, j, a, t)      == Done("started", i) /\ StartEff(i, j, a, t) /\ frc' = HealIfActiveAfter(i)
StartedBodyError(i, j)       == Done("started", i) /\ NoJob(j) /\ UNCHANGED <<mvars, rmv, atk, frc>>
CompleteBody(i, j, a, st, t0, t1) == Done("complete", i) /\ ComplEff(i, j, a, st, t0, t1) /\ frc' = HealIfActiveAfter(i)
CompleteBodyError(i, j)      == Done("complete", i) /\ NoJob(j) /\ UNCHANGED <<mvars, rmv, atk, frc>>
BillingBody(i, j, a, t)      == Done("billing", i) /\ BillEff(i, j, a, t) /\ frc' = HealIfActiveAfter(i)
\* the body that arrives is not JSON: the handler raises before it does anything (500)
BodyGarbage(k, i)            == Done(k, i) /\ UNCHANGED <<mvars, rmv, atk, frc>>

-----------------------------------------------------------------------------
\* ---- the driver's own steps ------------------------------------------------------------------------------------------------------
DCreateUpdate(u) == MCreateUpdate(u) /\ KeepApi
DCommit(u)       == MCommit(u) /\ KeepApi
DInsertGroup(g)  == MInsertGroup(g) /\ KeepApi
DInsertJob(j)    == MInsertJob(j) /\ KeepApi
DCancelGroup(g)  == Has("cancel") /\ MCancelGroup(g) /\ KeepApi
DCancelReadySelect(j)      == Has("cancel") /\ MCancelReadySelect(j) /\ KeepApi
DCancelReadyCall(j)        == Has("cancel") /\ MCancelReadyCall(j) /\ KeepApi
DCancelRunningSelect(j, a) == Has("cancel") /\ MCancelRunningSelect(j, a) /\ KeepApi
DOrphanSelect(j, a)        == Has("cancel") /\ MOrphanSelect(j, a) /\ KeepApi
\* job.unschedule_job: after the CALL, the job is deleted on the worker and the (still live) instance marked healthy
DUnschedule(j, a, t) ==
  /\ Has("cancel") /\ <<"unsched", j, a>> \in pcall /\ MUnschedule(j, a, t)
  /\ LET i == att[j][a].inst IN frc' = IF mst[i] = "active" THEN Heal(i) ELSE frc
  /\ UNCHANGED <<rmv, atk, infl>>
DSelect(j, a, i)   == MSelect(j, a, i) /\ KeepApi
\* job.schedule_job: assert active ; POST the job to the worker ; mark_healthy ; CALL schedule_job
DSchedule(j, a, i) == MSchedule(j, a, i) /\ frc' = (IF mst[i] = "active" THEN Heal(i) ELSE frc) /\ UNCHANGED <<rmv, atk, infl>>

\* InstanceCollection.check_on_instance (VM gone / activation timeout / not responding) -> Instance.deactivate
DDeactivate(i, t)     == mst[i] \in {"pending", "active"} /\ MDeactivate(i, t) /\ KeepApi
DDeactivateLost(i, t) == Has("lost") /\ mst[i] \in {"pending", "active"} /\ MDeactivateLost(i, t) /\ KeepApi
\* Instance.mark_deleted on an inactive object: CALL mark_instance_deleted
DMarkDeleted(i) ==
  /\ Has("delete_inst") /\ mst[i] = "inactive" /\ inst[i].st = "inactive"
  /\ inst' = [inst EXCEPT ![i].st = "deleted"] /\ mst' = [mst EXCEPT ![i] = "deleted"]
  /\ UNCHANGED <<BVarsNoInst, mfree, pend>> /\ KeepApi
\* InstanceCollection.remove_instance on a deactivated object: removed = 1, the object is dropped
DRemove(i) ==
  /\ Has("remove") /\ mst[i] \in {"inactive", "deleted"}
  /\ rmv' = [rmv EXCEPT ![i] = TRUE] /\ mst' = [mst EXCEPT ![i] = "none"]
  /\ UNCHANGED <<vars, mfree, pend, atk, frc, infl>>
\* Instance.incr_failed_request_count (health check / job delivery to the worker failed)
DIncrFailed(i) ==
  /\ Has("health") /\ mst[i] = "active" /\ frc[i] < MaxFrc
  /\ frc' = [frc EXCEPT ![i] = @ + 1] /\ UNCHANGED <<mvars, rmv, atk, infl>>
\* the driver process is replaced: objects rebuilt from the tables, dispatches and requests in progress die with the old process
DRestart ==
  /\ Has("restart")
  /\ mst' = [i \in Insts |-> IF rmv[i] THEN "none" ELSE inst[i].st]
  /\ mfree' = [i \in Insts |-> inst[i].free]
  /\ pend' = {} /\ infl' = {}
  /\ UNCHANGED <<vars, rmv, atk, frc>>

DNext ==
  \/ \E u \in Updates : DCreateUpdate(u) \/ DCommit(u)
  \/ \E g \in Groups : DInsertGroup(g) \/ DCancelGroup(g)
  \/ \E j \in Jobs : DInsertJob(j) \/ DCancelReadySelect(j) \/ DCancelReadyCall(j)
  \/ \E j \in Jobs, a \in AttIds : DCancelRunningSelect(j, a) \/ DOrphanSelect(j, a)
  \/ \E j \in Jobs, a \in AttIds, t \in Times : DUnschedule(j, a, t)
  \/ \E j \in Jobs, a \in AttIds, i \in Insts : DSelect(j, a, i) \/ DSchedule(j, a, i)
  \/ \E i \in Insts, t \in Times : DDeactivate(i, t) \/ DDeactivateLost(i, t)
  \/ \E i \in Insts : DMarkDeleted(i) \/ DRemove(i) \/ DIncrFailed(i)
  \/ DRestart
  \* requests: anybody, any name, any token, any time
  \/ \E n \in Insts, tk \in Toks : ActivateDenied(n, tk) \/ DeactivateDenied(n, tk) \/ JobStartedDenied(n, tk)
                                   \/ JobCompleteDenied(n, tk) \/ BillingDenied(n, tk)
  \/ ActivateDenied("ghost", "act") \/ DeactivateDenied("ghost", "bearer") \/ JobStartedDenied("ghost", "bearer")
  \/ JobCompleteDenied("ghost", "bearer") \/ BillingDenied("ghost", "bearer")
  \/ \E k \in Kinds : NoNameHeader(k)
  \/ \E i \in Insts, tk \in Toks : ActivateOK(i, tk) \/ ActivateError(i, tk)
  \/ \E i \in Insts, tk \in Toks, t \in Times : DeactivateOK(i, tk, t)
  \/ \E i \in Insts, tk \in Toks, j \in Jobs : JobStartedError(i, tk, j) \/ JobCompleteError(i, tk, j)
  \/ \E i \in Insts, tk \in Toks, j \in Jobs, a \in AttIds, t \in Times : JobStartedOK(i, tk, j, a, t) \/ BillingOK(i, tk, j, a, t)
  \/ \E i \in Insts, tk \in Toks, j \in Jobs, a \in AttIds, st \in Stati, t0 \in Times, t1 \in Times : JobCompleteOK(i, tk, j, a, st, t0, t1)
  \/ \E k \in {"activate", "started", "complete", "billing"}, i \in Insts : ReqCheck(k, i) \/ BodyGarbage(k, i)
  \/ \E i \in Insts : ActivateBodyOK(i) \/ ActivateBodyError(i)
  \/ \E i \in Insts, j \in Jobs : StartedBodyError(i, j) \/ CompleteBodyError(i, j)
  \/ \E i \in Insts, j \in Jobs, a \in AttIds, t \in Times : StartedBody(i, j, a, t) \/ BillingBody(i, j, a, t)
  \/ \E i \in Insts, j \in Jobs, a \in AttIds, st \in Stati, t0 \in Times, t1 \in Times : CompleteBody(i, j, a, st, t0, t1)

DSpec == DInit /\ [][DNext]_avars

-----------------------------------------------------------------------------
\* ---- properties ---------------------------------------------------------------------------------------------------------------------
\* memory mirrors the table; it lags only between a lost deactivation reply and its retry; removed <=> no object
D_MemState == \A i \in Insts :
  /\ (mst[i] = "none") <=> rmv[i]
  /\ mst[i] # "none" => (mst[i] = inst[i].st \/ (mst[i] \in {"pending", "active"} /\ inst[i].st = "inactive"))
\* BatchDB's assumption "reports come only from instances that were activated", as facts about this model:
\* an object that passes active_instances_only belongs to a row that was activated with its activation token ...
D_ActiveWasActivated == \A i \in Insts : (mst[i] = "active" \/ inst[i].st = "active") => (~atk[i] /\ inst[i].st \in {"active", "inactive"})
\* ... and (no job-private instances here) an attempt row exists only on an instance that was activated
D_AttemptsOnActivated == \A j \in Jobs, a \in AttIds : att[j][a].ex => (att[j][a].inst \in Insts /\ ~atk[att[j][a].inst])
\* pending -> active happens once per instance, by a request that presented the activation token, and spends the token
D_ActivateOnce == [][ \A i \in Insts : (inst[i].st # "active" /\ inst'[i].st = "active") =>
                        (inst[i].st = "pending" /\ mst[i] = "pending" /\ atk[i] /\ ~atk'[i] /\ mst'[i] = "active") ]_avars
D_NeverPendingAgain == [][ \A i \in Insts : inst[i].st # "pending" => inst'[i].st # "pending" ]_avars
D_TokenSpent == [][ \A i \in Insts : ~atk[i] => ~atk'[i] ]_avars
\* the in-memory copy of the free cores equals the table whenever no CALL schedule_job is outstanding (DriverMem's C10_Mem,
\* restricted to objects that exist)
D_Mem == \A i \in Insts :
  /\ (mst[i] = "active" /\ inst[i].st = "active" /\ ~(\E t \in pend : t[3] = i)) => mfree[i] = inst[i].free
  /\ mst[i] = "inactive" => mfree[i] = InstCores
=============================================================================
