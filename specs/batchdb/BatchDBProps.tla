----------------------------- MODULE BatchDBProps -----------------------------
(* The listed properties C01 C02 C04 C05 C06 C07 C10 C41 (and further ones) over BatchDB, as state invariants
   and action properties.  `Avoid` restricts the behaviours to those that do not enter the scenario of a recorded
   finding (see known_findings.json): a property is checked (i) with every known scenario avoided -- it must hold --
   and (ii) per finding with only that scenario allowed -- TLC's counter-example is then replayed on the real code. *)
EXTENDS BatchDB

Committed(j)  == js[j] # "none" /\ us[JUpd[j]] = "committed"
Exists(j)     == js[j] # "none"
Sub(g)        == { j \in Jobs : Exists(j) /\ g \in Anc(JGrp[j]) }
Marked(j)     == jc[j] \/ GrpCanc(JGrp[j])
Runnable(j)   == JAlways[j] \/ ~Marked(j)
N(S)          == Cardinality(S)
Cores(S)      == SumS(S, LAMBDA j : JCores[j])
CJ(st)        == { j \in Jobs : Committed(j) /\ js[j] = st }

\* Scenarios of recorded findings (constant Avoid of BatchDB, guards inside the actions):
\*   "ooc"      an update is committed while an earlier update of the batch is still open
\*   "toctou"   commit_batch_update runs after the root group was cancelled (cancel between pre-check and procedure)
\*   ("uncchild", a job completing while a child of it exists in an update that is not committed, was repaired by migration 123)
\*   "pendrel"  an attempt ends while its instance is still pending

\* ---- types ------------------------------------------------------------------------------------------------------
TypeOK ==
  /\ \A u \in Updates : us[u] \in {"none", "open", "committed"}
  /\ \A j \in Jobs : js[j] \in {"none", "Pending"} \cup Live \cup Terminal
  /\ \A j \in Jobs : npp[j] \in Int
  /\ canc \subseteq Groups

\* ---- C01: counters match job states --------------------------------------------------------------------------------
C01_User ==
  /\ ur.r      = N({ j \in CJ("Ready")    : Runnable(j) })
  /\ ur.rcores = Cores({ j \in CJ("Ready") : Runnable(j) })
  /\ ur.x      = N({ j \in CJ("Running")  : Runnable(j) })
  /\ ur.xcores = Cores({ j \in CJ("Running") : Runnable(j) })
  /\ ur.c      = N({ j \in CJ("Creating") : Runnable(j) })
  /\ ur.cr     = N({ j \in CJ("Ready")    : ~Runnable(j) })
  /\ ur.cx     = N({ j \in CJ("Running")  : ~Runnable(j) })
  /\ ur.cc     = N({ j \in CJ("Creating") : ~Runnable(j) })

\* rows of a group that has a cancelled PROPER ancestor are garbage awaiting the cleaner (nothing reads them)
C01_Group == \A g \in Groups, u \in Updates :
  (gex[g] /\ CancAnc(g) \subseteq {g}) =>
     LET S(st) == { j \in Sub(g) : JUpd[j] = u /\ js[j] = st /\ ~JAlways[j] /\ ~Marked(j) } IN
     /\ cr[u][g].r = N(S("Ready"))    /\ cr[u][g].rcores = Cores(S("Ready"))
     /\ cr[u][g].x = N(S("Running"))  /\ cr[u][g].xcores = Cores(S("Running"))
     /\ cr[u][g].c = N(S("Creating"))

\* ---- C02: billing aggregates ----------------------------------------------------------------------------------------
JobUsage(j) == SumS(AttIds, LAMBDA a : IF ares[j][a] THEN ResQ * Billed(att[j][a]) ELSE 0)
C02_Billing ==
  /\ \A j \in Jobs : ujob[j] = JobUsage(j)
  /\ \A g \in Groups : ugrp[g] = SumS(Sub(g), LAMBDA j : JobUsage(j))
  /\ ubp = SumS(Jobs, LAMBDA j : JobUsage(j))
  /\ SumS(Days, LAMBDA d : udate[d]) = ubp

\* ---- C03 on the attempts of this model (the exhaustive treatment is AttemptClock) ------------------------------------
C03_Attempts == [][ \A j \in Jobs, a \in AttIds :
     LET o == att[j][a]   n == att'[j][a] IN
     (o.ex /\ n.ex) =>
       /\ Billed(n) >= 0
       /\ (n.en # NULLT /\ n.st # NULLT => Billed(n) <= Max2(n.en - n.st, 0))
       /\ (Billed(n) < Billed(o) => (n.en # NULLT /\ (o.en = NULLT \/ n.en < o.en)) \/ n.rs = "activation_timeout")
       /\ (o.st # NULLT /\ n.rs # "activation_timeout" => n.st # NULLT /\ n.st <= o.st)
       /\ (o.rs # NULL => (n.en = o.en \/ (n.en # NULLT /\ o.en # NULLT /\ n.en < o.en))) ]_vars

\* ---- C04: lifecycle; complete at most once -----------------------------------------------------------------------------
Allowed(s, t) ==
  \/ s = "none"     /\ t \in {"Pending", "Ready"}
  \/ s = "Pending"  /\ t = "Ready"
  \/ s = "Ready"    /\ t \in {"Creating", "Running"} \cup Terminal
  \/ s = "Creating" /\ t \in {"Running", "Ready"} \cup Terminal
  \/ s = "Running"  /\ t \in {"Ready"} \cup Terminal
C04_Lifecycle == [][ \A j \in Jobs : js'[j] # js[j] => Allowed(js[j], js'[j]) ]_vars

C04_Tally == \A g \in Groups : gex[g] =>
  LET T == { j \in Sub(g) : js[j] \in Terminal } IN
  /\ tally[g].c = N(T)
  /\ tally[g].s = N({ j \in T : js[j] = "Success" })
  /\ tally[g].f = N({ j \in T : js[j] \in {"Failed", "Error"} })
  /\ tally[g].x = N({ j \in T : js[j] = "Cancelled" })

\* ---- C05: dependencies gate readiness; failed parents cancel children --------------------------------------------------
ParentsOf(j) == { p \in Jobs : p \in JPar[j] }
C05_Gate == \A j \in Jobs : (Committed(j) /\ js[j] # "Pending") =>
               \A p \in JPar[j] : p \in Jobs /\ js[p] \in Terminal
C05_FailCancels == \A j \in Jobs : (Committed(j) /\ js[j] # "Pending") =>
               ((\E p \in ParentsOf(j) : js[p] \in Terminal /\ js[p] # "Success") => jc[j])
C05_NeverRuns == [][ \A j \in Jobs : (Marked(j) /\ ~JAlways[j] /\ js'[j] # js[j]) => js'[j] \notin {"Creating", "Running"} ]_vars

\* ---- C06: completion reflects the jobs ----------------------------------------------------------------------------------
CSub(g) == { j \in Sub(g) : Committed(j) }
C06_Batch == (bst = "complete") <=> (\A j \in Jobs : Committed(j) => js[j] \in Terminal)
C06_Groups == \A g \in Groups : gex[g] => ((gst[g] = "complete") <=> (\A j \in CSub(g) : js[j] \in Terminal))
C06_Counts ==
  /\ bnj = N({ j \in Jobs : Committed(j) })
  /\ \A g \in Groups : gex[g] =>
       /\ gnj[g] = N(CSub(g))
       /\ tally[g].c = N({ j \in CSub(g) : js[j] \in Terminal })

\* ---- C07: cancellation --------------------------------------------------------------------------------------------------
C07_NoNewWork == [][ \A j \in Jobs : (GrpCanc(JGrp[j]) /\ ~JAlways[j] /\ js'[j] # js[j]) => js'[j] \notin {"Creating", "Running"} ]_vars
C07_NoInsertBelow == [][ /\ \A j \in Jobs : (js[j] = "none" /\ js'[j] # "none") => ~GrpCanc(JGrp[j])
                         /\ \A g \in Groups \ {0} : (~gex[g] /\ gex'[g]) => ~GrpCanc(GParent[g]) ]_vars
\* cancelling g changes the cancellation mark only of jobs in g's subtree, and a job's own flag only through its parents
C07_SubtreeOnly == [][ \A j \in Jobs : (Exists(j) /\ GrpCanc(JGrp[j])' # GrpCanc(JGrp[j])) =>
                         \E g \in canc' \ canc : g \in Anc(JGrp[j]) ]_vars
\* "every schedule / creating / started request is answered normally": the procedures have no error outcome in this
\* specification; the conformance harness reports any SQL error returned by the real procedures.

\* ---- C10: free cores -------------------------------------------------------------------------------------------------------
OpenCores(i) == SumS({ p \in Jobs \X AttIds : att[p[1]][p[2]].ex /\ att[p[1]][p[2]].inst = i /\ att[p[1]][p[2]].en = NULLT },
                     LAMBDA p : JCores[p[1]])
C10_Free == \A i \in Insts :
  /\ inst[i].st \in {"pending", "active"} => inst[i].free = InstCores - OpenCores(i)
  /\ inst[i].st = "inactive" => inst[i].free = InstCores

\* ---- C41: uncommitted updates have no effect ---------------------------------------------------------------------------------
C41_Uncommitted == \A j \in Jobs : (Exists(j) /\ ~Committed(j)) =>
   /\ js[j] \in {"Pending", "Ready"} /\ jatt[j] = NULL
   /\ (js[j] = "Ready" => JUpd[j] = 1 /\ JPar[j] = {})
C41_NotDispatched == \A t \in disp : Committed(t[1])
\* the committed projection is a function of committed jobs only: covered by C01_User, C06_Batch, C06_Groups, C06_Counts
=============================================================================
