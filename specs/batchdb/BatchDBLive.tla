----------------------------- MODULE BatchDBLive -----------------------------
(* Liveness of the job lifecycle protocol (C39, and the "can always finish" clause of C08) over BatchDB.

   Fairness: the client finishes what it started (updates, groups, jobs, commits), instances activate, the scheduler and
   the canceller loops keep running, the CALL that follows a dispatch is issued, and every dispatched attempt on an
   activated instance eventually reports an outcome.  Cancellation may strike at any time (it is NOT fair: it may or may
   not happen).  Instance failures are not part of these configurations (feature "deactivate" off), so attempt ids
   cannot run out.                                                                                                *)
EXTENDS BatchDBProps

Fairness ==
  /\ \A u \in Updates : WF_vars(CreateUpdate(u)) /\ WF_vars(Commit(u))
  /\ \A g \in Groups : WF_vars(InsertGroup(g))
  /\ \A j \in Jobs : WF_vars(InsertJob(j)) /\ WF_vars(CancelReadySelect(j)) /\ WF_vars(CancelReadyCall(j))
  /\ \A i \in Insts : WF_vars(Activate(i))
  /\ \A j \in Jobs : WF_vars(\E a \in AttIds, i \in Insts : SchedSelect(j, a, i))
  /\ \A j \in Jobs, a \in AttIds, i \in Insts : WF_vars(ScheduleProc(j, a, i))
  /\ \A j \in Jobs, a \in AttIds, i \in Insts : WF_vars(\E st \in {"Success", "Failed", "Error"}, t0 \in Times, t1 \in Times : Complete(j, a, i, st, t0, t1))
  /\ \A j \in Jobs, a \in AttIds : WF_vars(CancelRunningSelect(j, a)) /\ WF_vars(CancelCreatingSelect(j, a)) /\ WF_vars(OrphanSelect(j, a))
                                   /\ WF_vars(\E t \in Times : UnscheduleCall(j, a, t)) /\ WF_vars(\E t \in Times : CancelCreatingCall(j, a, t))

LiveSpec == Init /\ [][Next]_vars /\ Fairness

AllCommitted == \A u \in Updates : us[u] = "committed"

\* every job of a committed batch reaches a terminal state; the batch completes (also when it was cancelled)
C39_Terminates == AllCommitted ~> (bst = "complete" /\ \A j \in Jobs : js[j] \in Terminal)
C39_CancelledCompletes == (0 \in canc /\ AllCommitted) ~> (bst = "complete")
\* always-run jobs are never cancelled away: they end as Success / Failed / Error after running
C39_AlwaysRunRuns == \A j \in Jobs : JAlways[j] => js[j] # "Cancelled"
\* a job that is Creating / Running has exactly one current attempt, and only that attempt can complete it
C39_CurrentAttempt == \A j \in Jobs : js[j] \in {"Creating", "Running"} => (jatt[j] # NULL /\ att[j][jatt[j]].ex)
C39_OnlyCurrentCompletes == [][ \A j \in Jobs : (js[j] \in {"Creating", "Running"} /\ js'[j] \in Terminal) => jatt'[j] = jatt[j] ]_vars
\* a running job is never started a second time while its current attempt is alive: the current attempt changes only via Ready
C39_NoDoubleRun == [][ \A j \in Jobs : (jatt[j] # NULL /\ jatt'[j] # NULL /\ jatt'[j] # jatt[j]) => js[j] \in {"Ready", "Creating"} ]_vars
=============================================================================
