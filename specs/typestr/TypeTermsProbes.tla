---- MODULE TypeTermsProbes ----
EXTENDS TypeTerms
ASSUME Probes(0)
====
