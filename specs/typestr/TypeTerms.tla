----------------------------- MODULE TypeTerms -----------------------------
(* C31, type level: Hail types as terms, their two printed forms and the two readers, on top of the identifier
   machines of TypeLex.tla; plus the generation of the input universe and the verdict over what the real code did.

   term      [k, names, args, n]     k = kind; names = field names (struct) or <<reference genome name>> (locus);
                                     args = component types; n = number of dimensions (ndarray)
   PyPrint   str(t)                  hail/python/hail/expr/types.py  __str__ of every type class
   EnPrint   t._parsable_string()    hail/python/hail/expr/types.py  _parsable_string of every type class
   PyType    hl.dtype(text)          hail/python/hail/expr/type_parsing.py:8-40 (grammar) and 45-158 (visitor)
   EnType    IRParser.type_expr      hail/hail/src/is/hail/expr/ir/Parser.scala:468-544 over IRLexer tokens
                                     (repsepUntil 289-303, struct_field 367-374)

   Property, for a type t whose names are printed by printer model e:
     PyType(PyPrint(e, t)) = t     and     EnType(EnLex(EnPrint(e, t))) = t      (names compared on code points)
   The verdict about the real code replaces PyPrint / EnPrint by the strings the real code produced.            *)
EXTENDS TypeLex, SequencesExt, Json, IOUtils

(* ---- terms ------------------------------------------------------------------------------------------------- *)
Mk(k, names, args, n) == [k |-> k, names |-> names, args |-> args, n |-> n]
Leaf(k) == Mk(k, <<>>, <<>>, 0)
Prims  == {"int32", "int64", "float32", "float64", "bool", "str", "call"}
Unary  == {"array", "set", "stream", "interval"}
Void   == Leaf("void")

PyKw == [int32 |-> <<105, 110, 116, 51, 50>>, int64 |-> <<105, 110, 116, 54, 52>>,
         float32 |-> <<102, 108, 111, 97, 116, 51, 50>>, float64 |-> <<102, 108, 111, 97, 116, 54, 52>>,
         bool |-> <<98, 111, 111, 108>>, str |-> <<115, 116, 114>>, call |-> <<99, 97, 108, 108>>,
         array |-> <<97, 114, 114, 97, 121>>, set |-> <<115, 101, 116>>, stream |-> <<115, 116, 114, 101, 97, 109>>,
         interval |-> <<105, 110, 116, 101, 114, 118, 97, 108>>, ndarray |-> <<110, 100, 97, 114, 114, 97, 121>>,
         dict |-> <<100, 105, 99, 116>>, tuple |-> <<116, 117, 112, 108, 101>>,
         struct |-> <<115, 116, 114, 117, 99, 116>>, locus |-> <<108, 111, 99, 117, 115>>]
EnKw == [int32 |-> <<73, 110, 116, 51, 50>>, int64 |-> <<73, 110, 116, 54, 52>>,
         float32 |-> <<70, 108, 111, 97, 116, 51, 50>>, float64 |-> <<70, 108, 111, 97, 116, 54, 52>>,
         bool |-> <<66, 111, 111, 108, 101, 97, 110>>, str |-> <<83, 116, 114, 105, 110, 103>>,
         call |-> <<67, 97, 108, 108>>, array |-> <<65, 114, 114, 97, 121>>, set |-> <<83, 101, 116>>,
         stream |-> <<83, 116, 114, 101, 97, 109>>, interval |-> <<73, 110, 116, 101, 114, 118, 97, 108>>,
         ndarray |-> <<78, 68, 65, 114, 114, 97, 121>>, dict |-> <<68, 105, 99, 116>>,
         tuple |-> <<84, 117, 112, 108, 101>>, struct |-> <<83, 116, 114, 117, 99, 116>>,
         locus |-> <<76, 111, 99, 117, 115>>]
KindOfKw(tab, w) == IF \E k \in DOMAIN tab : tab[k] = w THEN CHOOSE k \in DOMAIN tab : tab[k] = w ELSE ""

RECURSIVE Dec(_)
Dec(n) == IF n < 10 THEN <<48 + n>> ELSE Append(Dec(n \div 10), 48 + (n % 10))
RECURSIVE DecNum(_, _)
DecNum(ds, acc) == IF ds = <<>> THEN acc ELSE DecNum(Tail(ds), acc * 10 + (Head(ds) - 48))
RECURSIVE Join(_, _)
Join(parts, sep) == IF parts = <<>> THEN <<>> ELSE IF Len(parts) = 1 THEN parts[1]
                    ELSE parts[1] \o sep \o Join(Tail(parts), sep)
At(s, i) == IF i >= 1 /\ i <= Len(s) THEN s[i] ELSE -1

(* ---- the two printed forms (names through printer model e) ------------------------------------------------ *)
RECURSIVE PyPrint(_, _)
PyPrint(e, t) ==
  CASE t.k \in Prims   -> PyKw[t.k]
    [] t.k \in Unary   -> PyKw[t.k] \o <<60>> \o PyPrint(e, t.args[1]) \o <<62>>
    [] t.k = "ndarray" -> PyKw[t.k] \o <<60>> \o PyPrint(e, t.args[1]) \o <<44, 32>> \o Dec(t.n) \o <<62>>
    [] t.k = "dict"    -> PyKw[t.k] \o <<60>> \o PyPrint(e, t.args[1]) \o <<44, 32>> \o PyPrint(e, t.args[2]) \o <<62>>
    [] t.k = "tuple"   -> PyKw[t.k] \o <<40>> \o Join([j \in 1..Len(t.args) |-> PyPrint(e, t.args[j])], <<44, 32>>) \o <<41>>
    [] t.k = "struct"  -> PyKw[t.k] \o <<123>>
                            \o Join([j \in 1..Len(t.args) |-> PrintName(e, t.names[j]) \o <<58, 32>> \o PyPrint(e, t.args[j])], <<44, 32>>)
                            \o <<125>>
    [] t.k = "locus"   -> PyKw[t.k] \o <<60>> \o PrintName(e, t.names[1]) \o <<62>>
RECURSIVE EnPrint(_, _)
EnPrint(e, t) ==
  CASE t.k \in Prims   -> EnKw[t.k]
    [] t.k \in Unary   -> EnKw[t.k] \o <<91>> \o EnPrint(e, t.args[1]) \o <<93>>
    [] t.k = "ndarray" -> EnKw[t.k] \o <<91>> \o EnPrint(e, t.args[1]) \o <<44>> \o Dec(t.n) \o <<93>>
    [] t.k = "dict"    -> EnKw[t.k] \o <<91>> \o EnPrint(e, t.args[1]) \o <<44>> \o EnPrint(e, t.args[2]) \o <<93>>
    [] t.k = "tuple"   -> EnKw[t.k] \o <<91>> \o Join([j \in 1..Len(t.args) |-> EnPrint(e, t.args[j])], <<44>>) \o <<93>>
    [] t.k = "struct"  -> EnKw[t.k] \o <<123>>
                            \o Join([j \in 1..Len(t.args) |-> PrintName(e, t.names[j]) \o <<58>> \o EnPrint(e, t.args[j])], <<44>>)
                            \o <<125>>
    [] t.k = "locus"   -> EnKw[t.k] \o <<40>> \o PrintName(e, t.names[1]) \o <<41>>

(* ---- hl.dtype: the PEG of type_parsing.py on the printed keywords ------------------------------------------ *)
R(res, t, next) == [res |-> res, t |-> t, next |-> next]
Bad(res, next) == R(res, Void, next)
IsKwChar(c) == (c >= 97 /\ c <= 122) \/ AsciiDigit(c)
RECURSIVE KwEnd(_, _)
KwEnd(s, i) == IF i <= Len(s) /\ IsKwChar(s[i]) THEN KwEnd(s, i + 1) ELSE i
NoDup(names) == \A a, b \in 1..Len(names) : a # b => names[a] # names[b]

RECURSIVE PyType(_, _), PyTypes(_, _, _), PyFields(_, _, _, _)
\* type = _ ( array / bool / ... ) _
PyType(s, i0) ==
  LET i  == SkipPyWs(s, i0)
      j  == KwEnd(s, i)
      kd == KindOfKw(PyKw, SubSeq(s, i, j - 1))
      p  == SkipPyWs(s, j)                                    \* keyword _ "<"
  IN
  IF kd = "" THEN Bad("unspec", i)                            \* not a keyword str() prints (aliases, ?variables, ...)
  ELSE IF kd \in Prims THEN R("ok", Leaf(kd), p)
  ELSE IF kd \in Unary THEN
    IF At(s, p) # 60 THEN Bad("fail", p) ELSE
    LET a == PyType(s, p + 1) IN
    IF a.res # "ok" THEN a ELSE IF At(s, a.next) # 62 THEN Bad("fail", a.next)
    ELSE R("ok", Mk(kd, <<>>, <<a.t>>, 0), SkipPyWs(s, a.next + 1))
  ELSE IF kd = "ndarray" THEN                                 \* "<" type "," nat ">"   nat = _ [0-9]+ _
    IF At(s, p) # 60 THEN Bad("fail", p) ELSE
    LET a == PyType(s, p + 1) IN
    IF a.res # "ok" THEN a ELSE IF At(s, a.next) # 44 THEN Bad("fail", a.next) ELSE
    LET d0 == SkipPyWs(s, a.next + 1)
        d1 == DigitEnd(s, d0)
        d2 == SkipPyWs(s, d1) IN
    IF d1 = d0 THEN Bad(IF At(s, d0) = 63 THEN "unspec" ELSE "fail", d0)
    ELSE IF At(s, d2) # 62 THEN Bad("fail", d2)
    ELSE R("ok", Mk(kd, <<>>, <<a.t>>, DecNum(SubSeq(s, d0, d1 - 1), 0)), SkipPyWs(s, d2 + 1))
  ELSE IF kd = "dict" THEN
    IF At(s, p) # 60 THEN Bad("fail", p) ELSE
    LET a == PyType(s, p + 1) IN
    IF a.res # "ok" THEN a ELSE IF At(s, a.next) # 44 THEN Bad("fail", a.next) ELSE
    LET b == PyType(s, a.next + 1) IN
    IF b.res # "ok" THEN b ELSE IF At(s, b.next) # 62 THEN Bad("fail", b.next)
    ELSE R("ok", Mk(kd, <<>>, <<a.t, b.t>>, 0), SkipPyWs(s, b.next + 1))
  ELSE IF kd = "tuple" THEN                                   \* "(" ((type ("," type)*) / _) ")"
    IF At(s, p) # 40 THEN Bad("fail", p)
    ELSE IF At(s, SkipPyWs(s, p + 1)) = 41 THEN R("ok", Mk(kd, <<>>, <<>>, 0), SkipPyWs(s, SkipPyWs(s, p + 1) + 1))
    ELSE LET l == PyTypes(s, p + 1, <<>>) IN
         IF l.res # "ok" THEN Bad(l.res, l.next) ELSE IF At(s, l.next) # 41 THEN Bad("fail", l.next)
         ELSE R("ok", Mk(kd, <<>>, l.ts, 0), SkipPyWs(s, l.next + 1))
  ELSE IF kd = "struct" THEN                                  \* "{" (fields / _) "}"
    IF At(s, p) # 123 THEN Bad("fail", p)
    ELSE IF At(s, SkipPyWs(s, p + 1)) = 125 THEN R("ok", Mk(kd, <<>>, <<>>, 0), SkipPyWs(s, SkipPyWs(s, p + 1) + 1))
    ELSE LET l == PyFields(s, p + 1, <<>>, <<>>) IN
         IF l.res # "ok" THEN Bad(l.res, l.next) ELSE IF At(s, l.next) # 125 THEN Bad("fail", l.next)
         ELSE IF ~NoDup(l.names) THEN Bad("unspec", l.next)   \* tstruct(**dict(fields)) silently merges duplicates
         ELSE R("ok", Mk(kd, l.names, l.ts, 0), SkipPyWs(s, l.next + 1))
  ELSE                                                        \* locus: "<" identifier ">"
    IF At(s, p) # 60 THEN Bad("fail", p) ELSE
    LET n == PyIdent(s, p + 1) IN
    IF n.res # "ok" THEN Bad(n.res, n.next) ELSE IF At(s, n.next) # 62 THEN Bad("fail", n.next)
    ELSE R("ok", Mk(kd, <<Combine(n.name)>>, <<>>, 0), SkipPyWs(s, n.next + 1))
PyTypes(s, i, acc) ==
  LET a == PyType(s, i) IN
  IF a.res # "ok" THEN [res |-> a.res, ts |-> acc, next |-> a.next]
  ELSE IF At(s, a.next) = 44 THEN PyTypes(s, a.next + 1, Append(acc, a.t))
  ELSE [res |-> "ok", ts |-> Append(acc, a.t), next |-> a.next]
\* fields = field ("," field)*     field = identifier ":" type
PyFields(s, i, names, acc) ==
  LET n == PyIdent(s, i) IN
  IF n.res # "ok" THEN [res |-> n.res, names |-> names, ts |-> acc, next |-> n.next]
  ELSE IF At(s, n.next) # 58 THEN [res |-> "fail", names |-> names, ts |-> acc, next |-> n.next]
  ELSE LET a == PyType(s, n.next + 1) IN
       IF a.res # "ok" THEN [res |-> a.res, names |-> names, ts |-> acc, next |-> a.next]
       ELSE IF At(s, a.next) = 44 THEN PyFields(s, a.next + 1, Append(names, Combine(n.name)), Append(acc, a.t))
       ELSE [res |-> "ok", names |-> Append(names, Combine(n.name)), ts |-> Append(acc, a.t), next |-> a.next]
\* the whole text is one type
PyDtype(s) == LET r == PyType(s, 1) IN IF r.res = "ok" /\ r.next <= Len(s) THEN Bad("fail", r.next) ELSE r

(* ---- IRParser.type_expr over the lexer's tokens ------------------------------------------------------------ *)
IsP(toks, i, c) == i <= Len(toks) /\ toks[i].t = "punct" /\ toks[i].v = <<c>>
IsId(toks, i)   == i <= Len(toks) /\ toks[i].t = "id"
RECURSIVE EnType(_, _), EnTypesUntil(_, _, _, _), EnFieldsUntil(_, _, _, _)
EnType(toks, i0) ==
  LET i  == IF IsP(toks, i0, 43) THEN i0 + 1 ELSE i0           \* requiredness token skipped
      kd == IF IsId(toks, i) THEN KindOfKw(EnKw, toks[i].v) ELSE "" IN
  IF kd = "" THEN Bad(IF IsId(toks, i) THEN "unspec" ELSE "fail", i)
  ELSE IF kd \in Prims THEN R("ok", Leaf(kd), i + 1)
  ELSE IF kd \in Unary THEN
    IF ~IsP(toks, i + 1, 91) THEN Bad("fail", i + 1) ELSE
    LET a == EnType(toks, i + 2) IN
    IF a.res # "ok" THEN a ELSE IF ~IsP(toks, a.next, 93) THEN Bad("fail", a.next)
    ELSE R("ok", Mk(kd, <<>>, <<a.t>>, 0), a.next + 1)
  ELSE IF kd = "ndarray" THEN
    IF ~IsP(toks, i + 1, 91) THEN Bad("fail", i + 1) ELSE
    LET a == EnType(toks, i + 2) IN
    IF a.res # "ok" THEN a
    ELSE IF ~IsP(toks, a.next, 44) THEN Bad("fail", a.next)
    ELSE IF ~(a.next + 1 <= Len(toks) /\ toks[a.next + 1].t = "int" /\ toks[a.next + 1].v[1] # 45) THEN Bad("fail", a.next + 1)
    ELSE IF ~IsP(toks, a.next + 2, 93) THEN Bad("fail", a.next + 2)
    ELSE R("ok", Mk(kd, <<>>, <<a.t>>, DecNum(toks[a.next + 1].v, 0)), a.next + 3)
  ELSE IF kd = "dict" THEN
    IF ~IsP(toks, i + 1, 91) THEN Bad("fail", i + 1) ELSE
    LET a == EnType(toks, i + 2) IN
    IF a.res # "ok" THEN a ELSE IF ~IsP(toks, a.next, 44) THEN Bad("fail", a.next) ELSE
    LET b == EnType(toks, a.next + 1) IN
    IF b.res # "ok" THEN b ELSE IF ~IsP(toks, b.next, 93) THEN Bad("fail", b.next)
    ELSE R("ok", Mk(kd, <<>>, <<a.t, b.t>>, 0), b.next + 1)
  ELSE IF kd = "tuple" THEN
    IF ~IsP(toks, i + 1, 91) THEN Bad("fail", i + 1) ELSE
    LET l == EnTypesUntil(toks, i + 2, 93, <<>>) IN
    IF l.res # "ok" THEN Bad(l.res, l.next) ELSE R("ok", Mk(kd, <<>>, l.ts, 0), l.next + 1)
  ELSE IF kd = "struct" THEN
    IF ~IsP(toks, i + 1, 123) THEN Bad("fail", i + 1) ELSE
    LET l == EnFieldsUntil(toks, i + 2, <<>>, <<>>) IN
    IF l.res # "ok" THEN Bad(l.res, l.next) ELSE R("ok", Mk(kd, l.names, l.ts, 0), l.next + 1)
  ELSE
    IF ~IsP(toks, i + 1, 40) THEN Bad("fail", i + 1)
    ELSE IF ~IsId(toks, i + 2) THEN Bad("fail", i + 2)
    ELSE IF ~IsP(toks, i + 3, 41) THEN Bad("fail", i + 3)
    ELSE R("ok", Mk(kd, <<Combine(toks[i + 2].v)>>, <<>>, 0), i + 4)
\* repsepUntil(it, f, sep, end): while (it.hasNext && it.head != end) { xs += f(it); if (it.head == sep) consume }
EnTypesUntil(toks, i, end, acc) ==
  IF i > Len(toks) THEN [res |-> "fail", ts |-> acc, next |-> i]
  ELSE IF IsP(toks, i, end) THEN [res |-> "ok", ts |-> acc, next |-> i]
  ELSE LET a == EnType(toks, i) IN
       IF a.res # "ok" THEN [res |-> a.res, ts |-> acc, next |-> a.next]
       ELSE EnTypesUntil(toks, IF IsP(toks, a.next, 44) THEN a.next + 1 ELSE a.next, end, Append(acc, a.t))
\* struct_field: identifier ":" type_expr (decorators "@" are not printed by the front end: unspec)
EnFieldsUntil(toks, i, names, acc) ==
  IF i > Len(toks) THEN [res |-> "fail", names |-> names, ts |-> acc, next |-> i]
  ELSE IF IsP(toks, i, 125) THEN [res |-> "ok", names |-> names, ts |-> acc, next |-> i]
  ELSE IF ~IsId(toks, i) \/ ~IsP(toks, i + 1, 58) THEN [res |-> "fail", names |-> names, ts |-> acc, next |-> i]
  ELSE LET a == EnType(toks, i + 2) IN
       IF a.res # "ok" THEN [res |-> a.res, names |-> names, ts |-> acc, next |-> a.next]
       ELSE IF IsP(toks, a.next, 64) THEN [res |-> "unspec", names |-> names, ts |-> acc, next |-> a.next]
       ELSE EnFieldsUntil(toks, IF IsP(toks, a.next, 44) THEN a.next + 1 ELSE a.next,
                          Append(names, Combine(toks[i].v)), Append(acc, a.t))
\* the whole engine-facing text is one type: [res, err, ch, t]
EnDtype(q) ==
  LET L == EnLex(ToUnits(q)) IN
  IF ~L.ok THEN [res |-> "fail", err |-> L.err, ch |-> L.ch, t |-> Void]
  ELSE LET r == EnType(L.toks, 1) IN
       IF r.res = "ok" /\ r.next <= Len(L.toks) THEN [res |-> "fail", err |-> "type-parse", ch |-> 0, t |-> Void]
       ELSE [res |-> r.res, err |-> IF r.res = "ok" THEN "" ELSE "type-parse", ch |-> 0, t |-> r.t]

(* ---- the input universe (constant evaluation: TypeTermsGen) ------------------------------------------------ *)
Words(A, n) == UNION { [1..m -> A] : m \in 0..n }
\* (every definition below has a parameter: TLC evaluates zero-arity constant definitions when it loads a module)
Level(z)   == atoi(IOEnv.TS_LEVEL)                  \* 0 quick, 1 thorough
FullLen(lv) == IF lv = 0 THEN 2 ELSE 3
CoreLen(lv) == IF lv = 0 THEN 3 ELSE 4
Names(lv)   == Words(FullAlphabet, FullLen(lv)) \cup Words(CoreAlphabet, CoreLen(lv))
\* longer names, drawn with TLC's generator (run with -seed)
RECURSIVE RandName(_)
RandName(m) == IF m = 0 THEN <<>> ELSE Append(RandName(m - 1), RandomElement(FullAlphabet))
RandNames(cnt) == { RandName(4 + (j % 9)) : j \in 1..cnt }

\* field / reference-genome names used inside types: one per printing decision
Pool0 == {<<97>>, <<97, 32, 98>>, <<96>>, <<92, 110>>, <<233>>, <<128512>>, <<>>, <<97, 178>>, <<105, 110, 116, 51, 50>>}
Pool1 == Pool0 \cup {<<1>>, <<127>>, <<955>>, <<119808>>, <<97, 119808>>, <<10>>, <<34>>, <<58>>, <<125>>, <<97, 233>>, <<36>>}
T0 == {Leaf("int32"), Leaf("str")}
Wrap(S) == { Mk(k, <<>>, <<t>>, 0) : k \in Unary, t \in S } \cup { Mk("ndarray", <<>>, <<t>>, n) : t \in S, n \in {1, 2} }
Dicts(K, V) == { Mk("dict", <<>>, <<a, b>>, 0) : a \in K, b \in V }
Tuples(A, B) == {Mk("tuple", <<>>, <<>>, 0)} \cup { Mk("tuple", <<>>, <<a>>, 0) : a \in A }
                  \cup { Mk("tuple", <<>>, <<a, b>>, 0) : a \in A, b \in B } \cup { Mk("tuple", <<>>, <<b, a>>, 0) : a \in A, b \in B }
Structs1(P, A) == {Mk("struct", <<>>, <<>>, 0)} \cup { Mk("struct", <<f>>, <<a>>, 0) : f \in P, a \in A }
Pairs(P) == { fg \in P \X P : fg[1] # fg[2] }
Structs2(P, A, B) == { Mk("struct", fg, <<a, b>>, 0) : fg \in Pairs(P), a \in A, b \in B }
                       \cup { Mk("struct", fg, <<b, a>>, 0) : fg \in Pairs(P), a \in A, b \in B }
Loci(P) == { Mk("locus", <<g>>, <<>>, 0) : g \in P }
Types(lv) ==
  LET tiny  == {<<97>>, <<96>>, <<233>>, <<128512>>}
      pool  == IF lv = 0 THEN Pool0 ELSE Pool1
      small == IF lv = 0 THEN tiny ELSE Pool0
      i32   == {Leaf("int32")}
      d0 == { Leaf(k) : k \in Prims }
      d1 == d0 \cup Wrap(T0) \cup Dicts(T0, T0) \cup Tuples(T0, T0) \cup Structs1(pool, T0) \cup Structs2(pool, T0, T0) \cup Loci(pool)
      n1 == Wrap(T0) \cup Dicts(T0, T0) \cup Tuples(T0, T0) \cup Structs1(small, T0) \cup Structs2(small, i32, {Leaf("str")}) \cup Loci(small)
      d2 == Wrap(n1) \cup Dicts(T0, n1) \cup Tuples(n1, T0) \cup Structs1(small, n1) \cup Structs2(tiny, n1, i32)
      n2 == Wrap(Structs1(small, T0) \cup Loci(small)) \cup Structs1(small, Structs1(small, i32) \cup Loci(small))
      d3 == Wrap(n2) \cup Dicts(T0, n2) \cup Structs1(small, n2) \cup Structs2(tiny, n2, Loci({<<96>>}))
  IN d1 \cup d2 \cup (IF lv = 0 THEN {} ELSE d3)

Gen(z) == LET lv == Level(0) IN
       /\ ndJsonSerialize(IOEnv.TS_NAMES, SetToSeq({ [n |-> n] : n \in Names(lv) \cup RandNames(atoi(IOEnv.TS_NRAND)) }))
       /\ ndJsonSerialize(IOEnv.TS_TYPES, SetToSeq({ [t |-> t] : t \in Types(lv) }))
       /\ JsonSerialize(IOEnv.TS_META, [alphabet |-> SetToSeq(FullAlphabet), core |-> SetToSeq(CoreAlphabet),
                                        full_len |-> FullLen(lv), core_len |-> CoreLen(lv),
                                        pyword |-> SetToSeq({c \in 0..127 \cup Classified : PyWord(c)}),
                                        pyspace |-> SetToSeq({c \in 0..127 \cup Classified : PySpace(c)}),
                                        classified |-> SetToSeq(Classified),
                                        javastart |-> SetToSeq({c \in 0..127 \cup Classified : c < 65536 /\ JavaStartU(c)}),
                                        javapart |-> SetToSeq({c \in 0..127 \cup Classified : c < 65536 /\ JavaPartU(c)})])
\* second step: the printer models applied to every name (the harness compares them with the real printers and feeds
\* them to the real parser, so that the Python reader of this specification is bound on more than the code prints)
Probes(z) == LET ns == ndJsonDeserialize(IOEnv.TS_NAMES) IN
          ndJsonSerialize(IOEnv.TS_PROBES, [j \in 1..Len(ns) |->
              [n |-> ns[j].n, ue |-> PrintName("ue", ns[j].n), id |-> PrintName("id", ns[j].n), str |-> PrintName("str", ns[j].n),
               fix_id |-> PrintName("fix_id", ns[j].n), fix_str |-> PrintName("fix_str", ns[j].n),
               fix_parsable |-> PrintName("fix_parsable", ns[j].n)]])

(* ---- self check of the type level (constant evaluation: TypeTermsSelf) -------------------------------------- *)
\* with the restricted printer both readers return the term; with the unicode_escape printer the Python reader does
SelfOk(e, t) == /\ LET r == PyDtype(PyPrint(e, t)) IN r.res = "ok" /\ r.t = t
                /\ e # "ue" => LET r == EnDtype(EnPrint(e, t)) IN r.res = "ok" /\ r.t = t
\* the types come from the file TypeTermsGen wrote (the same universe the real code is run on)
Self(z) == LET ts  == ndJsonDeserialize(IOEnv.TS_TYPES)
               bad == { j \in 1..Len(ts) : ~(SelfOk("ue", ts[j].t) /\ SelfOk("fix_parsable", ts[j].t)) } IN
        /\ JsonSerialize(IOEnv.TS_SELF, [n |-> 2 * Len(ts), bad |-> SetToSeq(bad),
                                         engine_rejects_ue |-> Cardinality({ j \in 1..Len(ts) : EnDtype(EnPrint("ue", ts[j].t)).res # "ok" })])
        /\ bad = {}

(* ---- the verdict over what the real code did (constant evaluation: TypeTermsVerdict) ------------------------- *)
AllKnown(p) == \A j \in 1..Len(p) : Known(p[j])
\* spec reader vs real reader on one text that should be one identifier: "" = agree (or spec silent)
PyAgree(p, pyok, pyname) ==
  IF ~AllKnown(p) THEN "spec:unknown-char"
  ELSE LET r == PyName(p) IN
       IF r.res = "unspec" THEN ""
       ELSE IF (r.res = "ok") # pyok THEN "spec:pyparse-accept"
       ELSE IF pyok /\ Combine(r.name) # Combine(pyname) THEN "spec:pyparse-name" ELSE ""
\* one printed identifier: e = which real printer ("parsable" = escape_parsable, "id" = escape_id, "str" = "..." literal)
JudgeId(c) ==
  LET en == EnName(c.p, IF c.e = "str" THEN "str" ELSE "id") IN
  [py   |-> IF c.e = "parsable" /\ ~(c.pyok /\ c.pyname = c.n) THEN (IF c.pyok THEN "other-name" ELSE "parse-error") ELSE "",
   spec |-> IF c.e = "parsable" THEN PyAgree(c.p, c.pyok, c.pyname) ELSE IF AllKnown(c.p) THEN "" ELSE "spec:unknown-char",
   en   |-> IF en.res # "ok" THEN en.err ELSE IF Combine(en.name) # c.n THEN "other-name" ELSE "",
   ch   |-> en.ch,
   bare |-> c.p # <<>> /\ c.p[1] \notin {TICK, DQ}]
JudgeProbe(c) == [spec |-> PyAgree(c.p, c.pyok, c.pyname)]
JudgeType(c) ==
  LET sp == PyDtype(c.s)
      en == EnDtype(c.q) IN
  [py   |-> IF ~c.pyok THEN "parse-error" ELSE IF ~c.eq THEN "other-type" ELSE "",
   spec |-> IF ~AllKnown(c.s) \/ ~AllKnown(c.q) THEN "spec:unknown-char"
            ELSE IF sp.res = "unspec" THEN ""
            ELSE IF (sp.res = "ok") # c.pyok THEN "spec:pytype-accept"
            ELSE IF c.pyok /\ sp.t # c.r THEN "spec:pytype-term"
            ELSE IF c.pyok /\ c.eq /\ c.r # c.t THEN "harness:term" ELSE "",
   en   |-> IF en.res = "unspec" THEN "spec:entype-unspec" ELSE IF en.res # "ok" THEN en.err ELSE IF en.t # c.t THEN "other-type" ELSE "",
   ch   |-> en.ch]
\* rendered IR: the lexer's token list must be the expected one.  tpl: na = (NA <type>), getfield = (GetField n (Ref n)),
\* select = (SelectFields (n) (Ref n)), str = (Str "n"), strs = (n as one element of parsable_strings)
W(s) == Tok("id", s)
Pn(c) == Tok("punct", <<c>>)
CombineToks(toks) == [j \in 1..Len(toks) |-> IF toks[j].t \in {"id", "str"} THEN Tok(toks[j].t, Combine(toks[j].v)) ELSE toks[j]]
JudgeIr(c) ==
  LET L == EnLex(ToUnits(c.x))
      want == CASE c.tpl = "getfield" -> <<Pn(40), W(<<71, 101, 116, 70, 105, 101, 108, 100>>), W(c.n), Pn(40), W(<<82, 101, 102>>), W(c.n), Pn(41), Pn(41)>>
                [] c.tpl = "select"   -> <<Pn(40), W(<<83, 101, 108, 101, 99, 116, 70, 105, 101, 108, 100, 115>>), Pn(40), W(c.n), Pn(41),
                                           Pn(40), W(<<82, 101, 102>>), W(c.n), Pn(41), Pn(41)>>
                [] c.tpl = "str"      -> <<Pn(40), W(<<83, 116, 114>>), Tok("str", c.n), Pn(41)>>
                [] c.tpl = "strs"     -> <<Pn(40), Tok("str", c.n), Pn(41)>>
  IN [en |-> IF ~L.ok THEN L.err ELSE IF CombineToks(L.toks) # want THEN "other-tokens" ELSE "", ch |-> L.ch,
      spec |-> IF AllKnown(c.x) THEN "" ELSE "spec:unknown-char"]
JudgeNa(c) ==     \* (NA <type>) rendered by hail.ir
  LET L == EnLex(ToUnits(c.x)) IN
  IF ~L.ok THEN [en |-> L.err, ch |-> L.ch]
  ELSE IF ~(IsP(L.toks, 1, 40) /\ IsId(L.toks, 2) /\ L.toks[2].v = <<78, 65>>) THEN [en |-> "other-tokens", ch |-> 0]
  ELSE LET r == EnType(L.toks, 3) IN
       [en |-> IF r.res # "ok" THEN "type-parse" ELSE IF ~(IsP(L.toks, r.next, 41) /\ r.next = Len(L.toks)) THEN "other-tokens"
               ELSE IF r.t # c.t THEN "other-type" ELSE "", ch |-> 0]

\* one evaluation judges one file of cases of one kind (the check runs several of these side by side)
Verdict(u) ==
  LET cs   == ndJsonDeserialize(IOEnv.TS_CASES)
      kind == IOEnv.TS_KIND
  IN ndJsonSerialize(IOEnv.TS_VERDICT, [j \in 1..Len(cs) |->
       CASE kind = "ids"    -> JudgeId(cs[j])
         [] kind = "probes" -> JudgeProbe(cs[j])
         [] kind = "types"  -> JudgeType(cs[j]) @@ [na |-> JudgeNa([x |-> cs[j].ir, t |-> cs[j].t])]
         [] kind = "irs"    -> JudgeIr(cs[j])])
=============================================================================
