------------------------------ MODULE TypeLex ------------------------------
(* C31: the three lexical languages of Hail type strings and identifiers, as character-consuming machines.

   A character is a Unicode code point (a natural < 1114112); a string is a sequence of code points.  The engine
   runs on the JVM: it sees the same text as UTF-16 code units (ToUnits), one astral code point = two units.

   (a) PRINTERS (Python)   hail/python/hail/utils/java.py:160-171   escape_parsable / unescape_parsable
                           hail/python/hail/utils/misc.py:568-614   escape_str / escape_id / parsable_strings
       modelled per emitted character (Emit): "ue" = escape_parsable through Python's unicode_escape codec with a
       Unicode-aware bare-name test; "id" / "str" = escape_id / a "..." literal through escape_str writing \u followed
       by AT LEAST four hex digits; and restricted to what the engine's lexer understands: "fix_id" / "fix_str"
       (ASCII bare-name test, astral characters as \uHHHH\uLLLL) and "fix_parsable" (the same for type strings,
       lower-case hex, DEL escaped).  The printers are MODELS used
       to model-check the languages against each other; the verdict about the real code never goes through them
       (the real printer's output is judged by the two readers below, any correct output is accepted).
   (b) PYTHON READER       hail/python/hail/expr/type_parsing.py:8-40  (type_grammar_str; identifier rules 30-32)
                              identifier = _ (simple_identifier / escaped_identifier) _
                              simple_identifier = ~r"\w+"      escaped_identifier = ~"`([^`\\\\]|\\\\.)*`"
                           type_parsing.py:141-142  visit_escaped_identifier = unescape_parsable(text[1:-1])
                           java.py:170-171          s.replace('\\`', '`') then bytes.decode('unicode_escape')
       PyScanStep (the two regular expressions as one DFA), PyReplStep (str.replace of the two-character
       pattern), PyDecStep (CPython's unicode_escape decoder on the escapes listed in PyShort, \x \u \U).
   (c) ENGINE READER       hail/hail/src/is/hail/expr/ir/Parser.scala:57-130  object IRLexer
                              token = identifier | float64_literal | int64_literal | string_literal | punctuation
                              identifier = backtickLiteral | ident           (JavaTokenParsers.ident =
                              Character.isJavaIdentifierStart then isJavaIdentifierPart*, on UTF-16 chars)
                              quotedLiteral (67-107): escapeChars = "\\bfnrtu'\"`"
                           hail/hail/utils/src/is/hail/utils/StringEscapeUtils.scala:132-190  unescapeString
                              (hadSlash / inUnicode, \u followed by exactly four hex digits, one UTF-16 char each)
       EnQStep (quotedLiteral loop), EnUStep (unescapeString loop), EnLex (token loop).  The Scala code cannot be
       executed in this sandbox: (c) is a hand transcription (assumption recorded by the check).

   Results outside the part of a language the printers can reach are marked "unspec" (e.g. \N{..}, octal escapes, raw
   non-ASCII text between backticks on the Python side, floats on the engine side) so that the specification
   constrains exactly what the property is about.                                                              *)
EXTENDS Integers, Sequences, FiniteSets, TLC

BS == 92      TICK == 96     DQ == 34     SQ == 39     USCORE == 95    DOLLAR == 36
MaxCP == 1114111

AsciiLetter(c) == (c >= 65 /\ c <= 90) \/ (c >= 97 /\ c <= 122)
AsciiDigit(c)  == c >= 48 /\ c <= 57
HexVal(c) == IF c >= 48 /\ c <= 57 THEN c - 48
             ELSE IF c >= 97 /\ c <= 102 THEN c - 87
             ELSE IF c >= 65 /\ c <= 70 THEN c - 55 ELSE -1
IsHex(c) == HexVal(c) >= 0
IsSurrogate(u) == u >= 55296 /\ u <= 57343
IsHi(u) == u >= 55296 /\ u <= 56319
IsLo(u) == u >= 56320 /\ u <= 57343

(* ---- the non-ASCII representatives.  One row per character: what the three implementations think of it.
        The Python columns are compared with the real `re` module by the check; the Java columns follow the
        general category (JDK doc of Character.isJavaIdentifierStart / Part) and are an assumption.
          178  U+00B2  SUPERSCRIPT TWO   No   Python \w yes   Java start no   part no
          233  U+00E9  e ACUTE           Ll   Python \w yes   Java start yes  part yes
          769  U+0301  COMBINING ACUTE   Mn   Python \w no    Java start no   part yes
          955  U+03BB  GREEK LAMDA       Ll   Python \w yes   Java start yes  part yes
         8364  U+20AC  EURO SIGN         Sc   Python \w no    Java start yes  part yes
       119808  U+1D400 MATH BOLD A       Lu   Python \w yes   (two surrogate chars on the JVM: neither)
       128512  U+1F600 GRINNING FACE     So   Python \w no    (two surrogate chars on the JVM: neither)          *)
Classified   == {178, 233, 769, 955, 8364, 119808, 128512}
NA_PyWord    == {178, 233, 955, 119808}
NA_JavaStart == {233, 955, 8364}
NA_JavaPart  == {233, 955, 8364, 769}

Known(c)   == c < 128 \/ c \in Classified
KnownU(u)  == u < 128 \/ u \in Classified \/ IsSurrogate(u)

PyWord(c)  == AsciiLetter(c) \/ AsciiDigit(c) \/ c = USCORE \/ c \in NA_PyWord          \* re \w on str
PySpace(c) == (c >= 9 /\ c <= 13) \/ (c >= 28 /\ c <= 32)                               \* re \s on str, ASCII part
JavaStartU(u) == AsciiLetter(u) \/ u = USCORE \/ u = DOLLAR \/ u \in NA_JavaStart
JavaPartU(u)  == JavaStartU(u) \/ AsciiDigit(u) \/ u \in NA_JavaPart
                   \/ (u >= 0 /\ u <= 8) \/ (u >= 14 /\ u <= 27) \/ (u >= 127 /\ u <= 159)   \* isIdentifierIgnorable
JavaSpaceU(u) == u = 32 \/ (u >= 9 /\ u <= 13)                                          \* java.util.regex \s
EnPunct == {40, 41, 91, 93, 123, 125, 60, 62, 44, 58, 43, 64, 61}                       \* "[()\\[\\]{}<>,:+@=]"

(* ---- helpers ---------------------------------------------------------------------------------------------- *)
RECURSIVE Flat(_)
Flat(ss) == IF ss = <<>> THEN <<>> ELSE Head(ss) \o Flat(Tail(ss))

Pow16(k) == CASE k = 0 -> 1 [] k = 1 -> 16 [] k = 2 -> 256 [] k = 3 -> 4096 [] k = 4 -> 65536
              [] k = 5 -> 1048576 [] k = 6 -> 16777216 [] k = 7 -> 268435456
HexChar(d, up) == IF d < 10 THEN 48 + d ELSE (IF up THEN 55 ELSE 87) + d
Hex(v, n, up) == [i \in 1..n |-> HexChar((v \div Pow16(n - i)) % 16, up)]
HexMin4(v, up) == Hex(v, IF v >= 1048576 THEN 6 ELSE IF v >= 65536 THEN 5 ELSE 4, up)   \* "{0:0{1}X}".format(v, 4)
RECURSIVE HexNum(_, _)
HexNum(ds, acc) == IF ds = <<>> THEN acc ELSE HexNum(Tail(ds), acc * 16 + HexVal(Head(ds)))

HiOf(c) == 55296 + ((c - 65536) \div 1024)
LoOf(c) == 56320 + ((c - 65536) % 1024)
ToUnits(s) == Flat([i \in 1..Len(s) |-> IF s[i] >= 65536 THEN <<HiOf(s[i]), LoOf(s[i])>> ELSE <<s[i]>>])
\* equality "on code points": a high surrogate followed by a low surrogate is the astral character it encodes
RECURSIVE CombineFrom(_, _, _)
CombineFrom(s, i, acc) ==
  IF i > Len(s) THEN acc
  ELSE IF i < Len(s) /\ IsHi(s[i]) /\ IsLo(s[i + 1])
       THEN CombineFrom(s, i + 2, Append(acc, 65536 + (s[i] - 55296) * 1024 + (s[i + 1] - 56320)))
       ELSE CombineFrom(s, i + 1, Append(acc, s[i]))
Combine(s) == CombineFrom(s, 1, <<>>)

(* ---- the alphabet of the check: every distinction any of the three implementations makes has a representative
        a b n u x U   letters (hex digit or not; escape letters n b u x U)        0 9   digits       _  $
        space ` \ " '   newline (10) backspace (8: short escape in the engine, not in Python) 1 (no short escape) 127 (DEL)
        the seven non-ASCII representatives above; the punctuation of the two type grammars  : , { } < > ( ) [ ] + - .   *)
FullAlphabet == {97, 98, 110, 117, 120, 85, 48, 57, 95, 32, 96, 92, 34, 39, 10, 8, 1, 127,
                 233, 178, 769, 955, 8364, 119808, 128512,
                 36, 58, 44, 123, 125, 60, 62, 40, 41, 91, 93, 43, 45, 46}
CoreAlphabet == {97, 110, 96, 92, 32, 233, 178, 128512}

(* ============================ (a) printer models ============================================================ *)
\* re.fullmatch('[_a-zA-Z][\w_]*') / '[_a-zA-Z]\w*' (Unicode-aware \w) and its ASCII-only counterpart
BareU(n) == Len(n) >= 1 /\ (AsciiLetter(n[1]) \/ n[1] = USCORE) /\ \A i \in 2..Len(n) : PyWord(n[i])
BareA(n) == Len(n) >= 1 /\ (AsciiLetter(n[1]) \/ n[1] = USCORE)
              /\ \A i \in 2..Len(n) : AsciiLetter(n[i]) \/ AsciiDigit(n[i]) \/ n[i] = USCORE

\* str.encode('unicode_escape') of one code point, then .replace('`', '\\`')           (java.py:167)
UEKind(c) == IF c = BS THEN "bsbs" ELSE IF c = TICK THEN "bsdelim"
             ELSE IF c \in {9, 10, 13} THEN "short"
             ELSE IF c < 32 \/ c = 127 THEN "x2" ELSE IF c < 127 THEN "plain"
             ELSE IF c < 256 THEN "x2" ELSE IF c < 65536 THEN "u4" ELSE "U8"
\* hail.utils.misc.escape_str(s, backticked)                                            (misc.py:568-602)
ShortOf(c) == CASE c = 8 -> 98 [] c = 9 -> 116 [] c = 10 -> 110 [] c = 12 -> 102 [] c = 13 -> 114
StrKind(c, delim, astralPairs) ==
             IF c > 127 THEN (IF c >= 65536 /\ astralPairs THEN "u4pair" ELSE "umin4")
             ELSE IF c < 32 THEN (IF c \in {8, 9, 10, 12, 13} THEN "short" ELSE "u4")
             ELSE IF c = DQ THEN (IF delim = DQ THEN "bsdelim" ELSE "plain")
             ELSE IF c = TICK THEN (IF delim = TICK THEN "bsdelim" ELSE "plain")
             ELSE IF c = BS THEN "bsbs" ELSE "plain"

Emitters == {"ue", "id", "str", "fix_id", "fix_str", "fix_parsable"}
DelimOf(e)  == IF e \in {"str", "fix_str"} THEN DQ ELSE TICK
IsBare(e, n) == CASE e \in {"ue", "id"} -> BareU(n) [] e \in {"fix_id", "fix_parsable"} -> BareA(n) [] OTHER -> FALSE
KindOf(e, c) == CASE e = "ue" -> UEKind(c)
                  [] e \in {"id", "str"} -> StrKind(c, DelimOf(e), FALSE)
                  [] e = "fix_parsable" -> IF c = 127 THEN "u4" ELSE StrKind(c, TICK, TRUE)   \* DEL escaped as well
                  [] OTHER -> StrKind(c, DelimOf(e), TRUE)
UpperHex(e) == e \notin {"ue", "fix_parsable"}       \* escape_str writes A-F, the type-string printers a-f
Render(e, kind, c) ==
  CASE kind = "plain"   -> <<c>>
    [] kind = "bsbs"    -> <<BS, BS>>
    [] kind = "bsdelim" -> <<BS, c>>
    [] kind = "short"   -> <<BS, ShortOf(c)>>
    [] kind = "x2"      -> <<BS, 120>> \o Hex(c, 2, FALSE)
    [] kind = "u4"      -> <<BS, 117>> \o Hex(c, 4, UpperHex(e))
    [] kind = "umin4"   -> <<BS, 117>> \o HexMin4(c, UpperHex(e))
    [] kind = "u4pair"  -> <<BS, 117>> \o Hex(HiOf(c), 4, UpperHex(e)) \o <<BS, 117>> \o Hex(LoOf(c), 4, UpperHex(e))
    [] kind = "U8"      -> <<BS, 85>> \o Hex(c, 8, FALSE)
Emit(e, c) == Render(e, KindOf(e, c), c)
PrintName(e, n) == IF IsBare(e, n) THEN n
               ELSE <<DelimOf(e)>> \o Flat([i \in 1..Len(n) |-> Emit(e, n[i])]) \o <<DelimOf(e)>>

(* ============================ (b) the Python reader ========================================================= *)
\* identifier = _ (simple_identifier / escaped_identifier) _ : one DFA.  "stop" = the character was not consumed.
PyScan0 == [m |-> "start", q |-> FALSE, txt |-> <<>>]
PyScanStep(st, c) ==
  CASE st.m = "start"  -> IF PySpace(c) THEN st                                        \* leading _
                          ELSE IF PyWord(c) THEN [m |-> "word", q |-> FALSE, txt |-> <<c>>]
                          ELSE IF c = TICK THEN [m |-> "tick", q |-> TRUE, txt |-> <<>>]
                          ELSE [st EXCEPT !.m = "fail"]
    [] st.m = "word"   -> IF PyWord(c) THEN [st EXCEPT !.txt = Append(@, c)]
                          ELSE IF PySpace(c) THEN [st EXCEPT !.m = "trail"] ELSE [st EXCEPT !.m = "stop"]
    [] st.m = "tick"   -> IF c = TICK THEN [st EXCEPT !.m = "closed"]
                          ELSE IF c = BS THEN [st EXCEPT !.m = "tickbs", !.txt = Append(@, c)]
                          ELSE [st EXCEPT !.txt = Append(@, c)]                       \* [^`\\]
    [] st.m = "tickbs" -> IF c = 10 THEN [st EXCEPT !.m = "fail"]                     \* \\. : dot is not newline
                          ELSE [st EXCEPT !.m = "tick", !.txt = Append(@, c)]
    [] st.m \in {"closed", "trail"} -> IF PySpace(c) THEN [st EXCEPT !.m = "trail"]    \* trailing _
                          ELSE [st EXCEPT !.m = "stop"]
    [] OTHER           -> st
PyScanMatched(st) == st.m \in {"word", "closed", "trail", "stop"}

\* s.replace('\\`', '`'): left-to-right, non-overlapping; p = a backslash has been read and not yet written
PyRepl0 == [p |-> FALSE, out |-> <<>>]
PyReplStep(st, c) ==
  IF st.p THEN (IF c = TICK THEN [p |-> FALSE, out |-> Append(st.out, TICK)]
                ELSE IF c = BS THEN [p |-> TRUE, out |-> Append(st.out, BS)]
                ELSE [p |-> FALSE, out |-> st.out \o <<BS, c>>])
  ELSE (IF c = BS THEN [st EXCEPT !.p = TRUE] ELSE [st EXCEPT !.out = Append(@, c)])
PyReplEnd(st) == IF st.p THEN Append(st.out, BS) ELSE st.out

\* bytes(.., 'utf-8').decode('unicode_escape')
PyShort == [c \in {92, 39, 34, 97, 98, 102, 110, 114, 116, 118} |->
              CASE c = 92 -> 92 [] c = 39 -> 39 [] c = 34 -> 34 [] c = 97 -> 7 [] c = 98 -> 8 [] c = 102 -> 12
                [] c = 110 -> 10 [] c = 114 -> 13 [] c = 116 -> 9 [] c = 118 -> 11]
PyDec0 == [m |-> "plain", need |-> 0, v |-> 0, out |-> <<>>]
PyDecStep(st, c) ==
  CASE st.m = "plain" -> IF c = BS THEN [st EXCEPT !.m = "bs"]
                         ELSE IF c < 128 THEN [st EXCEPT !.out = Append(@, c)]
                         ELSE [st EXCEPT !.m = "unspec"]            \* UTF-8 bytes read as Latin-1: not printed by anyone
    [] st.m = "bs"    -> IF c \in DOMAIN PyShort THEN [st EXCEPT !.m = "plain", !.out = Append(@, PyShort[c])]
                         ELSE IF c = 120 THEN [st EXCEPT !.m = "hex", !.need = 2, !.v = 0]
                         ELSE IF c = 117 THEN [st EXCEPT !.m = "hex", !.need = 4, !.v = 0]
                         ELSE IF c = 85  THEN [st EXCEPT !.m = "hex", !.need = 8, !.v = 0]
                         ELSE [st EXCEPT !.m = "unspec"]            \* octal, \N{..}, \<newline>, unknown escapes
    [] st.m = "hex"   -> IF ~IsHex(c) THEN [st EXCEPT !.m = "fail"]                     \* truncated \xXX escape
                         ELSE LET w == st.v * 16 + HexVal(c) IN
                              IF w > MaxCP THEN [st EXCEPT !.m = "fail"]                \* illegal Unicode character
                              ELSE IF st.need = 1 THEN [st EXCEPT !.m = "plain", !.need = 0, !.v = 0, !.out = Append(@, w)]
                              ELSE [st EXCEPT !.need = @ - 1, !.v = w]
    [] OTHER          -> st
PyDecEnd(st) == IF st.m \in {"bs", "hex"} THEN [st EXCEPT !.m = "fail"] ELSE st   \* "\ at end of string" / truncated

RECURSIVE PyScanRun(_, _, _)
PyScanRun(s, i, st) == IF st.m \in {"fail", "stop"} THEN [st |-> st, next |-> i - 1]
                       ELSE IF i > Len(s) THEN [st |-> st, next |-> i]
                       ELSE PyScanRun(s, i + 1, PyScanStep(st, s[i]))
RECURSIVE PyReplRun(_, _, _)
PyReplRun(st, s, i) == IF i > Len(s) THEN st ELSE PyReplRun(PyReplStep(st, s[i]), s, i + 1)
RECURSIVE PyDecRun(_, _, _)
PyDecRun(st, s, i) == IF i > Len(s) THEN st ELSE PyDecRun(PyDecStep(st, s[i]), s, i + 1)
RECURSIVE SkipPyWs(_, _)
SkipPyWs(s, i) == IF i <= Len(s) /\ PySpace(s[i]) THEN SkipPyWs(s, i + 1) ELSE i      \* the rule  _ = ~r"\s*"

PyUnescape(content) ==     \* unescape_parsable: [res \in {"ok","fail","unspec"}, name]
  LET d == PyDecEnd(PyDecRun(PyDec0, PyReplEnd(PyReplRun(PyRepl0, content, 1)), 1)) IN
  [res |-> IF d.m = "plain" THEN "ok" ELSE d.m, name |-> d.out]
\* the identifier starting at position i of s: [res, name, next] (next = first position not consumed)
PyIdent(s, i) ==
  LET r == PyScanRun(s, i, PyScan0) IN
  IF ~PyScanMatched(r.st) THEN [res |-> "fail", name |-> <<>>, next |-> r.next]
  ELSE IF ~r.st.q THEN [res |-> "ok", name |-> r.st.txt, next |-> r.next]
  ELSE LET u == PyUnescape(r.st.txt) IN [res |-> u.res, name |-> u.name, next |-> r.next]
\* a whole string that is one identifier (what  struct{<p>: int32}  makes of p)
PyName(p) == LET r == PyIdent(p, 1) IN
             IF r.res = "fail" \/ r.next <= Len(p) THEN [res |-> "fail", name |-> <<>>] ELSE [res |-> r.res, name |-> r.name]

(* ============================ (c) the engine reader ========================================================= *)
EnEscapeChars == {92, 98, 102, 110, 114, 116, 117, 39, 34, 96}                         \* "\\bfnrtu'\"`"
\* quotedLiteral after the opening delimiter (Parser.scala:81-105)
EnQ0(delim) == [m |-> "body", d |-> delim, sb |-> <<>>, err |-> "", ch |-> 0]
EnQStep(st, c) ==
  CASE st.m = "body" -> IF c = st.d THEN [st EXCEPT !.m = "closed"]
                        ELSE IF c = BS THEN [st EXCEPT !.m = "esc", !.sb = Append(@, c)]
                        ELSE [st EXCEPT !.sb = Append(@, c)]
    [] st.m = "esc"  -> IF c \in EnEscapeChars THEN [st EXCEPT !.m = "body", !.sb = Append(@, c)]
                        ELSE [st EXCEPT !.m = "fail", !.err = "invalid-escape", !.ch = c]
    [] OTHER         -> st
\* unescapeString (StringEscapeUtils.scala:135-190)
EnU0 == [hadSlash |-> FALSE, inUnicode |-> FALSE, uni |-> <<>>, out |-> <<>>, err |-> ""]
EnUStep(st, ch) ==
  IF st.err # "" THEN st
  ELSE IF st.inUnicode THEN
    LET u == Append(st.uni, ch) IN
    IF Len(u) < 4 THEN [st EXCEPT !.uni = u]
    ELSE IF \A k \in 1..4 : IsHex(u[k])
         THEN [st EXCEPT !.out = Append(@, HexNum(u, 0)), !.uni = <<>>, !.inUnicode = FALSE, !.hadSlash = FALSE]
         ELSE [st EXCEPT !.err = "unicode-not-hex"]     \* Integer.parseInt also takes a sign / non-ASCII digits: unspec
  ELSE IF st.hadSlash THEN
    CASE ch = 92  -> [st EXCEPT !.hadSlash = FALSE, !.out = Append(@, 92)]
      [] ch = 39  -> [st EXCEPT !.hadSlash = FALSE, !.out = Append(@, 39)]
      [] ch = 34  -> [st EXCEPT !.hadSlash = FALSE, !.out = Append(@, 34)]
      [] ch = 96  -> [st EXCEPT !.hadSlash = FALSE, !.out = Append(@, 96)]
      [] ch = 114 -> [st EXCEPT !.hadSlash = FALSE, !.out = Append(@, 13)]
      [] ch = 102 -> [st EXCEPT !.hadSlash = FALSE, !.out = Append(@, 12)]
      [] ch = 116 -> [st EXCEPT !.hadSlash = FALSE, !.out = Append(@, 9)]
      [] ch = 110 -> [st EXCEPT !.hadSlash = FALSE, !.out = Append(@, 10)]
      [] ch = 98  -> [st EXCEPT !.hadSlash = FALSE, !.out = Append(@, 8)]
      [] ch = 117 -> [st EXCEPT !.hadSlash = FALSE, !.inUnicode = TRUE]
      [] OTHER    -> [st EXCEPT !.hadSlash = FALSE, !.err = "invalid-escape"]
  ELSE IF ch = BS THEN [st EXCEPT !.hadSlash = TRUE]
  ELSE [st EXCEPT !.out = Append(@, ch)]
EnUEnd(st) == IF st.err = "" /\ st.hadSlash THEN [st EXCEPT !.out = Append(@, BS)] ELSE st

RECURSIVE EnURun(_, _, _)
EnURun(st, s, i) == IF i > Len(s) THEN st ELSE EnURun(EnUStep(st, s[i]), s, i + 1)
RECURSIVE EnQRun(_, _, _)
EnQRun(u, i, st) == IF st.m \in {"closed", "fail"} THEN [st |-> st, next |-> i]
                    ELSE IF i > Len(u) THEN [st |-> [st EXCEPT !.m = "fail", !.err = "unterminated"], next |-> i]
                    ELSE EnQRun(u, i + 1, EnQStep(st, u[i]))
\* quotedLiteral at position i (u[i] is the opening delimiter): [ok, err, ch, v, next]
EnQuoted(u, i) ==
  LET r == EnQRun(u, i + 1, EnQ0(u[i])) IN
  IF r.st.m = "fail" THEN [ok |-> FALSE, err |-> r.st.err, ch |-> r.st.ch, v |-> <<>>, next |-> r.next]
  ELSE LET x == EnUEnd(EnURun(EnU0, r.st.sb, 1)) IN
       [ok |-> x.err = "", err |-> x.err, ch |-> 0, v |-> x.out, next |-> r.next]

RECURSIVE SkipJavaWs(_, _)
SkipJavaWs(u, i) == IF i <= Len(u) /\ JavaSpaceU(u[i]) THEN SkipJavaWs(u, i + 1) ELSE i
RECURSIVE JavaPartEnd(_, _)
JavaPartEnd(u, i) == IF i <= Len(u) /\ JavaPartU(u[i]) THEN JavaPartEnd(u, i + 1) ELSE i
RECURSIVE DigitEnd(_, _)
DigitEnd(u, i) == IF i <= Len(u) /\ AsciiDigit(u[i]) THEN DigitEnd(u, i + 1) ELSE i

\* token loop: rep(positioned(token)), every token preceded by handleWhiteSpace; phrase() skips trailing blanks
Tok(t, v) == [t |-> t, v |-> v]
RECURSIVE EnLexFrom(_, _, _)
EnLexFrom(u, i0, toks) ==
  LET i == SkipJavaWs(u, i0) IN
  IF i > Len(u) THEN [ok |-> TRUE, err |-> "", ch |-> 0, toks |-> toks]
  ELSE LET c == u[i] IN
    IF c = TICK \/ c = DQ \/ c = SQ THEN
      LET q == EnQuoted(u, i) IN
      IF q.ok THEN EnLexFrom(u, q.next, Append(toks, Tok(IF c = TICK THEN "id" ELSE "str", q.v)))
      ELSE [ok |-> FALSE, err |-> q.err, ch |-> q.ch, toks |-> toks]
    ELSE IF JavaStartU(c) THEN
      LET j == JavaPartEnd(u, i + 1) IN EnLexFrom(u, j, Append(toks, Tok("id", SubSeq(u, i, j - 1))))
    ELSE LET j == IF c \in {43, 45} THEN i + 1 ELSE i        \* optional sign
             k == DigitEnd(u, j) IN
      IF (k <= Len(u) /\ ((u[k] = 46) \/ (k > j /\ u[k] \in {69, 101}))) \/ (c = 45 /\ j <= Len(u) /\ u[j] = 105)
        THEN [ok |-> FALSE, err |-> "unspec-float", ch |-> c, toks |-> toks]   \* float64_literal: not modelled
      ELSE IF k > j /\ c # 43 THEN EnLexFrom(u, k, Append(toks, Tok("int", SubSeq(u, i, k - 1))))   \* -?\d+
      ELSE IF c \in EnPunct THEN EnLexFrom(u, i + 1, Append(toks, Tok("punct", <<c>>)))
      ELSE [ok |-> FALSE, err |-> "no-token", ch |-> c, toks |-> toks]
EnLex(u) == EnLexFrom(u, 1, <<>>)

\* the one name a piece of engine-facing text denotes: [res, err, ch, name(units)]
EnName(p, kind) ==
  LET L == EnLex(ToUnits(p)) IN
  IF ~L.ok THEN [res |-> "fail", err |-> L.err, ch |-> L.ch, name |-> <<>>]
  ELSE IF Len(L.toks) # 1 \/ L.toks[1].t # kind THEN [res |-> "fail", err |-> "not-one-token", ch |-> 0, name |-> <<>>]
  ELSE [res |-> "ok", err |-> "", ch |-> 0, name |-> L.toks[1].v]

(* ============================ the property for one name and one emitted form =============================== *)
PyDenotes(p, n) == LET r == PyName(p) IN r.res = "ok" /\ Combine(r.name) = n
EnDenotes(p, n, kind) == LET r == EnName(p, kind) IN r.res = "ok" /\ Combine(r.name) = n
=============================================================================
