---- MODULE TypeTermsGen ----
EXTENDS TypeTerms
ASSUME Gen(0)
====
