---- MODULE TypeTermsSelf ----
EXTENDS TypeTerms
ASSUME Self(0)
====
