---- MODULE TypeTermsVerdict ----
EXTENDS TypeTerms
ASSUME Verdict(0)
====
