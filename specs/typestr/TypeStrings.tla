---------------------------- MODULE TypeStrings ----------------------------
(* C31, the transition system: one name is chosen character by character (Grow), printed character by character by
   one of the printer models (Print.. actions), and the printed text is then consumed character by character by the Python
   reader (PyScan.. then PyRepl.. then PyDec..) and by the engine's lexer (EnStart, then EnQ.. and EnU.., or EnIdent..).
   Every action is one step of one of the machines of TypeLex.tla (the same step functions the verdict module
   folds over whole strings; Coherent checks the two agree).

   Properties (the statement of C31 for one identifier):
     PyRoundTrip    the Python reader accepts the printed form and it denotes the name
     EngineDenotes  the engine's lexer accepts the printed form as exactly one identifier / string token and,
                    UTF-16 surrogate pairs combined, it denotes the same name
   For the unicode_escape / at-least-four-hex-digit printer models (Ems = {"ue","id","str"}) TLC refutes
   EngineDenotes (the shortest counter-example is recorded by the check) and proves that every failure is one of
   the three causes of EngineOutcome; for the restricted printers ("fix_id","fix_str","fix_parsable") both hold. *)
EXTENDS TypeLex

CONSTANTS Alphabet,     \* code points every name may use
          MinLen,       \* shortest name (0 except in simulation runs, which should spend their time on long names)
          MaxLen,       \* ... up to this length
          Core, CoreLen,\* names over Core \subseteq Alphabet go up to CoreLen
          Ems           \* printer models to run

VARIABLES name, em, stage, text, k, i, py, en
vars == <<name, em, stage, text, k, i, py, en>>

\* "raw" is not a printer: the text is the name itself, so that both readers also face arbitrary text (their rejecting
\* paths); nothing is demanded of it except that the machines and the whole-string functions agree (Coherent)
PyEms == {"ue", "fix_id", "fix_parsable", "raw"}   \* forms the Python grammar reads back (type strings)
KindTok(e) == IF e \in {"str", "fix_str"} THEN "str" ELSE "id"

Py0 == [scan |-> PyScan0, repl |-> PyRepl0, dec |-> PyDec0, res |-> "none", name |-> <<>>]
En0 == [units |-> <<>>, q |-> EnQ0(TICK), u |-> EnU0, res |-> "none", err |-> "", ch |-> 0, name |-> <<>>]

Init == /\ name = <<>> /\ em \in Ems /\ stage = "gen" /\ text = <<>> /\ k = 0 /\ i = 1 /\ py = Py0 /\ en = En0

(* ---- the name --------------------------------------------------------------------------------------------- *)
MayGrow(c) == \/ Len(name) < MaxLen
              \/ Len(name) < CoreLen /\ c \in Core /\ \A j \in 1..Len(name) : name[j] \in Core
Grow(c) == /\ stage = "gen" /\ MayGrow(c) /\ name' = Append(name, c) /\ UNCHANGED <<em, stage, text, k, i, py, en>>
Freeze  == /\ stage = "gen" /\ Len(name) >= MinLen /\ stage' = "decide" /\ UNCHANGED <<name, em, text, k, i, py, en>>

(* ---- (a) printing ----------------------------------------------------------------------------------------- *)
AfterPrint == IF em \in PyEms THEN "pyscan" ELSE "enstart"
Bare == em = "raw" \/ IsBare(em, name)
PrintBare == /\ stage = "decide" /\ Bare
             /\ text' = name /\ stage' = AfterPrint /\ UNCHANGED <<name, em, k, i, py, en>>
PrintOpen == /\ stage = "decide" /\ ~Bare
             /\ text' = <<DelimOf(em)>> /\ stage' = "print" /\ UNCHANGED <<name, em, k, i, py, en>>
\* one action per way of writing a character (Is = guard, Fx = effect; the named actions below are what TLC counts)
PrintIs(kd) == stage = "print" /\ k < Len(name) /\ KindOf(em, name[k + 1]) = kd
PrintFx(kd) == /\ text' = text \o Render(em, kd, name[k + 1]) /\ k' = k + 1
               /\ UNCHANGED <<name, em, stage, i, py, en>>
PrintPlain   == /\ PrintIs("plain")   /\ PrintFx("plain")        \* the character itself
PrintBsBs    == /\ PrintIs("bsbs")    /\ PrintFx("bsbs")         \* \\
PrintBsDelim == /\ PrintIs("bsdelim") /\ PrintFx("bsdelim")      \* \` or \"
PrintShort   == /\ PrintIs("short")   /\ PrintFx("short")        \* \n \t \r (\b \f)
PrintX2      == /\ PrintIs("x2")      /\ PrintFx("x2")           \* \xNN      (unicode_escape only)
PrintU4      == /\ PrintIs("u4")      /\ PrintFx("u4")           \* \uNNNN
PrintUMin4   == /\ PrintIs("umin4")   /\ PrintFx("umin4")        \* \u + at least four hex digits (escape_str before the repair)
PrintU4Pair  == /\ PrintIs("u4pair")  /\ PrintFx("u4pair")       \* \uHHHH\uLLLL surrogate pair
PrintU8      == /\ PrintIs("U8")      /\ PrintFx("U8")           \* \UNNNNNNNN (unicode_escape only)
PrintClose == /\ stage = "print" /\ k = Len(name)
              /\ text' = Append(text, DelimOf(em)) /\ stage' = AfterPrint /\ UNCHANGED <<name, em, k, i, py, en>>

(* ---- (b) the Python reader -------------------------------------------------------------------------------- *)
Cur == text[i]      \* (k, the printer's counter, is reused by the engine's lexer to remember where the token ended)
PyScanIs(m) == stage = "pyscan" /\ i <= Len(text) /\ py.scan.m = m
PyScanFx == /\ py' = [py EXCEPT !.scan = PyScanStep(py.scan, Cur)]
            /\ i' = IF PyScanStep(py.scan, Cur).m = "stop" THEN i ELSE i + 1
            /\ UNCHANGED <<name, em, stage, text, k, en>>
PyScanBlank     == /\ PyScanIs("start") /\ PySpace(Cur) /\ PyScanFx
PyScanWordStart == /\ PyScanIs("start") /\ PyWord(Cur) /\ PyScanFx
PyScanTickOpen  == /\ PyScanIs("start") /\ Cur = TICK /\ PyScanFx
PyScanWordChar  == /\ PyScanIs("word") /\ PyWord(Cur) /\ PyScanFx
PyScanTickChar  == /\ PyScanIs("tick") /\ Cur # TICK /\ Cur # BS /\ PyScanFx
PyScanTickBs    == /\ PyScanIs("tick") /\ Cur = BS /\ PyScanFx
PyScanPair      == /\ PyScanIs("tickbs") /\ Cur # 10 /\ PyScanFx
PyScanTickClose == /\ PyScanIs("tick") /\ Cur = TICK /\ PyScanFx
PyScanTrail     == /\ stage = "pyscan" /\ i <= Len(text) /\ py.scan.m \in {"word", "closed", "trail"} /\ PySpace(Cur) /\ PyScanFx
PyScanOther     == /\ stage = "pyscan" /\ i <= Len(text)         \* a character no rule takes: the parse fails
                   /\ \/ py.scan.m = "start" /\ ~PySpace(Cur) /\ ~PyWord(Cur) /\ Cur # TICK
                      \/ py.scan.m = "word" /\ ~PyWord(Cur) /\ ~PySpace(Cur)
                      \/ py.scan.m \in {"closed", "trail"} /\ ~PySpace(Cur)
                      \/ py.scan.m = "tickbs" /\ Cur = 10
                   /\ py' = [py EXCEPT !.scan = PyScanStep(py.scan, Cur)] /\ UNCHANGED <<name, em, stage, text, k, i, en>>
\* end of the scan: the regular expression matched (word / closed at the end of the text) or the parse is an error
PyScanEnd == /\ stage = "pyscan" /\ (i > Len(text) \/ py.scan.m \in {"fail", "stop"})
             /\ IF i > Len(text) /\ py.scan.m \in {"word", "trail"} /\ ~py.scan.q
                  THEN py' = [py EXCEPT !.res = "ok", !.name = py.scan.txt] /\ stage' = "enstart" /\ i' = 1
                ELSE IF i > Len(text) /\ py.scan.m \in {"closed", "trail"} /\ py.scan.q
                  THEN py' = py /\ stage' = "pyrepl" /\ i' = 1
                ELSE py' = [py EXCEPT !.res = "fail"] /\ stage' = "enstart" /\ i' = 1
             /\ UNCHANGED <<name, em, text, k, en>>
Content == py.scan.txt
PyReplIs == stage = "pyrepl" /\ i <= Len(Content)
PyReplFx == /\ py' = [py EXCEPT !.repl = PyReplStep(py.repl, Content[i])] /\ i' = i + 1
            /\ UNCHANGED <<name, em, stage, text, k, en>>
PyReplBackslash == /\ PyReplIs /\ Content[i] = BS /\ PyReplFx
PyReplTick      == /\ PyReplIs /\ Content[i] = TICK /\ PyReplFx       \* after a backslash: the pattern \` is replaced
PyReplOther     == /\ PyReplIs /\ Content[i] \notin {BS, TICK} /\ PyReplFx
PyReplEndAct == /\ stage = "pyrepl" /\ i > Len(Content) /\ stage' = "pydec" /\ i' = 1
                /\ UNCHANGED <<name, em, text, k, py, en>>
Replaced == PyReplEnd(py.repl)
PyDecIs(m) == stage = "pydec" /\ i <= Len(Replaced) /\ py.dec.m = m
PyDecFx == /\ py' = [py EXCEPT !.dec = PyDecStep(py.dec, Replaced[i])] /\ i' = i + 1
           /\ UNCHANGED <<name, em, stage, text, k, en>>
PyDecPlain     == /\ PyDecIs("plain") /\ Replaced[i] # BS /\ PyDecFx
PyDecBackslash == /\ PyDecIs("plain") /\ Replaced[i] = BS /\ PyDecFx
PyDecShort     == /\ PyDecIs("bs") /\ Replaced[i] \in DOMAIN PyShort /\ PyDecFx
PyDecHexIntro  == /\ PyDecIs("bs") /\ Replaced[i] \in {120, 117, 85} /\ PyDecFx
PyDecUnknown   == /\ PyDecIs("bs") /\ Replaced[i] \notin DOMAIN PyShort /\ Replaced[i] \notin {120, 117, 85} /\ PyDecFx
PyDecHexDigit  == /\ PyDecIs("hex") /\ PyDecFx
PyDecEndAct == /\ stage = "pydec" /\ (i > Len(Replaced) \/ py.dec.m \in {"fail", "unspec"})   \* end, or the decoder gave up
               /\ LET d == PyDecEnd(py.dec) IN
                  py' = [py EXCEPT !.res = IF d.m = "plain" THEN "ok" ELSE d.m, !.name = d.out]
               /\ stage' = "enstart" /\ i' = 1 /\ UNCHANGED <<name, em, text, k, en>>

(* ---- (c) the engine's lexer (on UTF-16 units) -------------------------------------------------------------- *)
U == en.units
EnStart == /\ stage = "enstart" /\ en.units = <<>> /\ text # <<>>
           /\ en' = [en EXCEPT !.units = ToUnits(text)] /\ UNCHANGED <<name, em, stage, text, k, i, py>>
EnBlank == /\ stage = "enstart" /\ U # <<>> /\ i <= Len(U) /\ JavaSpaceU(U[i])          \* handleWhiteSpace
           /\ i' = i + 1 /\ UNCHANGED <<name, em, stage, text, k, py, en>>
EnEmpty == /\ stage = "enstart" /\ (text = <<>> \/ (U # <<>> /\ i > Len(U)))             \* no token at all
           /\ en' = [en EXCEPT !.res = "fail", !.err = "not-one-token"] /\ stage' = "done"
           /\ UNCHANGED <<name, em, text, k, i, py>>
EnOpenQuote == /\ stage = "enstart" /\ U # <<>> /\ i <= Len(U) /\ U[i] \in {TICK, DQ, SQ}
               /\ en' = [en EXCEPT !.q = EnQ0(U[i])] /\ stage' = "enq" /\ i' = i + 1
               /\ UNCHANGED <<name, em, text, k, py>>
EnIdentStart == /\ stage = "enstart" /\ U # <<>> /\ i <= Len(U) /\ JavaStartU(U[i])
                /\ stage' = "enident" /\ k' = i /\ i' = i + 1 /\ UNCHANGED <<name, em, text, py, en>>
EnNoToken == /\ stage = "enstart" /\ U # <<>> /\ i <= Len(U)
             /\ U[i] \notin {TICK, DQ, SQ} /\ ~JavaStartU(U[i]) /\ ~JavaSpaceU(U[i])
             /\ en' = [en EXCEPT !.res = "fail", !.err = "not-an-identifier", !.ch = U[i]] /\ stage' = "done"
             /\ UNCHANGED <<name, em, text, k, i, py>>
EnIdentPart == /\ stage = "enident" /\ i <= Len(U) /\ JavaPartU(U[i]) /\ i' = i + 1
               /\ UNCHANGED <<name, em, stage, text, k, py, en>>
EnIdentEnd == /\ stage = "enident" /\ (IF i > Len(U) THEN TRUE ELSE ~JavaPartU(U[i]))
              /\ en' = [en EXCEPT !.res = "ok", !.name = SubSeq(U, k, i - 1)] /\ stage' = "entail"
              /\ UNCHANGED <<name, em, text, k, i, py>>
EnQIs(m) == stage = "enq" /\ i <= Len(U) /\ en.q.m = m
EnQFx == /\ en' = [en EXCEPT !.q = EnQStep(en.q, U[i])] /\ i' = i + 1
         /\ UNCHANGED <<name, em, stage, text, k, py>>
EnQPlain     == /\ EnQIs("body") /\ U[i] # en.q.d /\ U[i] # BS /\ EnQFx
EnQBackslash == /\ EnQIs("body") /\ U[i] = BS /\ U[i] # en.q.d /\ EnQFx
EnQEscape    == /\ EnQIs("esc") /\ U[i] \in EnEscapeChars /\ EnQFx
EnQBadEscape == /\ EnQIs("esc") /\ U[i] \notin EnEscapeChars /\ EnQFx
EnQClose     == /\ EnQIs("body") /\ U[i] = en.q.d /\ EnQFx
EnQEnd == /\ stage = "enq" /\ (en.q.m \in {"closed", "fail"} \/ i > Len(U))
          /\ IF en.q.m = "closed" THEN en' = en /\ stage' = "enu" /\ k' = i /\ i' = 1
             ELSE IF en.q.m = "fail" THEN en' = [en EXCEPT !.res = "fail", !.err = en.q.err, !.ch = en.q.ch] /\ stage' = "done" /\ k' = k /\ i' = i
             ELSE en' = [en EXCEPT !.res = "fail", !.err = "unterminated"] /\ stage' = "done" /\ k' = k /\ i' = i
          /\ UNCHANGED <<name, em, text, py>>
Sb == en.q.sb
EnUIs == stage = "enu" /\ i <= Len(Sb)
EnUFx == /\ en' = [en EXCEPT !.u = EnUStep(en.u, Sb[i])] /\ i' = i + 1
         /\ UNCHANGED <<name, em, stage, text, k, py>>
EnUPlain     == /\ EnUIs /\ en.u.err = "" /\ ~en.u.inUnicode /\ ~en.u.hadSlash /\ Sb[i] # BS /\ EnUFx
EnUBackslash == /\ EnUIs /\ en.u.err = "" /\ ~en.u.inUnicode /\ ~en.u.hadSlash /\ Sb[i] = BS /\ EnUFx
EnUShort     == /\ EnUIs /\ en.u.err = "" /\ ~en.u.inUnicode /\ en.u.hadSlash /\ Sb[i] # 117 /\ EnUFx
EnUIntro     == /\ EnUIs /\ en.u.err = "" /\ ~en.u.inUnicode /\ en.u.hadSlash /\ Sb[i] = 117 /\ EnUFx
EnUHexDigit  == /\ EnUIs /\ en.u.err = "" /\ en.u.inUnicode /\ EnUFx
EnUEndAct == /\ stage = "enu" /\ (i > Len(Sb) \/ en.u.err # "")                            \* end, or fatal(...)
             /\ LET x == EnUEnd(en.u) IN
                en' = [en EXCEPT !.res = IF x.err = "" THEN "ok" ELSE "fail", !.err = x.err, !.name = x.out]
             /\ stage' = "entail" /\ i' = k /\ UNCHANGED <<name, em, text, k, py>>
\* the rest of the input: parseAll wants the end (after blanks); anything else means the text is not ONE token
EnTail == /\ stage = "entail"
          /\ en' = IF en.res = "ok" /\ SkipJavaWs(U, i) <= Len(U)
                   THEN [en EXCEPT !.res = "fail", !.err = "not-one-token", !.ch = U[SkipJavaWs(U, i)]] ELSE en
          /\ stage' = "done" /\ UNCHANGED <<name, em, text, k, i, py>>

Next == \/ \E c \in Alphabet : Grow(c)
        \/ Freeze \/ PrintBare \/ PrintOpen \/ PrintPlain \/ PrintBsBs \/ PrintBsDelim \/ PrintShort \/ PrintX2
        \/ PrintU4 \/ PrintUMin4 \/ PrintU4Pair \/ PrintU8 \/ PrintClose
        \/ PyScanBlank \/ PyScanWordStart \/ PyScanTickOpen \/ PyScanWordChar \/ PyScanTickChar \/ PyScanTickBs
        \/ PyScanPair \/ PyScanTrail \/ PyScanTickClose \/ PyScanOther \/ PyScanEnd
        \/ PyReplBackslash \/ PyReplTick \/ PyReplOther \/ PyReplEndAct
        \/ PyDecPlain \/ PyDecBackslash \/ PyDecShort \/ PyDecHexIntro \/ PyDecUnknown \/ PyDecHexDigit
        \/ PyDecEndAct
        \/ EnStart \/ EnBlank \/ EnEmpty \/ EnOpenQuote \/ EnIdentStart \/ EnNoToken \/ EnIdentPart \/ EnIdentEnd
        \/ EnQPlain \/ EnQBackslash \/ EnQEscape \/ EnQBadEscape \/ EnQClose \/ EnQEnd
        \/ EnUPlain \/ EnUBackslash \/ EnUShort \/ EnUIntro \/ EnUHexDigit \/ EnUEndAct \/ EnTail
Spec == Init /\ [][Next]_vars

(* ---- properties ------------------------------------------------------------------------------------------- *)
Done == stage = "done"
Printed == stage \notin {"gen", "decide", "print"}
PrinterIsPrint == Printed /\ em # "raw" => text = PrintName(em, name)             \* the per-character printer = the functional model
\* the stepwise machines = the whole-string functions the verdict module applies to strings observed from the code
Coherent == Done =>
  /\ em \in PyEms => LET r == PyName(text) IN py.res = r.res /\ (r.res = "ok" => py.name = r.name)
  /\ LET r == EnName(text, KindTok(em)) IN
       /\ (en.res = "ok") = (r.res = "ok")
       /\ r.res = "ok" => en.name = r.name
PyRoundTrip   == Done /\ em \in PyEms \ {"raw"} => py.res = "ok" /\ Combine(py.name) = name
EngineDenotes == Done /\ em # "raw" => en.res = "ok" /\ Combine(en.name) = name
EngineDenotesRestricted == em \in {"fix_id", "fix_str", "fix_parsable"} => EngineDenotes      \* holds; for the others see EngineOutcome
\* what goes wrong for the ue / id / str printer models is one of these (used to classify, never to excuse)
EngineOutcome == Done /\ em \in {"ue", "id", "str"} =>
  \/ en.res = "ok" /\ Combine(en.name) = name
  \/ en.res = "ok" /\ Combine(en.name) # name /\ \E j \in 1..Len(name) : name[j] >= 65536     \* \u + 5 hex digits
  \/ en.err = "invalid-escape" /\ en.ch \in {120, 85}                                        \* \x.. and \U........
  \/ en.err = "not-one-token" /\ text[1] \notin {TICK, DQ}                                   \* bare, not a Java identifier
=============================================================================
