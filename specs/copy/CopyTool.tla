------------------------------ MODULE CopyTool ------------------------------
(* C22: the copy tool (hailtop.aiotools.fs.copier: Transfer / SourceCopier / Copier) between local paths.

   PART 1 - the destination rules, as a function  Expected(case)  from an abstract source tree, an abstract
   destination tree and a transfer to either the resulting destination tree or the set of acceptable error
   classes.  It is transcribed from the documented behaviour, not from the code:

     * a source without trailing slash may be a file or a directory; with a trailing slash it names a directory;
       a source that does not exist (as such) -> FileNotFoundError;
     * "copy into a directory" (treat_dest_as = dest_dir, or infer with a trailing slash on the destination, or
       infer with an existing directory, or infer with a list of sources): the target is dest/basename(src);
     * "copy to an exact target" (dest_is_target, or infer with a destination that is a file or absent): the target
       is dest itself; an exact target spelled with a trailing slash is a directory; a list of sources cannot have an
       exact target -> NotADirectoryError;
     * a file is written at its target path, a directory is merged file by file below its target path;
       writing a file where a directory is -> IsADirectoryError ("file onto directory"); writing below something
       that is a file -> NotADirectoryError ("directory onto file"); existing files are overwritten, everything else
       in the destination is kept; on success every written file is byte-identical to its source.

   The repository states the same rules as a golden table (test/hailtop/inter_cloud/copy_test_specs.py, 324
   configurations with their resulting files or exception).  GoldenReport evaluates Expected on every entry of
   that table; the check refuses to run unless there is no mismatch (a test of this specification).

   PART 2 - the multi-part arithmetic as a state machine (Plan / SingleChunk / CopyChunk(i) / Finish), one action
   per awaited region of _copy_file_multi_part_main / _copy_part / _copy_file: the parts partition [0, size), each
   chunk moves source offsets to the same destination offsets, nothing is written twice or out of range, and at the
   end the destination is byte-identical to the source - under every interleaving of the parts.
   CopyToolTrace validates recorded executions of the real code against this machine.

   Binding (B3) for part 1: CopyToolGen writes the cases; the harness materialises each one in scratch directories,
   runs the real Copier.copy on RouterAsyncFS/LocalAsyncFS with small part and buffer sizes, records the resulting
   destination tree (path -> identity of the bytes found) or the exception class; CopyToolVerdict judges with Ok. *)
EXTENDS Integers, Sequences, SequencesExt, FiniteSets, TLC, Json, IOUtils

CONSTANTS MaxSize,     \* largest file size of the part machine
          PartSizes,   \* part sizes
          BufSizes,    \* buffer sizes
          Level        \* "quick" | "thorough": size of the case universe of part 1

\* =========================================================================== PART 1: destination rules
\* a tree: files = set of [p |-> path (sequence of names), c |-> content id], dirs = explicitly existing directories
\* (directories are also implied by the files below them; <<>> is the root and always exists)

C(o, p) == [o |-> o, p |-> p]                      \* content id: the bytes originally put at path p of tree o
File(o, p) == [p |-> p, c |-> C(o, p)]

IsFile(T, p) == \E f \in T.files : f.p = p
StrictPrefix(q, p) == Len(q) < Len(p) /\ SubSeq(p, 1, Len(q)) = q
IsDir(T, p)  == p = <<>> \/ p \in T.dirs \/ \E f \in T.files : StrictPrefix(p, f.p)

SrcKinds == {"file", "dir", "deep", "clash", "empty", "noexist"}
Modes    == {"dest_dir", "dest_is_target", "infer_dest"}

\* what a source of a given kind looks like, below the source root, under its name
SrcTreeOf(s) ==
  LET n == s.name IN
  CASE s.kind = "file"    -> [files |-> {File("src", <<n>>)}, dirs |-> {}]
    [] s.kind = "dir"     -> [files |-> {File("src", <<n, "file1">>), File("src", <<n, "subdir", "file2">>)}, dirs |-> {}]
    [] s.kind = "deep"    -> [files |-> {File("src", <<n, "d1", "d2", "file1">>)}, dirs |-> {}]
    \* collides with the destination directory of the golden layout: a file where dest has a directory, and a
    \* directory where dest has a file
    [] s.kind = "clash"   -> [files |-> {File("src", <<n, "subdir">>), File("src", <<n, "file3", "g">>), File("src", <<n, "ok">>)},
                              dirs |-> {}]
    [] s.kind = "empty"   -> [files |-> {}, dirs |-> {<<n>>}]
    [] s.kind = "noexist" -> [files |-> {}, dirs |-> {}]

SrcTree(c) == [files |-> UNION { SrcTreeOf(c.srcs[i]).files : i \in 1..Len(c.srcs) },
               dirs  |-> UNION { SrcTreeOf(c.srcs[i]).dirs : i \in 1..Len(c.srcs) }]

\* the destination root always holds "keep"; dtype says what exists at dest/a (the layout of the golden table)
DestTree(c) ==
  [files |-> {File("dest", <<"keep">>)} \cup
             (CASE c.dtype = "file"    -> {File("dest", <<"a">>)}
                [] c.dtype = "dir"     -> {File("dest", <<"a", "subdir", "file2">>), File("dest", <<"a", "file3">>)}
                [] c.dtype = "noexist" -> {}),
   dirs |-> {}]

DPath(c) == CASE c.dbase = "root" -> <<>> [] c.dbase = "a" -> <<"a">> [] c.dbase = "x" -> <<"x">>

\* ---- the transfer
EffMode(c) == IF c.mode = "infer_dest" /\ c.dslash THEN "dest_dir" ELSE c.mode

Into(c) == \/ EffMode(c) = "dest_dir"
           \/ EffMode(c) = "infer_dest" /\ (c.list \/ IsDir(DestTree(c), DPath(c)))

\* where source s goes: path, and whether the path was spelled as a directory
Target(c, s) == IF Into(c) THEN [p |-> DPath(c) \o <<s.name>>, asdir |-> FALSE]
                ELSE [p |-> DPath(c), asdir |-> c.dslash]

SrcIsFile(c, s) == ~s.slash /\ IsFile(SrcTree(c), <<s.name>>)
SrcIsDir(c, s)  == Len(<<s.name>>) > 0 /\ IsDir(SrcTree(c), <<s.name>>)

\* the files source s wants written: set of [p, c]
Puts(c, s) ==
  LET t == Target(c, s) IN
    IF SrcIsFile(c, s) THEN { [p |-> t.p, c |-> C("src", <<s.name>>)] }
    ELSE { [p |-> t.p \o SubSeq(f.p, 2, Len(f.p)), c |-> f.c] : f \in { g \in SrcTree(c).files : StrictPrefix(<<s.name>>, g.p) } }

\* writing a file at p in tree T
PutErr(T, p) ==
  IF IsDir(T, p) THEN "IsADirectoryError"
  ELSE IF \E k \in 1..Len(p) - 1 : IsFile(T, SubSeq(p, 1, k)) THEN "NotADirectoryError"
  ELSE "none"

SrcErrs(c, s) ==
  IF ~SrcIsFile(c, s) /\ ~SrcIsDir(c, s) THEN {"FileNotFoundError"}
  ELSE IF SrcIsFile(c, s) /\ Target(c, s).asdir THEN {"IsADirectoryError"}
  ELSE { PutErr(DestTree(c), q.p) : q \in Puts(c, s) } \ {"none"}

Srcs(c) == { c.srcs[i] : i \in 1..Len(c.srcs) }

Errs(c) == IF c.list /\ c.mode = "dest_is_target" THEN {"NotADirectoryError"}
           ELSE UNION { SrcErrs(c, s) : s \in Srcs(c) }

AllPuts(c) == UNION { Puts(c, s) : s \in Srcs(c) }

\* An empty directory copied onto (or below) a file writes nothing: the rules do not say whether that is
\* "directory onto file"; both the error and the untouched destination are accepted.
MayErrs(c) ==
  IF c.list /\ c.mode = "dest_is_target" THEN {}
  ELSE UNION { IF /\ SrcIsDir(c, s) /\ ~SrcIsFile(c, s) /\ Puts(c, s) = {}
                  /\ \E k \in 1..Len(Target(c, s).p) : IsFile(DestTree(c), SubSeq(Target(c, s).p, 1, k))
               THEN {"NotADirectoryError"} ELSE {} : s \in Srcs(c) }

Expected(c) ==
  IF Errs(c) # {} THEN [kind |-> "error", classes |-> Errs(c), files |-> {}]
  ELSE [kind |-> "tree", classes |-> {},
        files |-> { f \in DestTree(c).files : ~\E q \in AllPuts(c) : q.p = f.p } \cup AllPuts(c)]

\* ---- the property for one recorded outcome
\* out = [kind |-> "tree" | "error", cls |-> class name, files |-> sequence of [p, c]];  empties = contents that are the
\* empty byte string in this run (they are indistinguishable, so they are identified before comparing)
EmptyC == C("empty", <<>>)
Canon(fs, empties) == { [p |-> f.p, c |-> IF f.c \in empties THEN EmptyC ELSE f.c] : f \in fs }
SeqSet(q) == { q[i] : i \in 1..Len(q) }

Ok(c, out, empties) ==
  LET e == Expected(c) IN
    IF e.kind = "error" THEN out.kind = "error" /\ out.cls \in e.classes \cup MayErrs(c)
    ELSE \/ out.kind = "tree" /\ Canon(SeqSet(out.files), empties) = Canon(e.files, empties)
         \/ out.kind = "error" /\ out.cls \in MayErrs(c)

\* two sources of one case never write the same path (the outcome would depend on the schedule)
WellFormed(c) == \A s, t \in Srcs(c) : s # t => { q.p : q \in Puts(c, s) } \cap { q.p : q \in Puts(c, t) } = {}

\* ---- the case universe
Src(name, kind, slash) == [name |-> name, kind |-> kind, slash |-> slash]
Case(srcs, list, dtype, dbase, dslash, mode, size, ps, buf) ==
  [srcs |-> srcs, list |-> list, dtype |-> dtype, dbase |-> dbase, dslash |-> dslash, mode |-> mode,
   size |-> size, ps |-> ps, buf |-> buf]

DestConfigs == { [dtype |-> dt, dbase |-> db, dslash |-> ds, mode |-> m] :
                   dt \in {"file", "dir", "noexist"}, db \in {"root", "a", "x"}, ds \in BOOLEAN, m \in Modes }

Pairs == { <<Src("a", "file", FALSE), Src("b", "dir", FALSE)>>,
           <<Src("a", "dir", FALSE), Src("b", "file", FALSE)>> }
PairsMore == { <<Src("a", "file", FALSE), Src("b", "noexist", FALSE)>>,
               <<Src("a", "dir", TRUE), Src("b", "clash", FALSE)>>,
               <<Src("a", "deep", FALSE), Src("b", "empty", TRUE)>>,
               <<Src("a", "file", TRUE), Src("b", "file", FALSE)>> }

GoldenSrcs == { <<Src("a", k, sl)>> : k \in {"file", "dir", "noexist"}, sl \in BOOLEAN }   \* the golden table's sources
ExtraSrcs  == { <<Src("a", k, FALSE)>> : k \in {"deep", "clash", "empty"} }
ExtraSrcs2 == { <<Src("a", k, TRUE)>> : k \in {"deep", "clash", "empty"} }

\* size = -1: the harness draws file sizes 0..9 from its seed; ps/buf = part and buffer size the harness installs
Cases(srcsets, list, dconfigs) ==
  { Case(s, list, d.dtype, d.dbase, d.dslash, d.mode, -1, 4, 2) : s \in srcsets, d \in dconfigs }

\* quick: every golden configuration, the other layouts without trailing slash, file / directory as a list, two pairs
TreeCases ==
  IF Level = "quick"
  THEN Cases(GoldenSrcs \cup ExtraSrcs, FALSE, DestConfigs)
       \cup Cases({ <<Src("a", k, FALSE)>> : k \in {"file", "dir"} }, TRUE, DestConfigs) \cup Cases(Pairs, TRUE, DestConfigs)
  ELSE Cases(GoldenSrcs \cup ExtraSrcs \cup ExtraSrcs2, FALSE, DestConfigs)
       \cup Cases(GoldenSrcs \cup ExtraSrcs \cup ExtraSrcs2, TRUE, DestConfigs)
       \cup Cases(Pairs \cup PairsMore, TRUE, DestConfigs)

\* the part-boundary sweep: one file to an exact, absent target, every size with every part and buffer size
PartCases == { Case(<<Src("a", "file", FALSE)>>, FALSE, "noexist", "x", FALSE, "dest_is_target", sz, p, b) :
                 sz \in 0..MaxSize, p \in PartSizes, b \in BufSizes }

Inputs == TreeCases \cup PartCases
\* each case is written together with the trees the harness has to materialise (single source of truth)
Paths(fs) == SetToSeq({ f.p : f \in fs })
\* (Gen, Golden and Verdict take a dummy argument so that TLC does not evaluate them eagerly in every run)
Gen(go) == /\ \A c \in Inputs : WellFormed(c)
       /\ ndJsonSerialize(IOEnv.CT_INPUTS,
            SetToSeq({ [c |-> c, src |-> Paths(SrcTree(c).files), srcdirs |-> SetToSeq(SrcTree(c).dirs),
                        dst |-> Paths(DestTree(c).files)] : c \in Inputs }))

\* ---- the golden table: g = [src_type, dest_type, dest_basename ("root" | "a" | "x"), treat_dest_as,
\*                             src_trailing_slash, dest_trailing_slash, out |-> [kind, cls, files]]
FromGolden(g) == Case(<<Src("a", g.src_type, g.src_trailing_slash)>>, FALSE, g.dest_type, g.dest_basename,
                      g.dest_trailing_slash, g.treat_dest_as, -1, 4, 2)
GoldenAgrees(g) ==
  LET e == Expected(FromGolden(g)) IN
    IF g.out.kind = "error" THEN e.kind = "error" /\ e.classes = {g.out.cls}
    ELSE e.kind = "tree" /\ e.files = SeqSet(g.out.files)
GoldenReport(gs) ==
  [n |-> Len(gs),
   mismatches |-> SetToSeq({ i \in 1..Len(gs) : ~GoldenAgrees(gs[i]) }),
   covered |-> Cardinality({ FromGolden(gs[i]) : i \in 1..Len(gs) } \cap TreeCases),
   errors |-> Cardinality({ i \in 1..Len(gs) : gs[i].out.kind = "error" })]
Golden(go) == JsonSerialize(IOEnv.CT_GOLDEN_REPORT, GoldenReport(ndJsonDeserialize(IOEnv.CT_GOLDEN)))

\* ---- verdict: cases = [c |-> case, sema, out, empties]
Class(c, out, empties) ==
  LET e == Expected(c) IN
    IF e.kind = "error" THEN (IF out.kind = "error" THEN "wrong_error" ELSE "no_error")
    ELSE IF out.kind = "error" THEN "unexpected_error"
    ELSE LET got == Canon(SeqSet(out.files), empties) want == Canon(e.files, empties) IN
           IF { f.p : f \in got } # { f.p : f \in want } THEN "wrong_paths" ELSE "wrong_bytes"
VerdictOf(cs) ==
  LET ok(x) == Ok(x.c, x.out, SeqSet(x.empties))
      bad == { i \in 1..Len(cs) : ~ok(cs[i]) } IN
    [cases |-> Len(cs),
     bad |-> SetToSeq({ [i |-> i, cls |-> Class(cs[i].c, cs[i].out, SeqSet(cs[i].empties)),
                         want |-> Expected(cs[i].c).kind, want_classes |-> SetToSeq(Expected(cs[i].c).classes)] : i \in bad }),
     trees_ok |-> Cardinality({ i \in 1..Len(cs) : cs[i].out.kind = "tree" /\ i \notin bad }),
     errors_ok |-> Cardinality({ i \in 1..Len(cs) : cs[i].out.kind = "error" /\ i \notin bad })]
Verdict(go) == JsonSerialize(IOEnv.CT_VERDICT, VerdictOf(ndJsonDeserialize(IOEnv.CT_CASES)))

\* =========================================================================== PART 2: multi-part arithmetic
VARIABLES size, ps, buf,     \* file size, part size (copy_part_size of the destination), Copier.BUFFER_SIZE
          pc,                \* "plan" | "single" | "parts" | "done"
          nparts,
          rem,               \* part -> bytes of the part not yet copied (n in _copy_part)
          dpos,              \* part -> position of the part's destination stream (create_part(number, start) + bytes written)
          spos,              \* single-shot: source/destination stream position
          dest               \* destination offset -> source offset stored there (-1: nothing written yet)
pvars == <<size, ps, buf, pc, nparts, rem, dpos, spos, dest>>

Lo(a, b) == IF a < b THEN a ELSE b
Parts == 0..nparts - 1
ThisPartSize(i) == IF i = nparts - 1 /\ size % ps # 0 THEN size % ps ELSE ps
Room == 0..MaxSize + 6          \* destination offsets the model can distinguish (beyond size = out of range)

Init ==
  /\ size \in 0..MaxSize /\ ps \in PartSizes /\ buf \in BufSizes
  /\ pc = "plan" /\ nparts = 0 /\ rem = <<>> /\ dpos = <<>> /\ spos = 0
  /\ dest = [o \in Room |-> -1]

\* _copy_file_multi_part_main up to multi_part_create (which creates the empty destination file)
Plan ==
  /\ pc = "plan"
  /\ IF size <= ps
     THEN pc' = "single" /\ UNCHANGED <<nparts, rem, dpos>>
     ELSE LET np == (size \div ps) + (IF size % ps # 0 THEN 1 ELSE 0) IN
          /\ nparts' = np
          /\ rem' = [i \in 0..np - 1 |-> IF i = np - 1 /\ size % ps # 0 THEN size % ps ELSE ps]
          /\ dpos' = [i \in 0..np - 1 |-> i * ps]
          /\ pc' = "parts"
  /\ UNCHANGED <<size, ps, buf, spos, dest>>

\* store source offsets [so, so+k) at destination offsets [do, do+k)
Write(do, so, k) == [o \in Room |-> IF o >= do /\ o < do + k THEN so + (o - do) ELSE dest[o]]
Clean(do, k) == \A o \in Room : (o >= do /\ o < do + k) => dest[o] = -1

\* _copy_file: read(BUFFER_SIZE) / write until the source is exhausted
SingleChunk ==
  /\ pc = "single"
  /\ LET k == Lo(buf, size - spos) IN
       IF k = 0 THEN pc' = "done" /\ UNCHANGED <<spos, dest>>
       ELSE dest' = Write(spos, spos, k) /\ spos' = spos + k /\ pc' = "single"
  /\ UNCHANGED <<size, ps, buf, nparts, rem, dpos>>

\* one iteration of the while loop of _copy_part for part i: open_from(src, i*ps + (this - n), length=k); readexactly(k); write
ChunkSrc(i) == i * ps + (ThisPartSize(i) - rem[i])
ChunkLen(i) == Lo(buf, rem[i])
CopyChunk(i) ==
  /\ pc = "parts" /\ rem[i] > 0
  /\ dest' = Write(dpos[i], ChunkSrc(i), ChunkLen(i))
  /\ dpos' = [dpos EXCEPT ![i] = @ + ChunkLen(i)]
  /\ rem' = [rem EXCEPT ![i] = @ - ChunkLen(i)]
  /\ UNCHANGED <<size, ps, buf, pc, nparts, spos>>

\* bounded_gather2 returned, the multi-part context is left
Finish ==
  /\ pc = "parts" /\ \A i \in Parts : rem[i] = 0
  /\ pc' = "done"
  /\ UNCHANGED <<size, ps, buf, nparts, rem, dpos, spos, dest>>

CopyAnyChunk == \E i \in Parts : CopyChunk(i)        \* the parts run concurrently: any part may take the next step
Next == Plan \/ SingleChunk \/ CopyAnyChunk \/ Finish
PartSpec == Init /\ [][Next]_pvars /\ WF_pvars(Next)

RECURSIVE SumTo(_, _)
SumTo(f, k) == IF k < 0 THEN 0 ELSE f[k] + SumTo(f, k - 1)

PartTypeOK == /\ pc \in {"plan", "single", "parts", "done"}
              /\ \A o \in Room : dest[o] \in -1..MaxSize
\* the plan partitions [0, size): no empty part, no part larger than the part size, sizes add up, parts are contiguous
PlanOk == pc = "parts" =>
            /\ nparts >= 2
            /\ \A i \in Parts : ThisPartSize(i) \in 1..ps
            /\ SumTo([i \in Parts |-> ThisPartSize(i)], nparts - 1) = size
            /\ \A i \in Parts : dpos[i] + rem[i] = (IF i = nparts - 1 THEN size ELSE (i + 1) * ps)
\* a byte is only ever stored at its own offset, and never outside [0, size)
Faithful == \A o \in Room : dest[o] # -1 => (dest[o] = o /\ o < size)
\* no offset is written twice (action property)
NoRewrite == [][ \A o \in Room : dest[o] # -1 => dest'[o] = dest[o] ]_pvars
WriteOnce == [][ /\ (pc = "single" /\ pc' = "single") => Clean(spos, Lo(buf, size - spos))
                 /\ \A i \in Parts : (pc = "parts" /\ rem'[i] # rem[i]) => Clean(dpos[i], ChunkLen(i)) ]_pvars
\* at the end the destination is byte-identical to the source
Complete == pc = "done" => \A o \in Room : dest[o] = (IF o < size THEN o ELSE -1)
PartsTerminate == <>(pc = "done")
\* reachability companions (expected to be violated)
NeverMultiDone == ~(pc = "done" /\ nparts >= 3)
NeverShortLast == ~(pc = "parts" /\ size % ps # 0)
=============================================================================
