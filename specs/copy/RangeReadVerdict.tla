---- MODULE RangeReadVerdict ----
(* Computes the B3 verdict on the recorded outcomes (ASSUME, constant evaluation); the check runs this module with
   HeaderBug = "plus" and expects TLC to report ProtocolOk violated (falsifiability of the protocol property). *)
EXTENDS RangeRead
ASSUME Verdict(TRUE)
====
