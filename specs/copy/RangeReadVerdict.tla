---- MODULE RangeReadVerdict ----
EXTENDS RangeRead
ASSUME Verdict
====
